"""C01 Interpreter follows the W3C SCXML step algorithm on every chart (DESIGN.md section 6, C01).

I = the real interpreter (default engine), M = Model.Large (the Lean model of the code),
S = Spec.W3C (Appendix D). Every input must satisfy I = M (full monitor alphabet) and
abs(M) = S, except inputs in a listed known-finding class, where abs(M) must equal the
specification with exactly the documented quirks switched on.
"""
import os, glob
from uvlib import BrokenTie, VERIF
from checks import enginelib as E
from checks.enginelib import charts, shrink

THEOREMS = [
    ("UscxmlVerif.Properties.C01.selection_conflict_free_w3c_of_document", "proved", "PARTIAL (pre-emption), with no hypothesis left about the chart: for EVERY well-formed document (root <scxml>, only scxml/state/parallel elements have state-like children, no scxml child), every configuration of real states, every event and every outcome of the conditions, the transitions of real states with real targets that LargeMicroStep selects have pairwise disjoint Appendix D exit sets"),
    ("UscxmlVerif.Properties.C01.exit_set_is_appendix_d_of_document", "proved", "PARTIAL (exit set): for every well-formed document, every configuration of real states, event and condition outcome, the set of states LargeMicroStep is going to exit equals Appendix D's computeExitSet of the transitions it selected (transitions of real states with real targets); the order of exiting and the handlers are not covered"),
    ("UscxmlVerif.Proofs.Subtree.intervalOK_flatten", "proved", "pre-order numbering of flatten: in the flat chart of every well-formed document the descendants of a proper state are exactly the interval after it up to what nextStateAfter finds (resortStates puts the pseudo-states first, so the next proper sibling is the next sibling)"),
    ("UscxmlVerif.Proofs.Subtree.desc_interval", "proved", "a state is a descendant of j iff its number lies in j's block (j, j + size of j's subtree)"),
    ("UscxmlVerif.Proofs.Flatten.coherent_flatten", "proved", "flatten of a well-formed document is coherent"),
    ("UscxmlVerif.Properties.C01.selection_conflict_free_w3c", "proved", "PARTIAL (pre-emption, in Appendix D's terms): on every coherent chart numbered in pre-order (decidable hypotheses, evaluated on the generated charts: suite theorem-hypotheses), any two distinct transitions of real states with real targets that LargeMicroStep selects have disjoint exit sets (Appendix D computeExitSet) in every configuration of real states - the selected set is conflict-free as removeConflictingTransitions demands"),
    ("UscxmlVerif.Proofs.Interval.large_domain_eq", "proved", "the engine's transition domain (LargeMicroStep::getTransitionDomain as modelled) is Predicates.cpp's and Appendix D's on coherent charts"),
    ("UscxmlVerif.Proofs.Interval.disjoint_of_not_overlaps", "proved", "exit intervals that do not overlap are disjoint Appendix D exit sets"),
    ("UscxmlVerif.Properties.C01.selection_conflict_free_partial", "proved", "PARTIAL (pre-emption only): for every chart, configuration, event and condition outcome the set of transitions LargeMicroStep selects holds no two distinct transitions with overlapping exit-set intervals. That the step as a whole is Appendix D's is decided by exploration (I = M = S on generated charts)"),
]
FINISH = {"level": "exploration"}   # the refinement Large ⊑ Appendix D is not proved
LEAN_FILES = ["UscxmlVerif.Properties.C01", "UscxmlVerif.Proofs.Select", "UscxmlVerif.Proofs.Interval", "UscxmlVerif.Proofs.Struct", "UscxmlVerif.Proofs.Flatten", "UscxmlVerif.Proofs.Subtree", "UscxmlVerif.Proofs.ExitSet"]
SUITE = "trace-large"


def strip_div(tokens):
    if "DIVERGE" in tokens:
        return tokens[:tokens.index("DIVERGE")], True
    return tokens, False


def conforms(m_abs, s):
    """abs(M) = S, or - when a run was cut off by the step cap - one is a prefix of the other"""
    a, da = strip_div(m_abs); b, db = strip_div(s)
    if not da and not db: return a == b
    k = min(len(a), len(b))
    return a[:k] == b[:k]


def explained(ha, s, sq):
    """the first deviation of the interpreter from S happens in a macrostep in which it follows the
    specification-with-quirks Sq exactly; what comes after an explained deviation is tainted by
    the known defect (the configuration may already be illegal) and is not judged"""
    if conforms(ha, sq): return True
    a, _ = strip_div(ha); b, _ = strip_div(s); q, _ = strip_div(sq)
    k = E.first_diff(a, b)
    j = k
    while j < len(a) and not a[j].startswith("cfg:"): j += 1
    return k < len(a) and a[:j + 1] == q[:j + 1]


def classify(d):
    cls = []
    if charts.has_history_target(d): cls.append("hist-domain")
    if charts.has_nested_history(d): cls.append("hist-shared")
    return cls


def run_cases(ctx, suite, cases, dm="null", nvars=0):
    """cases: list of (Node, events). Returns stats; reports violations / known findings."""
    lines = [E.case_line("large", d, e, dm, nvars) for d, e in cases]
    H, M = E.run_batches(ctx, lines)
    _, S = E.run_batches(ctx, [E.case_line("spec", d, e, dm, nvars) for d, e in cases], want_harness=False)
    need_q = [i for i in range(len(cases)) if not conforms(E.abs_trace(M[i].split(" ")), S[i].split(" "))]
    SQ = {}
    if need_q:
        _, sq = E.run_batches(ctx, [E.case_line("specq", *cases[i], dm) for i in need_q], want_harness=False)
        SQ = dict(zip(need_q, sq))
    st = dict(inputs=len(cases), agree=0, diverging=0, i_ne_m=0, m_ne_s=0, known=0, crashes=0,
              tokens=0, microsteps=0, events=0)
    broken = []
    for i, (d, evs) in enumerate(cases):
        h, m, s = H[i].split(" "), M[i].split(" "), S[i].split(" ")
        st["tokens"] += len(h); st["microsteps"] += h.count("bm"); st["events"] += sum(1 for t in h if t.startswith("bpe:"))
        if "DIVERGE" in h or "DIVERGE" in s: st["diverging"] += 1
        if any(t.startswith(("CRASH", "EXC", "EXIT")) for t in h): st["crashes"] += 1
        ok_im = H[i] == M[i]
        ha = E.abs_trace(h)
        ok_hs = conforms(ha, s)
        if ok_im and ok_hs:
            st["agree"] += 1
            continue
        cls = classify(d)
        known = (not ok_hs) and ("hist-shared" in cls or (cls and i in SQ and explained(ha, s, SQ[i].split(" "))))
        if not ok_im: st["i_ne_m"] += 1
        if not ok_hs: st["m_ne_s"] += 1
        if ok_im and known:
            st["known"] += 1
            ctx.known("hist-shared" if "hist-shared" in cls else "hist-domain", "")
            continue
        if not ok_hs and not known:
            report(ctx, suite, d, evs, dm, "interpreter deviates from Appendix D" + ("" if ok_im else " (and from the model of the code)"))
        else:
            broken.append((d, evs))
    for k, v in st.items():
        ctx.coverage.setdefault("suites", {}).setdefault(suite, {}).setdefault(k, 0)
        ctx.coverage["suites"][suite][k] += v
    return st, broken


def one(ctx, d, evs, dm):
    H, M = E.run_batches(ctx, [E.case_line("large", d, evs, dm)], nproc=1)
    _, S = E.run_batches(ctx, [E.case_line("spec", d, evs, dm)], want_harness=False, nproc=1)
    _, Q = E.run_batches(ctx, [E.case_line("specq", d, evs, dm)], want_harness=False, nproc=1)
    return H[0], M[0], S[0], Q[0]


def fails_spec(ctx, d, evs, dm):
    h, m, s, q = one(ctx, d, evs, dm)
    ha = E.abs_trace(h.split(" "))
    if conforms(ha, s.split(" ")): return False
    cls = classify(d)
    return not ("hist-shared" in cls or (cls and explained(ha, s.split(" "), q.split(" "))))


def report(ctx, suite, d, evs, dm, what):
    if len(ctx.violations) >= 3: return
    try:
        d2, e2 = shrink.shrink(d, evs, lambda a, b: fails_spec(ctx, a, b, dm), max_rounds=25)
    except Exception:
        d2, e2 = d, evs
    h, m, s, q = one(ctx, d2, e2, dm)
    ha, sa = E.abs_trace(h.split(" ")), s.split(" ")
    k = E.first_diff(ha, sa)
    detail = "%s\nchart: %s\nevents: %s\ncommon prefix: %s\ninterpreter: %s\nAppendix D : %s\nI = M: %s" % (
        what, charts.sexpr(d2), e2, " ".join(ha[max(0, k - 10):k]), " ".join(ha[k:k + 14]), " ".join(sa[k:k + 14]), h == m)
    ctx.violation("%s-%d" % (suite, len(ctx.violations)), suite, [E.case_line("large", d2, e2, dm)], detail=detail)


def load_corpus(prop):
    cases = []
    for f in sorted(glob.glob(os.path.join(VERIF, "corpus", prop, "*.txt"))):
        for line in open(f):
            line = line.rstrip("\n")
            if not line or line.startswith("#"): continue
            sx, evs = line.split("\t")[:2]
            cases.append((charts.from_sexpr(sx), [] if evs == "-" else evs.split(",")))
    return cases


def run(ctx):
    ctx.setup()
    ctx.audit(THEOREMS, LEAN_FILES)
    quick = ctx.tier == "quick"
    broken = []
    corpus = load_corpus("C01")
    if corpus:
        st, br = run_cases(ctx, "corpus", corpus); broken += br
    ex = E.exhaustive_cases(ctx.tier)
    for part in E.chunks(ex, 20000):
        st, br = run_cases(ctx, "exhaustive", part); broken += br
    ctx.coverage["exhaustive"] = True
    n = 3000 if quick else 24000
    for part in range(0, n, 3000):
        cases = E.gen_cases(ctx.rng, min(3000, n - part))
        st, br = run_cases(ctx, "random", cases); broken += br
        if part == 0:
            d, e = cases[0]
            ctx.sample({"suite": "random", "chart": charts.sexpr(d)[:600], "events": e})
    # the same algorithm with a scripting datamodel: variables, assignments, conditions on data
    cases = E.gen_cases(ctx.rng, 1000 if quick else 8000, nvars=2, dm="lua")
    st, br = run_cases(ctx, "random-lua", cases, dm="lua", nvars=2); broken += br
    E.hypotheses(ctx, "theorem-hypotheses", [d for d, _ in cases] + [d for d, _ in ex[:3000]])
    if broken and not ctx.violations:
        d, evs = broken[0]
        ctx.violation("correspondence", SUITE, [E.case_line("large", d, evs)], found_input=False,
                      detail="correspondence %s broken on %d inputs (interpreter and Model.Large differ) but the interpreter still conforms to Appendix D on all of them; first: %s %s" % (SUITE, len(broken), charts.sexpr(d), evs))
    tot = {}
    for name, s in ctx.coverage["suites"].items():
        if name == "theorem-hypotheses": continue
        for k, v in s.items(): tot[k] = tot.get(k, 0) + v
    ctx.coverage["evaluations"] = tot.get("inputs", 0)
    ctx.coverage["distinct_nontrivial"] = tot.get("inputs", 0) - tot.get("diverging", 0)
    ctx.coverage["rule"] = "EXHAUSTIVE: every chart with <= 4 states and <= 2 transitions on one event, every 5-state chart with a >= 2-region parallel and two transitions (thorough: every chart with <= 5 states / 2 transitions and <= 6 states / 1 transition); plus seeded random charts (3-14 states; parallel/history/initial/final, internal/targetless/multi-target/eventless transitions, raise/send/log/if/failing elements) x 0-5 external events, null datamodel, plus the corpus of past witnesses; non-trivial = run reaches quiescence within the step cap (diverging runs are compared as prefixes)"
    ctx.assumptions += ["datamodel plug-ins other than null are exercised by C16/C17 and the lua suite", "Xerces parsing trusted"]


def replay(ctx, path):
    ctx.setup()
    for line in open(path):
        if "\t" not in line or line.startswith(("#", "property=")): continue
        f = line.rstrip("\n").split("\t")
        d = charts.from_sexpr(f[1]); evs = [] if f[2] == "-" else f[2].split(",")
        h, m, s, q = one(ctx, d, evs, "null")
        print("chart:", f[1]); print("events:", evs)
        print("I  :", " ".join(E.abs_trace(h.split(" "))))
        print("M  :", " ".join(E.abs_trace(m.split(" "))))
        print("S  :", s)
        print("I=M (full alphabet):", h == m, " abs(I)=S:", conforms(E.abs_trace(h.split(" ")), s.split(" ")))
    return 0
