"""C10 Interpreter life-cycle is well defined and always terminates (DESIGN.md section 6, C10).

Theorems (Properties/C10.lean) are about Model.Api (step/receive/cancel/reset/destroy over both
micro-stepper models): results of step follow the life-cycle automaton for every chart and every
operation sequence, FINISHED is absorbing, CANCELLED is followed by exactly one finalising step that
runs every active state's exit handlers once, reset = fresh. Suites:

  api-ops      I = M on random charts x random operation sequences (step, run to quiescence,
               receive, cancel, reset, destroy+recreate, getState - in every life-cycle state,
               also before the first step), null and lua datamodels, both engines, ASan+UBSan
  lifecycle    the automaton of the theorem, evaluated on the real traces (independent of M)
  teardown     destruction/reset/cancel with the timer thread's schedule forced through the
               USCXML_VERIF hooks (lost wake-up window, stop before break, timer delivery
               window), delayed sends pending: every request must end within the watchdog
"""
from uvlib import BrokenTie, hexs
from checks import enginelib as E
from checks.enginelib import charts, shrink

P = "UscxmlVerif.Properties.C10."
THEOREMS = [
    (P + "step_results_follow_lifecycle", "proved", "for EVERY chart, engine and sequence of step / run-to-quiescence / receive / cancel / reset / destroy / getState operations: the results of step since instantiation or the last reset are accepted by the life-cycle automaton (INITIALIZED once; then MICROSTEPPED/MACROSTEPPED/IDLE; CANCELLED only followed by FINISHED; after FINISHED only FINISHED)"),
    (P + "finished_is_absorbing", "proved", "once step returned FINISHED every later step returns FINISHED and leaves the whole interpreter state (observations included) unchanged"),
    (P + "cancelled_then_finalised", "proved", "the step after CANCELLED returns FINISHED and adds exactly: beforeCompletion, the onexit blocks of every active state in reverse document order (each once), afterCompletion"),
    (P + "cancel_when_idle", "proved", "from a quiescent interpreter cancel() makes the next step return CANCELLED and the one after FINISHED"),
    (P + "reset_is_fresh", "proved", "for all operation sequences ops1, ops2: the interpreter state after ops1; reset; ops2 equals the state after ops2 on a fresh interpreter, and what is observed after the reset is what ops2 alone produces"),
    (P + "reset_equals_recreate", "proved", "reset() and destroy+recreate are interchangeable"),
]
LEAN_FILES = ["UscxmlVerif.Properties.C10"]
BADTOK = ("CRASH", "EXIT", "EXC", "bad-op")


def gen_ops(r, n=None):
    ops = []
    for _ in range(n or r.randint(1, 14)):
        x = r.random()
        if x < 0.28: ops.append("s")
        elif x < 0.48: ops.append("q")
        elif x < 0.74: ops.append("e:" + r.choice(["e", "f", "g"]))
        elif x < 0.82: ops.append("c")
        elif x < 0.90: ops.append("r")
        elif x < 0.94: ops.append("d")
        else: ops.append("g")
    return ops


def api_line(eng, d, ops, dm="null", nv=0, hooks=None):
    l = "%s\t%s\t%s\t%s" % (eng, charts.sexpr(d), ",".join(ops) or "-", hexs(charts.xml(d, dm, nv)))
    return l + ("\t" + hooks if hooks else "")


def run_api(ctx, lines, want_driver=True, variant="asan"):
    from concurrent.futures import ThreadPoolExecutor
    from uvlib import chunks
    parts = list(chunks(lines, max(1, (len(lines) + 15) // 16)))
    def work(part):
        rc, h, err = ctx.harness_lines("api", part, variant=variant, timeout=3600)
        if rc != 0 or len(h) != len(part): raise BrokenTie("harness", "uvharness api rc=%s %d/%d %s" % (rc, len(h), len(part), err[-300:]))
        d = ctx.driver_lines("api", ["\t".join(l.split("\t")[:3]) for l in part], timeout=3600) if want_driver else None
        return h, d
    with ThreadPoolExecutor(16) as ex: res = list(ex.map(work, parts))
    return [x for h, _ in res for x in h], ([x for _, d in res for x in d] if want_driver else None)


NEXT = {("inst", "INITIALIZED"): "run", ("run", "MICROSTEPPED"): "run", ("run", "MACROSTEPPED"): "run", ("run", "IDLE"): "run",
        ("run", "CANCELLED"): "canc", ("run", "FINISHED"): "fin", ("canc", "FINISHED"): "fin", ("fin", "FINISHED"): "fin"}


def lifecycle_ok(toks):
    """the automaton of `step_results_follow_lifecycle` on the real trace; returns index of the offending token or None"""
    ph = "inst"
    for i, t in enumerate(toks):
        if t in ("reset", "destroyed"): ph = "inst"
        elif t.startswith("ret:"):
            ph = NEXT.get((ph, t[4:]))
            if ph is None: return i
    return None


def suite_api(ctx, dm, n):
    rng = ctx.rng
    nv = 0 if dm == "null" else 2
    st = dict(inputs=0, agree=0, lifecycle_ok=0, with_cancel=0, with_reset=0, pre_init_ops=0, finished=0, violations=0, ops=0)
    cases = []
    for _ in range(n):
        g = charts.Gen(rng, max_states=rng.choice([3, 5, 8]), p_final=0.5, p_exec=0.6, p_fail=0.1, dm=dm, nvars=nv)
        cases.append((g.chart(), gen_ops(rng)))
    for eng in ("large", "fast"):
        lines = [api_line(eng, d, ops, dm, nv) for d, ops in cases]
        H, M = run_api(ctx, lines)
        for (d, ops), l, h, m in zip(cases, lines, H, M):
            st["inputs"] += 1; st["ops"] += len(ops)
            th = h.split(" ")
            if "c" in ops: st["with_cancel"] += 1
            if "r" in ops or "d" in ops: st["with_reset"] += 1
            if ops and ops[0] != "s" and ops[0] != "q": st["pre_init_ops"] += 1
            if "ret:FINISHED" in th: st["finished"] += 1
            lc = lifecycle_ok(th)
            bad = [t for t in th if t.startswith(BADTOK)]
            if lc is None: st["lifecycle_ok"] += 1
            if h == m and lc is None and not bad:
                st["agree"] += 1
                continue
            st["violations"] += 1
            if len(ctx.violations) < 4:
                why = ("abnormal outcome %s" % bad[0]) if bad else ("results of step() leave the life-cycle at token %d (%s)" % (lc, " ".join(th[max(0, lc - 4):lc + 1]))) if lc is not None else \
                      "interpreter and model differ at token %d: I %s / M %s" % (E.first_diff(th, m.split(" ")), " ".join(th[E.first_diff(th, m.split(" ")) - 3:][:7]), " ".join(m.split(" ")[E.first_diff(th, m.split(" ")) - 3:][:7]))
                def pred(d2, o2):
                    h2, m2 = run_api(ctx, [api_line(eng, d2, o2, dm, nv)])
                    t2 = h2[0].split(" ")
                    if bad: return any(t.startswith(BADTOK) for t in t2)
                    if lc is not None: return lifecycle_ok(t2) is not None
                    return h2[0] != m2[0] and not any(t.startswith(BADTOK) for t in t2)
                try:
                    d2, o2 = shrink.shrink(d, ops, pred, max_rounds=20)
                except Exception:
                    d2, o2 = d, ops
                ctx.violation("api-%s-%d" % (dm, len(ctx.violations)), "api-ops", [api_line(eng, d2, o2, dm, nv)],
                              detail="engine %s, datamodel %s, operations %s: %s\nchart: %s" % (eng, dm, ",".join(o2), why, charts.sexpr(d2)))
    ctx.add_suite("api-ops-" + dm, **st)
    ctx.sample({"suite": "api-ops-" + dm, "chart": charts.sexpr(cases[0][0])[:400], "ops": cases[0][1]})
    return st


DELAY_DOC = ('<scxml xmlns="http://www.w3.org/2005/07/scxml" version="1.0" datamodel="null"><state id="a">'
             '<onentry><send event="t1" delay="%dms" id="x1"/><send event="t2" delay="%dms"/><send event="t3" delay="5000ms"/></onentry>'
             '<onexit><log label="exa"/></onexit><transition event="t1" target="b"/><transition event="e" target="b"/></state>'
             '<state id="b"><onentry><send event="t4" delay="%dms"/>%s</onentry><onexit><log label="exb"/></onexit><transition event="t4" target="z"/></state><final id="z"/></scxml>')


def suite_teardown(ctx, n):
    rng = ctx.rng
    lines, meta = [], []
    points = ["delayq.run.before_loop", "delayq.stop.before_break", "delayq.timer.entry", "delayq.timer.before_deliver", "delayq.timer.after_deliver"]
    for _ in range(n):
        doc = DELAY_DOC % (rng.choice([1, 5, 20, 60]), rng.choice([1, 10, 40]), rng.choice([1, 10, 50]), rng.choice(["", '<cancel sendid="x1"/>']))
        ops = []
        for _ in range(rng.randint(1, 8)):
            x = rng.random()
            if x < 0.3: ops.append("s")
            elif x < 0.45: ops.append("q")
            elif x < 0.6: ops.append("w:%d" % rng.choice([1, 5, 15, 30, 70]))
            elif x < 0.68: ops.append("e:e")
            elif x < 0.76: ops.append("c")
            elif x < 0.86: ops.append("r")
            elif x < 0.93: ops.append("d")
            else: ops.append("b:%d" % rng.choice([5, 30]))
        hooks = ",".join("%s=%d:%d" % (p, rng.choice([5, 30, 120]), rng.choice([1, 2, 5])) for p in rng.sample(points, rng.randint(0, 3))) or "-"
        for eng in ("large", "fast"):
            lines.append("%s\t-\t%s\t%s\t%s" % (eng, ",".join(ops), hexs(doc), hooks)); meta.append((ops, hooks, doc))
    H, _ = run_api(ctx, lines, want_driver=False)
    st = dict(inputs=len(lines), completed=0, with_hooks=sum(1 for m in meta if m[1] != "-"), violations=0)
    for l, h, (ops, hooks, doc) in zip(lines, H, meta):
        th = h.split(" ")
        bad = [t for t in th if t.startswith(BADTOK)]
        lc = lifecycle_ok(th)
        if not bad and th[-1] == "end" and lc is None:
            st["completed"] += 1
            continue
        st["violations"] += 1
        if len(ctx.violations) < 4:
            why = "did not return within the 20 s watchdog (hang in destruction / reset / step)" if "CRASH:14" in bad else \
                  ("abnormal outcome %s" % bad[0]) if bad else "life-cycle left at token %s" % lc
            ctx.violation("teardown-%d" % len(ctx.violations), "teardown", [l],
                          detail="operations %s with schedule hooks %s: %s\ntrace tail: %s\ndocument: %s" % (",".join(ops), hooks, why, " ".join(th[-10:]), doc))
    ctx.add_suite("teardown", **st)


def suite_reset_window(ctx, n):
    """reset() while a timer callback of the previous run sits between its ownership check and the delivery (held there by a schedule
    hook): the queue's cancel does not find that event any more; a reset interpreter behaves like a fresh one, so it must not arrive
    in the next run either. Judged on the second run alone: every delayed event of the document is processed exactly once."""
    rng = ctx.rng
    lines, meta = [], []
    for _ in range(n):
        k = rng.randint(1, 3)
        delays = sorted(rng.sample([20, 30, 40, 50], k))
        hold = rng.choice([60, 80])
        doc = ('<scxml xmlns="http://www.w3.org/2005/07/scxml" version="1.0" datamodel="null"><state id="s"><onentry>%s</onentry></state></scxml>'
               % "".join('<send event="d%d" delay="%dms" id="id%d" uvid="%d"/>' % (i, d, i, 100 + i) for i, d in enumerate(delays)))
        # block until the first timer is in its window (due + a few ms; it stays there for `hold` ms), then reset
        ops = ["T", "q", "b:%d" % (delays[0] + rng.choice([8, 15, 25])), "q", "r", "q"] + ["b:40", "q"] * (4 + (max(delays) + k * hold) // 40) + ["w:60", "q"]
        hooks = "delayq.timer.before_deliver=%d" % hold
        for eng in ("large", "fast"):
            lines.append("%s\t-\t%s\t%s\t%s" % (eng, ",".join(ops), hexs(doc), hooks)); meta.append((ops, hooks, doc, k))
    H, _ = run_api(ctx, lines, want_driver=False)
    st = dict(inputs=len(lines), as_fresh=0, reset_in_window=0, violations=0)
    for l, h, (ops, hooks, doc, k) in zip(lines, H, meta):
        th = h.split(" ")
        bad = [t for t in th if t.startswith(BADTOK)]
        why = None
        if bad or th[-1] != "end" or "reset" not in th: why = "abnormal outcome %s" % (bad or th[-3:])
        else:
            r = th.index("reset")
            if not any(t.startswith("bpe:d") for t in th[:r]): st["reset_in_window"] += 1      # nothing had been handed over when reset() ran
            for i in range(k):
                c = th[r:].count("bpe:d%d" % i)
                if c != 1: why = "after reset() the event d%d was processed %d times (a fresh interpreter: once)" % (i, c)
        if why is None:
            st["as_fresh"] += 1; continue
        st["violations"] += 1
        if len(ctx.violations) < 4:
            ctx.violation("resetwin-%d" % len(ctx.violations), "reset-in-window", [l],
                          detail="operations %s with schedule hook %s: %s\ntrace: %s\ndocument: %s" % (",".join(ops), hooks, why, " ".join(t for t in th if not t.startswith(("cfg:", "ret:")))[:1200], doc))
    ctx.add_suite("reset-in-window", **st)


def run(ctx):
    ctx.setup(variants=("asan",))
    ctx.audit(THEOREMS, LEAN_FILES)
    quick = ctx.tier == "quick"
    tot = 0
    for dm, n in (("null", 1200 if quick else 30000), ("lua", 500 if quick else 12000)):
        st = suite_api(ctx, dm, n)
        tot += st["inputs"]
    suite_teardown(ctx, 150 if quick else 3000)
    tot += ctx.coverage["suites"]["teardown"]["inputs"]
    suite_reset_window(ctx, 20 if quick else 400)
    tot += ctx.coverage["suites"]["reset-in-window"]["inputs"]
    # the finalising step after cancel() / a top-level final state: every <onexit> block of every remaining state runs once, a failing
    # block does not take the later ones with it (cancelled_then_finalised; the family is shared with C07)
    from checks import c07
    tot += c07.suite_completion(ctx, 100 if quick else 3000)["inputs"]
    ctx.coverage["evaluations"] = tot
    ctx.coverage["distinct_nontrivial"] = sum(ctx.coverage["suites"][s]["with_cancel"] + ctx.coverage["suites"][s]["with_reset"] for s in ("api-ops-null", "api-ops-lua"))
    ctx.coverage["rule"] = ("random charts (3-8 states, top-level finals with p=0.5, exit handlers) x random sequences of 1-14 API operations "
                            "(step 28%, run-to-quiescence 20%, receive 26%, cancel 8%, reset 8%, destroy+recreate 4%, getState 6%) starting from the freshly instantiated interpreter, "
                            "both engines, null and lua datamodels, ASan+UBSan build; non-trivial = sequence contains cancel or reset/destroy; "
                            "plus documents with pending delayed sends torn down under forced schedules of the timer thread (USCXML_VERIF hooks)")
    ctx.assumptions += ["calls from other threads and blocking step() are exercised by the thread suites of C08 (TSan), not by this check's model",
                        "a datamodel's globals that no <data> element declares survive reset() (the datamodel object is kept): outside the generated fragment",
                        "bounded-time claims are watchdog observations (20 s), not proofs"]


def replay(ctx, path):
    ctx.setup(variants=("asan",))
    for line in open(path):
        if "\t" not in line or line.startswith(("#", "property=")): continue
        l = line.rstrip("\n")
        h, _ = run_api(ctx, [l], want_driver=False)
        print("ops:", l.split("\t")[2]); print("I:", h[0][:3000])
        if l.split("\t")[1] != "-":
            print("M:", ctx.driver_lines("api", ["\t".join(l.split("\t")[:3])])[0][:3000])
    return 0
