"""C07 Errors become error events, never crashes (DESIGN.md section 6, C07).

Theorems (Properties/C07.lean) are about Model.exec/execIf/execBlock/execBlocks: a failing
element leaves an error event in the internal queue behind everything queued before, exactly the
remainder of its block is skipped, the next block runs. The suites tie that model to the
sanitizer build of the interpreter and explore what the model cannot exhibit (abnormal
termination, out-of-bounds accesses):

  forms      every concrete guise of "failing element"/"failing condition" used by the generator
             is re-validated against the real interpreter (one event, block aborted / cond false)
  inject-*   I = M on random charts with failing elements (p=0.3 per element) and failing
             conditions at random positions of onentry/onexit/transition blocks and nested <if>,
             null/lua/promela datamodels, both engines, ASan+UBSan build
  inject-other  failing data initialisation, donedata and script children: counted oracle
  soup-*     arbitrary well-formed XML over the SCXML vocabulary with garbage expressions:
             the interpreter rejects the document when loading it or runs it; no signal, no
             sanitizer report, no exception after the first step
"""
import random
from concurrent.futures import ThreadPoolExecutor
from uvlib import BrokenTie, hexs, chunks
from checks import enginelib as E
from checks.enginelib import charts, shrink
import xmlshrink

P = "UscxmlVerif.Properties.C07."
THEOREMS = [
    (P + "failing_element_reports", "proved", "for EVERY element, chart, configuration and executor state: if executing the element fails, the internal queue afterwards is the queue before plus new events, one of which is error.execution or error.communication"),
    (P + "block_skips_exactly_the_remainder", "proved", "for EVERY block pre ++ e :: post whose prefix succeeds and whose element e fails: the block's effect is that of pre followed by e; post has no effect whatever it contains"),
    (P + "block_without_failure_runs_all", "proved", "a block in which no element fails is executed to its end"),
    (P + "aborted_block_reports", "proved", "after an aborted block an error event is in the internal queue, behind everything queued before"),
    (P + "next_block_runs", "proved", "the blocks following an aborted block are executed from the state it left (the interpreter keeps running)"),
    (P + "execBlocks_extends", "proved", "executing content never drops or reorders queued internal events: no error event is lost"),
    (P + "cond_error_is_event", "proved", "a condition whose evaluation fails yields false and exactly one error.execution"),
    (P + "fail_element", "proved", "the primitive failing elements enqueue exactly error.execution resp. error.communication"),
]
LEAN_FILES = ["UscxmlVerif.Properties.C07"]
BADTOK = ("CRASH", "EXIT", "EXC")


def bad_token(toks):
    for i, t in enumerate(toks):
        if t.startswith(BADTOK): return i, t
    return None


def raw_line(engine, xml, evs):
    return "%s\t-\t%s\t%s" % (engine, ",".join(evs) or "-", hexs(xml))


def run_raw(ctx, lines, variant="asan"):
    H, _ = E.run_batches(ctx, lines, want_driver=False, variant=variant)
    return H


# ------------------------------------------------------------------ suite: forms
def form_doc(dm, body):
    init = '<datamodel><data id="Var0" expr="0"/></datamodel>' if dm != "null" else ""
    return ('<scxml xmlns="http://www.w3.org/2005/07/scxml" version="1.0" datamodel="%s">%s<state id="s"><onentry>'
            '<raise event="a" uvid="1"/>%s<raise event="b" uvid="2"/></onentry><onentry><raise event="c" uvid="3"/></onentry>'
            '</state></scxml>' % (dm, init, body))


def keep(toks):
    return [t for t in toks if t.startswith(("bc:", "bpe:") + BADTOK)]


def suite_forms(ctx):
    lines, want, what = [], [], []
    for dm in ("null", "lua", "promela"):
        for kind, ev in (("exec", "error.execution"), ("comm", "error.communication")):
            for f in charts.FAIL_FORMS[dm][kind]:
                for eng in ("large", "fast"):
                    lines.append(raw_line(eng, form_doc(dm, f.replace("{uv}", "7")), []))
                    want.append(["bc:1", "bc:7", "bc:3", "bpe:a", "bpe:" + ev, "bpe:c"]); what.append((dm, f))
        for c in charts.COND_ERR.get(dm, []):
            body = '<if cond="%s" uvid="7"><raise event="inner" uvid="8"/></if>' % charts.esc(c)
            for eng in ("large", "fast"):
                lines.append(raw_line(eng, form_doc(dm, body), []))
                want.append(["bc:1", "bc:7", "bc:2", "bc:3", "bpe:a", "bpe:error.execution", "bpe:b", "bpe:c"]); what.append((dm, "cond " + c))
    H = run_raw(ctx, lines)
    st = dict(inputs=len(lines), as_expected=0, violations=0)
    for l, h, w, (dm, f) in zip(lines, H, want, what):
        if keep(h.split(" ")) == w: st["as_expected"] += 1; continue
        st["violations"] += 1
        if len(ctx.violations) < 4:
            ctx.violation("form-%d" % len(ctx.violations), "forms", [l],
                          detail="datamodel %s, failing form %s: expected the observations %s, the interpreter produced %s" % (dm, f, " ".join(w), " ".join(keep(h.split(" ")))))
    ctx.add_suite("forms", **st)


# ------------------------------------------------------------------ suite: inject (I = M)
def suite_inject(ctx, dm, n, engines=("large", "fast")):
    rng = ctx.rng
    nv = 0 if dm == "null" else 2
    cases = E.gen_cases(rng, n, sizes=(3, 5, 8, 12), p_fail=0.3, p_exec=0.8, p_conderr=0.25 if dm != "null" else 0.0, dm=dm, nvars=nv)
    flav = [rng.randrange(1 << 20) for _ in cases]
    st = dict(inputs=0, agree=0, with_error_events=0, error_events=0, aborted_blocks=0, bad_outcome=0, i_ne_m=0, diverging=0)
    for eng in engines:
        lines = ["%s\t%s\t%s\t%s" % (eng, charts.sexpr(d), ",".join(e) or "-", hexs(charts.xml(d, dm, nv, flavor=f))) for (d, e), f in zip(cases, flav)]
        H, M = E.run_batches(ctx, lines, variant="asan")
        for i, ((d, evs), f) in enumerate(zip(cases, flav)):
            st["inputs"] += 1
            th = H[i].split(" ")
            ne = sum(1 for t in th if t.startswith("bpe:error."))
            st["error_events"] += ne
            if ne: st["with_error_events"] += 1
            if "DIVERGE" in th: st["diverging"] += 1
            b = bad_token(th)
            if b is None and H[i] == M[i]:
                st["agree"] += 1
                continue
            why = "abnormal outcome %s at token %d" % (b[1], b[0]) if b else "interpreter and model differ at token %d" % E.first_diff(th, M[i].split(" "))
            if b: st["bad_outcome"] += 1
            else: st["i_ne_m"] += 1
            if len(ctx.violations) < 4:
                def pred(d2, e2):
                    l2 = "%s\t%s\t%s\t%s" % (eng, charts.sexpr(d2), ",".join(e2) or "-", hexs(charts.xml(d2, dm, nv, flavor=f)))
                    h2, m2 = E.run_batches(ctx, [l2], nproc=1, variant="asan")
                    return (bad_token(h2[0].split(" ")) is not None) if b else (h2[0] != m2[0] and bad_token(h2[0].split(" ")) is None)
                try: d2, e2 = shrink.shrink(d, evs, pred, max_rounds=25)
                except Exception: d2, e2 = d, evs
                l2 = "%s\t%s\t%s\t%s" % (eng, charts.sexpr(d2), ",".join(e2) or "-", hexs(charts.xml(d2, dm, nv, flavor=f)))
                ctx.violation("inject-%s-%d" % (dm, len(ctx.violations)), "inject-" + dm, [l2],
                              detail="engine %s, datamodel %s: %s\nchart: %s\nevents: %s\ndocument: %s" % (eng, dm, why, charts.sexpr(d2), e2, charts.xml(d2, dm, nv, flavor=f)[:1500]))
    ctx.add_suite("inject-" + dm, **st)
    d, e = cases[0]
    ctx.sample({"suite": "inject-" + dm, "document": charts.xml(d, dm, nv, flavor=flav[0])[:700], "events": e})
    return st


# ------------------------------------------------------------------ suite: inject-other
def other_docs(rng, dm):
    """failing data initialisation, donedata, late binding, script child of scxml; returns (xml, #expected error events, min)"""
    bad = rng.choice(charts.COND_ERR[dm][:4])
    docs = []
    ndata = rng.randint(1, 3)
    data = "".join('<data id="D%d" expr="%s"/>' % (i, charts.esc(bad)) for i in range(ndata))
    for binding in ("early", "late"):
        docs.append(('<scxml xmlns="http://www.w3.org/2005/07/scxml" version="1.0" datamodel="%s" binding="%s"><datamodel><data id="Var0" expr="0"/>%s</datamodel>'
                     '<state id="s"><datamodel>%s</datamodel><onentry><raise event="a" uvid="1"/></onentry><transition event="e" target="t"/></state><state id="t"/></scxml>'
                     % (dm, binding, data, data.replace('id="D', 'id="E')), 2 * ndata, ["e"]))
    docs.append(('<scxml xmlns="http://www.w3.org/2005/07/scxml" version="1.0" datamodel="%s"><datamodel><data id="Var0" expr="0"/></datamodel>'
                 '<state id="p" initial="f"><final id="f"><donedata><param name="x" expr="%s"/></donedata></final><transition event="done.state.p" target="t"/><transition event="e" target="t"/></state><state id="t"/></scxml>'
                 % (dm, charts.esc(bad)), 1, ["e"]))
    docs.append(('<scxml xmlns="http://www.w3.org/2005/07/scxml" version="1.0" datamodel="%s"><datamodel><data id="Var0" expr="0"/></datamodel>'
                 '<state id="p" initial="f"><final id="f"><donedata><content expr="%s"/></donedata></final><transition event="e" target="t"/></state><state id="t"/></scxml>'
                 % (dm, charts.esc(bad)), 1, ["e"]))
    docs.append(('<scxml xmlns="http://www.w3.org/2005/07/scxml" version="1.0" datamodel="%s"><script>%s</script>'
                 '<state id="s"><onentry><raise event="a" uvid="1"/></onentry><transition event="e" target="t"/></state><state id="t"/></scxml>'
                 % (dm, charts.esc("this is (( not code")), 1, ["e"]))
    return docs


def suite_other(ctx, n):
    rng = ctx.rng
    lines, want = [], []
    for _ in range(n):
        for dm in ("lua", "promela"):
            for x, k, evs in other_docs(rng, dm):
                for eng in ("large", "fast"):
                    lines.append(raw_line(eng, x, evs)); want.append((k, x))
    H = run_raw(ctx, lines)
    st = dict(inputs=len(lines), as_expected=0, violations=0)
    for l, h, (k, x) in zip(lines, H, want):
        th = h.split(" ")
        ne = sum(1 for t in th if t == "bpe:error.execution")
        ok = bad_token(th) is None and ne == k and th[-1].startswith("cfg:") and "t" in th[-1][4:].split(",")
        if ok: st["as_expected"] += 1; continue
        st["violations"] += 1
        if len(ctx.violations) < 4:
            ctx.violation("other-%d" % len(ctx.violations), "inject-other", [l],
                          detail="expected %d error.execution events, none abnormal, and the chart to reach state t; got %d, trace tail: %s\ndocument: %s" % (k, ne, " ".join(th[-8:]), x))
    ctx.add_suite("inject-other", **st)


# ------------------------------------------------------------------ suite: inject-async
def async_docs(rng):
    """failures outside the interpreter thread's blocks: in <finalize> (run when the event is dequeued), at the delivery of a
    delayed <send> (on the timer thread), and Lua errors whose error object is no string. (document, ops, wanted event)"""
    docs = []
    H = '<scxml xmlns="http://www.w3.org/2005/07/scxml" version="1.0" datamodel="%s">'
    for dm in ("lua", "promela", "null"):
        pre = '<datamodel><data id="Var0" expr="0"/></datamodel>' if dm != "null" else ""
        bad = rng.choice(charts.FAIL_FORMS[dm]["exec"]).replace("{uv}", "7")
        child = (H % "null") + '<final id="f"/></scxml>'
        docs.append(((H % dm) + pre + '<state id="s"><invoke type="scxml" id="i"><content>' + child + '</content><finalize>' + bad +
                     '<log label="not-reached" uvid="8"/></finalize></invoke><transition event="done.invoke" target="t"/></state><state id="t"/></scxml>',
                     "q,w:300,q,w:300,q", "bpe:error.execution"))
    for tgt in ("#_nosuchinvoke", "#_scxml_nosuchsession", "!invalid"):
        d = rng.choice([20, 50, 90])
        docs.append(((H % "null") + '<state id="s"><onentry><send event="x" delay="%dms" target="%s" uvid="7"/></onentry>'
                     '<transition event="error.communication" target="t"/><transition event="error.execution" target="t"/></state><state id="t"/></scxml>' % (d, tgt),
                     rng.choice(["q,w:300,q,w:100,q", "q,b:400,q,b:100,q"]), "bpe:error."))
    # <data src> that cannot be fetched: early binding (fails in the first step) and late binding (in a state entered later)
    for dm in ("lua", "promela"):
        src = rng.choice(["file:///nonexistent/uv-data.json", "file:///verif/no/such/file.txt", "http://127.0.0.1:1/none"])
        docs.append(((H % dm) + '<datamodel><data id="Var0" expr="0"/><data id="D1" src="%s"/><data id="Var1" expr="0"/></datamodel>'
                     '<state id="s"><transition event="error" target="t"/></state><state id="t"/></scxml>' % src, "q,w:50,q", "bpe:error."))
        docs.append((H.replace(">", ' binding="late">') % dm + '<datamodel><data id="Var0" expr="0"/></datamodel><state id="s"><transition event="go" target="u"/></state>'
                     '<state id="u"><datamodel><data id="D1" src="%s"/><data id="Var1" expr="0"/></datamodel><transition event="error" target="t"/></state><state id="t"/></scxml>' % src,
                     "q,e:go,q,w:50,q", "bpe:error."))
    for obj in ("{code = 1}", "nil", "42", "setmetatable({}, {__tostring = function() return 'x' end})", "function() end", "true"):
        docs.append(((H % "lua") + '<state id="s"><onentry><script uvid="7">error(%s)</script><raise event="after" uvid="8"/></onentry>'
                     '<transition event="error.execution" target="t"/></state><state id="t"/></scxml>' % charts.esc(obj), "q", "bpe:error.execution"))
    return docs


def suite_async(ctx, n):
    rng = ctx.rng
    lines, want = [], []
    for _ in range(n):
        for x, ops, ev in async_docs(rng):
            for eng in ("large", "fast"):
                lines.append("%s\t-\t%s\t%s" % (eng, ops, hexs(x))); want.append((ev, x))
    parts = list(chunks(lines, max(1, (len(lines) + 7) // 8)))
    def work(part):
        rc, h, err = ctx.harness_lines("api", part, variant="asan", timeout=1800)
        if rc != 0 or len(h) != len(part): raise BrokenTie("harness", "uvharness api rc=%s" % rc)
        return h
    with ThreadPoolExecutor(8) as ex: H = [y for part in ex.map(work, parts) for y in part]
    st = dict(inputs=len(lines), as_expected=0, violations=0)
    for l, h, (ev, x) in zip(lines, H, want):
        th = h.split(" ")
        cfgs = [t for t in th if t.startswith("cfg:")]
        ok = bad_token(th) is None and th[-1] == "end" and any(t.startswith(ev) for t in th) and cfgs and "t" in cfgs[-1][4:].split(",") and "log:not-reached" not in th
        if ok: st["as_expected"] += 1; continue
        st["violations"] += 1
        if len(ctx.violations) < 4:
            ctx.violation("async-%d" % len(ctx.violations), "inject-async", [l],
                          detail="expected the failure to become an %s* event, nothing abnormal, and the chart to reach state t; trace tail: %s\ndocument: %s" % (ev[4:], " ".join(th[-10:]), x))
    ctx.add_suite("inject-async", **st)


# ------------------------------------------------------------------ suite: soup
TAGS = ["state", "parallel", "final", "history", "initial", "transition", "onentry", "onexit", "raise", "if", "elseif", "else",
        "send", "log", "assign", "datamodel", "data", "donedata", "param", "content", "invoke", "finalize", "foreach", "script", "cancel", "scxml"]
ATTRS = ["id", "initial", "target", "event", "cond", "type", "expr", "location", "name", "array", "item", "index", "src", "delay", "sendid",
         "namelist", "eventexpr", "targetexpr", "typeexpr", "delayexpr", "idlocation", "sendidexpr", "srcexpr", "autoforward", "label", "binding"]
VALS = ["s1", "s2", "s1 s2", "", "nosuch", "e", "In('s1')", "deep", "shallow", "internal", "1", "x", "foo.bar", "#_internal", "#_parent", "#_scxml_x",
        "Var0", "Var0 + 1", "7 / 0", "7 % 0", "nosuchfunction()", "1 +* (", "_event", "_event.data.x", "_sessionid", "_ioprocessors", "nil", "{}", "{1,2,3}",
        "'str'", "\"", "1s", "10ms", "-1s", "abc", "true", "false", "late", "early", "http://example.invalid/x", "scxml", "basichttp",
        "http://www.w3.org/TR/scxml/#SCXMLEventProcessor", "error.*", "*", "done.state.s1", "Var0[99999]", "Var0[-1]", "a.b.c.d", "9999999999999999999999", "_x.states[s1]"]
TEXTS = ["", "", "", "Var0 = 1", "this is (( not code", "{\"a\": 1}", "1", "nosuchfunction()", "<b/>", "]]>".replace("]]>", "x")]


def soup(rng, dm):
    def elem(depth):
        t = rng.choice(TAGS)
        a = "".join(' %s="%s"' % (k, charts.esc(rng.choice(VALS))) for k in rng.sample(ATTRS, rng.choice([0, 1, 1, 2, 3])))
        kids = "".join(elem(depth + 1) for _ in range(rng.choice([0, 0, 1, 2, 3]))) if depth < 4 else ""
        if not kids and rng.random() < 0.2: kids = charts.esc(rng.choice(TEXTS))
        return "<%s%s>%s</%s>" % (t, a, kids, t)
    body = "".join(elem(1) for _ in range(rng.randint(1, 4)))
    root_a = "".join(' %s="%s"' % (k, rng.choice(["s1", "s2", "s1 s2", "nosuch", "late", "early", "x"])) for k in rng.sample(["initial", "name", "binding"], rng.randint(0, 2)))
    pre = '<datamodel><data id="Var0" expr="0"/></datamodel>' if dm != "null" and rng.random() < 0.7 else ""
    return '<scxml xmlns="http://www.w3.org/2005/07/scxml" version="1.0" datamodel="%s"%s>%s%s</scxml>' % (dm, root_a, pre, body)


def mutate_valid(rng, dm):
    """a valid generated chart with a few attribute values replaced by soup values"""
    g = charts.Gen(rng, max_states=rng.choice([3, 6, 9]), p_fail=0.2, p_exec=0.7, dm=dm, nvars=0 if dm == "null" else 2)
    x = charts.xml(g.chart(), dm, 0 if dm == "null" else 2, flavor=rng.randrange(1 << 20))
    import re
    spans = [m.span(1) for m in re.finditer(r'(?:cond|expr|location|event|target|array|item|initial|type)="([^"]*)"', x)]
    for _ in range(rng.randint(1, 3)):
        if not spans: break
        a, b = rng.choice(spans)
        x2 = x[:a] + charts.esc(rng.choice(VALS)) + x[b:]
        if len(x2) - len(x) == 0 or True:
            x = x2
            spans = [m.span(1) for m in re.finditer(r'(?:cond|expr|location|event|target|array|item|initial|type)="([^"]*)"', x)]
    return x


def soup_outcome(th):
    b = bad_token(th)
    if b is None: return "ran" if "DIVERGE" not in th else "diverged"
    if b[1].startswith("EXC") and not any(t.startswith(("be:", "bpe:", "bm")) for t in th[:b[0]]): return "rejected"
    return "BAD " + b[1]


def suite_soup(ctx, n):
    rng = ctx.rng
    docs = []
    for i in range(n):
        dm = ("null", "lua", "promela")[i % 3]
        docs.append((dm, soup(rng, dm) if rng.random() < 0.6 else mutate_valid(rng, dm)))
    evs = ["e", "x", "f"]
    st = dict(inputs=0, ran=0, rejected=0, diverged=0, violations=0)
    for eng in ("large", "fast"):
        lines = [raw_line(eng, x, evs) for _, x in docs]
        H = run_raw(ctx, lines)
        for (dm, x), l, h in zip(docs, lines, H):
            st["inputs"] += 1
            o = soup_outcome(h.split(" "))
            if not o.startswith("BAD"): st[o] += 1; continue
            st["violations"] += 1
            if len(ctx.violations) < 4:
                def pred(t):
                    h2 = run_raw(ctx, [raw_line(eng, t, evs)])
                    return soup_outcome(h2[0].split(" ")) == o
                try: x2 = xmlshrink.shrink(x, pred, budget=120)
                except Exception: x2 = x
                ctx.violation("soup-%d" % len(ctx.violations), "soup", [raw_line(eng, x2, evs)],
                              detail="engine %s: interpreting this well-formed document ends abnormally (%s); events %s\ndocument: %s" % (eng, o[4:], evs, x2[:2000]))
    ctx.add_suite("soup", **st)
    ctx.sample({"suite": "soup", "document": docs[0][1][:500]})


def completion_cases(rng, n):
    """the finalising step (a top-level final state was entered, or the session was cancelled) runs the exit handlers of every
    active state: each <onexit> block is its own unit there too. States with 2-3 onexit blocks, failing elements at random places"""
    uv = [0]
    def block():
        out = []
        for _ in range(rng.randint(1, 3)):
            uv[0] += 1
            x = rng.random()
            out.append("(fail %d %s)" % (uv[0], rng.choice(["exec", "comm"])) if x < 0.35 else "(log %d L%d)" % (uv[0], uv[0]) if x < 0.85 else "(raise %d i1)" % uv[0])
        return "(onexit %s)" % " ".join(out)
    def blocks(): return " ".join(block() for _ in range(rng.randint(2, 3)))
    cases = []
    for _ in range(n):
        uv[0] = 0
        sx = ("(scxml root (init p) (state p (init c) %s (state c %s (t g - e (d))) (state d %s) (t e - e (f))) (final f %s))"
              % (blocks(), blocks(), blocks(), blocks()))
        d = charts.from_sexpr(sx)
        ops = rng.choice([["q", "e:e", "q"], ["q", "c", "s", "s"], ["q", "e:g", "q", "c", "s", "s"], ["q", "e:g", "e:e", "q"], ["s", "c", "q"]])
        cases.append((d, ops))
    return cases


def suite_completion(ctx, n):
    from checks import c10
    cases = completion_cases(ctx.rng, n)
    st = dict(inputs=0, agree=0, completions=0, elements_run_in_completion=0, violations=0)
    for eng in ("large", "fast"):
        lines = [c10.api_line(eng, d, ops) for d, ops in cases]
        H, M = c10.run_api(ctx, lines)
        for (d, ops), l, h, m in zip(cases, lines, H, M):
            st["inputs"] += 1
            th = h.split(" ")
            if "bcomp" in th:
                st["completions"] += 1
                seg = th[th.index("bcomp"):]
                st["elements_run_in_completion"] += sum(1 for t in seg if t.startswith("bpe:error") or t.startswith("bc:"))
            bad = [t for t in th if t.startswith(("CRASH", "EXIT", "EXC", "bad-op"))]
            if h == m and not bad: st["agree"] += 1; continue
            st["violations"] += 1
            if len(ctx.violations) < 3:
                k = E.first_diff(th, m.split(" "))
                ctx.violation("completion-%d" % len(ctx.violations), "completion-blocks", [l],
                              detail="engine %s: %s\nchart: %s\nops: %s" % (eng, ("abnormal outcome " + bad[0]) if bad else
                              "the finalising step differs from the model (every <onexit> block is its own unit: a failing element skips the rest of its block only) at token %d: I %s / M %s"
                              % (k, " ".join(th[max(0, k - 4):k + 4]), " ".join(m.split(" ")[max(0, k - 4):k + 4])), charts.sexpr(d), ",".join(ops)))
    ctx.add_suite("completion-blocks", **st)
    return st


def run(ctx):
    ctx.setup(variants=("asan",))
    ctx.audit(THEOREMS, LEAN_FILES)
    quick = ctx.tier == "quick"
    suite_forms(ctx)
    tot = 0; nontriv = 0
    for dm, n in (("null", 700 if quick else 15000), ("lua", 500 if quick else 10000), ("promela", 500 if quick else 10000)):
        st = suite_inject(ctx, dm, n)
        tot += st["inputs"]; nontriv += st["with_error_events"]
    suite_completion(ctx, 150 if quick else 4000)
    suite_other(ctx, 3 if quick else 40)
    suite_async(ctx, 2 if quick else 30)
    suite_soup(ctx, 1200 if quick else 40000)
    for s in ("forms", "inject-other", "inject-async", "soup", "completion-blocks"): tot += ctx.coverage["suites"][s]["inputs"]
    ctx.coverage["evaluations"] = tot
    ctx.coverage["distinct_nontrivial"] = nontriv
    ctx.coverage["rule"] = ("random charts (3-12 states) whose executable blocks (onentry/onexit/transition, nested if/elseif/else) contain failing elements with p=0.3 per element, "
                            "rendered in %d concrete guises for lua, %d for promela, %d for the null datamodel, and failing conditions in %d/%d guises; both engines on the ASan+UBSan build; "
                            "non-trivial = the run processes at least one error event; plus directed documents for data initialisation (early/late), donedata and global script, "
                            "and random element soup / corrupted valid charts with garbage expressions for crash-freedom"
                            % (len(charts.FAIL_FORMS["lua"]["exec"]) + 2, len(charts.FAIL_FORMS["promela"]["exec"]) + 2, len(charts.FAIL_FORMS["null"]["exec"]) + 2,
                               len(charts.COND_ERR["lua"]), len(charts.COND_ERR["promela"])))
    ctx.assumptions += ["errors at the evaluation of <invoke> attributes are exercised with C11's machinery, not here; failing elements in <finalize>, failing delivery of delayed sends and non-string Lua error objects: suite inject-async",
                        "abnormal termination and out-of-bounds accesses are explored with ASan+UBSan on generated inputs, not proved",
                        "the ecmascript datamodel is not built in this sandbox"]


def replay(ctx, path):
    ctx.setup(variants=("asan",))
    if "suite=completion-blocks" in open(path).readline():
        import uvlib
        return uvlib.generic_replay(ctx, path, [(None, "api", "api", "asan")], variants=("asan",))
    for line in open(path):
        if "\t" not in line or line.startswith(("#", "property=")): continue
        h = run_raw(ctx, [line.rstrip("\n")])
        f = line.rstrip("\n").split("\t")
        print("document:", bytes.fromhex(f[3]).decode("utf-8", "replace")[:3000])
        print("I:", h[0][:3000])
        if f[1] != "-":
            print("M:", ctx.driver_lines("trace", [line.rstrip("\n")])[0][:3000])
    return 0
