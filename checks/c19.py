"""C19 Validation verdicts are sound and do not reject valid charts (DESIGN.md section 6, C19)."""
import copy
from concurrent.futures import ThreadPoolExecutor
from uvlib import BrokenTie, chunks, hexs
from checks import enginelib as E
from checks.enginelib import charts, shrink
from checks import c01, c02

P = "UscxmlVerif.Properties.C19."
THEOREMS = [
    (P + "targets_resolve", "proved", "for EVERY document: if the validator (as modelled) reports no fatal issue then every id in every transition's target attribute is the non-empty id of an element of the document, and no target attribute is empty - getState cannot come back empty-handed"),
    (P + "initial_resolves", "proved", "... and every id in an initial attribute names a state-like descendant of the element that carries it"),
    (P + "statePass_seen", "proved", "the validator's seenStates map only ever holds ids of elements of the document (invariant of the first pass)"),
]
LEAN_FILES = ["UscxmlVerif.Properties.C19"]
FINISH = {"level": "exploration"}


def vline(d, dm="null"):
    return "v\t%s\t-\t%s" % (charts.sexpr(d), hexs(charts.xml(d, dm)))


def run_validate(ctx, docs, dm="null", model=True):
    lines = [vline(d, dm) for d in docs]
    parts = list(chunks(lines, max(1, len(lines) // 16 + 1)))
    def work(part):
        rc, h, err = ctx.harness_lines("validate", part, timeout=1800)
        if rc != 0 or len(h) != len(part): raise BrokenTie("harness", "uvharness validate rc=%s %d/%d" % (rc, len(h), len(part)))
        return h, (ctx.driver_lines("validate", part, timeout=1800) if model else [None] * len(part))
    with ThreadPoolExecutor(16) as ex: res = list(ex.map(work, parts))
    return [x for h, _ in res for x in h], [x for _, d in res for x in d]


def fields(a):
    return dict(kv.split("=", 1) for kv in a.split(" ") if "=" in kv)


def soup(rng):
    """arbitrary well-formed XML built from SCXML vocabulary (as text)"""
    tags = ["state", "parallel", "final", "history", "initial", "transition", "onentry", "onexit", "raise", "if", "elseif", "else",
            "send", "log", "assign", "datamodel", "data", "donedata", "param", "content", "invoke", "finalize", "foreach", "script", "cancel", "scxml"]
    attrs = ["id", "initial", "target", "event", "cond", "type", "expr", "location", "name", "array", "item", "src", "delay", "sendid"]
    vals = ["s1", "s2", "s1 s2", "", "nosuch", "e", "In('s1')", "deep", "shallow", "internal", "1", "x", "foo.bar", "#_internal"]
    def elem(depth):
        t = rng.choice(tags)
        a = "".join(' %s="%s"' % (k, rng.choice(vals)) for k in rng.sample(attrs, rng.randint(0, 3)))
        kids = "".join(elem(depth + 1) for _ in range(rng.choice([0, 0, 1, 2, 3]))) if depth < 4 else ""
        return "<%s%s>%s</%s>" % (t, a, kids, t)
    body = "".join(elem(1) for _ in range(rng.randint(1, 4)))
    root_a = "".join(' %s="%s"' % (k, rng.choice(vals)) for k in rng.sample(["initial", "name", "binding"], rng.randint(0, 2)))
    return '<scxml xmlns="http://www.w3.org/2005/07/scxml" version="1.0" datamodel="null"%s>%s</scxml>' % (root_a, body)


def run(ctx):
    ctx.setup()
    ctx.audit(THEOREMS, LEAN_FILES)
    quick = ctx.tier == "quick"
    rng = ctx.rng
    n = 1500 if quick else 12000
    # ---- (a)+(c) valid and corrupted documents: model vs code on the fatal classes; accepted ones are run
    docs, kinds = [], []
    for _ in range(n):
        g = charts.Gen(rng, max_states=rng.choice([4, 8, 12]), p_fail=0.04, p_history=0.5, p_initial_elem=0.5, p_multi=0.35)
        d = g.chart()
        kinds.append(charts.invalidate(rng, d, rng.choice([0, 1, 1, 1, 2])))
        docs.append(d)
    H, M = run_validate(ctx, docs)
    st = dict(inputs=len(docs), agree=0, accepted=0, rejected=0, crashes=0, corrupted=sum(1 for k in kinds if k), classes={})
    broken, accepted = [], []
    for d, k, a, b in zip(docs, kinds, H, M):
        if not a.startswith("F="):
            st["crashes"] += 1
            if len(ctx.violations) < 4:
                ctx.violation("crash-%d" % len(ctx.violations), "validate", [vline(d)], detail="validate() did not return: %s\ncorruptions: %s\nchart: %s" % (a, k, charts.sexpr(d)[:600]))
            continue
        f = fields(a)
        for c in f["F"].split(","): st["classes"][c] = st["classes"].get(c, 0) + 1
        if f["F"] == b and f["U"] == "-": st["agree"] += 1
        else: broken.append((d, a, b))
        if f["F"] == "-": st["accepted"] += 1; accepted.append((d, k))
        else: st["rejected"] += 1
    ctx.add_suite("validate-classes", **st)
    ctx.sample({"suite": "validate-classes", "chart": charts.sexpr(docs[0])[:300], "corruptions": kinds[0], "verdict": H[0][:120]})
    # soundness: what validation accepts must run without crash and stay legal
    cases = [(d, charts.events_for(rng, charts.Gen(rng), 3)) for d, _ in accepted]
    st2 = dict(inputs=len(cases), legal=0, known=0, violations=0, accepted_although_corrupted=sum(1 for _, k in accepted if k))
    if cases:
        T, TM = E.run_batches(ctx, [E.case_line("large", d, e) for d, e in cases])
        leg = c02.legality(ctx, cases, T)
        for (d, evs), (_, k), t, tm, lg in zip(cases, accepted, T, TM, leg):
            toks = t.split(" ")
            p = c02.problems(toks, lg)
            if any(x.startswith(("CRASH", "EXC", "EXIT")) for x in toks): p = "interpreter failed: " + [x for x in toks if x.startswith(("CRASH", "EXC", "EXIT"))][0]
            if p is None: st2["legal"] += 1; continue
            if "hist-shared" in c01.classify(d) and t == tm: st2["known"] += 1; ctx.known("hist-shared", ""); continue     # exactly the recorded behaviour
            st2["violations"] += 1
            if len(ctx.violations) < 4:
                ctx.violation("unsound-%d" % len(ctx.violations), "validate-soundness", [E.case_line("large", d, evs)],
                              detail="validation reports no fatal issue, but: %s\ncorruptions applied: %s\nchart: %s\nevents: %s" % (p, k, charts.sexpr(d)[:600], evs))
    ctx.add_suite("validate-soundness", **st2)
    # ---- (b) completeness: valid documents, also without ids on unreferenced states, null and lua datamodels
    valid = []
    for _ in range(n // 3):
        g = charts.Gen(rng, max_states=rng.choice([4, 8, 12]), p_fail=0.0, p_history=0.4)
        d = g.chart()
        if rng.random() < 0.3:
            ref = set(x for nd in d.walk() for t in nd.trans for x in (t.targets or [])) | set(x for nd in d.walk() for x in (nd.init or []))
            for nd in d.walk():
                if nd.kind in ("state", "parallel") and nd.id not in ref and rng.random() < 0.5 and not any(("in:" + nd.id) in charts.sexpr(d) for _ in [0]):
                    nd.id = ""
        valid.append(d)
    st3 = dict(inputs=0, clean=0, violations=0)
    for dm in ("null", "lua"):
        Hv, _ = run_validate(ctx, valid, dm, model=False)
        for d, a in zip(valid, Hv):
            st3["inputs"] += 1
            f = fields(a) if a.startswith("F=") else {}
            if f.get("F") == "-" and f.get("X") == "0": st3["clean"] += 1; continue
            st3["violations"] += 1
            if len(ctx.violations) < 4:
                ctx.violation("incomplete-%d" % len(ctx.violations), "validate-completeness", [vline(d, dm)],
                              detail="a structurally valid document (datamodel %s) is reported with fatal issues or syntax-error warnings: %s\nchart: %s" % (dm, a[:200], charts.sexpr(d)[:600]))
    ctx.add_suite("validate-completeness", **st3)
    # ---- (d) arbitrary well-formed XML from SCXML vocabulary: validate() must return
    soups = [soup(rng) for _ in range(1500 if quick else 20000)]
    lines = ["v\t-\t-\t" + hexs(s) for s in soups]
    parts = list(chunks(lines, len(lines) // 16 + 1))
    def work(part):
        rc, h, err = ctx.harness_lines("validate", part, timeout=1800)
        return h
    with ThreadPoolExecutor(16) as ex: hs = [x for part in ex.map(work, parts) for x in part]
    st4 = dict(inputs=len(soups), returned=0, crashes=0)
    for s, a in zip(soups, hs):
        if a.startswith("F=") or a.startswith("EXC:"): st4["returned"] += 1
        else:
            st4["crashes"] += 1
            if len(ctx.violations) < 4:
                ctx.violation("soup-%d" % len(ctx.violations), "validate-robustness", ["v\t-\t-\t" + hexs(s)], detail="validate() crashed (%s) on: %s" % (a, s[:600]))
    ctx.add_suite("validate-robustness", **st4)
    # a broken correspondence: search for a failing input first - documents the code accepts although the model finds a fatal issue
    # are run under many event histories of their own alphabet, on both engines
    searched = 0
    for d, a, b in broken[:12]:
        if not a.startswith("F=") or fields(a)["F"] != "-" or b == "-" or any(p.endswith("-unsound-search.txt") for p, _ in ctx.violations): continue
        import itertools
        hist = [list(h) for k in range(1, 5) for h in itertools.product(["e", "f", "g"], repeat=k)] + \
               [[rng.choice(["e", "f", "g"]) for _ in range(rng.randint(5, 7))] for _ in range(40)]
        for eng in ("large", "fast"):
            cs = [(d, h) for h in hist]
            T, _ = E.run_batches(ctx, [E.case_line(eng, d, h) for h in hist], want_driver=False)
            leg = c02.legality(ctx, cs, T)
            searched += len(cs)
            for h, t, lg in zip(hist, T, leg):
                toks = t.split(" ")
                pr = c02.problems(toks, lg)
                if any(x.startswith(("CRASH", "EXC", "EXIT")) for x in toks): pr = "interpreter failed: " + [x for x in toks if x.startswith(("CRASH", "EXC", "EXIT"))][0]
                if pr is not None and "hist-shared" not in c01.classify(d):
                    ctx.violation("unsound-search", "validate-soundness", [E.case_line(eng, d, h)],
                                  detail="validation reports no fatal issue (the model reports %s), and engine %s then: %s\nchart: %s\nevents: %s" % (b, eng, pr, charts.sexpr(d)[:600], h))
                    break
            if any(p.endswith("-unsound-search.txt") for p, _ in ctx.violations): break
    # ... and more documents with the corruptions of the disagreeing ones are generated: the accepted ones are run
    bk = sorted(set(x for d0, a, b in broken for dd, kk in zip(docs, kinds) if dd is d0 for x in kk
                    if a.startswith("F=") and set(b.split(",")) - set(fields(a)["F"].split(",")) - {"-"}))
    if bk and not any(fi for _, fi in ctx.violations):
        more, mk = [], []
        for _ in range(3000 if quick else 20000):
            g = charts.Gen(rng, max_states=rng.choice([6, 9, 12]), p_fail=0.0, p_history=0.3, p_initial_elem=0.4, p_multi=0.3)
            d = g.chart(); k = charts.invalidate(rng, d, 1, only=bk)
            if k: more.append(d); mk.append(k)
        Hm, _ = run_validate(ctx, more, model=False)
        acc = [(d, k) for d, k, a in zip(more, mk, Hm) if a.startswith("F=") and fields(a)["F"] == "-"]
        searched += len(more)
        cs = [(d, h) for d, _ in acc for h in (["e", "f", "g"], ["g", "f", "e", "g"], ["f", "e", "e"])]
        if cs:
            T, _ = E.run_batches(ctx, [E.case_line("large", d, h) for d, h in cs], want_driver=False)
            leg = c02.legality(ctx, cs, T)
            for (d, h), t, lg in zip(cs, T, leg):
                toks = t.split(" ")
                pr = c02.problems(toks, lg)
                if any(x.startswith(("CRASH", "EXC", "EXIT")) for x in toks): pr = "interpreter failed: " + [x for x in toks if x.startswith(("CRASH", "EXC", "EXIT"))][0]
                if pr is not None and "hist-shared" not in c01.classify(d):
                    ctx.violation("unsound-search", "validate-soundness", [E.case_line("large", d, h)],
                                  detail="validation reports no fatal issue for a document corrupted by %s, and the interpreter then: %s\nchart: %s\nevents: %s" % (bk, pr, charts.sexpr(d)[:600], h))
                    break
    ctx.coverage["suites"]["validate-soundness"]["searched_after_disagreement"] = searched
    if broken and not ctx.violations:
        d, a, b = broken[0]
        ctx.violation("correspondence", "validate", [vline(d)], found_input=False,
                      detail="correspondence validate broken on %d documents; first: code %s / model %s / chart %s" % (len(broken), a[:150], b[:100], charts.sexpr(d)[:300]))
    ctx.coverage["evaluations"] = st["inputs"] + st2["inputs"] + st3["inputs"] + st4["inputs"]
    ctx.coverage["distinct_nontrivial"] = st["rejected"] + st2["legal"] + st3["clean"]
    ctx.coverage["rule"] = "random valid charts with 0-2 structural corruptions (dangling/empty targets, initial outside/unknown, history without/with two/conditional/eventful/outside default, non-orthogonal multi-targets, duplicate and missing ids, bad <initial> elements); accepted ones are interpreted and every configuration checked by Spec.Legal; valid charts under null and lua datamodels must be clean; random element soup for crash-freedom"
    ctx.assumptions += ["content-model / attribute warnings are outside the model", "transpiling accepted documents is exercised by C04-C06/C18"]


def replay(ctx, path):
    import uvlib
    return uvlib.generic_replay(ctx, path, [("v\t", "validate", "validate", None), (None, "trace", "trace", None)])
