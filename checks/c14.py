"""C14 Serialized state resumes to identical behaviour (DESIGN.md section 6, C14)."""
from concurrent.futures import ThreadPoolExecutor
from uvlib import BrokenTie, chunks, hexs
from checks import enginelib as E
from checks.enginelib import charts, shrink

P = "UscxmlVerif.Properties.C14."
THEOREMS = [
    (P + "restore_snapshot", "proved", "for EVERY chart and every engine state at which a snapshot may be taken (Snapshotable: sorted sets, post-fix view = rebuilt view, empty internal queue, no cycle info, not cancelled): restore (snapshot e) is e except for the observer log and the rebuilt post-fix view, which agrees with the original on every state that has transitions"),
    (P + "snapshot_restore_idempotent", "proved", "a second snapshot taken from the restored state equals the first"),
    (P + "insAll_nil_sorted", "proved", "re-inserting a strictly ascending array of state numbers one by one rebuilds exactly that set (what deserialize does with configuration, history and invocations)"),
]
LEAN_FILES = ["UscxmlVerif.Properties.C14"]


def sline(engine, d, pre, cont, other, dm, nvars):
    return "%s\t%s\t%s\t%s\t%s\t%s" % (engine, charts.sexpr(d), ",".join(pre) or "-", ",".join(cont) or "-",
                                       hexs(charts.xml(d, dm, nvars)), hexs(charts.xml(other, dm, nvars)))


def run_serial(ctx, lines):
    parts = list(chunks(lines, max(1, len(lines) // 16 + 1)))
    def work(part):
        rc, h, err = ctx.harness_lines("serial", part, timeout=1800)
        if rc != 0 or len(h) != len(part): raise BrokenTie("harness", "uvharness serial rc=%s %d/%d" % (rc, len(h), len(part)))
        return h
    with ThreadPoolExecutor(16) as ex: return [x for part in ex.map(work, parts) for x in part]


def normalise(tokens):
    """a resumed interpreter reports its (restored) stable configuration once more before it goes on:
    the leading `st ret:MACROSTEPPED cfg:…` of the copy and the `ret:` codes are not part of the
    behaviour the property lists"""
    t = [x for x in tokens if not x.startswith("ret:")]
    return t


def judge(out):
    if out in ("DIVERGE",) or out.startswith("SER=err"): return "skip", ""
    if not out.startswith("A="): return "bad", out[:200]
    parts = dict(p.split("=", 1) for p in out.split(" || "))
    if parts.get("SER") != "ok": return "bad", "deserialize failed: " + parts.get("SER", "?")
    if parts.get("FOREIGN") != "rejected": return "bad", "a state string of another document was accepted"
    a = normalise(parts["A"].split(" ")); b = normalise(parts["B"].split(" "))
    if b[:2] == ["st", b[1]] and b[1].startswith("cfg:") and a[:1] != ["st"]: b = b[2:]
    if a != b:
        k = E.first_diff(a, b)
        return "bad", "original: %s | restored: %s (after %s)" % (" ".join(a[k:k + 10]), " ".join(b[k:k + 10]), " ".join(a[max(0, k - 6):k]))
    return "ok", ""


def late_data_doc(rng):
    """late binding: a ring of states, some with their own <data> that is counted up on every entry and decides where
    event `c` leads; a snapshot taken while such a state has been left must not make it forget (or re-initialise) its data"""
    n = rng.randint(2, 4)
    local = [i for i in range(n) if rng.random() < 0.7] or [0]
    thr = rng.randint(2, 3)
    states = ""
    for i in range(n):
        dm = ('<datamodel><data id="v%d" expr="0"/></datamodel><onentry><assign location="v%d" expr="v%d + 1"/></onentry>'
              '<transition event="c" cond="v%d &gt;= %d" target="big%d"/><transition event="c" target="small%d"/>' % (i, i, i, i, thr, i, i)) if i in local else ""
        states += '<state id="s%d">%s<transition event="n" target="s%d"/></state>' % (i, dm, (i + 1) % n)
        if i in local:
            states += '<state id="big%d"><transition event="n" target="s%d"/></state><state id="small%d"><transition event="n" target="s%d"/></state>' % (i, i, i, i)
    doc = ('<scxml xmlns="http://www.w3.org/2005/07/scxml" version="1.0" datamodel="lua" binding="%s" initial="s0">'
           '<datamodel><data id="g" expr="0"/></datamodel>%s</scxml>' % (rng.choice(["late", "late", "late", "early"]), states))
    evs = [rng.choice(["n", "n", "n", "c"]) for _ in range(rng.randint(2, 9))]
    k = rng.randint(0, len(evs))
    other = '<scxml xmlns="http://www.w3.org/2005/07/scxml" version="1.0" datamodel="lua"><state id="x"/><state id="y"/></scxml>'
    return doc, evs[:k], evs[k:] + [rng.choice(["n", "c"]) for _ in range(rng.randint(1, 4))], other


VALUES = [("''", "$ == ''"), ("0", "$ == 0"), ("false", "$ == false"), ("'x y'", "$ == 'x y'"), ("'0'", "type($) == 'string' and $ == '0'"),
          ("'true'", "type($) == 'string' and $ == 'true'"), ("-1.5", "$ == -1.5"), ("12345678", "$ == 12345678"),
          ("{1, 2, 3}", "type($) == 'table' and #$ == 3 and $[3] == 3"),
          ("{a = '', b = 0}", "type($) == 'table' and $.a == '' and $.b == 0"), ("{k = {1, 'z'}}", "type($) == 'table' and type($.k) == 'table' and $.k[2] == 'z'"),
          ("'a\\\\b'", "$ == 'a\\\\b'"), ("' '", "$ == ' '"), ("true", "$ == true")]
EMPTY_TABLE = ("{}", "type($) == 'table' and next($) == nil")     # recorded finding `empty-table`: probed by one fixed document


def typed_data_doc(rng, fixed=None):
    """values of every kind the datamodel can hold (empty string, zero, false, strings that look like numbers or booleans,
    empty and nested tables ...) assigned before the snapshot to variables the document initialises differently; the
    continuation asks, variable by variable, whether the value is still the assigned one"""
    k = rng.randint(2, 5) if fixed is None else len(fixed)
    vals = [rng.choice(VALUES) for _ in range(k)] if fixed is None else list(fixed)
    data = "".join('<data id="v%d" expr="%s"/>' % (i, rng.choice(["'init'", "7", "{9}"])) for i in range(k))
    assign = "".join('<assign location="v%d" expr="%s"/>' % (i, v.replace("<", "&lt;").replace('"', "&quot;")) for i, (v, _) in enumerate(vals))
    probes = ""
    for i, (_, c) in enumerate(vals):
        cond = c.replace("$", "v%d" % i)
        probes += ('<state id="p%d"><transition event="c" cond="%s" target="p%d"/><transition event="c" target="bad%d"/></state><state id="bad%d"><transition event="c" target="p%d"/></state>'
                   % (i, cond.replace("&", "&amp;").replace("<", "&lt;").replace('"', "&quot;"), i + 1, i, i, i + 1))
    doc = ('<scxml xmlns="http://www.w3.org/2005/07/scxml" version="1.0" datamodel="lua" initial="s0"><datamodel>%s</datamodel>'
           '<state id="s0"><transition event="n" target="s1"/></state><state id="s1"><onentry>%s</onentry><transition event="n" target="p0"/></state>'
           '%s<state id="p%d"/></scxml>' % (data, assign, probes, k))
    other = '<scxml xmlns="http://www.w3.org/2005/07/scxml" version="1.0" datamodel="lua"><state id="x"/><state id="y"/></scxml>'
    pre = ["n"] + (["n"] if rng.random() < 0.7 else []) + (["c"] * rng.randint(0, k) if rng.random() < 0.3 else [])
    if pre.count("n") < 2 and "c" in pre: pre = ["n"]
    cont = (["n"] if pre.count("n") < 2 else []) + ["c"] * (2 * k + 1)
    return doc, pre, cont, other


def delayed_doc(rng):
    """pending delayed events at the snapshot: states of a ring send themselves delayed events (distinct delays, so that the
    order in which they become due is determined) which move the chart on when they arrive"""
    n = rng.randint(2, 4)
    delays = rng.sample([120, 200, 280, 360, 440], n)
    states = ""
    for i in range(n):
        send = '<onentry><send event="t%d" delay="%dms" id="snd%d"/></onentry>' % (i, delays[i], i) if rng.random() < 0.7 else ""
        # delayed events only lead to states that send nothing: a delayed event sent on the arrival of another one could
        # become due within a millisecond of a third (the delays differ by multiples of 80 ms), and which of the two the
        # timer thread hands over first would then be a matter of scheduling, not of serialization
        states += ('<state id="s%d">%s<transition event="n" target="s%d"/><transition event="t%d" target="late%d"/></state>'
                   '<state id="late%d"><transition event="n" target="s%d"/><transition event="t%d" target="late%d"/></state>'
                   % (i, send, (i + 1) % n, (i + rng.randrange(n)) % n, i, i, (i + 1) % n, rng.randrange(n), rng.randrange(n)))
    doc = '<scxml xmlns="http://www.w3.org/2005/07/scxml" version="1.0" datamodel="null" initial="s0">%s</scxml>' % states
    pre = ["n"] * rng.randint(0, 3)
    cont = ["~1000"] + [rng.choice(["n", "~1000"]) for _ in range(rng.randint(0, 2))] + ["~1000"]
    other = '<scxml xmlns="http://www.w3.org/2005/07/scxml" version="1.0" datamodel="null"><state id="x"/><state id="y"/></scxml>'
    return doc, pre, cont, other


def aged_doc(rng):
    """two delayed events pending at the snapshot that were sent at different times: the one sent first has the longer delay but is
    due first. The snapshot must carry what is LEFT of each delay; the final state tells in which order they arrived"""
    slow = rng.choice([560, 640, 720]); wait = rng.choice([300, 400]); quick = slow - wait + 150
    doc = ('<scxml xmlns="http://www.w3.org/2005/07/scxml" version="1.0" datamodel="null" initial="s0">'
           '<state id="s0"><onentry><send event="a" delay="%dms"/></onentry><transition event="n" target="s1"/></state>'
           '<state id="s1"><onentry><send event="b" delay="%dms"/></onentry><transition event="a" target="gotA"/><transition event="b" target="gotB"/></state>'
           '<state id="gotA"><transition event="b" target="AB"/></state><state id="gotB"><transition event="a" target="BA"/></state>'
           '<state id="AB"/><state id="BA"/></scxml>' % (slow, quick))
    other = '<scxml xmlns="http://www.w3.org/2005/07/scxml" version="1.0" datamodel="null"><state id="x"/><state id="y"/></scxml>'
    return doc, ["=%d" % wait, "n"], ["~1000"], other


def suite_delayed(ctx, n):
    rng = ctx.rng
    lines, docs = [], []
    for k in range(n):
        doc, pre, cont, other = delayed_doc(rng) if k % 4 else aged_doc(rng)
        for engine in ("large", "fast"):
            lines.append("%s\t-\t%s\t%s\t%s\t%s" % (engine, ",".join(pre) or "-", ",".join(cont) or "-", hexs(doc), hexs(other))); docs.append(doc)
    outs = run_serial(ctx, lines)
    st = dict(inputs=len(lines), identical=0, skipped=0, violations=0, delayed_events_after_restore=0)
    for l, doc, o in zip(lines, docs, outs):
        v, why = judge(o)
        if v == "skip": st["skipped"] += 1; continue
        if v == "ok":
            st["identical"] += 1
            st["delayed_events_after_restore"] += o.split(" || ")[1].count("bpe:t")
            continue
        st["violations"] += 1
        if len(ctx.violations) < 4:
            ctx.violation("delayed-%d" % len(ctx.violations), "serialize-delayed", [l],
                          detail="engine %s, delayed events pending at the snapshot: %s\nprefix/continuation: %s\ndocument: %s" % (l.split("\t")[0], why, l.split("\t")[2:4], doc))
    ctx.add_suite("serialize-delayed", **st)


def suite_late(ctx, n):
    rng = ctx.rng
    lines, docs = [], []
    for _ in range(n):
        doc, pre, cont, other = late_data_doc(rng)
        for engine in ("large", "fast"):
            lines.append("%s\t-\t%s\t%s\t%s\t%s" % (engine, ",".join(pre) or "-", ",".join(cont) or "-", hexs(doc), hexs(other))); docs.append(doc)
    outs = run_serial(ctx, lines)
    st = dict(inputs=len(lines), identical=0, skipped=0, violations=0)
    for l, doc, o in zip(lines, docs, outs):
        v, why = judge(o)
        if v == "skip": st["skipped"] += 1; continue
        if v == "ok": st["identical"] += 1; continue
        st["violations"] += 1
        if len(ctx.violations) < 4:
            ctx.violation("late-%d" % len(ctx.violations), "serialize-late-data", [l],
                          detail="engine %s, lua datamodel, data declared inside states: %s\nprefix/continuation: %s\ndocument: %s" % (l.split("\t")[0], why, l.split("\t")[2:4], doc))
    ctx.add_suite("serialize-late-data", **st)


def suite_typed(ctx, n):
    rng = ctx.rng
    lines, docs = [], []
    for _ in range(n):
        doc, pre, cont, other = typed_data_doc(rng)
        for engine in ("large", "fast"):
            lines.append("%s\t-\t%s\t%s\t%s\t%s" % (engine, ",".join(pre) or "-", ",".join(cont) or "-", hexs(doc), hexs(other))); docs.append(doc)
    outs = run_serial(ctx, lines)
    st = dict(inputs=len(lines), identical=0, skipped=0, violations=0, probes_failed_in_original=0)
    for l, doc, o in zip(lines, docs, outs):
        v, why = judge(o)
        if v == "skip": st["skipped"] += 1; continue
        if o.startswith("A=") and ",bad" in o.split(" || ")[0]: st["probes_failed_in_original"] += 1
        if v == "ok": st["identical"] += 1; continue
        st["violations"] += 1
        if len(ctx.violations) < 4:
            ctx.violation("typed-%d" % len(ctx.violations), "serialize-typed-data", [l],
                          detail="engine %s, lua datamodel, values of different kinds: %s\nprefix/continuation: %s\ndocument: %s" % (l.split("\t")[0], why, l.split("\t")[2:4], doc))
    # the recorded finding: a variable holding an empty table comes back undefined (Data cannot tell an empty table from nothing)
    doc, pre, cont, other = typed_data_doc(rng, fixed=[EMPTY_TABLE, VALUES[0]])
    o = run_serial(ctx, ["large\t-\tn\tn,c,c,c,c,c\t%s\t%s" % (hexs(doc), hexs(other))])[0]
    v, why = judge(o)
    st["empty_table_probe"] = v
    if v == "bad":
        if "empty-table" in ctx.findings and "cfg:root,bad0" in o and "cfg:root,bad1" not in o: ctx.known("empty-table", "")
        else:
            st["violations"] += 1
            ctx.violation("typed-empty-table", "serialize-typed-data", ["large\t-\tn\tn,c,c,c,c,c\t%s\t%s" % (hexs(doc), hexs(other))], detail="empty table probe: %s\ndocument: %s" % (why, doc))
    ctx.add_suite("serialize-typed-data", **st)


def run(ctx):
    ctx.setup()
    ctx.audit(THEOREMS, LEAN_FILES)
    quick = ctx.tier == "quick"
    n = 700 if quick else 20000
    rng = ctx.rng
    st = dict(inputs=0, identical=0, skipped=0, violations=0, with_pending_events=0, with_history=0)
    for engine in ("large", "fast"):
        for dm, nv in (("null", 0), ("lua", 2)):
            cases = E.gen_cases(rng, n // 2, nvars=nv, dm=dm, p_history=0.5, max_events=4)
            lines = []
            for d, evs in cases:
                other = charts.Gen(rng, max_states=4, dm=dm, nvars=nv).chart()
                while charts.xml(other, dm, nv) == charts.xml(d, dm, nv):      # "another document" must be another one
                    other = charts.Gen(rng, max_states=5, dm=dm, nvars=nv).chart()
                k = rng.randint(0, len(evs))
                lines.append(sline(engine, d, evs[:k], charts.events_for(rng, charts.Gen(rng), rng.randint(0, 4)), other, dm, nv))
            outs = run_serial(ctx, lines)
            for (d, evs), l, o in zip(cases, lines, outs):
                st["inputs"] += 1
                if any(x.kind in ("history", "hdeep") for x in d.walk()): st["with_history"] += 1
                v, why = judge(o)
                if v == "skip": st["skipped"] += 1; continue
                if v == "ok" and " bpe:" in o.split(" || ")[1][:60]: st["with_pending_events"] += 1
                if v == "ok": st["identical"] += 1; continue
                st["violations"] += 1
                if len(ctx.violations) < 4:
                    ctx.violation("resume-%d" % len(ctx.violations), "serialize", [l],
                                  detail="engine %s, datamodel %s: %s\nchart: %s\nprefix/continuation: %s" % (engine, dm, why, charts.sexpr(d)[:500], l.split("\t")[2:4]))
    ctx.add_suite("serialize", **st)
    suite_late(ctx, 60 if quick else 2000)
    suite_typed(ctx, 60 if quick else 2000)
    suite_delayed(ctx, 40 if quick else 600)
    # the hypothesis of restore_snapshot is what the engine model maintains: evaluated at every stable point
    sc = E.gen_cases(rng, 400 if quick else 10000, p_history=0.5, max_events=4)
    res = ctx.driver_lines("snapcheck", ["large\t%s\t%s" % (charts.sexpr(d), ",".join(e) or "-") for d, e in sc], timeout=1800)
    st2 = dict(inputs=len(sc), ok=0, stable_points=0, violations=0)
    for (d, e), r in zip(sc, res):
        if r.startswith("ok"): st2["ok"] += 1; st2["stable_points"] += int(r.split(" ")[1]); continue
        st2["violations"] += 1
        if len(ctx.violations) < 4:
            ctx.violation("snapshotable-%d" % len(ctx.violations), "snapshotable", [E.case_line("large", d, e)], found_input=False,
                          detail="the hypothesis of restore_snapshot (or its conclusion) fails on a state the engine model reaches: %s\nchart: %s events %s" % (r, charts.sexpr(d)[:500], e))
    ctx.add_suite("snapshotable", **st2)
    ctx.sample({"request": lines[0][:300]})
    ctx.coverage["evaluations"] = st["inputs"]
    ctx.coverage["distinct_nontrivial"] = st["identical"]
    ctx.coverage["rule"] = "random charts x prefix history; snapshot at the first stable configuration after the last prefix event (self-sent external events may be pending); serialize, deserialize into a fresh interpreter for the same document and for another one, run the continuation on both; both engines, null and lua (2 variables) datamodels; identical = same notifications, logs, configurations and a second snapshot that is byte-identical; plus the late-data family (lua, binding late/early, <data> inside states of a ring, counted up on entry and tested by conditions, snapshot anywhere in the history)"
    ctx.assumptions += ["invokers are not in the generated fragment (see DESIGN.md C14 partial)", "pending delayed events: differential only (the Lean snapshot model covers the engine state and the external queue), after every continuation step the harness waits until 1000 ms pass without an event (delays are 120-440 ms); every fourth document has two pending events of different age whose order of arrival depends on the snapshot carrying the remaining, not the original, delays (margins of 150 ms)"]


def replay(ctx, path):
    import uvlib
    return uvlib.generic_replay(ctx, path, [(None, "serial", None, None)])
