"""C05 Transpilers compute the chart's structural relations correctly (DESIGN.md section 6, C05)."""
from concurrent.futures import ThreadPoolExecutor
from uvlib import BrokenTie, chunks
from checks import enginelib as E
from checks.enginelib import charts, shrink
from checks import c01

THEOREMS = [
    ("UscxmlVerif.Properties.C05.conflicts_symm", "proved", "for all charts and transition pairs: conflictBools is symmetric"),
    ("UscxmlVerif.Properties.C05.conflicts_same_source", "proved", "transitions of one source state always conflict (in particular every transition with itself)"),
    ("UscxmlVerif.Properties.C05.exitSet_below_domain", "proved", "the static exit set contains only proper states strictly below the transition domain"),
    ("UscxmlVerif.Properties.C05.exitSet_targetless", "proved", "a targetless transition has an empty exit set"),
]
P = "UscxmlVerif.Properties.C05."
THEOREMS += [
    (P + "domain_is_w3c", "proved", "for every coherent chart and every transition of a real state with real (non-history) targets: the transition domain of Predicates.cpp (from which the embedded exit sets come) is Appendix D's getTransitionDomain, over raw or effective targets, whatever history is recorded"),
    (P + "exit_set_is_w3c", "proved", "in every configuration of real states Appendix D's computeExitSet of such a transition is exactly the active part of the embedded exitSetBools"),
    (P + "conflict_table_sound", "proved", "two such transitions whose exit sets intersect in any configuration (Appendix D's conflict) are marked in conflictBools"),
    (P + "conflict_table_exact", "proved", "for transitions whose sources are neither equal nor nested conflictBools says exactly that the static exit sets share a state"),
    (P + "ancestors_are_w3c", "proved", "ancBools is Appendix D's isDescendant"),
    ("UscxmlVerif.Proofs.Struct.findLCCA_eq", "proved", "findLCCA of Predicates.cpp (walk over getProperAncestors, fall back to the last one) is Appendix D's findLCCA on coherent charts"),
    (P + "flatten_is_coherent", "proved", "`Coherent` holds of flatten d for EVERY document d whose root is <scxml>, in which only scxml/state/parallel elements have state-like children and no child is an scxml element (pre-order numbering lemma: the stored parent number is smaller and names the node whose child it is; resortStates keeps a document well formed)"),
    ("UscxmlVerif.Proofs.Struct.coh_of_coherent", "proved", "the decidable predicate the driver evaluates on every generated chart gives the hypotheses the lemmas use"),
]
LEAN_FILES = ["UscxmlVerif.Properties.C05", "UscxmlVerif.Proofs.Struct", "UscxmlVerif.Proofs.Flatten"]
FINISH = {"level": "proof"}


def run_tables(ctx, cases):
    lines = [E.case_line("tables", d, []) for d, _ in cases]
    parts = list(chunks(lines, max(1, len(lines) // 16 + 1)))
    def work(part):
        rc, h, err = ctx.harness_lines("tables", part, timeout=1800)
        if rc != 0 or len(h) != len(part): raise BrokenTie("harness", "uvharness tables rc=%s %d/%d" % (rc, len(h), len(part)))
        return h, ctx.driver_lines("tables", part, timeout=1800)
    with ThreadPoolExecutor(16) as ex: res = list(ex.map(work, parts))
    return [x for h, _ in res for x in h], [x for _, d in res for x in d]


def first_field_diff(a, b):
    ta, tb = a.split(" "), b.split(" ")
    for x, y in zip(ta, tb):
        if x != y: return "code %s / model %s" % (x, y)
    return "lengths %d/%d" % (len(ta), len(tb))


def run(ctx):
    ctx.setup()
    ctx.audit(THEOREMS, LEAN_FILES)
    n = 3000 if ctx.tier == "quick" else 60000
    cases = c01.load_corpus("C01") + E.gen_cases(ctx.rng, n, sizes=(3, 6, 10, 16, 24), p_history=0.5, p_multi=0.3, p_internal=0.3)
    H, M = run_tables(ctx, cases)
    st = dict(inputs=len(cases), agree=0, states=0, transitions=0, histories=0, violations=0)
    for (d, _), a, b in zip(cases, H, M):
        st["states"] += a.count(" S") + 1; st["transitions"] += a.count(" T")
        st["histories"] += sum(1 for x in d.walk() if x.kind in ("history", "hdeep"))
        if a == b: st["agree"] += 1; continue
        st["violations"] += 1
        if len(ctx.violations) < 3:
            def pred(d2, e2):
                h, m = run_tables(ctx, [(d2, [])])
                return h[0] != m[0]
            try: d2, _ = shrink.shrink(d, [], pred, max_rounds=25)
            except Exception: d2 = d
            h, m = run_tables(ctx, [(d2, [])])
            ctx.violation("tables-%d" % len(ctx.violations), "tables", [E.case_line("tables", d2, [])],
                          detail="annotation of ChartToC::prepare differs from Model.Tables (= the relations of the recommendation)\nchart: %s\nfirst difference: %s" % (charts.sexpr(d2), first_field_diff(h[0], m[0])))
    # the hypotheses of the theorems on the generated charts
    lines = [E.case_line("tables", d, []) for d, _ in cases]
    C = [x for part in chunks(lines, 400) for x in ctx.driver_lines("coherent", part, timeout=1800)]
    st["coherent"] = sum(1 for x in C if "coh=1" in x)
    st["wellformed_docs"] = sum(1 for x in C if "wfdoc=1" in x)
    st["plain_transitions"] = sum(int(x.split("plain=")[1].split("/")[0]) for x in C if "plain=" in x)
    for (d, _), x in zip(cases, C):
        if not ("coh=1" in x and "wfdoc=1" in x) and not any(p.endswith("coherent.txt") for p, _ in ctx.violations):
            ctx.violation("coherent", "tables", [E.case_line("tables", d, [])], found_input=False,
                          detail="a generated (valid) document is outside the hypothesis `Coherent` of the C05 theorems (%s): they say nothing about it\nchart: %s" % (x, charts.sexpr(d)))
    ctx.add_suite("tables", **st)
    d, _ = cases[-1]
    ctx.sample({"chart": charts.sexpr(d)[:400], "annotation": H[-1][:300]})
    ctx.coverage["evaluations"] = st["inputs"]
    ctx.coverage["distinct_nontrivial"] = st["inputs"]
    ctx.coverage["rule"] = "documentOrder/parent/childBools/ancBools/completionBools (incl. history completion)/exitSetBools/conflictBools/targetBools of every state and transition of random charts (3-24 states, history p=0.5, multi-target, internal) as left in the DOM by ChartToC::prepare vs Model.Tables"
    ctx.assumptions += ["default completion, history completion, document/post-fix order, children and target sets have no specification other than Model.Tables itself (the flat chart `flatten` builds is shared with the Appendix D oracle of C01): for them the check is the bit-for-bit comparison only",
                        "transitions into history states and transitions of <initial>/<history> elements are outside `plainTrans` (recorded finding hist-domain)",
                        "the tables embedded in the emitted C / Promela / VHDL text are compared by C04 / C06 / C18"]


def replay(ctx, path):
    import uvlib
    return uvlib.generic_replay(ctx, path, [(None, "tables", "tables", None)])
