"""C06 The Promela model preserves the chart's behaviour (DESIGN.md section 6, C06).

The Promela text ChartToPromela emits for a document (promela datamodel) is executed by spin's
simulator (the model has a single process and no environment: external events are those the chart
sends to itself, so every execution visits the same sequence); its TRACE_EXECUTION lines are mapped
back to the trace alphabet - dequeued events, exited / entered states, transitions taken, log
lines - and compared with the Lean model of the interpreter on the same document (Model.Large, tied
to the compiled interpreter by C01's lua/promela-independent suites and re-checked here against the
compiled interpreter with the promela datamodel).
"""
import os, re, subprocess, tempfile, shutil
from concurrent.futures import ThreadPoolExecutor
from uvlib import BrokenTie, hexs, chunks, WORK
from checks import enginelib as E
from checks.enginelib import charts, shrink
from checks import c01

THEOREMS = []
FINISH = {"level": "translation_validation"}
LEAN_FILES = ["UscxmlVerif.Model.Large"]
NV = 2


def abs_interp(tokens, pseudo=()):
    """the property's observables: configurations (exits and entries in order), executed content (log lines in
    order), transitions taken - those of <initial> and <history> elements excepted (the model does not announce
    them); which events are dequeued is not part of the statement (the model drops events nobody listens to)"""
    out = []
    for t in tokens:
        if t.startswith(("bx:", "be:", "log:")): out.append(t)
        elif t.startswith("bt:"):
            if t.endswith("/i") or t[3:].rsplit(".", 1)[0] in pseudo: continue
            out.append(t)
        elif t == "DIVERGE" or t.startswith(("CRASH", "EXC", "EXIT", "SPIN", "EMIT")): out.append(t)
    return out


def pseudo_ids(d):
    return set(n.id for n in d.walk() if n.kind in ("history", "hdeep", "initial"))


def parse_spin(text, pml, names):
    """TRACE_EXECUTION lines -> tokens"""
    lit = {}
    for m in re.finditer(r"^#define (\S+) (\d+) /\* (.*?) \*/$", pml, re.M):
        if not m.group(3).startswith(("index for",)): lit[int(m.group(2))] = m.group(3)
    out = []
    pending = None
    for line in text.split("\n"):
        l = line.strip()
        for lab in re.findall(r"\b(L\d+)\b", l):
            out.append("log:" + lab)
        m = re.search(r"Establishing optimal transition set for event (\d+)", l)
        if m:
            n = int(m.group(1))
            if n != 0 and pending: out.append("bpe:" + lit.get(n, "?%d" % n))
            pending = None
            continue
        if "Deqeued an internal event" in l or "Deqeued an external event" in l: pending = True; continue
        m = re.search(r"Exiting state (\d+)", l)
        if m: out.append("bx:" + names.get("S" + m.group(1), "?")); continue
        m = re.search(r"Entering state (\d+)", l)
        if m: out.append("be:" + names.get("S" + m.group(1), "?")); continue
        m = re.search(r"Taking transition (\d+)", l)
        if m: out.append("bt:" + names.get("T" + m.group(1), "?")); continue
    if "timeout" not in text and "processes created" not in text and not out: out.append("SPIN:" + text.strip()[:150].replace(" ", "_").replace("\n", "|"))
    return out


def emit(ctx, docs):
    lines = ["promela\t-\t%s" % hexs(getattr(d, "pml_xml", None) or charts.xml(d, "promela", NV)) for d in docs]
    parts = list(chunks(lines, max(1, (len(lines) + 15) // 16)))
    def work(part):
        rc, h, err = ctx.harness_lines("emit", part, timeout=3600)
        if rc != 0 or len(h) != len(part): raise BrokenTie("harness", "uvharness emit rc=%s" % rc)
        return h
    with ThreadPoolExecutor(16) as ex: return [x for part in ex.map(work, parts) for x in part]


def spin_traces(ctx, docs, steps=20000):
    H = emit(ctx, docs)
    N = ctx.driver_lines("names", ["x\t" + charts.sexpr(d) for d in docs], timeout=1800)
    workdir = tempfile.mkdtemp(prefix="c06-", dir=WORK)
    try:
        def work(i):
            h = H[i]
            if h.startswith(("EXC", "CRASH", "EXIT", "bad")): return ["EMIT:" + h]
            pml = bytes.fromhex(h).decode("latin-1")
            d = os.path.join(workdir, "m%d" % i); os.makedirs(d)
            with open(os.path.join(d, "m.pml"), "w", encoding="latin-1") as f: f.write(pml)
            try:
                p = subprocess.run(["spin", "-u%d" % steps, "m.pml"], cwd=d, stdout=subprocess.PIPE, stderr=subprocess.STDOUT, universal_newlines=True, timeout=60)
                text = p.stdout
            except subprocess.TimeoutExpired:
                return ["SPIN:timeout"]
            finally:
                shutil.rmtree(d, ignore_errors=True)
            if "Error:" in text or "error:" in text.split("\n")[0]:
                return ["SPIN:" + [l for l in text.split("\n") if "rror" in l][0][:200].replace(" ", "_")]
            names = dict(kv.split("=", 1) for kv in N[i].split(" ") if "=" in kv)
            return parse_spin(text, pml, names)
        with ThreadPoolExecutor(16) as ex: return list(ex.map(work, range(len(docs))))
    finally:
        shutil.rmtree(workdir, ignore_errors=True)


def suite(ctx, name, docs):
    S = spin_traces(ctx, docs)
    lines = [E.case_line("large", d, [], "promela", NV) for d in docs]
    H, M = E.run_batches(ctx, lines)
    st = dict(inputs=len(docs), agree=0, refused=0, queue_bound=0, resimulated=0, spin_errors=0, violations=0, i_ne_m=0, tokens=0, known=0)
    for d, s, h, m in zip(docs, S, H, M):
        if s and s[0].startswith("EMIT:EXC"): st["refused"] += 1; continue
        if s and s[0].startswith("SPIN") and "d_step_blocks" in s[0]:
            # a send to a full channel: the model's queues are bounded (sized from the number of raise/send
            # elements); spin reports this as an error of the model, it is not a silent deviation
            st["queue_bound"] += 1; continue
        want = abs_interp(m.split(" "), pseudo_ids(d))
        s = abs_interp(s, pseudo_ids(d))
        if "DIVERGE" not in want and len(s) < len(want) and want[:len(s)] == s:
            # a prefix: either the model stops early, or the simulation was cut off by spin's step bound (-u; a model that waits
            # for events idles up to that bound, so the cut itself says nothing): simulate again with 100 times the steps
            s = abs_interp(spin_traces(ctx, [d], steps=2000000)[0], pseudo_ids(d)); st["resimulated"] += 1
        st["tokens"] += len(s)
        if h != m: st["i_ne_m"] += 1
        if "DIVERGE" in want:
            k = min(len(want), len(s)) - 1
            ok = k >= 0 and want[:k] == s[:k]
        else:
            ok = want == s
        if ok:
            st["agree"] += 1
            continue
        if not (s and s[0].startswith(("SPIN", "EMIT"))) and charts.has_nested_targetless_pair(d):
            # the recorded finding is precise: Appendix D with the transpilers' selection (every transition a candidate, static
            # conflict table). Only a model that behaves exactly like that is the known deviation
            _, T = E.run_batches(ctx, [E.case_line("spectq" if c01.classify(d) else "spect", d, [], "promela", NV)], want_harness=False, nproc=1)
            t = abs_interp(T[0].split(" "), pseudo_ids(d))
            if "DIVERGE" in T[0] or t == s:
                st["known"] += 1; ctx.known("nested-targetless", ""); continue
        if s and s[0].startswith("SPIN"): st["spin_errors"] += 1
        st["violations"] += 1
        if len(ctx.violations) < 4:
            def pred(d2, _):
                if c01.classify(d2) or charts.has_nested_targetless_pair(d2): return False
                s2 = spin_traces(ctx, [d2], steps=200000)[0]
                _, m2 = E.run_batches(ctx, [E.case_line("large", d2, [], "promela", NV)], want_harness=False, nproc=1)
                w2 = abs_interp(m2[0].split(" "), pseudo_ids(d2)); s2 = abs_interp(s2, pseudo_ids(d2))
                if s and s[0].startswith("SPIN"): return bool(s2) and s2[0].startswith("SPIN") and "d_step_blocks" not in s2[0]
                return w2 != s2 and "DIVERGE" not in w2 and not (s2 and s2[0].startswith(("SPIN", "EMIT")))
            try: d2, _ = shrink.shrink(d, [], pred, max_rounds=25) if not getattr(d, "pml_xml", None) else (d, None)
            except Exception: d2 = d
            s2 = spin_traces(ctx, [d2], steps=2000000)[0]
            _, m2 = E.run_batches(ctx, [E.case_line("large", d2, [], "promela", NV)], want_harness=False, nproc=1)
            w2 = abs_interp(m2[0].split(" "), pseudo_ids(d2)); s2 = abs_interp(s2, pseudo_ids(d2))
            k = E.first_diff(w2, s2)
            why = s2[0][:300] if s2 and s2[0].startswith(("SPIN", "EMIT")) else "at token %d: interpreter %s / Promela model %s" % (k, " ".join(w2[max(0, k - 3):k + 3]), " ".join(s2[max(0, k - 3):k + 3]))
            px = getattr(d2, "pml_xml", None)
            ctx.violation("pml-%d" % len(ctx.violations), name, [E.case_line("large", d2, [], "promela", NV) + ("\tPMLXML=" + hexs(px) if px else "")],
                          detail="the emitted Promela model and the interpreter differ %s\nchart: %s\ndocument: %s" % (why, charts.sexpr(d2), (px or charts.xml(d2, "promela", NV))[:1500]))
    ctx.add_suite(name, **st)
    return st


def gen(rng, n):
    docs = []
    while len(docs) < n:
        g = charts.Gen(rng, max_states=rng.choice([3, 5, 8]), p_fail=0.0, dm="promela", nvars=NV, allow_in=False)   # the back-end's In() support (_x.states) does not produce valid Promela
        d = g.chart()
        if c01.classify(d): continue
        docs.append(d)
    return docs


def delay_cases(rng, n):
    """delayed sends: the boot state sends the event history with distinct delays (200 ms apart, written as ms, s or unit-less) in a shuffled document order;
    the events are due in the order of the history, so the expected run is that of the same chart with the sends in history
    order and no delays (which is what the Lean model and the interpreter are given). The chart proper sends nothing."""
    out = []
    while len(out) < n:
        g = charts.Gen(rng, max_states=rng.choice([3, 5, 8]), p_fail=0.0, dm="promela", nvars=NV, allow_in=False)
        d0 = g.chart()
        if c01.classify(d0) or "(send " in charts.sexpr(d0): continue
        evs = charts.events_for(rng, g, rng.randint(3, 6))
        d = E.selfdriven([(d0, evs)])[0]
        xml = charts.xml(d, "promela", NV)
        sends = re.findall(r'<send event="[^"]*" uvid="1\d\d"/>', xml)
        if len(sends) != len(evs) or len(sends) < 3: continue
        block = "".join(sends)
        if block not in xml: continue
        def css(ms): return rng.choice(["%dms" % ms, "%d" % ms, ("%gs" % (ms / 1000.0))])      # CSS2 times; unit-less = milliseconds
        delayed = [x.replace(' uvid=', ' delay="%s" uvid=' % css(200 * (i + 1))) for i, x in enumerate(sends)]
        order = list(range(len(sends)))
        while order == sorted(order): rng.shuffle(order)
        d.pml_xml = xml.replace(block, "".join(delayed[i] for i in order))
        d.delay_order = order
        out.append(d)
    return out


def run(ctx):
    ctx.setup(variants=("plain",))
    ctx.audit(THEOREMS, LEAN_FILES)
    quick = ctx.tier == "quick"
    rng = ctx.rng
    s1 = suite(ctx, "promela-random", gen(rng, 150 if quick else 5000))
    s2 = suite(ctx, "promela-history-revisit", E.history_revisit_selfdriven(rng, 40 if quick else 1200))
    s3 = suite(ctx, "promela-parallel-done", E.selfdriven(E.parallel_done_cases(rng, 30 if quick else 1000)))
    s3b = suite(ctx, "promela-parallel-done-same-step", E.selfdriven(E.parallel_done_simul_cases(rng, 30 if quick else 1000)))
    s4 = suite(ctx, "promela-nested-if", [d for d, _ in E.nested_if_cases(rng, 40 if quick else 1500, NV)])
    s5 = suite(ctx, "promela-delays", delay_cases(rng, 40 if quick else 1200))
    ctx.coverage["evaluations"] = s1["inputs"] + s2["inputs"] + s3["inputs"] + s3b["inputs"] + s4["inputs"] + s5["inputs"]
    ctx.coverage["distinct_nontrivial"] = s1["agree"]
    ctx.coverage["rule"] = ("random charts of 3-8 states with the promela datamodel (two integer variables; parallel, history, finals, internal/targetless/multi-target/eventless transitions; "
                            "raise/send to self/assign/if/log in every kind of block; conditions on variables and configuration), interpreted without outside events: the chart's own sends are the external events; "
                            "plus the history-revisit family (a compound state with shallow/deep history left and re-entered through the history 2-4 times with a different child active each time, the event history sent by a boot state) the parallel-done family (regions with or without history children all reach their finals), the same-step family (several regions enter their finals in one microstep - shared event or multi-target transition - beside an observer region that counts the done events) and executable content with <if>/<elseif>/<else> nested three deep; "
                            "non-trivial = models whose whole simulation agrees with the interpreter")
    ctx.assumptions += ["spin's simulator executes the model faithfully; one simulation run suffices because the emitted model has one process and no nondeterministic choice in the compared fragment",
                        "nested machines and LTL verification (pan) are outside the compared fragment; delayed sends are compared in the family promela-delays only (sends of one block with distinct delays: due order = order of the delays)",
                        "the model's event queues are bounded: documents whose run overflows them (spin: 'stmnt in d_step blocks') are counted as queue_bound, not compared",
                        "conditions on the configuration (In) are not generated: the back-end's _x.states support does not produce valid Promela",
                        "comparison by running, per document: no theorem about the emitted model"]


def replay(ctx, path):
    ctx.setup(variants=("plain",))
    for line in open(path):
        if "\t" not in line or line.startswith(("#", "property=")): continue
        f = line.rstrip("\n").split("\t")
        d = charts.from_sexpr(f[1])
        px = [x for x in f if x.startswith("PMLXML=")]
        if px: d.pml_xml = bytes.fromhex(px[0][7:]).decode()
        s = spin_traces(ctx, [d], steps=2000000)[0]
        _, m = E.run_batches(ctx, [E.case_line("large", d, [], "promela", NV)], want_harness=False, nproc=1)
        print("chart:", f[1]); print("P :", " ".join(abs_interp(s, pseudo_ids(d)))[:2500]); print("I :", " ".join(abs_interp(m[0].split(" "), pseudo_ids(d)))[:2500])
    return 0
