"""C08 External events are processed exactly once, in order, at macrostep boundaries (DESIGN.md section 6, C08).

Theorems (Properties/C08.lean): (1) Model.EventQueue - for every interleaving of any number of
producers with the consumer nothing is lost, duplicated or reordered, per-sender order is kept;
(2) Model.Large/Fast.step - an external event is only taken at a macrostep boundary, internal
events are processed in raise order, the oldest external event is taken. Suites:

  pending-externals  I = M (Model.Api) with several external events queued before / while the
                     interpreter runs charts that raise internal events and have eventless
                     transitions (ASan build)
  threads            N producer threads call receive() while the interpreter is stepped in
                     blocking / polling / mixed mode, half of them before the first step();
                     afterwards cancel() from another thread must unblock a blocked step().
                     ThreadSanitizer build: a data race ends the run. Oracle: every event once,
                     per-producer order, each followed by the internal events it raised
"""
import re
from concurrent.futures import ThreadPoolExecutor
from uvlib import BrokenTie, hexs, chunks
from checks import enginelib as E
from checks.enginelib import charts, shrink
from checks import c10

P = "UscxmlVerif.Properties.C08."
THEOREMS = [
    (P + "queue_is_fifo", "proved", "for EVERY schedule of enqueue/dequeue operations of any number of threads: dequeued ++ still-queued = the enqueued events in the order their calls took the mutex (nothing lost, duplicated, reordered)"),
    (P + "per_sender_order", "proved", "the events of one sender are dequeued in the order it sent them"),
    (P + "drained_exactly_once", "proved", "once the queue is empty exactly the enqueued events were delivered, once each"),
    (P + "external_only_when_quiescent", "proved", "for every chart, engine and engine state that is not at a macrostep boundary (eventless transition pending, internal queue non-empty, stable configuration not yet reported, initial or final step): step takes nothing from the external queue"),
    (P + "internal_events_in_raise_order", "proved", "the internal event processed is the head of the internal queue; events raised by the micro-step are appended behind those already waiting"),
    (P + "external_events_in_arrival_order", "proved", "at a macrostep boundary the oldest external event is taken (once) and announced; self-sent events queue behind the waiting ones"),
]
LEAN_FILES = ["UscxmlVerif.Properties.C08"]

DOCS = {
    "raise2": '<scxml xmlns="http://www.w3.org/2005/07/scxml" version="1.0" datamodel="null"><state id="s"><transition event="p"><raise event="i1"/><raise event="i2"/></transition><transition event="i1"/><transition event="i2"/></state></scxml>',
    "chain": '<scxml xmlns="http://www.w3.org/2005/07/scxml" version="1.0" datamodel="null"><state id="a"><transition event="p" target="b"><raise event="i1"/></transition><transition event="i1"/></state>'
             '<state id="b"><transition target="c"><raise event="i2"/></transition></state><state id="c"><transition target="a"/></state></scxml>',
    "plain": '<scxml xmlns="http://www.w3.org/2005/07/scxml" version="1.0" datamodel="null"><state id="s"><transition event="p"/></state></scxml>',
    "selfsend": '<scxml xmlns="http://www.w3.org/2005/07/scxml" version="1.0" datamodel="null"><state id="s"><transition event="p"><send event="x"/><raise event="i1"/></transition><transition event="i1"/><transition event="x"/></state></scxml>',
}
# the internal events every external event p.* is followed by, before the next external one is taken
FOLLOW = {"raise2": ["i1", "i2"], "chain": ["i1", "i2"], "plain": [], "selfsend": ["i1"]}


def check_threads(doc, nprod, nper, toks):
    bad = [t for t in toks if t.startswith(("CRASH", "EXIT", "EXC"))]
    if bad:
        if "EXIT:66" in bad: return "ThreadSanitizer reported a data race (see replay: run the line with TSAN_OPTIONS unset to read the report)"
        return "abnormal end: " + bad[0]
    if toks[-1] != "end": return "did not reach the end"
    if "unblocked" not in toks: return "cancel() from another thread did not unblock the blocked step() in time: " + " ".join(toks[-6:])
    k = toks.index("drained")
    tail = [t for t in toks[k + 1:] if t.startswith("ret:")]
    if tail[-2:] != ["ret:CANCELLED", "ret:FINISHED"] and tail != ["ret:FINISHED"]:
        return "after cancel() the results of step() were %s" % tail
    evs = [t[4:] for t in toks[:k] if t.startswith("bpe:")]
    ext = [e for e in evs if e.startswith("p.")]
    want = set("p.%d.%d" % (p, i) for p in range(nprod) for i in range(nper))
    if len(ext) != len(set(ext)): return "an external event was processed twice: %s" % [e for e in set(ext) if ext.count(e) > 1][:3]
    if set(ext) != want: return "external events lost: %s" % sorted(want - set(ext))[:5]
    last = {}
    for e in ext:
        _, p, i = e.split(".")
        if int(i) != last.get(p, -1) + 1: return "events of producer %s processed out of order: %s after %s" % (p, i, last.get(p, -1))
        last[p] = int(i)
    # internal events raised by an external one are processed before the next external one
    i = 0
    follow = FOLLOW[doc]
    while i < len(evs):
        if evs[i].startswith("p."):
            got = []
            j = i + 1
            while j < len(evs) and not evs[j].startswith("p.") and evs[j] != "x": got.append(evs[j]); j += 1
            if got != follow: return "after %s the internal events %s were processed before the next external event, expected %s" % (evs[i], got, follow)
            i = j
        else:
            i += 1
    if doc == "selfsend" and evs.count("x") != len(ext): return "self-sent events: %d processed, %d sent" % (evs.count("x"), len(ext))
    return None


def suite_threads(ctx, n):
    rng = ctx.rng
    cases = []
    for _ in range(n):
        cases.append((rng.choice(list(DOCS)), rng.choice(["large", "fast"]), rng.choice([1, 2, 3, 4, 6, 8]), rng.choice([5, 20, 40, 80]), rng.choice(["block", "poll", "mixed"])))
    lines = ["%s\t%d\t%d\t%s\t%s" % (eng, np_, nper, mode, hexs(DOCS[doc])) for doc, eng, np_, nper, mode in cases]
    parts = list(chunks(lines, max(1, (len(lines) + 7) // 8)))
    def work(part):
        rc, h, err = ctx.harness_lines("threads", part, variant="tsan", timeout=3600, env={"TSAN_OPTIONS": "halt_on_error=1 exitcode=66"})
        if rc != 0 or len(h) != len(part): raise BrokenTie("harness", "uvharness threads rc=%s %d/%d %s" % (rc, len(h), len(part), err[-300:]))
        return h
    with ThreadPoolExecutor(8) as ex: H = [x for part in ex.map(work, parts) for x in part]
    st = dict(inputs=len(cases), ok=0, events=0, producers=0, violations=0)
    for (doc, eng, np_, nper, mode), l, h in zip(cases, lines, H):
        toks = h.split(" ")
        st["events"] += np_ * nper; st["producers"] += np_
        why = check_threads(doc, np_, nper, toks)
        if why is None:
            st["ok"] += 1
            continue
        st["violations"] += 1
        if len(ctx.violations) < 4:
            ctx.violation("threads-%d" % len(ctx.violations), "threads", [l],
                          detail="document %s, engine %s, %d producers x %d events, stepping mode %s: %s\ntrace tail: %s" % (doc, eng, np_, nper, mode, why, " ".join(toks[-12:])))
    ctx.add_suite("threads", **st)
    ctx.sample({"suite": "threads", "case": list(cases[0]), "trace_head": H[0][:300]})


def suite_pending(ctx, n):
    rng = ctx.rng
    cases = []
    for _ in range(n):
        g = charts.Gen(rng, max_states=rng.choice([3, 5, 8]), p_exec=0.7, p_eventless=0.3, p_final=0.15, p_fail=0.05)
        d = g.chart()
        ops = []
        if rng.random() < 0.5: ops.append("q")
        for _ in range(rng.randint(1, 3)):
            ops += ["e:" + rng.choice(["e", "f", "g"]) for _ in range(rng.randint(2, 5))]
            ops += rng.choice([["q"], ["s", "s", "q"], ["s"] * rng.randint(1, 6)])
        ops.append("q")
        cases.append((d, ops))
    st = dict(inputs=0, agree=0, externals=0, violations=0)
    for eng in ("large", "fast"):
        lines = [c10.api_line(eng, d, ops) for d, ops in cases]
        H, M = c10.run_api(ctx, lines)
        for (d, ops), l, h, m in zip(cases, lines, H, M):
            st["inputs"] += 1; st["externals"] += sum(1 for o in ops if o.startswith("e:"))
            if h == m and not any(t.startswith(c10.BADTOK) for t in h.split(" ")):
                st["agree"] += 1
                continue
            st["violations"] += 1
            if len(ctx.violations) < 4:
                th, tm = h.split(" "), m.split(" ")
                k = E.first_diff(th, tm)
                def pred(d2, o2):
                    h2, m2 = c10.run_api(ctx, [c10.api_line(eng, d2, o2)])
                    return h2[0] != m2[0]
                try: d2, o2 = shrink.shrink(d, ops, pred, max_rounds=20)
                except Exception: d2, o2 = d, ops
                ctx.violation("pending-%d" % len(ctx.violations), "pending-externals", [c10.api_line(eng, d2, o2)],
                              detail="engine %s, operations %s: interpreter and model differ at token %d: I %s / M %s\nchart: %s" % (eng, ",".join(o2), k, " ".join(th[k - 3:k + 4]), " ".join(tm[k - 3:k + 4]), charts.sexpr(d2)))
    ctx.add_suite("pending-externals", **st)


WAKE_DOC = ('<scxml xmlns="http://www.w3.org/2005/07/scxml" version="1.0" datamodel="null"><state id="a"><transition event="ierr" target="b"/>'
            '<transition event="ext" target="c"/></state><state id="b"><transition event="ext" target="ok"/></state><state id="c"><transition event="ierr" target="late"/></state>'
            '<state id="late"/><state id="ok"/></scxml>')


def suite_wakeup(ctx, n):
    """an internal event put on the queue by another thread while step() blocks on the external queue (what the timer thread does when
    the delivery of a delayed <send> fails): it is followed by the empty wake-up event and, right behind it, an external event. The
    step must come back for the internal event first - whatever the timing, because the wake-up precedes the external event in the
    queue and the internal event was there before both."""
    from uvlib import hexs
    rng = ctx.rng
    lines = []
    for k in range(n):
        eng = ("large", "fast")[k % 2]
        pre = rng.choice(["q", "q,g", "s,s,q"])
        lines.append("%s\t-\t%s,k:%d,q,q\t%s" % (eng, pre, rng.choice([0, 1, 5, 20, 40]), hexs(WAKE_DOC)))
    parts = list(chunks(lines, max(1, (len(lines) + 7) // 8)))
    def work(part):
        rc, h, err = ctx.harness_lines("api", part, variant="asan", timeout=1800)
        if rc != 0 or len(h) != len(part): raise BrokenTie("harness", "uvharness api rc=%s" % rc)
        return h
    with ThreadPoolExecutor(8) as ex: H = [x for part in ex.map(work, parts) for x in part]
    st = dict(inputs=len(lines), internal_first=0, violations=0)
    for l, h in zip(lines, H):
        t = h.split(" ")
        ev = [x for x in t if x in ("bpe:ierr", "bpe:ext")]
        bad = [x for x in t if x.startswith(("CRASH", "EXIT", "EXC", "bad-op"))]
        if ev == ["bpe:ierr", "bpe:ext"] and "cfg:root,ok" in t and not bad: st["internal_first"] += 1; continue
        st["violations"] += 1
        if len(ctx.violations) < 3:
            ctx.violation("wakeup-%d" % len(ctx.violations), "wakeup", [l],
                          detail="the external event was taken while an internal event was pending (or an event was lost): events processed %s, %s\ntrace: %s"
                          % (ev, bad, " ".join(x for x in t if not x.startswith("cfg:"))[:800]))
    ctx.add_suite("wakeup", **st)


def run(ctx):
    ctx.setup(variants=("asan", "tsan"))
    ctx.audit(THEOREMS, LEAN_FILES)
    quick = ctx.tier == "quick"
    suite_pending(ctx, 700 if quick else 20000)
    suite_threads(ctx, 60 if quick else 1500)
    suite_wakeup(ctx, 60 if quick else 2000)
    s1, s2 = ctx.coverage["suites"]["pending-externals"], ctx.coverage["suites"]["threads"]
    ctx.coverage["evaluations"] = s1["inputs"] + s2["inputs"]
    ctx.coverage["distinct_nontrivial"] = s2["events"]
    ctx.coverage["rule"] = ("random charts raising internal events and with eventless transitions x operation sequences that queue 2-5 external events at a time before stepping; "
                            "thread runs: 4 documents x 1-8 producer threads x 5-80 events each x blocking/polling/mixed stepping x both engines on the ThreadSanitizer build; "
                            "non-trivial = external events sent from producer threads")
    ctx.assumptions += ["the order in which concurrent receive() calls took the queue mutex is not observable; the oracle checks what must hold for every such order (exactly once, per-sender order)",
                        "ThreadSanitizer sees the interleavings that occur in these runs, not all"]


def replay(ctx, path):
    ctx.setup(variants=("asan", "tsan"))
    for line in open(path):
        if "\t" not in line or line.startswith(("#", "property=")): continue
        l = line.rstrip("\n")
        f = l.split("\t")
        if len(f) == 5:
            rc, h, err = ctx.harness_lines("threads", [l], variant="tsan", env={"TSAN_OPTIONS": "exitcode=66"})
            print("I:", h[0][-1500:]); print(err[-3000:])
        else:
            h, m = c10.run_api(ctx, [l]); print("I:", h[0][:3000]); print("M:", m[0][:3000])
    return 0
