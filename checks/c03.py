"""C03 The two micro-step engines are interchangeable (DESIGN.md section 6, C03)."""
from uvlib import BrokenTie
from checks import enginelib as E
from checks.enginelib import charts, shrink
from checks import c01

THEOREMS = [
    ("UscxmlVerif.Properties.C02.configuration_is_legal_partial", "proved", "PARTIAL: both engines alike keep the configuration legal (all six clauses of Spec.Legal.legal) on charts without <history>/<initial> elements meeting the decidable chart conditions, for every sequence of API operations"),
    ("UscxmlVerif.Properties.C03.both_engines_keep_complete_partial", "proved", "PARTIAL: on history-free coherent charts meeting the decidable DownOk (evaluated on the generated charts by check C02) a step of either engine keeps the configuration complete downwards: all children of an active parallel state, a child of an active compound state"),
    ("UscxmlVerif.Properties.C03.both_engines_keep_parents_partial", "proved", "PARTIAL: on history-free coherent charts with plain selectable transitions (decidable, evaluated on the generated charts by check C02) a step of either engine keeps the configuration parent-closed and inside the chart"),
    ("UscxmlVerif.Properties.C03.fast_selection_conflict_free_w3c_of_document", "proved", "PARTIAL: for every well-formed document FastMicroStep's selected set is conflict-free in Appendix D's sense, as LargeMicroStep's is (C01)"),
    ("UscxmlVerif.Properties.C03.fast_selection_conflict_free_w3c", "proved", "PARTIAL: FastMicroStep's selected set is conflict-free in Appendix D's sense as well (same hypotheses as C01.selection_conflict_free_w3c; evaluated on the generated charts by check C01/C05)"),
    ("UscxmlVerif.Properties.C03.both_engines_select_conflict_free_partial", "proved", "PARTIAL: both engine models select conflict-free transition sets on every chart and input (LargeMicroStep by checking candidates against the set so far, FastMicroStep through its accumulated pre-computed conflict sets)"),
    ("UscxmlVerif.Properties.C03.both_engines_keep_configuration_a_set", "proved", "both engines keep the configuration ascending, duplicate-free and free of pseudo-states"),
]
FINISH = {"level": "exploration"}   # trace equality of the two engines is decided by running them side by side
LEAN_FILES = ["UscxmlVerif.Properties.C03", "UscxmlVerif.Proofs.Select", "UscxmlVerif.Proofs.Interval", "UscxmlVerif.Proofs.Subtree", "UscxmlVerif.Proofs.ParentsFast", "UscxmlVerif.Proofs.DownFast", "UscxmlVerif.Proofs.DownRunFast", "UscxmlVerif.Properties.C02", "UscxmlVerif.Proofs.XorFast"]


def run(ctx):
    ctx.setup()
    ctx.audit(THEOREMS, LEAN_FILES)
    n = 3000 if ctx.tier == "quick" else 24000
    cases = c01.load_corpus("C01") + c01.load_corpus("C03") + c01.load_corpus("C13") + E.exhaustive_cases(ctx.tier) + E.gen_cases(ctx.rng, n)
    L, ML = E.run_batches(ctx, [E.case_line("large", d, e) for d, e in cases])
    F, MF = E.run_batches(ctx, [E.case_line("fast", d, e) for d, e in cases])
    st = dict(inputs=len(cases), equal=0, known=0, large_ne_fast=0, fast_ne_model=0, large_ne_model=0, model_fast_ne_model_large=0, tokens=0, diverging=0)
    broken = []
    for i, (d, evs) in enumerate(cases):
        st["tokens"] += len(L[i].split(" "))
        if "DIVERGE" in L[i]: st["diverging"] += 1
        if L[i] != ML[i]: st["large_ne_model"] += 1
        if F[i] != MF[i]: st["fast_ne_model"] += 1
        if ML[i] != MF[i]: st["model_fast_ne_model_large"] += 1
        if L[i] == F[i]:
            st["equal"] += 1
            if F[i] != MF[i] or L[i] != ML[i]: broken.append((d, evs))
            continue
        st["large_ne_fast"] += 1
        if "hist-shared" in c01.classify(d) and "hist-shared" in ctx.findings and L[i] == ML[i] and F[i] == MF[i]:
            # the recorded finding: with nested histories LargeMicroStep restores what another history recorded (its shared
            # history set), FastMicroStep does not - known only when each engine does exactly what its model predicts
            st["known"] += 1; ctx.known("hist-shared", ""); continue
        if len(ctx.violations) < 3:
            def pred(d2, e2):
                if "hist-shared" in c01.classify(d2): return False
                a, _ = E.run_batches(ctx, [E.case_line("large", d2, e2)], want_driver=False, nproc=1)
                b, _ = E.run_batches(ctx, [E.case_line("fast", d2, e2)], want_driver=False, nproc=1)
                return a[0] != b[0]
            try: d2, e2 = shrink.shrink(d, evs, pred, max_rounds=20)
            except Exception: d2, e2 = d, evs
            a, _ = E.run_batches(ctx, [E.case_line("large", d2, e2)], want_driver=False, nproc=1)
            b, _ = E.run_batches(ctx, [E.case_line("fast", d2, e2)], want_driver=False, nproc=1)
            ta, tb = a[0].split(" "), b[0].split(" "); k = E.first_diff(ta, tb)
            ctx.violation("engines-%d" % len(ctx.violations), "large-vs-fast", [E.case_line("large", d2, e2), E.case_line("fast", d2, e2)],
                          detail="the engines differ\nchart: %s\nevents: %s\ncommon prefix: %s\nlarge: %s\nfast : %s" % (
                              charts.sexpr(d2), e2, " ".join(ta[max(0, k - 8):k]), " ".join(ta[k:k + 12]), " ".join(tb[k:k + 12])))
    if broken and not ctx.violations:
        d, evs = broken[0]
        ctx.violation("correspondence", "trace-fast", [E.case_line("fast", d, evs)], found_input=False,
                      detail="an engine and its Lean model differ on %d inputs although both engines agree; first: %s %s" % (len(broken), charts.sexpr(d), evs))
    ctx.coverage.setdefault("suites", {})["large-vs-fast"] = st
    d, e = cases[-1]
    ctx.sample({"chart": charts.sexpr(d)[:500], "events": e})
    ctx.coverage["evaluations"] = st["inputs"]
    ctx.coverage["distinct_nontrivial"] = st["inputs"] - st["diverging"]
    ctx.coverage["rule"] = "the same random charts and histories through both compiled engines (full monitor alphabet, logs, step() results, configurations) and through Model.Large / Model.Fast; non-trivial = run reaches quiescence"
    ctx.assumptions += ["IRP corpus with lua/promela datamodels: thorough tier of the datamodel suites", "WITH_CACHE_FILES switched off (USCXML_NOCACHE_FILES=1); cache behaviour belongs to C20"]


def replay(ctx, path):
    import uvlib
    return uvlib.generic_replay(ctx, path, [("large", "trace", "trace", None), ("fast", "trace", "trace", None)])
