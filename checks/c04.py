"""C04 Generated ANSI-C machine behaves like the interpreted chart (DESIGN.md section 6, C04).

The text ChartToC emits for a document is compiled (gcc, ASan+UBSan, with the sizing macros the
generator itself emits) together with gen/cdriver.c - callbacks of the null datamodel - and driven
with the same external events as the interpreter. Compared: the sequence of dequeued events, log
lines (executable content in onentry/onexit/transitions, in order) and configurations after every
micro-step, against the Lean model of the interpreter (Model.Large, which the C01 suites tie to the
compiled interpreter token by token) and against the interpreter itself.
"""
import os, subprocess, tempfile, shutil
from concurrent.futures import ThreadPoolExecutor
from uvlib import BrokenTie, hexs, chunks, VERIF, WORK
from checks import enginelib as E
from checks.enginelib import charts, shrink
from checks import c01

THEOREMS = []
FINISH = {"level": "translation_validation"}
LEAN_FILES = ["UscxmlVerif.Model.Large"]
DRIVER_C = os.path.join(VERIF, "gen", "cdriver.c")


def abs_interp(tokens):
    """what a generated machine can show: dequeued events, log lines, configuration after each micro-step"""
    out, last = [], None
    for i, t in enumerate(tokens):
        if t.startswith(("bpe:", "log:")): out.append(t)
        elif t == "ret:MICROSTEPPED" and i + 1 < len(tokens) and tokens[i + 1].startswith("cfg:"):
            if tokens[i + 1] != last: out.append(tokens[i + 1]); last = tokens[i + 1]
        elif t in ("DIVERGE",) or t.startswith(("CRASH", "EXC", "EXIT")): out.append(t)
    return out


def abs_c(tokens):
    out, last = [], None
    for t in tokens:
        if t.startswith(("bpe:", "log:")): out.append(t)
        elif t.startswith("cfg:"):
            if t != last: out.append(t); last = t
        elif t == "DIVERGE" or t.startswith(("CRASH", "SAN", "ret:3", "ret:4", "ret:5", "ret:6", "ret:7", "ret:8")): out.append(t)
    return out


def macro_c(tokens):
    """macrostep view of a generated machine's trace: dequeued events, logs, and the configuration at the end of
    every macrostep (the last one reported before an event is taken from the external queue, and the final one)"""
    out, last = [], None
    for t in tokens:
        if t.startswith("cfg:"): last = t
        elif t == "xe":
            if last: out.append(last)
        elif t.startswith(("bpe:", "log:")): out.append(t)
    if last: out.append(last)
    return out


def macro_s(tokens):
    """the same view of the specification's trace (Spec.W3C reports the configuration after every macrostep)"""
    return [t for t in tokens if t.startswith(("bpe:", "log:", "cfg:"))]


def emit_c(ctx, docs):
    lines = ["c\t-\t%s" % hexs(charts.xml(d)) for d in docs]
    parts = list(chunks(lines, max(1, (len(lines) + 15) // 16)))
    def work(part):
        rc, h, err = ctx.harness_lines("emit", part, timeout=3600)
        if rc != 0 or len(h) != len(part): raise BrokenTie("harness", "uvharness emit rc=%s" % rc)
        return h
    with ThreadPoolExecutor(16) as ex: return [x for part in ex.map(work, parts) for x in part]


def run_machine(workdir, i, ctext, evs):
    src = os.path.join(workdir, "m%d.c" % i); exe = os.path.join(workdir, "m%d" % i)
    with open(src, "w", encoding="latin-1") as f:
        f.write(ctext); f.write("\n"); f.write(open(DRIVER_C).read())
    r = subprocess.run(["gcc", "-std=gnu99", "-O0", "-g", "-w", "-fsanitize=address,undefined", "-fno-sanitize-recover=all", "-o", exe, src],
                       stdout=subprocess.PIPE, stderr=subprocess.STDOUT, universal_newlines=True)
    if r.returncode != 0: return "COMPILE:" + r.stdout[-600:].replace("\n", " | ")
    try:
        p = subprocess.run([exe] + evs, stdout=subprocess.PIPE, stderr=subprocess.PIPE, universal_newlines=True, timeout=30,
                           env={"ASAN_OPTIONS": "detect_leaks=0"})
    except subprocess.TimeoutExpired:
        return "CRASH:timeout"
    finally:
        for f in (src,): os.remove(f)
    out = p.stdout.strip()
    if p.returncode != 0:
        import re
        m = re.search(r"(runtime error: [^\n]*|ERROR: AddressSanitizer: [^\n]*)", p.stderr)
        out += " SAN:" + (m.group(1)[:160].replace(" ", "_") if m else "rc=%d" % p.returncode)
    if os.path.exists(exe): os.remove(exe)
    return out


def c_traces(ctx, cases):
    docs = [d for d, _ in cases]
    H = emit_c(ctx, docs)
    workdir = tempfile.mkdtemp(prefix="c04-", dir=WORK)
    try:
        def work(i):
            h = H[i]
            if h.startswith(("EXC", "CRASH", "EXIT", "bad")): return "EMIT:" + h
            return run_machine(workdir, i, bytes.fromhex(h).decode("latin-1"), cases[i][1])
        with ThreadPoolExecutor(16) as ex: return list(ex.map(work, range(len(cases))))
    finally:
        shutil.rmtree(workdir, ignore_errors=True)


def suite(ctx, name, cases):
    C = c_traces(ctx, cases)
    lines = [E.case_line("large", d, e) for d, e in cases]
    H, M = E.run_batches(ctx, lines)
    st = dict(inputs=len(cases), agree=0, known=0, follows_spec=0, skipped=0, refused=0, compile_errors=0, sanitizer=0, violations=0, i_ne_m=0, tokens=0)
    for (d, evs), c, h, m in zip(cases, C, H, M):
        if c.startswith("EMIT:EXC"): st["refused"] += 1; continue
        want = abs_interp(m.split(" "))
        got = abs_c(c.split(" "))
        st["tokens"] += len(got)
        if h != m: st["i_ne_m"] += 1
        if "DIVERGE" in want or "DIVERGE" in got:
            k = min(len(want), len(got)) - 1
            ok = want[:k] == got[:k]
        else:
            ok = want == got
        if ok and not c.startswith(("COMPILE", "EMIT")) and "SAN:" not in c:
            st["agree"] += 1
            continue
        if not c.startswith(("COMPILE", "EMIT")) and "SAN:" not in c and c01.classify(d) and ("DIVERGE" in want or "DIVERGE" in got):
            st["skipped"] += 1      # a run cut off by the step cap, on a chart where interpreter and Appendix D are known to differ: no oracle
            continue
        if not c.startswith(("COMPILE", "EMIT")) and "SAN:" not in c and c01.classify(d):
            # the interpreter's recorded history findings: the generated machine is right if it follows Appendix D
            _, S = E.run_batches(ctx, [E.case_line("spec", d, evs)], want_harness=False, nproc=1)
            if macro_c(c.split(" ")) == macro_s(S[0].split(" ")) and "DIVERGE" not in c:
                st["follows_spec"] += 1
                continue
        if not c.startswith(("COMPILE", "EMIT")) and "SAN:" not in c and charts.has_nested_history(d):
            st["known"] += 1; ctx.known("hist-shared", "")
            continue
        if not c.startswith(("COMPILE", "EMIT")) and "SAN:" not in c and charts.has_nested_targetless_pair(d):
            # the recorded finding is precise: the machine selects like the transpilers do (every transition a candidate, static
            # conflict table). Only a machine that behaves exactly like Appendix D with THAT selection is the known deviation
            variant = "spectq" if c01.classify(d) else "spect"
            _, T = E.run_batches(ctx, [E.case_line(variant, d, evs)], want_harness=False, nproc=1)
            def core(v): return v[:-1] if v and v[-1].startswith("cfg:") else v     # (the specification's trace has no configuration token after the run finished)
            if "DIVERGE" in T[0] or "DIVERGE" in c or core(macro_c(c.split(" "))) == core(macro_s(T[0].split(" "))):
                st["known"] += 1; ctx.known("nested-targetless", "")
                continue
        if c.startswith("COMPILE"): st["compile_errors"] += 1
        if "SAN:" in c: st["sanitizer"] += 1
        st["violations"] += 1
        if len(ctx.violations) < 4:
            def pred(d2, e2):
                if charts.has_nested_targetless_pair(d2) or charts.has_nested_history(d2): return False
                c2 = c_traces(ctx, [(d2, e2)])[0]
                if c01.classify(d2):
                    _, S2 = E.run_batches(ctx, [E.case_line("spec", d2, e2)], want_harness=False, nproc=1)
                    if macro_c(c2.split(" ")) == macro_s(S2[0].split(" ")): return False
                _, m2 = E.run_batches(ctx, [E.case_line("large", d2, e2)], want_harness=False, nproc=1)
                w2, g2 = abs_interp(m2[0].split(" ")), abs_c(c2.split(" "))
                if c.startswith("COMPILE"): return c2.startswith("COMPILE")
                if "SAN:" in c: return "SAN:" in c2
                return w2 != g2 and "DIVERGE" not in w2 and "DIVERGE" not in g2 and not c2.startswith(("COMPILE", "EMIT"))
            try: d2, e2 = shrink.shrink(d, evs, pred, max_rounds=25)
            except Exception: d2, e2 = d, evs
            c2 = c_traces(ctx, [(d2, e2)])[0]
            _, m2 = E.run_batches(ctx, [E.case_line("large", d2, e2)], want_harness=False, nproc=1)
            w2, g2 = abs_interp(m2[0].split(" ")), abs_c(c2.split(" "))
            k = E.first_diff(w2, g2)
            why = c2[:300] if c2.startswith(("COMPILE", "EMIT")) or "SAN:" in c2 else "at token %d: interpreter %s / generated C %s" % (k, " ".join(w2[max(0, k - 3):k + 3]), " ".join(g2[max(0, k - 3):k + 3]))
            ctx.violation("genc-%d" % len(ctx.violations), name, [E.case_line("large", d2, e2)],
                          detail="the generated C machine and the interpreter differ %s\nchart: %s\nevents: %s" % (why, charts.sexpr(d2), e2))
    ctx.add_suite(name, **st)
    return st


def gen(rng, n, **kw):
    cases = []
    while len(cases) < n:
        g = charts.Gen(rng, max_states=rng.choice([3, 5, 8, 12]), p_fail=0.0, **kw)
        d = g.chart()
        cases.append((d, charts.events_for(rng, g, rng.randint(0, 6))))
    return cases


def run(ctx):
    ctx.setup(variants=("plain",))
    ctx.audit(THEOREMS, LEAN_FILES)
    quick = ctx.tier == "quick"
    rng = ctx.rng
    s1 = suite(ctx, "genc-random", gen(rng, 160 if quick else 6000))
    # charts built around history: the parent of a history state is left and re-entered several times
    s3 = suite(ctx, "genc-history", gen(rng, 120 if quick else 4000, p_history=0.9, p_loop=0.5, p_multi=0.1))
    s4 = suite(ctx, "genc-history-revisit", E.history_revisit_cases(rng, 60 if quick else 2000))
    s5 = suite(ctx, "genc-parallel-done", E.parallel_done_cases(rng, 50 if quick else 1500))
    ex = [(c, e) for c, e in E.exhaustive_cases("quick" if quick else "thorough")]
    ex = rng.sample(ex, min(len(ex), 160 if quick else 4000))      # (each case is a generated C file compiled by gcc: the whole family is out of reach)
    s2 = suite(ctx, "genc-exhaustive", ex)
    ctx.sample({"suite": "genc-random"})
    ctx.coverage["evaluations"] = s1["inputs"] + s2["inputs"] + s3["inputs"] + s4["inputs"] + s5["inputs"]
    ctx.coverage["distinct_nontrivial"] = s1["agree"] + s2["agree"]
    ctx.coverage["rule"] = ("random charts of 3-12 states (parallel, history, <initial>, finals, internal/targetless/multi-target/eventless transitions, raise/send/log/if in every kind of block; "
                            "no failing elements; on charts in the interpreter's recorded history findings a machine that follows Appendix D instead of the interpreter counts as right; a history-heavy family with longer event histories; a family of parallels whose regions (with or without history children) all reach their final states, optionally interrupted and resumed through a history) x 0-5 external events, and the exhaustive small-chart family; "
                            "each emitted machine compiled with gcc -fsanitize=address,undefined and run; non-trivial = machines whose whole trace agrees")
    ctx.assumptions += ["the callbacks are this check's (gen/cdriver.c: null datamodel, W3C descriptor matching); the reference scaffold test-gen-c.cpp is exercised by C12 only",
                        "executable content that fails, datamodels, invoke and delayed send are outside the compared fragment",
                        "comparison by running, per document and event history: no theorem about the emitted step function"]


def replay(ctx, path):
    ctx.setup(variants=("plain",))
    for line in open(path):
        if "\t" not in line or line.startswith(("#", "property=")): continue
        f = line.rstrip("\n").split("\t")
        d = charts.from_sexpr(f[1]); evs = [] if f[2] == "-" else f[2].split(",")
        c = c_traces(ctx, [(d, evs)])[0]
        _, m = E.run_batches(ctx, [E.case_line("large", d, evs)], want_harness=False, nproc=1)
        print("chart:", f[1]); print("events:", evs)
        print("C :", " ".join(abs_c(c.split(" ")))[:2000]); print("I :", " ".join(abs_interp(m[0].split(" ")))[:2000])
    return 0
