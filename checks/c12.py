"""C12 Event descriptors match exactly as the Recommendation prescribes (DESIGN.md section 6, C12)."""
import itertools
from uvlib import BrokenTie, hexs, chunks
from concurrent.futures import ThreadPoolExecutor

THEOREMS = [
    ("UscxmlVerif.Properties.C12.scanner_visits_every_descriptor", "proved",
     "for ALL byte strings ds, n: nameMatch ds n = ds,n non-empty and (ds == n or some white-space separated piece d of ds satisfies the per-descriptor test) - the loop's index arithmetic loses no descriptor"),
    ("UscxmlVerif.Properties.C12.nameMatch_eq_spec", "proved",
     "for all well-formed descriptor lists ds and event names n: nameMatch ds n = Recommendation 3.12.1 (token-wise prefix, '*' wildcard, trailing '.*' / '.' ignored, case sensitive)"),
    ("UscxmlVerif.Properties.C12.trie_answers_prefix_queries", "proved",
     "the transpilers' event-name trie (Trie.cpp, separator '.'): for EVERY list of words and every prefix, getWordsWithPrefix on the trie built by addWord returns exactly - for every word whose non-empty tokens extend the prefix's - the first word added with those tokens"),
    ("UscxmlVerif.Properties.C12.static_resolution_is_spec", "proved",
     "for all well-formed, pairwise distinct event names ws and every well-formed descriptor d other than '*': the names the Promela and VHDL back-ends list for d (getWordsWithPrefix of d without its trailing '.*' / '.') are exactly the names of ws that d matches by Recommendation 3.12.1"),
]
LEAN_FILES = ["UscxmlVerif.Properties.C12", "UscxmlVerif.Proofs.TrieSpec", "UscxmlVerif.Model.Trie"]
ALPHA = b"ab.* "


def all_strings(alpha, maxlen):
    for l in range(maxlen + 1):
        for t in itertools.product(alpha, repeat=l):
            yield bytes(t)


def names_in_order(alpha, maxlen):
    return list(all_strings(alpha, maxlen))


def parse(out, keys):
    d = dict(kv.split("=", 1) for kv in out.split(" ") if "=" in kv)
    return [d.get(k) for k in keys]


def triage(ctx, suite, reqs, hout, dout, expand):
    """reqs: request lines; expand(req, idx) -> (ds, n) for bit idx. Returns counts."""
    stats = {"inputs": 0, "agree": 0, "wf": 0, "matches": 0, "i_ne_m": 0, "m_ne_s_wf": 0}
    broken = []      # correspondence broken but no property failure shown
    for req, h, d in zip(reqs, hout, dout):
        if h == "bad-op" or d == "bad-op":
            raise BrokenTie("protocol", "bad-op for " + req)
        I, G = parse(h, ["I", "G"]); M, S, WF = parse(d, ["M", "S", "WF"])
        if not (len(I) == len(G) == len(M) == len(S) == len(WF)):
            raise BrokenTie("protocol", "length mismatch for " + req)
        stats["inputs"] += len(I)
        if I == M and G == M and (M == S or "1" not in WF):
            stats["agree"] += len(I); stats["wf"] += WF.count("1"); stats["matches"] += I.count("1")
            continue
        for k in range(len(I)):
            wf = WF[k] == "1"
            stats["wf"] += wf; stats["matches"] += I[k] == "1"
            for who, v in (("interpreter", I[k]), ("gen-c-scaffold", G[k])):
                if v != M[k]:
                    stats["i_ne_m"] += 1
                    ds, n = expand(req, k)
                    if wf and v != S[k]:
                        if len(ctx.violations) < 3:
                            ctx.violation("%s-%d" % (suite, len(ctx.violations)), suite, ["P\t%s\t%s" % (hexs(ds), hexs(n))],
                                          detail="%s nameMatch(%r, %r) = %s, Recommendation 3.12.1 = %s (model of the code = %s)" % (who, ds, n, v, S[k], M[k]))
                        stats.setdefault("failing", 0); stats["failing"] += 1
                    else:
                        broken.append((who, ds, n, v, M[k]))
            if I[k] == M[k] == G[k]:
                if wf and M[k] != S[k]:
                    stats["m_ne_s_wf"] += 1
                    ds, n = expand(req, k)
                    if len(ctx.violations) < 3:
                        ctx.violation("%s-%d" % (suite, len(ctx.violations)), suite, ["P\t%s\t%s" % (hexs(ds), hexs(n))],
                                      detail="nameMatch(%r, %r) = %s in code and model, Recommendation 3.12.1 = %s" % (ds, n, I[k], S[k]))
                else:
                    stats["agree"] += 1
    return stats, broken


def run_suite(ctx, suite, reqs, expand):
    parts = list(chunks(reqs, max(1, len(reqs) // 16 + 1)))
    def work(part):
        rc, h, err = ctx.harness_lines("namematch", part)
        if rc != 0 or len(h) != len(part):
            raise BrokenTie("harness", "uvharness namematch rc=%s %s" % (rc, err[-300:]))
        d = ctx.driver_lines("namematch", part)
        return h, d
    with ThreadPoolExecutor(16) as ex:
        res = list(ex.map(work, parts))
    hout = [x for h, _ in res for x in h]; dout = [x for _, d in res for x in d]
    stats, broken = triage(ctx, suite, reqs, hout, dout, expand)
    ctx.add_suite(suite, **stats)
    return stats, broken


def static_doc(rnd, dm):
    """one state whose transitions carry descriptor lists over the tokens a, b, ab; further event names enter the document
    through <raise>. -> (xml, [descriptor list per transition])"""
    toks = ["a", "b", "ab"]
    def name(): return ".".join(rnd.choice(toks) for _ in range(rnd.randint(1, 3)))
    def desc():
        r = rnd.random()
        if r < 0.08: return "*"
        d = name(); r = rnd.random()
        return d + (".*" if r < 0.25 else "." if r < 0.35 else "")
    lists = [" ".join(desc() for _ in range(rnd.randint(1, 3))) for _ in range(rnd.randint(2, 5))]
    raised = [name() for _ in range(rnd.randint(2, 6))]
    xml = ('<scxml xmlns="http://www.w3.org/2005/07/scxml" version="1.0" datamodel="%s"><state id="s"><onentry>%s</onentry>%s</state><state id="t"/></scxml>'
           % (dm, "".join('<raise event="%s"/>' % n for n in raised), "".join('<transition event="%s" target="t"/>' % l for l in lists)))
    return xml, lists


def suite_static(ctx, n):
    """the matches the Promela and VHDL back-ends resolve at transform time (prefix trie over the document's event names)
    against the Recommendation's relation on the same names"""
    import os, sys, re
    from uvlib import VERIF
    sys.path.insert(0, os.path.join(VERIF, "translate"))
    import vhdl_eqs
    rnd = ctx.rng
    docs = [(be,) + static_doc(rnd, "promela" if be == "promela" else "null") for _ in range(n) for be in ("promela", "vhdl")]
    lines = ["%s\t-\t%s" % (be, hexs(x.encode())) for be, x, _ in docs]
    rc, H, err = ctx.harness_lines("emit", lines, timeout=1800)
    if rc != 0 or len(H) != len(lines): raise BrokenTie("harness", "uvharness emit rc=%s" % rc)
    reqs, index = [], []
    st = dict(inputs=len(docs), transitions=0, pairs=0, matches=0, violations=0)
    resolved = []
    for (be, x, lists), h in zip(docs, H):
        if h.startswith(("EXC", "CRASH", "EXIT", "bad")): raise BrokenTie("emit", "%s back-end failed on a descriptor document: %s" % (be, h[:200]))
        text = bytes.fromhex(h).decode("latin-1")
        words = vhdl_eqs.document_events(x)
        per = {}
        if be == "promela":
            lit = dict((m.group(1), m.group(3)) for m in re.finditer(r"^#define (\S+) (\d+) /\* (.*?) \*/$", text, re.M))
            for m in re.finditer(r"\|\| \(i == (\d+)(.*)\)\s*$", text, re.M):
                k = int(m.group(1))
                if k in per: continue
                body = m.group(2)
                per[k] = None if "false" not in body else set(lit.get(mm, "?" + mm) for mm in re.findall(r"== ([A-Za-z0-9_]+)", body))
        else:
            # escapeMacro appends a hash *character* to names with dots: any byte may occur inside the identifiers.
            # The signals are renamed by their position in the declarations before the equations are parsed
            sigs0 = re.findall(r"^signal event_(.*)_sig : std_logic;", text, re.M)
            if len(sigs0) != len(words): raise BrokenTie("translate", "%d event signals for %d event names %s" % (len(sigs0), len(words), words))
            for i in sorted(range(len(sigs0)), key=lambda i: -len(sigs0[i])):
                text = text.replace("event_%s_sig" % sigs0[i], "event_E%d_sig" % i)
            try: defs, sigs = vhdl_eqs.extract(text)
            except vhdl_eqs.ParseError:
                st["unparsable"] = st.get("unparsable", 0) + 1; continue
            sigs = ["E%d" % i for i in range(len(sigs0))]
            def names(e, acc):
                if e[0] == "name":
                    mm = re.match(r"event_(.*)_sig$", e[1])
                    if mm: acc.add(words[sigs.index(mm.group(1))] if mm.group(1) in sigs else "?" + mm.group(1))
                elif e[0] == "not": names(e[1], acc)
                elif e[0] in ("and", "or"):
                    for y in e[1]: names(y, acc)
                return acc
            for k in range(len(lists)):
                d = defs.get("in_optimal_transition_set_%d_sig" % k)
                if d is None: raise BrokenTie("translate", "no equation for transition %d" % k)
                per[k] = names(d, set())
        for k, l in enumerate(lists):
            if k not in per: raise BrokenTie("translate", "transition %d not found in the emitted %s" % (k, be))
            for w in words:
                reqs.append("P\t%s\t%s" % (hexs(l.encode()), hexs(w.encode()))); index.append((be, x, l, w, per[k]))
    D = []
    for part in chunks(reqs, 2000): D += ctx.driver_lines("namematch", part)
    for (be, x, l, w, got), d in zip(index, D):
        M, S, WF = parse(d, ["M", "S", "WF"])
        st["pairs"] += 1
        emitted = True if got is None else (w in got)
        want = S == "1"
        st["matches"] += want
        if emitted == want: continue
        st["violations"] += 1
        if len(ctx.violations) < 3:
            ctx.violation("static-%d" % len(ctx.violations), "static-" + be, ["%s\t-\t%s" % (be, hexs(x.encode()))],
                          detail="%s back-end: the transition with event=\"%s\" %s the event name %r, Recommendation 3.12.1 says it %s\ndocument: %s" % (be, l, "matches" if emitted else "does not match", w, "matches" if want else "does not match", x))
    st["transitions"] = sum(len(l) for _, _, l in docs)
    ctx.add_suite("static-resolution", **st)
    return st


def run(ctx):
    ctx.setup()
    ctx.audit(THEOREMS, LEAN_FILES)
    quick = ctx.tier == "quick"
    maxds, maxn = (5, 4) if quick else (6, 5)
    names = names_in_order(ALPHA, maxn)
    dss = list(all_strings(ALPHA, maxds))
    reqs = ["E\t%s\t%d\t%s" % (hexs(ds), maxn, hexs(ALPHA)) for ds in dss]
    broken_all = []
    st, br = run_suite(ctx, "exhaustive", reqs, lambda req, k: (bytes.fromhex(req.split("\t")[1].replace("-", "")), names[k]))
    broken_all += br
    ctx.sample({"suite": "exhaustive", "request": reqs[len(reqs) // 2], "means": "descriptor list %r against all %d names over %r up to length %d" % (dss[len(dss) // 2], len(names), ALPHA, maxn)})
    # random longer ones incl. tabs/newlines/upper case/other bytes
    rnd = ctx.rng
    toks = [b"a", b"b", b"ab", b"foo", b"Foo", b"bar", b"x1", b"error", b"done", b"state", b"*", b"e", b"E", b"\xc3\xa4", b"f-o"]
    def rname():
        return b".".join(rnd.choice(toks[:-0 or None]) for _ in range(rnd.randint(1, 4))).replace(b"*", b"s")
    def rdesc():
        r = rnd.random()
        if r < 0.1: return b"*"
        d = b".".join(rnd.choice(toks) for _ in range(rnd.randint(1, 3))).replace(b"*", b"q")
        r = rnd.random()
        return d + (b".*" if r < 0.2 else b"." if r < 0.3 else b"")
    def rlist():
        ws = [b" ", b" ", b"  ", b"\t", b"\n", b" \r\n "]
        parts = [rdesc() for _ in range(rnd.randint(1, 5))]
        s = (rnd.choice(ws) if rnd.random() < 0.2 else b"")
        for i, p in enumerate(parts):
            s += p + (rnd.choice(ws) if i + 1 < len(parts) or rnd.random() < 0.2 else b"")
        return s
    pairs = []
    for _ in range(20000 if quick else 300000):
        ds = rlist(); n = rname()
        if rnd.random() < 0.5:   # make a match likely
            cand = ds.split()
            if cand:
                base = rnd.choice(cand).rstrip(b"*").rstrip(b".")
                if base: n = base + (b"." + rname() if rnd.random() < 0.5 else b"")
        if rnd.random() < 0.1:   # arbitrary bytes (not well formed): correspondence only
            ds = bytes(rnd.randrange(1, 256) for _ in range(rnd.randint(0, 8)))
        pairs.append((ds, n))
    preqs = ["P\t%s\t%s" % (hexs(ds), hexs(n)) for ds, n in pairs]
    st2, br = run_suite(ctx, "random", preqs, lambda req, k: pairs[preqs.index(req)])
    broken_all += br
    ctx.sample({"suite": "random", "request": preqs[0], "means": "nameMatch(%r, %r)" % pairs[0]})
    st4 = suite_trie(ctx, 1500 if quick else 40000)
    st3 = suite_static(ctx, 150 if quick else 4000)
    if broken_all and not ctx.violations:
        who, ds, n, v, m = broken_all[0]
        ctx.violation("correspondence", "namematch", ["P\t%s\t%s" % (hexs(ds), hexs(n))], found_input=False,
                      detail="correspondence namematch broken: %s returns %s, model %s on (%r, %r); %d such inputs, none of them well formed, so 3.12.1 is not contradicted" % (who, v, m, ds, n, len(broken_all)))
    ctx.coverage["evaluations"] = st["inputs"] + st2["inputs"] + st3["pairs"] + st4["queries"]
    ctx.coverage["distinct_nontrivial"] = st["wf"] + st2["wf"]
    ctx.coverage["rule"] = "exhaustive: every descriptor list over 'ab.* ' up to length %d x every name up to length %d; random: structured lists with tabs/newlines/upper case/UTF-8 + 10%% arbitrary bytes. non-trivial = descriptor list and name both well formed (spec applies)" % (maxds, maxn)
    ctx.coverage["exhaustive"] = True
    ctx.assumptions += ["C-locale isspace/tolower", "the static resolution of the Promela and VHDL back-ends is read out of the emitted text (suite static-resolution: one state, 2-5 transitions, names over the tokens a/b/ab)"]


def suite_trie(ctx, n):
    """the compiled Trie against Model.Trie: words over 'abc.' (stray, leading, trailing and double dots, duplicates, the empty word) and prefixes"""
    import random
    rnd = random.Random(ctx.seed * 7919 + 12)
    def w(maxlen):
        return bytes(rnd.choice(b"abc..") for _ in range(rnd.randint(0, maxlen)))
    enc = lambda b: hexs(b) if b else "-"
    lines, meta = [], []
    for _ in range(n):
        if rnd.random() < 0.4:
            # well-formed, pairwise distinct event names: the model's answer is the Recommendation's
            words = list(set(b".".join(rnd.choice([b"a", b"b", b"c", b"ab", b"done"]) for _ in range(rnd.randint(1, 3))) for _ in range(rnd.randint(1, 9))))
            rnd.shuffle(words)
        else:
            words = [w(7) for _ in range(rnd.randint(1, 9))]
            if rnd.random() < 0.3: words.append(rnd.choice(words))
        prefixes = [b""] + [w(4) for _ in range(rnd.randint(1, 4))] + [rnd.choice(words)[:rnd.randint(0, 4)]]
        lines.append("%s\t%s" % (",".join(enc(x) for x in words), ",".join(enc(x) for x in prefixes))); meta.append((words, prefixes))
    parts = list(chunks(lines, max(1, len(lines) // 8 + 1)))
    def work(part):
        rc, h, err = ctx.harness_lines("trie", part, timeout=900)
        if rc != 0 or len(h) != len(part): raise BrokenTie("harness", "uvharness trie rc=%s %d/%d %s" % (rc, len(h), len(part), err[-200:]))
        return h, ctx.driver_lines("trie", part, timeout=900)
    with ThreadPoolExecutor(8) as ex: res = list(ex.map(work, parts))
    H = [x for h, _ in res for x in h]; M = [x for _, m in res for x in m]
    st = dict(inputs=len(lines), agree=0, queries=0, nonempty_answers=0, violations=0)
    iswf = lambda words: all(x and all(t for t in x.split(b".")) for x in words) and len(set(words)) == len(words)
    rows = sorted(zip(lines, meta, H, M), key=lambda r: 0 if iswf(r[1][0]) else 1)       # failing inputs the theorem speaks about first
    st["wellformed_word_lists"] = sum(1 for r in rows if iswf(r[1][0]))
    for l, (words, prefixes), h, m in rows:
        st["queries"] += len(prefixes); st["nonempty_answers"] += sum(1 for x in h.split(" ")[0].split("|") if x)
        if h == m: st["agree"] += 1; continue
        st["violations"] += 1
        if len(ctx.violations) < 3:
            # well-formed names (non-empty tokens) that are pairwise distinct: the model's answer is 3.12.1's (static_resolution_is_spec)
            wf = iswf(words)
            ctx.violation("trie-%d" % len(ctx.violations), "trie", [l], found_input=wf,
                          detail="Trie (separator '.') and Model.Trie differ: words %r prefixes %r\ncode : %s\nmodel: %s%s" % (words, prefixes, h, m,
                          "\n(the words are well-formed distinct event names: the model's answer is the Recommendation's, static_resolution_is_spec)" if wf else ""))
    ctx.add_suite("trie", **st)
    return st


def replay(ctx, path):
    import uvlib
    return uvlib.generic_replay(ctx, path, [("P\t", "namematch", "namematch", None), ("E\t", "namematch", "namematch", None), ("promela\t", "emit", None, None), ("vhdl\t", "emit", None, None), (None, "trie", "trie", None)])
