"""C13 Monitor notifications are a well-nested, complete account of execution (DESIGN.md section 6, C13)."""
from uvlib import BrokenTie
from checks import enginelib as E
from checks.enginelib import charts, shrink
from checks import c01

P = "UscxmlVerif.Properties.C13."
THEOREMS = [
    (P + "notifications_well_nested", "proved", "for every chart, both engine models and every sequence of API operations (step, run to quiescence, receive, an internal event arriving from outside a macrostep, cancel, getState, reset, destroy) of any length, the notifications observed so far are accepted by the nesting automaton Spec.Nesting: every before has its after, a micro-step bracket holds exits, then transitions, then entries, content is reported only inside an exit / transition / entry / the completion, nothing but event, invocation, stable-configuration, completion and issue notices outside a bracket, never two stable-configuration notices without an event or micro-step in between, and step reports IDLE only when a stable-configuration notice was the last thing that happened (every completed macrostep is followed by its notice)"),
    (P + "good_run", "proved", "the invariant behind it: the automaton's resting stack agrees with the engine's flags (a stable-configuration notice is the last thing that happened only if the engine is neither pristine-less unstable nor in a spontaneous phase)"),
    (P + "good_apply", "proved", "one API operation keeps the invariant"),
    ("UscxmlVerif.Proofs.Nest.large_step_nest", "proved", "one call of LargeMicroStep::step: its notifications take the automaton from one resting stack to another"),
    ("UscxmlVerif.Proofs.Nest.fast_step_nest", "proved", "the same for FastMicroStep::step"),
    ("UscxmlVerif.Proofs.Flags.large_microstep_stable", "proved", "exits, transitions and entries leave the stable flag alone (it is cleared when transitions are selected, set with the notice)"),
    ("UscxmlVerif.Proofs.Nest.nest_exec", "proved", "executable content (if/elseif/else, foreach, failing elements that abort their block) is reported as properly nested bc/ac pairs for every content tree"),
    (P + "log_is_rendering", "proved", "the log compared with the compiled interpreter is the rendering of exactly these tokens"),
]
FINISH = {"level": "proof"}
LEAN_FILES = ["UscxmlVerif.Properties.C13", "UscxmlVerif.Proofs.Nest", "UscxmlVerif.Proofs.Flags", "UscxmlVerif.Spec.Nesting"]


def nest_results(ctx, traces):
    return ctx.driver_lines("nest", traces, timeout=900)


def completeness(tokens):
    """every before has its after is the nesting automaton's job; here: exactly one `st` per completed
    macrostep = between two consecutive `st` there is at least one processed event or microstep"""
    last = None
    for i, t in enumerate(tokens):
        if t == "st":
            if last is not None and not any(x.startswith("bpe:") or x == "bm" for x in tokens[last + 1:i]):
                return i
            last = i
    return None


def run_engine(ctx, engine, cases, suite):
    lines = [E.case_line(engine, d, e) for d, e in cases]
    H, M = E.run_batches(ctx, lines)
    res = nest_results(ctx, H)
    st = dict(inputs=len(cases), well_nested=0, i_ne_m=0, violations=0, tokens=0, with_errors=0, finished=0, diverging=0)
    for i, (d, evs) in enumerate(cases):
        toks = H[i].split(" ")
        st["tokens"] += len(toks)
        if "bpe:error.execution" in toks or "bpe:error.communication" in toks: st["with_errors"] += 1
        if "acomp" in toks: st["finished"] += 1
        if "DIVERGE" in toks: st["diverging"] += 1
        if H[i] != M[i]: st["i_ne_m"] += 1
        bad = None
        if res[i] != "ok" and "DIVERGE" not in toks:
            bad = "notification out of place at token %s: %s" % (res[i], " ".join(toks[max(0, int(res[i].split(":")[1]) - 6):int(res[i].split(":")[1]) + 3]))
        elif res[i] != "ok" and int(res[i].split(":")[1]) < len(toks) - 1:
            bad = "notification out of place at token %s: %s" % (res[i], " ".join(toks[max(0, int(res[i].split(":")[1]) - 6):int(res[i].split(":")[1]) + 3]))
        else:
            c = completeness(toks)
            if c is not None: bad = "two stable-configuration notices without a macrostep in between (token %d)" % c
        if bad is None:
            st["well_nested"] += 1
            if H[i] != M[i] and not any(p.endswith("-tie.txt") for p, _ in ctx.violations):
                # the theorem is about the model's tokens: a trace of the code the model does not reproduce is outside it
                k = E.first_diff(toks, M[i].split(" "))
                ctx.violation("%s-tie" % suite, suite, [E.case_line(engine, d, evs)], found_input=False,
                              detail="engine %s: the notifications of the compiled interpreter are well nested on this run but differ from the model's at token %d (I %s / M %s): notifications_well_nested does not cover this behaviour\nchart: %s\nevents: %s"
                              % (engine, k, " ".join(toks[max(0, k - 3):k + 3]), " ".join(M[i].split(" ")[max(0, k - 3):k + 3]), charts.sexpr(d), evs))
            continue
        st["violations"] += 1
        if len(ctx.violations) < 3:
            def pred(d2, e2):
                h, _ = E.run_batches(ctx, [E.case_line(engine, d2, e2)], want_driver=False, nproc=1)
                r = nest_results(ctx, h)
                return r[0] != "ok" and "DIVERGE" not in h[0]
            try: d2, e2 = shrink.shrink(d, evs, pred, max_rounds=20)
            except Exception: d2, e2 = d, evs
            ctx.violation("%s-%d" % (suite, len(ctx.violations)), suite, [E.case_line(engine, d2, e2)],
                          detail="engine %s: %s\nchart: %s\nevents: %s" % (engine, bad, charts.sexpr(d2), e2))
    ctx.coverage.setdefault("suites", {})[suite] = st
    return st


def gen_async_ops(r):
    """API operations in which internal events arrive from outside a macrostep (what the timer thread does for a delayed
    <send target="#_internal"> and for the error event of a delayed delivery that fails), mostly at an idle interpreter"""
    ops = [r.choice(["q", "q", "q", "s"])]      # the internal queue exists once the interpreter is initialised
    for _ in range(r.randint(2, 10)):
        x = r.random()
        if x < 0.35: ops += ["i:" + r.choice(["e", "f", "g", "nomatch"]), r.choice(["q", "q", "s"])]
        elif x < 0.5: ops += ["i:" + r.choice(["e", "f", "g"]), "e:" + r.choice(["e", "f", "g"]), "q"]
        elif x < 0.65: ops.append("e:" + r.choice(["e", "f", "g"]))
        elif x < 0.85: ops.append(r.choice(["s", "q"]))
        elif x < 0.9: ops.append("c")
        elif x < 0.95: ops += [r.choice(["r", "d"]), "s"]
        else: ops.append("g")
    return ops + ["q"]


def suite_async(ctx, n):
    from checks import c10
    rng = ctx.rng
    st = dict(inputs=0, injected=0, injected_when_idle=0, well_nested=0, agree=0, violations=0, tokens=0)
    cases = []
    for _ in range(n):
        g = charts.Gen(rng, max_states=rng.choice([3, 5, 8]), p_final=0.3, p_exec=0.6, p_fail=0.1)
        cases.append((g.chart(), gen_async_ops(rng)))
    for eng in ("large", "fast"):
        lines = [c10.api_line(eng, d, ops) for d, ops in cases]
        H, M = c10.run_api(ctx, lines, variant=None)
        res = nest_results(ctx, H)
        for (d, ops), l, h, m, r in zip(cases, lines, H, M, res):
            th = h.split(" ")
            st["inputs"] += 1; st["tokens"] += len(th); st["injected"] += sum(1 for o in ops if o.startswith("i:"))
            st["injected_when_idle"] += sum(1 for a, b in zip(ops, ops[1:]) if a == "q" and b.startswith("i:"))
            abnormal = [t for t in th if t.startswith(c10.BADTOK)]
            ok = (r == "ok" or "DIVERGE" in th) and not abnormal
            if ok: st["well_nested"] += 1
            if ok and h == m:
                st["agree"] += 1
                continue
            st["violations"] += 1
            if len(ctx.violations) < 3:
                if not ok:
                    k = int(r.split(":")[1]) if ":" in r else 0
                    ctx.violation("async-%d" % len(ctx.violations), "async-internal", [l],
                                  detail="engine %s: %s\nchart: %s\nops: %s" % (eng, ("abnormal outcome " + abnormal[0]) if abnormal else
                                  "notification out of place (or IDLE without a stable-configuration notice) at token %s: %s" % (r, " ".join(th[max(0, k - 8):k + 3])), charts.sexpr(d), ",".join(ops)))
                else:
                    k = E.first_diff(th, m.split(" "))
                    ctx.violation("async-tie", "async-internal", [l], found_input=False,
                                  detail="engine %s: well nested but differs from the model at token %d (I %s / M %s): notifications_well_nested does not cover this behaviour\nchart: %s\nops: %s"
                                  % (eng, k, " ".join(th[max(0, k - 3):k + 3]), " ".join(m.split(" ")[max(0, k - 3):k + 3]), charts.sexpr(d), ",".join(ops)))
    ctx.coverage.setdefault("suites", {})["async-internal"] = st
    return st


def run(ctx):
    ctx.setup()
    ctx.audit(THEOREMS, LEAN_FILES)
    n = 2000 if ctx.tier == "quick" else 40000
    cases = c01.load_corpus("C01") + c01.load_corpus("C13") + E.gen_cases(ctx.rng, n, p_fail=0.15)
    tot = 0
    for eng in ("large", "fast"):
        st = run_engine(ctx, eng, cases, "nesting-" + eng)
        tot += st["inputs"]
    tot += suite_async(ctx, 400 if ctx.tier == "quick" else 6000)["inputs"]
    d, e = cases[-1]
    ctx.sample({"chart": charts.sexpr(d)[:500], "events": e})
    ctx.coverage["evaluations"] = tot
    ctx.coverage["distinct_nontrivial"] = sum(s.get("with_errors", 0) + s.get("injected_when_idle", 0) for s in ctx.coverage["suites"].values())
    ctx.coverage["rule"] = "traces of both engines on random charts with failing elements at random positions (p=0.15 per element) and top-level finals; non-trivial = run processes at least one error event"
    ctx.assumptions += ["cancel() at a chosen step is exercised by the C10 lifecycle suite"]


def replay(ctx, path):
    import uvlib, tempfile, os
    # request lines of the async suite carry the hex document as a fourth field (harness `api`), the others are `trace` lines
    api = [l for l in open(path) if len(l.rstrip("\n").split("\t")) >= 4]
    if not api: return uvlib.generic_replay(ctx, path, [(None, "trace", "trace", None)])
    return uvlib.generic_replay(ctx, path, [(None, "api", "api", None)])
