"""C13 Monitor notifications are a well-nested, complete account of execution (DESIGN.md section 6, C13)."""
from uvlib import BrokenTie
from checks import enginelib as E
from checks.enginelib import charts, shrink
from checks import c01

P = "UscxmlVerif.Properties.C13."
THEOREMS = [
    (P + "notifications_well_nested", "proved", "for every chart, both engine models and every sequence of API operations (step, run to quiescence, receive, cancel, getState, reset, destroy) of any length, the notifications observed so far are accepted by the nesting automaton Spec.Nesting: every before has its after, a micro-step bracket holds exits, then transitions, then entries, content is reported only inside an exit / transition / entry / the completion, nothing but event, invocation, stable-configuration, completion and issue notices outside a bracket, never two stable-configuration notices without an event or micro-step in between"),
    (P + "good_run", "proved", "the invariant behind it: the automaton's resting stack agrees with the engine's flags (a stable-configuration notice is the last thing that happened only if the engine is neither pristine-less unstable nor in a spontaneous phase)"),
    (P + "good_apply", "proved", "one API operation keeps the invariant"),
    ("UscxmlVerif.Proofs.Nest.large_step_nest", "proved", "one call of LargeMicroStep::step: its notifications take the automaton from one resting stack to another"),
    ("UscxmlVerif.Proofs.Nest.fast_step_nest", "proved", "the same for FastMicroStep::step"),
    ("UscxmlVerif.Proofs.Nest.nest_exec", "proved", "executable content (if/elseif/else, foreach, failing elements that abort their block) is reported as properly nested bc/ac pairs for every content tree"),
    (P + "log_is_rendering", "proved", "the log compared with the compiled interpreter is the rendering of exactly these tokens"),
]
FINISH = {"level": "proof"}
LEAN_FILES = ["UscxmlVerif.Properties.C13", "UscxmlVerif.Proofs.Nest", "UscxmlVerif.Spec.Nesting"]


def nest_results(ctx, traces):
    return ctx.driver_lines("nest", traces, timeout=900)


def completeness(tokens):
    """every before has its after is the nesting automaton's job; here: exactly one `st` per completed
    macrostep = between two consecutive `st` there is at least one processed event or microstep"""
    last = None
    for i, t in enumerate(tokens):
        if t == "st":
            if last is not None and not any(x.startswith("bpe:") or x == "bm" for x in tokens[last + 1:i]):
                return i
            last = i
    return None


def run_engine(ctx, engine, cases, suite):
    lines = [E.case_line(engine, d, e) for d, e in cases]
    H, M = E.run_batches(ctx, lines)
    res = nest_results(ctx, H)
    st = dict(inputs=len(cases), well_nested=0, i_ne_m=0, violations=0, tokens=0, with_errors=0, finished=0, diverging=0)
    for i, (d, evs) in enumerate(cases):
        toks = H[i].split(" ")
        st["tokens"] += len(toks)
        if "bpe:error.execution" in toks or "bpe:error.communication" in toks: st["with_errors"] += 1
        if "acomp" in toks: st["finished"] += 1
        if "DIVERGE" in toks: st["diverging"] += 1
        if H[i] != M[i]: st["i_ne_m"] += 1
        bad = None
        if res[i] != "ok" and "DIVERGE" not in toks:
            bad = "notification out of place at token %s: %s" % (res[i], " ".join(toks[max(0, int(res[i].split(":")[1]) - 6):int(res[i].split(":")[1]) + 3]))
        elif res[i] != "ok" and int(res[i].split(":")[1]) < len(toks) - 1:
            bad = "notification out of place at token %s: %s" % (res[i], " ".join(toks[max(0, int(res[i].split(":")[1]) - 6):int(res[i].split(":")[1]) + 3]))
        else:
            c = completeness(toks)
            if c is not None: bad = "two stable-configuration notices without a macrostep in between (token %d)" % c
        if bad is None:
            st["well_nested"] += 1
            if H[i] != M[i] and not any(p.endswith("-tie.txt") for p, _ in ctx.violations):
                # the theorem is about the model's tokens: a trace of the code the model does not reproduce is outside it
                k = E.first_diff(toks, M[i].split(" "))
                ctx.violation("%s-tie" % suite, suite, [E.case_line(engine, d, evs)], found_input=False,
                              detail="engine %s: the notifications of the compiled interpreter are well nested on this run but differ from the model's at token %d (I %s / M %s): notifications_well_nested does not cover this behaviour\nchart: %s\nevents: %s"
                              % (engine, k, " ".join(toks[max(0, k - 3):k + 3]), " ".join(M[i].split(" ")[max(0, k - 3):k + 3]), charts.sexpr(d), evs))
            continue
        st["violations"] += 1
        if len(ctx.violations) < 3:
            def pred(d2, e2):
                h, _ = E.run_batches(ctx, [E.case_line(engine, d2, e2)], want_driver=False, nproc=1)
                r = nest_results(ctx, h)
                return r[0] != "ok" and "DIVERGE" not in h[0]
            try: d2, e2 = shrink.shrink(d, evs, pred, max_rounds=20)
            except Exception: d2, e2 = d, evs
            ctx.violation("%s-%d" % (suite, len(ctx.violations)), suite, [E.case_line(engine, d2, e2)],
                          detail="engine %s: %s\nchart: %s\nevents: %s" % (engine, bad, charts.sexpr(d2), e2))
    ctx.coverage.setdefault("suites", {})[suite] = st
    return st


def run(ctx):
    ctx.setup()
    ctx.audit(THEOREMS, LEAN_FILES)
    n = 2000 if ctx.tier == "quick" else 40000
    cases = c01.load_corpus("C01") + c01.load_corpus("C13") + E.gen_cases(ctx.rng, n, p_fail=0.15)
    tot = 0
    for eng in ("large", "fast"):
        st = run_engine(ctx, eng, cases, "nesting-" + eng)
        tot += st["inputs"]
    d, e = cases[-1]
    ctx.sample({"chart": charts.sexpr(d)[:500], "events": e})
    ctx.coverage["evaluations"] = tot
    ctx.coverage["distinct_nontrivial"] = sum(s["with_errors"] for s in ctx.coverage["suites"].values())
    ctx.coverage["rule"] = "traces of both engines on random charts with failing elements at random positions (p=0.15 per element) and top-level finals; non-trivial = run processes at least one error event"
    ctx.assumptions += ["cancel() at a chosen step is exercised by the C10 lifecycle suite"]


def replay(ctx, path):
    import uvlib
    return uvlib.generic_replay(ctx, path, [(None, "trace", "trace", None)])
