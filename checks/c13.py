"""C13 Monitor notifications are a well-nested, complete account of execution (DESIGN.md section 6, C13)."""
from uvlib import BrokenTie
from checks import enginelib as E
from checks.enginelib import charts, shrink
from checks import c01

THEOREMS = []
FINISH = {"level": "exploration"}   # upgraded to "proof" once the theorems of Properties/C13.lean are in place
LEAN_FILES = ["UscxmlVerif.Properties.C13"]


def nest_results(ctx, traces):
    return ctx.driver_lines("nest", traces, timeout=900)


def completeness(tokens):
    """every before has its after is the nesting automaton's job; here: exactly one `st` per completed
    macrostep = between two consecutive `st` there is at least one processed event or microstep"""
    last = None
    for i, t in enumerate(tokens):
        if t == "st":
            if last is not None and not any(x.startswith("bpe:") or x == "bm" for x in tokens[last + 1:i]):
                return i
            last = i
    return None


def run_engine(ctx, engine, cases, suite):
    lines = [E.case_line(engine, d, e) for d, e in cases]
    H, M = E.run_batches(ctx, lines)
    res = nest_results(ctx, H)
    st = dict(inputs=len(cases), well_nested=0, i_ne_m=0, violations=0, tokens=0, with_errors=0, finished=0, diverging=0)
    for i, (d, evs) in enumerate(cases):
        toks = H[i].split(" ")
        st["tokens"] += len(toks)
        if "bpe:error.execution" in toks or "bpe:error.communication" in toks: st["with_errors"] += 1
        if "acomp" in toks: st["finished"] += 1
        if "DIVERGE" in toks: st["diverging"] += 1
        if H[i] != M[i]: st["i_ne_m"] += 1
        bad = None
        if res[i] != "ok" and "DIVERGE" not in toks:
            bad = "notification out of place at token %s: %s" % (res[i], " ".join(toks[max(0, int(res[i].split(":")[1]) - 6):int(res[i].split(":")[1]) + 3]))
        elif res[i] != "ok" and int(res[i].split(":")[1]) < len(toks) - 1:
            bad = "notification out of place at token %s: %s" % (res[i], " ".join(toks[max(0, int(res[i].split(":")[1]) - 6):int(res[i].split(":")[1]) + 3]))
        else:
            c = completeness(toks)
            if c is not None: bad = "two stable-configuration notices without a macrostep in between (token %d)" % c
        if bad is None:
            st["well_nested"] += 1
            continue
        st["violations"] += 1
        if len(ctx.violations) < 3:
            def pred(d2, e2):
                h, _ = E.run_batches(ctx, [E.case_line(engine, d2, e2)], want_driver=False, nproc=1)
                r = nest_results(ctx, h)
                return r[0] != "ok" and "DIVERGE" not in h[0]
            try: d2, e2 = shrink.shrink(d, evs, pred, max_rounds=20)
            except Exception: d2, e2 = d, evs
            ctx.violation("%s-%d" % (suite, len(ctx.violations)), suite, [E.case_line(engine, d2, e2)],
                          detail="engine %s: %s\nchart: %s\nevents: %s" % (engine, bad, charts.sexpr(d2), e2))
    ctx.coverage.setdefault("suites", {})[suite] = st
    return st


def run(ctx):
    ctx.setup()
    ctx.audit(THEOREMS, LEAN_FILES)
    n = 2000 if ctx.tier == "quick" else 40000
    cases = c01.load_corpus("C01") + c01.load_corpus("C13") + E.gen_cases(ctx.rng, n, p_fail=0.15)
    tot = 0
    for eng in ("large", "fast"):
        st = run_engine(ctx, eng, cases, "nesting-" + eng)
        tot += st["inputs"]
    d, e = cases[-1]
    ctx.sample({"chart": charts.sexpr(d)[:500], "events": e})
    ctx.coverage["evaluations"] = tot
    ctx.coverage["distinct_nontrivial"] = sum(s["with_errors"] for s in ctx.coverage["suites"].values())
    ctx.coverage["rule"] = "traces of both engines on random charts with failing elements at random positions (p=0.15 per element) and top-level finals; non-trivial = run processes at least one error event"
    ctx.assumptions += ["cancel() at a chosen step is exercised by the C10 lifecycle suite"]
