"""C02 The active configuration is legal after every microstep (DESIGN.md section 6, C02)."""
from uvlib import BrokenTie
from checks import enginelib as E
from checks.enginelib import charts, shrink
from checks import c01

P = "UscxmlVerif.Properties.C02."
THEOREMS = [
    (P + "configuration_is_legal_partial", "proved", "C02 for the two interpreter engines on charts without <history> and <initial> elements, all six clauses: for every coherent chart numbered in pre-order that meets the decidable EntryOk / DownOk / XorOk / SelPlain / SelPlainF (evaluated on every generated chart: suite theorem-hypotheses), after EVERY sequence of API operations on EITHER engine, once the first step was taken, Spec.Legal.legal holds of the configuration: root, no duplicates, proper states of the chart, every state's parent, exactly one child of every active compound state, all children of every active parallel state, an atomic state. PARTIAL with respect to the property: generated machines (C04/C06/C18), <initial> elements (clauses 1-4 and the at-least halves proved) and histories (false of the code: hist-shared) are outside"),
    (P + "step_keeps_legal", "proved", "one step of either engine keeps the whole invariant from any state that has it"),
    ("UscxmlVerif.Proofs.XorSel.e0_xor", "proved", "the targets of a conflict-free selection with their ancestors, together with the states that stay active, never hold two different children of a compound state (legal target sets; nested domains of different selected transitions would overlap)"),
    ("UscxmlVerif.Proofs.Xor.descVisit_xor", "proved", "a visit of LargeMicroStep's descendant loop keeps that: a compound state gets its default completion only while none of its children is in the entry set or stays active"),
    ("UscxmlVerif.Proofs.XorFast.fast_descVisit_xor", "proved", "the same for FastMicroStep's loop (its test looks at descendants and at what is exited)"),
    ("UscxmlVerif.Proofs.LegalThm.legal_of_invariants", "proved", "root active + ascending + parent-closed + complete downwards + at most one child = Spec.Legal.legal"),
    (P + "configuration_is_a_set_of_real_states_partial", "proved", "PARTIAL (2 of the 6 clauses of legality): for every chart, both engine models and every sequence of API operations the configuration is strictly ascending in document order, duplicate-free and holds no <history>/<initial> pseudo-state. Root active, parent closure, one child per compound / all children of a parallel, an atomic state: not proved (false of the code on charts with nested histories - finding hist-shared), decided per run"),
    (P + "root_is_never_exited_partial", "proved", "PARTIAL (half of clause 1): a step of either engine never removes the root from the configuration, on any chart"),
    (P + "exiting_never_orphans_partial", "proved", "PARTIAL (exit half of the parent clause): for every well-formed document, removing the exit set LargeMicroStep computed from a parent-closed configuration leaves a parent-closed configuration"),
    (P + "parents_stay_active_partial", "proved", "PARTIAL (clause 4 - every active state's parent is active - in full, for history-free charts): on every coherent chart numbered in pre-order without history states whose selectable transitions are plain (decidable EntryOk / SelPlain / SelPlainF, evaluated on the generated charts: suite theorem-hypotheses), after EVERY sequence of API operations on EITHER engine the configuration is parent-closed and made of the root and real states of the chart (which is the hypothesis ConfigOk of the structural theorems of C01/C03/C05: it holds of every reachable configuration). With history states the statement is false of the code (finding hist-shared)"),
    (P + "parents_stay_active_of_document_partial", "proved", "the same for flatten of every well-formed document without <history> elements: coherence, numbering and EntryOk are theorems there (Proofs/EntryDoc.lean); only SelPlain/SelPlainF remain evaluated"),
    ("UscxmlVerif.Proofs.EntryDoc.entryOk_flatten", "proved", "EntryOk (flatten d) for every well-formed history-free document"),
    (P + "active_states_are_complete_partial", "proved", "PARTIAL (clauses 5 and 6 - every active parallel state has all its children active, every active compound state has an active child - both engines, history-free charts): for every coherent chart numbered in pre-order that meets the decidable DownOk (completions and <initial> transitions point downwards, <initial> elements precede their siblings, children lists complete; evaluated on every generated chart), after EVERY sequence of API operations the configuration is complete downwards. Rests on: the entry loop visits every member of the growing entry set (sorted insertion never moves the visited prefix), and a state that stays while a child is exited is the domain of a selected transition"),
    (P + "step_keeps_complete", "proved", "one step of either engine keeps parent closure and downward completeness from any state that has them"),
    (P + "root_is_active_partial", "proved", "PARTIAL (clause 1, history-free charts, both engines): after the first step the root is active, for every sequence of API operations"),
    ("UscxmlVerif.Proofs.DownFast.fast_descLoop_post", "proved", "FastMicroStep's entry loop (next greater member; <initial> elements dropped once expanded) serves every member of the entry set - argued over the ghost set of dropped elements"),
    ("UscxmlVerif.Proofs.Down.descLoop_post", "proved", "after LargeMicroStep's descendant loop every member of the entry set has been served: parallel states have all children in the set, compound states a child in the set or an active one that stays, <initial> elements their targets with ancestors"),
    ("UscxmlVerif.Proofs.DownExit.exit_respects", "proved", "a state that stays active although a child of it is exited is the domain of a selected transition: no parallel state, and above that transition's targets"),
    (P + "step_keeps_parents", "proved", "one step of either engine keeps the invariant from any state that has it"),
    ("UscxmlVerif.Proofs.EntryClosed.descLoop_inv", "proved", "the entry set LargeMicroStep establishes (targets, their ancestors, default completions, initial transitions) is closed under parents and made of states of the chart"),
    ("UscxmlVerif.Proofs.ParentsFast.fast_descLoop_inv", "proved", "the same for FastMicroStep's entry loop"),
    (P + "step_keeps_set", "proved", "one step of either engine keeps that invariant from any state that has it"),
]
FINISH = {"level": "proof"}   # configuration_is_legal_partial (charts without history / initial elements); the rest by exploration
LEAN_FILES = ["UscxmlVerif.Properties.C02", "UscxmlVerif.Proofs.CfgInv", "UscxmlVerif.Proofs.Root", "UscxmlVerif.Proofs.ExitClosed", "UscxmlVerif.Proofs.EntryClosed", "UscxmlVerif.Proofs.Parents", "UscxmlVerif.Proofs.ParentsFast", "UscxmlVerif.Proofs.EntryDoc", "UscxmlVerif.Proofs.SortedIns", "UscxmlVerif.Proofs.Down", "UscxmlVerif.Proofs.DownExit", "UscxmlVerif.Proofs.DownRun", "UscxmlVerif.Proofs.DownOk", "UscxmlVerif.Proofs.DownFast", "UscxmlVerif.Proofs.DownRunFast", "UscxmlVerif.Proofs.RootActive", "UscxmlVerif.Proofs.Xor", "UscxmlVerif.Proofs.XorSel", "UscxmlVerif.Proofs.XorRun", "UscxmlVerif.Proofs.XorFast", "UscxmlVerif.Proofs.XorOk", "UscxmlVerif.Proofs.LegalThm"]


def cfgs_of(tokens):
    return [t[4:] for t in tokens if t.startswith("cfg:")]


def legality(ctx, cases, traces):
    """returns for each case the list of (cfg, legal?) pairs, evaluated by Spec.Legal.legal in the driver"""
    reqs, keep = [], []
    for (d, _), tr in zip(cases, traces):
        cs = []
        for c in cfgs_of(tr.split(" ")):
            if c not in cs: cs.append(c)
        keep.append(cs)
        reqs.append("%s\t%s" % (charts.sexpr(d), ";".join(cs)))
    out = []
    for part in E.chunks(reqs, 400):
        out += ctx.driver_lines("legal", part, timeout=900)
    return [list(zip(cs, bits)) for cs, bits in zip(keep, out)]


def problems(toks, leg):
    bad = [c for c, b in leg if b != "1"]
    if bad: return "illegal configuration {%s}" % bad[0]
    # the root is entered exactly once and stays active until completion
    if toks.count("be:root") != 1: return "<scxml> entered %d times" % toks.count("be:root")
    if "bx:root" in toks: return "<scxml> exited before completion"
    return None


def run_engine(ctx, engine, cases, suite):
    lines = [E.case_line(engine, d, e) for d, e in cases]
    H, M = E.run_batches(ctx, lines)
    leg = legality(ctx, cases, H)
    st = dict(inputs=len(cases), configurations=0, distinct_configurations=0, legal_runs=0, i_ne_m=0, known=0, violations=0)
    seen = set()
    for i, (d, evs) in enumerate(cases):
        toks = H[i].split(" ")
        st["configurations"] += sum(1 for t in toks if t.startswith("cfg:"))
        for c, _ in leg[i]: seen.add((charts.sexpr(d), c))
        if H[i] != M[i]: st["i_ne_m"] += 1
        p = problems(toks, leg[i])
        if p is None:
            st["legal_runs"] += 1
            continue
        if "hist-shared" in c01.classify(d) and H[i] == M[i]:
            # the recorded finding, exactly: the run is the one the model of the (unrepaired) history bookkeeping predicts.
            # An illegal configuration on such a chart that the model does not predict is a different violation
            st["known"] += 1; ctx.known("hist-shared", ""); continue
        st["violations"] += 1
        if len(ctx.violations) < 3:
            def pred(d2, e2):
                if "hist-shared" in c01.classify(d2): return False
                h, _ = E.run_batches(ctx, [E.case_line(engine, d2, e2)], want_driver=False, nproc=1)
                return problems(h[0].split(" "), legality(ctx, [(d2, e2)], h)[0]) is not None
            try: d2, e2 = shrink.shrink(d, evs, pred, max_rounds=20)
            except Exception: d2, e2 = d, evs
            h, _ = E.run_batches(ctx, [E.case_line(engine, d2, e2)], want_driver=False, nproc=1)
            p2 = problems(h[0].split(" "), legality(ctx, [(d2, e2)], h)[0]) or p
            ctx.violation("%s-%d" % (suite, len(ctx.violations)), suite, [E.case_line(engine, d2, e2)],
                          detail="engine %s: %s\nchart: %s\nevents: %s" % (engine, p2, charts.sexpr(d2), e2))
    st["distinct_configurations"] = len(seen)
    ctx.coverage.setdefault("suites", {})[suite] = st
    return st


def run(ctx):
    ctx.setup()
    ctx.audit(THEOREMS, LEAN_FILES)
    n = 2500 if ctx.tier == "quick" else 15000
    cases = c01.load_corpus("C01") + c01.load_corpus("C02") + E.exhaustive_cases(ctx.tier) + E.gen_cases(ctx.rng, n, p_multi=0.4, p_history=0.4)
    for eng in ("large", "fast"):
        run_engine(ctx, eng, cases, "legal-" + eng)
    d, e = cases[-1]
    ctx.sample({"chart": charts.sexpr(d)[:500], "events": e})
    ctx.coverage["evaluations"] = sum(s["configurations"] for s in ctx.coverage["suites"].values())
    ctx.coverage["distinct_nontrivial"] = sum(s["distinct_configurations"] for s in ctx.coverage["suites"].values())
    # the decidable hypotheses of parents_stay_active_partial on the charts of this run
    E.hypotheses(ctx, "theorem-hypotheses", [d for d, _ in cases[:6000]])
    ctx.coverage["rule"] = "every configuration reported after every step() of both engines on random charts biased to multi-target transitions, deep initial attributes and history; Spec.Legal.legal evaluated by the Lean driver; distinct = distinct (chart, configuration) pairs"
    ctx.assumptions += ["the generated C machine is covered by C04", "validation (C19) accepts the generated documents"]


def replay(ctx, path):
    import uvlib
    return uvlib.generic_replay(ctx, path, [(None, "trace", "trace", None)])
