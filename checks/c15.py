"""C15 Data to JSON conversion is lossless and its parser robust (DESIGN.md section 6, C15)."""
import os, sys
from concurrent.futures import ThreadPoolExecutor
from uvlib import BrokenTie, VERIF, chunks
sys.path.insert(0, os.path.join(VERIF, "gen"))
import values

THEOREMS = [
    ("UscxmlVerif.Properties.C15.unescape_escape", "proved", "for ALL byte strings s: jsonUnescape (jsonEscape s) = s"),
    ("UscxmlVerif.Properties.C15.strScan_escape", "proved", "for all NUL-free s: jsmn's string scan over the escaped text of s ends exactly at the closing quote the printer wrote (no bare quote, no dangling backslash)"),
]
THEOREMS += [
    ("UscxmlVerif.Properties.C15.fromJSON_no_oob", "proved", "for EVERY byte string: Data::fromJSON as modelled with checked indices (trim, token budget loop, jsmn non-strict tokenizer, tree builder with token and data stacks) never reads outside the allocated token array and never pops an empty stack"),
    ("UscxmlVerif.Proofs.JsonBounds.pinv_parseLoop", "proved", "jsmn hands out exactly toknext <= numTokens tokens, each ending at or before the end of the text"),
    ("UscxmlVerif.Proofs.JsonBounds.popWhile_ok", "proved", "leaving finished containers never empties the stacks: the bottom container is the first token, which spans the text"),
]
LEAN_FILES = ["UscxmlVerif.Properties.C15", "UscxmlVerif.Proofs.JsonBounds"]
FINISH = {"level": "proof"}


def run_pair(ctx, lines, variant="plain"):
    parts = list(chunks(lines, max(1, len(lines) // 16 + 1)))
    def work(part):
        rc, h, err = ctx.harness_lines("json", part, variant=variant, timeout=1800)
        if rc != 0 or len(h) != len(part): raise BrokenTie("harness", "uvharness json rc=%s %d/%d %s" % (rc, len(h), len(part), err[-300:]))
        return h, ctx.driver_lines("json", part, timeout=1800)
    with ThreadPoolExecutor(16) as ex: res = list(ex.map(work, parts))
    return [x for h, _ in res for x in h], [x for _, d in res for x in d]


def classify_value(tokens):
    cls = []
    if tokens[0][0] in "VI": cls.append("toplevel-atom")
    if values.has_nul(tokens): cls.append("nul-byte")
    return cls


def report(ctx, suite, line, detail):
    if len(ctx.violations) < 4:
        ctx.violation("%s-%d" % (suite, len(ctx.violations)), suite, [line], detail=detail)


def run(ctx):
    ctx.setup(variants=("plain", "asan"))
    ctx.audit(THEOREMS, LEAN_FILES)
    quick = ctx.tier == "quick"
    rng = ctx.rng
    broken = []
    # ---- 1. escape tables, exhaustively (all single bytes, all pairs starting with a backslash, all pairs)
    lines = ["escape %02x" % b for b in range(256)] + ["unescape %02x" % b for b in range(256)]
    lines += ["unescape %02x%02x" % (a, b) for a in range(256) for b in range(256)]
    lines += ["escape %02x%02x" % (a, b) for a in (0x5c, 0x22, 0x0b, 0x41) for b in range(256)]
    h, d = run_pair(ctx, lines)
    st = dict(inputs=len(lines), agree=sum(1 for a, b in zip(h, d) if a == b))
    for l, a, b in zip(lines, h, d):
        if a != b: broken.append((l, a, b))
    ctx.add_suite("escape-tables", **st)
    # ---- 2. round trips of values
    g = values.GenV(rng)
    gn = values.GenV(rng, allow_nul=True)
    n = 6000 if quick else 200000
    vals = [g.value(top=True) for _ in range(n)] + [g.value() for _ in range(n // 20)] + [gn.value(top=True) for _ in range(n // 20)]
    rlines = ["roundtrip " + " ".join(v) for v in vals] + ["tojson " + " ".join(v) for v in vals[:n // 2]]
    h, d = run_pair(ctx, rlines)
    st = dict(inputs=len(rlines), agree=0, lossless=0, known=0, violations=0, max_depth=0, with_escapes=0)
    for l, a, b, v in zip(rlines, h, d, vals + vals[:n // 2]):
        if a != b: broken.append((l, a, b))
        else: st["agree"] += 1
        if l.startswith("roundtrip"):
            got, _, want = a.partition(" want ")
            if got == "value " + want: st["lossless"] += 1
            else:
                cls = classify_value(v)
                if cls:
                    st["known"] += 1; ctx.known(cls[0], "")
                else:
                    st["violations"] += 1
                    report(ctx, "roundtrip", l, "fromJSON(toJSON(d)) != d\ngot : %s\nwant: %s" % (got, want))
    ctx.add_suite("roundtrip", **st)
    ctx.sample({"suite": "roundtrip", "request": rlines[0][:300]})
    # ---- 3. parser robustness on arbitrary bytes (plain and ASan+UBSan builds)
    base = []
    for v in vals[:400]:
        pass
    hj, _ = run_pair(ctx, ["tojson " + " ".join(v) for v in vals[:300]])
    texts = [bytes.fromhex(x) if x != "-" else b"" for x in hj]
    blobs = []
    for t in texts[:60]:
        blobs += [t[:k] for k in range(0, len(t) + 1)]          # every truncation
    # \uXXXX escapes (never produced by toJSON, but legal input): complete, short, and cut off at every offset
    for t in texts[:40]:
        q = [i for i, ch in enumerate(t) if ch == 0x22]
        if len(q) >= 2:
            i = rng.choice(q[::2]) + 1
            u = t[:i] + rng.choice([b"\\u00e4", b"\\u12", b"\\u", b"\\u0", b"\\uzzzz", b"\\u00e4\\u20ac"]) + t[i:]
            blobs += [u[:k] for k in range(max(0, i - 1), min(len(u), i + 16))] + [u]
    blobs += [b'["' + b"x" * 20 + b'\\u', b'["' + b"x" * 20 + b'\\u0', b'["' + b"x" * 20 + b'\\u00', b'{"' + b"k" * 30 + b'":"\\u123', b'["\\u00","b"]', b'["\\u0041","b"]']
    for _ in range(8000 if quick else 300000):
        blobs.append(values.mutate(rng, rng.choice(texts)))
    for _ in range(2000 if quick else 100000):
        blobs.append(bytes(rng.choice(b'{}[]",:\\ \n\t01aZ\x00\xff') if rng.random() < 0.8 else rng.randrange(256) for _ in range(rng.randint(0, 24))))
    blobs += [b'{"a"}', b'{"a":1,"b"}', b'[', b'{', b'[[[[', b'{"a":{"b"}"c"}', b'[1 2]', b'{"a" "b" "c"}', b'["\\v"]', b'["\\u12"]']
    blines = ["fromjson " + (b.hex() or "-") for b in blobs]
    st = dict(inputs=len(blines), agree=0, values=0, errors=0, notjson=0, crashes=0, model_oob=0)
    for variant in ("plain", "asan"):
        h, d = run_pair(ctx, blines, variant=variant)
        for l, a, b in zip(blines, h, d):
            if a.startswith(("CRASH", "SAN", "exception")):
                st["crashes"] += 1
                report(ctx, "fromjson-" + variant, l, "parser does not fail cleanly: %s (model: %s)" % (a, b[:80]))
                continue
            if b == "oob":
                st["model_oob"] += 1
                report(ctx, "fromjson-" + variant, l, "the model of fromJSON reads outside the token array on this input (code: %s)" % a[:80])
                continue
            if a != b: broken.append((l, a, b))
            else: st["agree"] += 1
            if variant == "plain":
                if a.startswith("value"): st["values"] += 1
                elif a.startswith("error"): st["errors"] += 1
                else: st["notjson"] += 1
    ctx.add_suite("fromjson-bytes", **st)
    ctx.sample({"suite": "fromjson-bytes", "request": blines[len(blines) // 2][:200]})
    # ---- 4. events
    elines = ["event %s %s" % ((g.bytestr(6) or b"e").hex(), " ".join(g.value(top=(rng.random() < 0.7)))) for _ in range(500 if quick else 20000)]
    rc, h, err = ctx.harness_lines("json", elines)
    st = dict(inputs=len(elines), equal=0)
    for l, a in zip(elines, h):
        if a == "name=ok data=ok meta=ok": st["equal"] += 1
        else:
            toks = l.split(" ")[2:]
            if "nul-byte" in classify_value(toks) or b"\x00" in bytes.fromhex(l.split(" ")[1]): ctx.known("nul-byte", ""); continue
            report(ctx, "event", l, "Event -> Data -> Event is not the identity: " + a[:200])
    ctx.add_suite("event-roundtrip", **st)
    if broken and not ctx.violations:
        l, a, b = broken[0]
        ctx.violation("correspondence", "json", [l], found_input=False,
                      detail="correspondence json broken on %d requests; first: code %s / model %s" % (len(broken), a[:150], b[:150]))
    s = ctx.coverage["suites"]
    ctx.coverage["evaluations"] = sum(x["inputs"] for x in s.values())
    ctx.coverage["distinct_nontrivial"] = s["roundtrip"]["lossless"] + s["fromjson-bytes"]["values"] + s["fromjson-bytes"]["errors"]
    ctx.coverage["rule"] = "escape tables exhaustive over 1- and 2-byte strings; random Data trees (keys/strings over all byte values, numbers, nesting <= 5); parser input: every truncation of 60 documents, mutations of valid JSON, random byte strings, on plain and ASan+UBSan builds; non-trivial = lossless round trips + parses that yield a value or a clean error"
    ctx.assumptions += ["Data.node / Data.binary members are outside the model", "INTERPRETED atoms are numbers/true/false/null"]


def replay(ctx, path):
    import uvlib
    return uvlib.generic_replay(ctx, path, [(None, "json", "json", None)])
