"""C09 Delayed events fire once, not early, in due order, unless cancelled (DESIGN.md section 6, C09).

Theorems (Properties/C09.lean) are about Model.DelayQueue, the ownership protocol of
BasicDelayedEventQueue at the granularity of its locked sections and libevent calls, for EVERY
interleaving of the timer thread with any number of cancelling/enqueuing threads. Suites:

  dq-schedules   the compiled queue, driven in isolation with forced schedules (USCXML_VERIF
                 schedule hooks) - the order of its atomic sections (USCXML_VERIF trace hook) is
                 replayed through the model, which must accept every step and end in the same
                 outcome; independent oracles on the real log: at most once, not early, due order,
                 cancel found => never delivered, returns within the watchdog (ASan build)
  chart-delays   <send delay> / <cancel> in charts run by the interpreter: the processed events are
                 exactly the uncancelled ones, once each, in due order
"""
import os, re
from concurrent.futures import ThreadPoolExecutor
from uvlib import BrokenTie, hexs, chunks

P = "UscxmlVerif.Properties.C09."
THEOREMS = [
    (P + "inv_step", "proved", "the ownership invariant (every allocated entry is owned by exactly one of: the map, the timer callback, a canceller; never used after free) is kept by every enabled action of every actor"),
    (P + "no_fault", "proved", "for EVERY schedule of timer-callback sections, enqueues, detaches and disposes: no use after free, no double free"),
    (P + "once_and_not_early", "proved", "in every reachable state every event was delivered at most once, and if delivered then not before its due time"),
    (P + "cancelled_never_delivered", "proved", "an event a cancel found - at any point of the race with the timer - is not delivered, neither before nor at any later time"),
    (P + "delivered_stays_once", "proved", "a delivered event is never delivered again"),
    (P + "no_deadlock", "proved", "whenever the timer callback or a canceller is in the middle of its work some action is enabled (a canceller waits in event_del only while the callback of that very event runs, and that callback can always finish)"),
    (P + "old_protocol_deadlocks", "proved", "the protocol before the repair (event_del under the queue mutex) reaches a state in which neither thread can move: witness schedule fire, cancelBegin"),
    (P + "old_protocol_deadlocks_after_delivery", "proved", "second window of the old protocol: after delivering, before erasing the map entry"),
    (P + "reachable_projects", "proved", "the queue together with the interpreter's _delayMutex (Model.DelayLocks: <send delay> and <cancel> run under it, delivery takes it): every run of the two-lock model is a run of the queue model, so all of the above holds of it"),
    (P + "two_locks_once_and_not_early", "proved", "instance: under both locks an event is delivered at most once and not before it is due"),
    (P + "no_deadlock_two_locks", "proved", "for EVERY schedule of the timer thread and the interpreter thread under both locks, whenever a thread is in the middle of its work some thread can move - in particular with a <cancel>/<send> in the window between timer expiry and delivery"),
    (P + "never_stuck", "proved", "the same as a statement about the predicate `stuck`"),
    (P + "held_mutex_deadlocks", "proved", "the variant in which the timer thread keeps _mutex while it calls eventReady dead-locks on a <cancel> in the window (witness schedule)"),
    (P + "held_mutex_deadlocks_on_send", "proved", "... and on a delayed <send> in the window"),
]
LEAN_FILES = ["UscxmlVerif.Properties.C09", "UscxmlVerif.Properties.C09Locks"]
G = 15         # ms of timer granularity granted to the implementation: libevent measures with CLOCK_MONOTONIC_COARSE (4 ms ticks here,
               # later in a virtual machine whose ticks are delayed) at event_add and at expiry; the log truncates to ms
POINTS = ["delayq.run.before_loop", "delayq.stop.before_break", "delayq.timer.entry", "delayq.timer.before_deliver",
          "delayq.timer.after_deliver", "delayq.cancel.before_del", "libevent.after_add"]


def gen_script(r):
    keys = "abcdef"
    ops, t = [], 0
    for _ in range(r.randint(2, 12)):
        x = r.random()
        if x < 0.45: ops.append("send:%s:%d" % (r.choice(keys), r.choice([1, 5, 10, 20, 30, 45, 60, 80])))
        elif x < 0.7: ops.append("cancel:%s" % r.choice(keys))
        elif x < 0.75: ops.append("cancelall")
        else: ops.append("wait:%d" % r.choice([1, 5, 10, 20, 30, 50]))
    ops.append("wait:%d" % r.choice([0, 20, 100]))
    hooks = ",".join("%s=%d:%d" % (p, r.choice([3, 20, 40]), r.choice([1, 2, 4])) for p in r.sample(POINTS, r.choice([0, 1, 1, 2, 3]))) or "-"
    return ",".join(ops), hooks


def to_actions(script, log):
    """convert the real log into model actions; returns (action tokens, deliveries per enqueue index, problems)"""
    delays = {}
    sends = [op.split(":") for op in script.split(",") if op.startswith("send:")]
    send_i = 0
    acts, problems = [], []
    now = 0
    entries = []            # per index: dict(key, due, armed, state)
    armed = {}              # key -> index of the entry whose timer may fire
    detached = {}           # key -> list of indices detached and not disposed
    cur = None              # index the timer thread's callback runs for
    called = 0
    ready = {}
    def advance(ts):
        nonlocal now
        if ts > now:
            acts.append("tick*%d" % (ts - now)); now = ts
    early = {}
    def fire(idx, ts):
        nonlocal cur
        advance(max(ts, min(entries[idx]["due"], ts + G)))
        cur = idx
        entries[idx]["fired"] = ts
        acts.append("fire:%d" % idx)
    for tok in log:
        m = re.match(r"(\d+):([a-z-]+):(.*)$", tok)
        if not m: continue
        ts, what, key = int(m.group(1)), m.group(2), m.group(3)
        k = ord(key[0]) - 96 if key and key != "-" else 0
        if what == "send-call":
            called = ts                 # taken before enqueueDelayed is entered: the timer is armed no earlier
        elif what == "enqueued":
            advance(ts)
            delay = int(sends[send_i][2]); send_i += 1
            idx = len(entries); entries.append(dict(key=key, due=called + delay, enq=called, delay=delay, due_hi=ts + delay, enq_hi=ts))
            armed[key] = idx
            acts.append("enqueue:%d:%d" % (k, called + delay))
            if key in early: fire(idx, max(ts, early.pop(key)))
        elif what in ("detach", "detach-none"):
            advance(ts)
            acts.append("detach:%d" % k)
            if what == "detach":
                if key in armed: detached.setdefault(key, []).append(armed.pop(key))
                else: problems.append("detach of %s reported but no entry of that key is in the map" % key)
        elif what == "disposed":
            advance(ts)
            if detached.get(key):
                acts.append("dispose:%d" % detached[key].pop(0))
            else: problems.append("dispose of %s without a detached entry" % key)
        elif what == "fire":
            idx = armed.get(key)
            if idx is None and detached.get(key): idx = detached[key][0]      # detached but its timer not yet deleted
            if idx is None:
                # the callback logs `fire` before it takes the queue's mutex, enqueueDelayed logs `enqueued` while it
                # still holds it: a timer that expires in between is seen firing before it is seen enqueued. The callback
                # has done nothing yet: its start is moved behind the `enqueued` line that follows
                early[key] = ts; continue
            fire(idx, ts)
        elif what in ("check-own", "check-cancelled"):
            advance(ts)
            acts.append("check")
            if what == "check-own" and cur is not None and armed.get(key) == cur: armed.pop(key)
        elif what == "ready":
            advance(ts)
            acts.append("deliver")
            if cur is not None:
                ready[cur] = ready.get(cur, 0) + 1
                entries[cur]["ready"] = ts
        elif what == "freed":
            advance(ts)
            acts.append("free"); cur = None
    for key in early: problems.append("timer fired for %s which has no armed entry" % key)
    return acts, entries, ready, problems


def oracle(script, toks):
    """properties of the real log alone"""
    if any(t.startswith(("CRASH", "EXIT")) for t in toks): return "abnormal end: " + [t for t in toks if t.startswith(("CRASH", "EXIT"))][0]
    if not toks or not toks[-1].endswith(":end:-"): return "did not reach the end"
    return None


def run_dq(ctx, lines):
    parts = list(chunks(lines, max(1, (len(lines) + 15) // 16)))
    def work(part):
        rc, h, err = ctx.harness_lines("dq", part, variant="asan", timeout=3600)
        if rc != 0 or len(h) != len(part): raise BrokenTie("harness", "uvharness dq rc=%s %d/%d %s" % (rc, len(h), len(part), err[-300:]))
        return h
    with ThreadPoolExecutor(16) as ex: return [x for part in ex.map(work, parts) for x in part]


def suite_schedules(ctx, n):
    rng = ctx.rng
    cases = [gen_script(rng) for _ in range(n)]
    cases += [("send:a:1,send:b:2,send:c:3,wait:120", "libevent.after_add=40:3"), ("send:a:5,wait:100,send:a:1,wait:100", "libevent.after_add=20"),
              ("send:a:20,wait:25,cancel:a,wait:40", "delayq.timer.entry=30"), ("send:a:20,wait:25,cancel:a,wait:60", "delayq.timer.before_deliver=30"),
              ("send:a:20,wait:25,cancel:a,wait:60", "delayq.timer.after_deliver=30"), ("send:a:10,wait:15", "delayq.timer.before_deliver=40,delayq.stop.before_break=5"),
              ("send:a:10,send:a:10,wait:12,send:a:1,cancelall,wait:5", "delayq.timer.entry=10:2,delayq.cancel.before_del=10")]
    lines = ["%s\t%s" % c for c in cases]
    H = run_dq(ctx, lines)
    models, meta = [], []
    st = dict(inputs=len(cases), accepted=0, deliveries=0, cancels_found=0, races=0, with_hooks=sum(1 for c in cases if c[1] != "-"), violations=0)
    for (script, hooks), h in zip(cases, H):
        toks = h.split(" ")
        acts, entries, ready, problems = to_actions(script, toks)
        models.append(" ".join(acts)); meta.append((entries, ready, problems))
    D = ctx.driver_lines("dq", models, timeout=1800)
    for (script, hooks), l, h, d, (entries, ready, problems) in zip(cases, lines, H, D, meta):
        toks = h.split(" ")
        why = oracle(script, toks)
        f = d.split(" ")
        if why is None and problems: why = problems[0]
        if why is None and not f[0] == "ok":
            k = int(f[0].split(":")[1])
            why = "the protocol model does not allow the observed step no. %d (%s) in the state reached: %s" % (k, (models[cases.index((script, hooks))].split(" ") + ["?"])[k], d[:200])
        if why is None and "fault=1" in d: why = "the model reaches a fault (use after free / double free) on the observed schedule"
        if why is None:
            mdel = [int(x.split("/")[1]) for x in f[4:] if x]
            rdel = [ready.get(i, 0) for i in range(len(entries))]
            if mdel != rdel: why = "deliveries differ: code %s, model %s" % (rdel, mdel)
            for i, e in enumerate(entries):
                if ready.get(i, 0) > 1: why = "event %s delivered %d times" % (e["key"], ready[i])
                if "ready" in e and e["ready"] + G < e["enq"] + e["delay"]: why = "event %s (delay %d ms, enqueued at %d) delivered early at %d" % (e["key"], e["delay"], e["enq"], e["ready"])
            dl = sorted((e["ready"], e["due"], e["key"], e["due_hi"]) for e in entries if "ready" in e)
            for (r1, d1, k1, _), (r2, _, k2, d2) in zip(dl, dl[1:]):
                # the later one was certainly due (d2: armed no later than its `enqueued` line) well before the earlier one could be
                # (d1: armed no earlier than its send-call line), both were enqueued before that and no hook delayed the callbacks
                if hooks == "-" and d1 > d2 + 2 * G and all(e["enq_hi"] <= d2 for e in entries if e["key"] in (k1, k2) and "ready" in e):
                    why = "event %s (due %d) was delivered before %s (due %d)" % (k1, d1, k2, d2)
        st["deliveries"] += sum(ready.values())
        st["cancels_found"] += sum(1 for t in toks if ":detach:" in t)
        if any(":check-cancelled:" in t for t in toks) or any(":detach-none:" in t and i > 0 and ":cancel-call:" in toks[i - 1] for i, t in enumerate(toks)): st["races"] += 1
        if why is None:
            st["accepted"] += 1
            continue
        st["violations"] += 1
        if len(ctx.violations) < 4:
            ctx.violation("dq-%d" % len(ctx.violations), "dq-schedules", [l],
                          detail="script %s, schedule hooks %s: %s\nlog: %s" % (script, hooks, why, h[:1500]))
    ctx.add_suite("dq-schedules", **st)
    ctx.sample({"suite": "dq-schedules", "script": cases[0][0], "hooks": cases[0][1], "log": H[0][:500], "model_actions": models[0][:400]})


def delay_doc(rng):
    """<send delay> elements with sendids drawn from a pool (several pending sends may share one), immediate cancels and
    cancels triggered by the arrival of an earlier event; every element carries a uvid so that the harness' timestamps
    tell when it ran"""
    n = rng.randint(2, 6)
    slots = rng.sample(range(1, 9), n)                  # distinct multiples of 40 ms
    sends = [(i, 40 * s) for i, s in enumerate(slots)]
    nid = rng.choice([n, n, max(1, n - 1), max(1, n // 2)])
    sid = dict((i, rng.randrange(nid)) for i, _ in sends)
    now_cancel = sorted(set(sid[i] for i, _ in sends if rng.random() < 0.15))
    order = sorted((d, i) for i, d in sends)
    later = {}                                          # on receiving d_i cancel the sends with id g
    for pos, (d, i) in enumerate(order):
        cands = sorted(set(sid[j] for dd, j in order[pos + 1:]))
        if cands and rng.random() < 0.4: later[i] = rng.choice(cands)
    body = "".join('<send event="d%d" delay="%dms" id="id%d" uvid="%d"/>' % (i, d, sid[i], 100 + i) for i, d in sends)
    body += "".join('<cancel sendid="id%d" uvid="%d"/>' % (g, 200 + k) for k, g in enumerate(now_cancel))
    trans = "".join('<transition event="d%d"><cancel sendid="id%d" uvid="%d"/></transition>' % (i, g, 300 + i) for i, g in later.items())
    doc = ('<scxml xmlns="http://www.w3.org/2005/07/scxml" version="1.0" datamodel="null"><state id="s"><onentry>%s</onentry>%s</state></scxml>' % (body, trans))
    cancels = dict((200 + k, g) for k, g in enumerate(now_cancel)); cancels.update((300 + i, g) for i, g in later.items())
    meta = dict(delay=dict((i, d) for i, d in sends), sid=sid, cancels=cancels)
    return doc, meta, 40 * max(slots) + 150


def window_doc(rng):
    """the window between timer expiry and delivery, held open by a schedule hook, with the interpreter thread executing a <send delay>
    or a <cancel> inside it: a trigger event d0 and, 5-25 ms behind it, a second timer whose callback sits in the window while d0 is
    being processed (the timer thread runs one callback at a time, so the second callback starts when d0 has been handed over)"""
    hold = rng.choice([30, 40, 60])
    sends, sid, cancels, trans, body = {}, {}, {}, "", ""
    base, nxt = 0, 0
    for pair in range(rng.randint(1, 2)):
        base += 40 * rng.randint(1, 2) + (200 if pair else 0)
        trig, win, far = nxt, nxt + 1, nxt + 2
        sends[trig] = base; sends[win] = base + rng.choice([5, 10, 20, 25]); sends[far] = base + 600
        for i in (trig, win, far):
            sid[i] = i
            body += '<send event="d%d" delay="%dms" id="id%d" uvid="%d"/>' % (i, sends[i], i, 100 + i)
        nxt += 3
        acts = ""
        for what in rng.sample(["cancel-far", "cancel-window", "send-new", "send-now"], rng.randint(1, 3)):
            if what == "cancel-far":
                acts += '<cancel sendid="id%d" uvid="%d"/>' % (far, 300 + far); cancels[300 + far] = far
            elif what == "cancel-window":
                acts += '<cancel sendid="id%d" uvid="%d"/>' % (win, 300 + win); cancels[300 + win] = win
            elif what == "send-new":
                sends[nxt] = 40; sid[nxt] = nxt
                acts += '<send event="d%d" delay="40ms" id="id%d" uvid="%d"/>' % (nxt, nxt, 100 + nxt); nxt += 1
            else:
                acts += '<send event="n%d" uvid="%d"/>' % (trig, 400 + trig)
        trans += '<transition event="d%d">%s</transition>' % (trig, acts)
    doc = ('<scxml xmlns="http://www.w3.org/2005/07/scxml" version="1.0" datamodel="null"><state id="s"><onentry>%s</onentry>%s</state></scxml>' % (body, trans))
    hooks = "%s=%d" % (rng.choice(["delayq.timer.before_deliver"] * 3 + ["delayq.timer.entry", "delayq.timer.after_deliver"]), hold)
    return doc, dict(delay=sends, sid=sid, cancels=cancels), base + 600 + 3 * hold * len(sends) // 2 + 200, hooks


def chart_oracle(toks, meta):
    """sound whatever the scheduling: every judgement is relative to the times at which the <send> and <cancel> elements were
    seen to run. A send is armed between the stamps around its element; a cancel has completed at the stamp after its element."""
    t = 0
    bc, ac, bpe, order = {}, {}, {}, []
    pending = None
    for i, tok in enumerate(toks):
        if tok.startswith("@"): t = int(tok[1:]); continue
        if tok.startswith("bc:") and tok[3:].isdigit(): bc.setdefault(int(tok[3:]), []).append(t)
        elif tok.startswith("ac:") and tok[3:].isdigit():
            nxt = toks[i + 1] if i + 1 < len(toks) and toks[i + 1].startswith("@") else "@%d" % t
            ac.setdefault(int(tok[3:]), []).append(int(nxt[1:]))
        elif tok.startswith("bpe:d") and tok[5:].isdigit():
            bpe.setdefault(int(tok[5:]), []).append(t); order.append(int(tok[5:]))
    delay, sid, cancels = meta["delay"], meta["sid"], meta["cancels"]
    for i in delay:
        if 100 + i not in bc or 100 + i not in ac: return "the <send> of d%d was not executed" % i
        if len(bpe.get(i, [])) > 1: return "d%d was processed %d times" % (i, len(bpe[i]))
        if i in bpe and bpe[i][0] + G < bc[100 + i][0] + delay[i]:
            return "d%d (delay %d ms, <send> started at %d) was processed early, at %d" % (i, delay[i], bc[100 + i][0], bpe[i][0])
    # cancels: each execution of a <cancel> of id g, completed at time T
    runs = [(T, uv) for uv in cancels for T in ac.get(uv, [])]
    for i in delay:
        armed_lo, armed_hi = bc[100 + i][0], ac[100 + i][0]
        hit = [T for T, uv in runs if cancels[uv] == sid[i] and T >= armed_hi]                 # cancels that ran after the send had completed
        sure = [T for T in hit if T + G < armed_lo + delay[i]]                                  # ... and completed before it could be due
        if sure and i in bpe: return "d%d (due no earlier than %d) was processed at %d although a <cancel> of its sendid completed at %d" % (i, armed_lo + delay[i], bpe[i][0], min(sure))
        maybe = [T for T, uv in runs if cancels[uv] == sid[i]]
        if not maybe and i not in bpe: return "d%d was never processed and never cancelled" % i
    # due order among the processed ones
    for a in order:
        for b in order[order.index(a) + 1:]:
            # a was processed before b: wrong if b was certainly due well before a could be
            if ac[100 + b][0] + delay[b] + 2 * G < bc[100 + a][0] + delay[a]:
                return "d%d (due >= %d) was processed before d%d (due <= %d)" % (a, bc[100 + a][0] + delay[a], b, ac[100 + b][0] + delay[b])
    return None


def second_incarnation(toks, r, meta):
    """the tokens by which the incarnation after reset() (at index r) is judged, and how many stale arrivals were taken out"""
    stamp = [t for t in toks[:r] if t.startswith("@")][-1:]
    judged, stale = stamp + toks[r + 1:], 0
    # a timer of the first incarnation that was due (to within the granularity) when reset() ran may have been past its
    # ownership check already: reset's cancel does not find it and it is delivered - the "delivered" outcome of the race the
    # property allows - after the queues were cleared. Such a stale arrival is taken out before the second incarnation is judged
    after = [t for t in toks[r + 1:] if t.startswith("@")][:1]        # reset() is not stamped itself: it ran no later than the first element after it
    t_reset, t, old_bc = int((after or stamp or ["@0"])[0][1:]), 0, {}
    for tok in toks[:r]:
        if tok.startswith("@"): t = int(tok[1:])
        elif tok.startswith("bc:") and tok[3:].isdigit(): old_bc.setdefault(int(tok[3:]) - 100, t)
    for i, d in meta["delay"].items():
        if i in old_bc and old_bc[i] + d <= t_reset + G and "bpe:d%d" % i not in toks[:r]:
            occ = [k for k, tok in enumerate(judged) if tok == "bpe:d%d" % i]
            new_bc = [k for k, tok in enumerate(judged) if tok == "bc:%d" % (100 + i)]
            if len(occ) >= 2 or (len(occ) == 1 and (not new_bc or occ[0] < new_bc[0])):
                del judged[occ[0]]; stale += 1
    return judged, stale


def suite_charts(ctx, n):
    rng = ctx.rng
    lines, metas = [], []
    for k in range(n):
        doc, meta, total = delay_doc(rng)
        for eng in ("large", "fast"):
            # drive with blocking steps so that the interpreter thread sleeps in dequeue while timers fire
            ops = ["T", "q"] + ["b:40", "q"] * (total // 40 + 20) + ["w:60", "q"]
            if k % 3 == 2:
                # reset() with delayed events pending, then the whole run again: what is judged is the second incarnation, in which
                # nothing sent before the reset may arrive (it would be early for, or a duplicate of, the new incarnation's send)
                ops = ["T", "q"] + ["b:40", "q"] * rng.randint(0, max(1, total // 80)) + ["r"] + ops[1:]
            lines.append("%s\t-\t%s\t%s" % (eng, ",".join(ops), hexs(doc))); metas.append((doc, meta))
    for k in range(max(4, n // 2)):
        doc, meta, total, hooks = window_doc(rng)
        for eng in ("large", "fast"):
            ops = ["T", "q"] + ["b:40", "q"] * (total // 40 + 20) + ["w:60", "q"]
            lines.append("%s\t-\t%s\t%s\t%s" % (eng, ",".join(ops), hexs(doc), hooks)); metas.append((doc + " [schedule hooks %s]" % hooks, meta))
    parts = list(chunks(lines, max(1, (len(lines) + 7) // 8)))
    def work(part):
        rc, h, err = ctx.harness_lines("api", part, variant="asan", timeout=3600)
        if rc != 0 or len(h) != len(part): raise BrokenTie("harness", "uvharness api rc=%s" % rc)
        return h
    with ThreadPoolExecutor(8) as ex: H = [x for part in ex.map(work, parts) for x in part]
    st = dict(inputs=len(lines), window_held_open=sum(1 for l in lines if l.count("\t") == 4), as_expected=0, events=0, cancelled_in_time=0, with_reset=0, stale_after_racing_reset=0, pending_at_reset=0, violations=0)
    for l, h, (doc, meta) in zip(lines, H, metas):
        toks = h.split(" ")
        st["events"] += sum(1 for t in toks if t.startswith("bpe:d"))
        bad = [t for t in toks if t.startswith(("CRASH", "EXIT", "EXC"))]
        judged = toks
        if "reset" in toks:
            r = toks.index("reset")
            st["with_reset"] += 1; st["pending_at_reset"] += sum(1 for i in meta["delay"] if "bc:%d" % (100 + i) in toks[:r] and "bpe:d%d" % i not in toks[:r])
            judged, stale = second_incarnation(toks, r, meta)
            st["stale_after_racing_reset"] += stale
        why = ("abnormal end %s%s" % (bad, " - the session hangs: killed by the harness' 20 s watchdog (deadlock)" if "CRASH:14" in bad else "")) if bad or toks[-1] != "end" else chart_oracle(judged, meta)
        if why is None:
            st["as_expected"] += 1
            st["cancelled_in_time"] += sum(1 for i in meta["delay"] if not any(t == "bpe:d%d" % i for t in toks))
            continue
        st["violations"] += 1
        if len(ctx.violations) < 4:
            ctx.violation("chart-%d" % len(ctx.violations), "chart-delays", [l],
                          detail="%s\ndocument: %s\nlog: %s" % (why, doc, " ".join(t for t in toks if not t.startswith(("cfg:", "ret:")))[:1500]))
    ctx.add_suite("chart-delays", **st)


def run(ctx):
    ctx.setup(variants=("asan",))
    ctx.audit(THEOREMS, LEAN_FILES)
    quick = ctx.tier == "quick"
    run_dq(ctx, ["send:a:1,send:b:3,cancel:b,wait:8\t-"] * 32)      # discarded: pages the sanitizer build in before anything is timed
    import lockscopes
    obs, diffs = lockscopes.facts("/repo")
    suite_schedules(ctx, 600 if quick else 20000)
    suite_charts(ctx, int(os.environ.get("C09_CHARTS", 40 if quick else 1200)))
    # the two-lock layer is written from the lock scopes of the source; they are read again on every run. When they differ the
    # theorems no_deadlock_two_locks / reachable_projects are not about this code any more: the suites above (forced schedules,
    # the window held open) are the search for a failing input
    ctx.add_suite("lock-scopes", inputs=len(obs), as_the_model_assumes=len(obs) - len(diffs), differences=len(diffs), violations=1 if diffs else 0)
    if diffs and ctx.violations:
        ctx.notes.append("lock scopes differ from the model's (%s); failing input reported by the suites" % "; ".join(diffs))
    elif diffs:
        ctx.violation("lock-scopes", "lock-scopes", ["lock-scopes\t/repo"], found_input=False,
                      detail="the lock scopes of the source are not those Model.DelayLocks is written from - theorems %sno_deadlock_two_locks and %sreachable_projects no longer apply:\n%s\nthe forced schedules and the charts run with the window held open found no failing input"
                             % (P, P, "\n".join(diffs)))
    s1, s2 = ctx.coverage["suites"]["dq-schedules"], ctx.coverage["suites"]["chart-delays"]
    ctx.coverage["evaluations"] = s1["inputs"] + s2["inputs"]
    ctx.coverage["distinct_nontrivial"] = s1["races"]
    ctx.coverage["rule"] = ("random scripts of 2-12 enqueue (delays 1-80 ms, 6 keys, re-used keys replace) / cancel / cancelAll / wait operations against the compiled BasicDelayedEventQueue "
                            "with 0-3 schedule hooks sleeping 3-40 ms at the timer thread's and the canceller's protocol points, plus directed races; non-trivial = a cancel met a timer callback "
                            "that had already started; charts with 2-6 delayed sends at distinct multiples of 40 ms, sendids shared by several pending sends or not, and immediate or event-triggered cancels, both engines, judged against the times at which the <send>/<cancel> elements were seen to run; every third chart is reset with delayed events pending and run again (the second incarnation is judged); plus charts run with the window between timer expiry and delivery held open 30-60 ms by a schedule hook while the interpreter thread executes <cancel> (of a far timer, of the timer in the window) and <send delay> elements inside it")
    ctx.assumptions += ["the two-lock layer (Model.DelayLocks) is tied to the source by the lock scopes read from it on every run (lib/lockscopes.py: RAII guards alive at the calls of eventReady, dispose, event_del, event_add, enqueueDelayed, cancelDelayed, deliver) and by the charts run with the window held open; its actions are not replayed from a trace",
                        "libevent fires a timer only when due, once per event_add, one callback at a time; event_del waits for a running callback (trusted base)",
                        "time is compared at millisecond resolution with %d ms granularity granted" % G,
                        "the order of log lines of different threads is the order in which they took the harness' log mutex (inside the queue's locked sections where the protocol needs it)"]


def replay(ctx, path):
    ctx.setup(variants=("asan",))
    for line in open(path):
        if "\t" not in line or line.startswith(("#", "property=")): continue
        l = line.rstrip("\n")
        if l.startswith("lock-scopes\t"):
            import lockscopes
            obs, diffs = lockscopes.facts(l.split("\t")[1])
            for k in sorted(obs): print(k, "->", obs[k])
            print("\n".join(diffs) or "as the model assumes")
        elif l.count("\t") == 1:
            h = run_dq(ctx, [l])[0]
            acts, entries, ready, problems = to_actions(l.split("\t")[0], h.split(" "))
            print("log:", h); print("model actions:", " ".join(acts)); print("model:", ctx.driver_lines("dq", [" ".join(acts)])[0]); print("problems:", problems)
        else:
            rc, h, err = ctx.harness_lines("api", [l], variant="asan")
            print("I:", " ".join(t for t in h[0].split(" ") if not t.startswith(("cfg:", "ret:")))[:3000])
    return 0
