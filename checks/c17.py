"""C17 The Promela datamodel evaluates expressions with Promela's integer semantics (DESIGN.md section 6, C17)."""
import os, sys, subprocess, itertools
from concurrent.futures import ThreadPoolExecutor
from uvlib import BrokenTie, VERIF, LEAN, chunks
sys.path.insert(0, os.path.join(VERIF, "gen")); sys.path.insert(0, os.path.join(VERIF, "translate"))
import pexpr, promela_tables

THEOREMS = [
    ("UscxmlVerif.Properties.C17.every_operator_evaluated", "proved", "every operator of the property has an evaluator case (decide over the table probed from the compiled evaluator on this run)"),
    ("UscxmlVerif.Properties.C17.evalModel_eq_spec", "proved", "for ALL stores and ALL expressions over the property's operator set: the evaluator of the code (parameterised by the probed implementation table) = Promela/C integer semantics (short-circuit &&/||, truncating / and %, faults as errors)"),
    ("UscxmlVerif.Properties.C17.faults_are_errors", "proved", "for ALL expressions (also outside the fragment): the model of the code never takes a crash branch (zero divisor, negative index, unary minus)"),
    ("UscxmlVerif.Properties.C17.prec_table_is_promela_partial", "partial", "for every pair of property operators except the ||/&& mix the compiled parser groups a o1 b o2 c as Promela/C (decide over the probed matrix); the full statement PrecTableIsPromela is refuted by not_PrecTableIsPromela (recorded finding prec-or-and)"),
    ("UscxmlVerif.Properties.C17.not_PrecTableIsPromela", "proved", "witness of the finding: probed reduceFirst(||, &&) = true"),
    ("UscxmlVerif.Properties.C17.bang_first", "proved", "! binds tighter than every binary operator"),
    ("UscxmlVerif.Properties.C17.minus_first_partial", "proved", "unary minus is applied before every binary operator except * / % (where the value is the same)"),
]
LEAN_FILES = ["UscxmlVerif.Properties.C17"]
DECLS = ["a=7,b=3,c=0,arr[4]", "a=-5,b=2,c=1,arr[4]", "a=0,b=-1,c=4,arr[4]"]


def hx(s): return s.encode().hex()


def canon(x):
    if x.startswith("v:"): return x
    if x.startswith("err"): return "err"
    if x.startswith(("CRASH", "SAN", "exc")): return "crash"
    return x


def run_sessions(ctx, sessions, variant=None):
    """sessions: list of (decls, [expr text]); returns per session list of (I, M, S, P)"""
    lines = [d + "|" + "|".join("e:" + hx(e) for e in es) for d, es in sessions]
    parts = list(chunks(lines, max(1, len(lines) // 16 + 1)))
    def work(part):
        rc, h, err = ctx.harness_lines("promela", part, variant=variant, timeout=1800)
        if rc != 0 or len(h) != len(part): raise BrokenTie("harness", "uvharness promela rc=%s %d/%d" % (rc, len(h), len(part)))
        return h, ctx.driver_lines("promela", part, timeout=1800)
    with ThreadPoolExecutor(16) as ex: res = list(ex.map(work, parts))
    H = [x for h, _ in res for x in h]; D = [x for _, d in res for x in d]
    out = []
    for (decl, es), h, d in zip(sessions, H, D):
        hs = h.split("|"); ds = d.split("|")
        if len(hs) != len(es):
            # a crash inside the session: re-run the expressions one by one
            hs = []
            for e in es:
                rc, one, _ = ctx.harness_lines("promela", [decl + "|e:" + hx(e)], variant=variant)
                hs.append(one[0])
        row = []
        for e, a, b in zip(es, hs, ds):
            f = dict(kv.split("=", 1) for kv in b.split(" "))
            row.append((canon(a), f["M"], f["S"], f["P"]))
        out.append(row)
    return out


def run(ctx):
    ctx.build_repo(("plain", "asan")); ctx.harness = ctx.build_harness("plain"); ctx.harnesses = {"plain": ctx.harness, "asan": ctx.build_harness("asan")}
    # regenerate the probed tables from the compiled parser/evaluator, then re-check the Lean library
    try:
        promela_tables.generate(ctx.harness, os.path.join(LEAN, "UscxmlVerif", "Generated", "PromelaPrec.lean"), ub_harness=ctx.harnesses["asan"])
    except RuntimeError as e:
        raise BrokenTie("translate-promela", str(e))
    # undefined behaviour found by the probes is a failing input in its own right (the regenerated
    # table then no longer satisfies `probed_wraps`, so the library does not build either)
    for (st, ex, want), got in [(p, o) for p, o in zip(promela_tables.UB_PROBES, promela_tables.LAST_UB)]:
        if not (got == want or (want == "err" and got.startswith("err"))):
            ctx.violation("ub-%d" % len(ctx.violations), "promela-overflow", ["%s|e:%s" % (st, hx(ex))],
                          detail="on the UBSan build `%s` with %s gives %s; 32 bit Promela arithmetic: %s" % (ex, st, got, want))
            if len(ctx.violations) >= 3: break
    try:
        ctx.build_lean(LEAN_FILES)
    except BrokenTie:
        if ctx.violations: return
        raise
    ctx.audit(THEOREMS, LEAN_FILES)
    quick = ctx.tier == "quick"
    exprs = []
    for e in pexpr.all_exprs(2 if quick else 2):
        exprs.append(e)
    if quick: exprs = exprs[:1] + ctx.rng.sample(exprs, 6000)
    for _ in range(6000 if quick else 300000):
        exprs.append(pexpr.rand_expr(ctx.rng, ctx.rng.choice([2, 3, 4, 5])))
    texts = []
    for e in exprs:
        texts.append(pexpr.pmin(e)); texts.append(pexpr.pfull(e))
    texts += ["1 || 0 && 0", "a != b", "-a", "a / 0", "a % 0", "arr[0 - 1]", "0 && a / 0", "1 || a / 0", "a - b - c", "a / b * c", "!a == b", "- a * b"]
    sessions = []
    for i, part in enumerate(chunks(texts, 40)):
        sessions.append((DECLS[i % len(DECLS)], part))
    res = run_sessions(ctx, sessions)
    st = dict(inputs=0, agree=0, values=0, errors=0, i_ne_m=0, m_ne_s=0, known=0, violations=0, distinct=0)
    seen = set(); broken = []
    for (decl, es), row in zip(sessions, res):
        for e, (I, M, S, P) in zip(es, row):
            st["inputs"] += 1
            if (decl, e) not in seen: seen.add((decl, e))
            if I.startswith("v:"): st["values"] += 1
            else: st["errors"] += 1
            if I == M and I == S: st["agree"] += 1; continue
            if I != M: st["i_ne_m"] += 1
            if I != S:
                st["m_ne_s"] += 1
                if I == M and P == "0":
                    st["known"] += 1; ctx.known("prec-or-and", ""); continue
                st["violations"] += 1
                if len(ctx.violations) < 4:
                    ctx.violation("eval-%d" % len(ctx.violations), "promela-eval", ["%s|e:%s" % (decl, hx(e))],
                                  detail="with %s the datamodel evaluates `%s` to %s; Promela/C: %s; model of the code: %s" % (decl, e, I, S, M))
            else:
                broken.append((decl, e, I, M))
    st["distinct"] = len(seen)
    ctx.add_suite("promela-eval", **st)
    ctx.sample({"decls": sessions[0][0], "expressions": sessions[0][1][:6]})
    # ---- 32 bit wrap-around and shift ranges, on the UBSan build (undefined behaviour ends the child)
    big = [pexpr.rand_expr_big(ctx.rng, ctx.rng.choice([1, 2, 3, 4])) for _ in range(3000 if quick else 100000)]
    btexts = [pexpr.pfull(e) for e in big]
    BIGDECLS = ["a=2147483647,b=-2147483647,c=-1,arr[4]", "a=-2147483647,b=65535,c=2,arr[4]", "a=1073741824,b=3,c=-2,arr[4]"]
    bsessions = [(BIGDECLS[i % 3], part) for i, part in enumerate(chunks(btexts, 40))]
    bres = run_sessions(ctx, bsessions, variant="asan")
    st2 = dict(inputs=0, agree=0, values=0, errors=0, wrapped=0, violations=0)
    for (decl, es), row in zip(bsessions, bres):
        for e, (I, M, S, P) in zip(es, row):
            st2["inputs"] += 1
            if I.startswith("v:"):
                st2["values"] += 1
                if abs(int(I[2:])) > 1 << 30: st2["wrapped"] += 1
            else: st2["errors"] += 1
            if I == M and I == S: st2["agree"] += 1; continue
            st2["violations"] += 1
            if len(ctx.violations) < 4:
                ctx.violation("overflow-%d" % len(ctx.violations), "promela-overflow", ["%s|e:%s" % (decl, hx(e))],
                              detail="with %s the datamodel (UBSan build) evaluates `%s` to %s; 32 bit Promela/C: %s; model of the code: %s" % (decl, e, I, S, M))
    ctx.add_suite("promela-overflow", **st2)
    if broken and not ctx.violations:
        decl, e, I, M = broken[0]
        ctx.violation("correspondence", "promela-eval", ["%s|e:%s" % (decl, hx(e))], found_input=False,
                      detail="correspondence promela-eval broken on %d expressions (code and model differ, code agrees with Promela/C); first: `%s` code %s model %s" % (len(broken), e, I, M))
    ctx.coverage["evaluations"] = st["inputs"]
    ctx.coverage["distinct_nontrivial"] = st["distinct"]
    ctx.coverage["rule"] = "all expression trees of depth <= 2 over 15 binary operators, !, unary minus, 5 leaves (sampled in the quick tier) and random trees up to depth 5, each printed with minimal and with full parenthesisation, under 3 variable valuations; distinct = distinct (valuation, text) pairs"
    ctx.assumptions += ["literals above INT_MAX are outside the generated expressions", "the compiled LALR tables behave as an operator-precedence parser with the probed matrix (validated by comparing results, not proved)"]


def replay(ctx, path):
    import uvlib
    return uvlib.generic_replay(ctx, path, [(None, "promela", "promela", None)])
