"""C20 Transformation and interpretation are deterministic functions of their input (DESIGN.md section 6, C20).

What the technique contributes: the Lean models are functions, so I = M in every process instance
implies that interpretation does not depend on the process (suite interp). For the transpilers'
*text* there is no Lean model of the bytes; their determinism is decided by comparing what
separate processes emit (suite emit) - labelled exploration.

Process instances compared: two ordinary runs (address-space randomisation on), one with
randomisation off (`setarch -R`), two with a seed-dependent pattern of holes left in the heap before the
request is served (UV_HEAP_PERTURB: changes the relative order of heap addresses, which randomisation of
the base address does not), and runs with the interpreter's cache files enabled, cold and warm.
"""
import os, shutil, hashlib
from concurrent.futures import ThreadPoolExecutor
from uvlib import BrokenTie, hexs, chunks, WORK
from checks import enginelib as E
from checks.enginelib import charts

THEOREMS = []
FINISH = {"level": "exploration"}
LEAN_FILES = ["UscxmlVerif.Model.Large"]
URL = "file:///verif/doc.scxml"


def variants(ctx, tag):
    """(name, argv prefix, env) of the process conditions"""
    cache = os.path.join(WORK, "c20-cache-%s-%d" % (tag, ctx.seed))
    shutil.rmtree(cache, ignore_errors=True); os.makedirs(cache)
    base = {"USCXML_NOCACHE_FILES": "1"}
    cenv = {"USCXML_NOCACHE_FILES": "", "TMPDIR": cache, "TMP": cache, "TEMP": cache}
    return [("aslr-1", [], base), ("aslr-2", [], base), ("no-aslr", ["setarch", "x86_64", "-R"], base),
            ("heap-1", [], dict(base, UV_HEAP_PERTURB="1")), ("heap-2", [], dict(base, UV_HEAP_PERTURB=str(7 + ctx.seed))),
            # glibc serves blocks above the threshold from mmap, at descending instead of ascending addresses: the blocks
            # of a large document's DOM heap then lie in a different relative order
            ("mmap-4k", [], dict(base, MALLOC_MMAP_THRESHOLD_="4096")), ("mmap-24k", [], dict(base, MALLOC_MMAP_THRESHOLD_="24576")),
            ("mmap-4k-arena1", [], dict(base, MALLOC_MMAP_THRESHOLD_="4096", MALLOC_ARENA_MAX="1")),
            ("cache-cold", [], cenv), ("cache-warm", [], cenv)], cache


def run_variant(ctx, cmd, lines, pre, env, nproc=8):
    parts = list(chunks(lines, max(1, (len(lines) + nproc - 1) // nproc)))
    def work(part):
        e = dict(env)
        rc, h, err = ctx.run_lines(pre + [ctx.harness, cmd], part, timeout=3600, env=e)
        if rc != 0 or len(h) != len(part): raise BrokenTie("harness", "uvharness %s rc=%s %d/%d %s" % (cmd, rc, len(h), len(part), err[-300:]))
        return h
    if env.get("TMPDIR"):   # cache runs are sequential: cold must be complete before warm starts
        return work(lines)
    with ThreadPoolExecutor(nproc) as ex: return [x for part in ex.map(work, parts) for x in part]


def nested_doc(rng, dm):
    """a parent with several invoked inline machines (ids given), some of them identical"""
    kids = []
    nk = rng.randint(2, 4)
    proto = None
    for i in range(nk):
        g = charts.Gen(rng, max_states=rng.choice([2, 3, 4]), p_history=0.0, p_fail=0.0, dm=dm, nvars=0)
        body = charts.xml(g.chart(), dm, 0)
        if proto is not None and rng.random() < 0.3: body = proto
        proto = body
        kids.append(body)
    g = charts.Gen(rng, max_states=rng.choice([3, 5]), p_history=0.0, p_fail=0.0, dm=dm, nvars=0)
    parent = charts.xml(g.chart(), dm, 0)
    inv = "".join('<invoke type="scxml" id="inv%d"><content>%s</content></invoke>' % (i, k.replace(' xmlns="http://www.w3.org/2005/07/scxml"', ' xmlns="http://www.w3.org/2005/07/scxml"')) for i, k in enumerate(kids))
    # put the invokes into the first <state ...> of the parent
    k = parent.find("<state")
    k = parent.find(">", k) + 1
    return parent[:k] + inv + parent[k:]


def big_doc(rng, dm):
    """a document large enough for its DOM to spread over several heap blocks: many <data>/<assign> with inline content
    (promela) or a long ring of states with handlers (null)"""
    H = '<scxml xmlns="http://www.w3.org/2005/07/scxml" version="1.0" datamodel="%s" initial="s0">' % dm
    if dm == "promela":
        nd, ns = rng.randint(100, 220), rng.randint(20, 60)
        data = "".join('<data id="item%d" type="int">\'label.%03d\'</data>' % (i, i) for i in range(nd))
        states = "".join('<state id="s%d"><onentry><assign location="item%d">\'moved.%03d\'</assign></onentry><transition event="e%d" target="s%d"/></state>'
                         % (i, rng.randrange(nd), i, i % 7, (i + 1) % ns) for i in range(ns))
        return H + "<datamodel>" + data + "</datamodel>" + states + "</scxml>"
    ns = rng.randint(30, 50)          # the C and VHDL back-ends take minutes on a few hundred transitions
    states = "".join('<state id="s%d"><onentry><raise event="r%d"/><log label="L%d"/></onentry><transition event="e%d r%d" target="s%d"/><transition event="x.%d" target="s%d"/></state>'
                     % (i, i % 11, i, i % 7, (i + 3) % 11, (i + 1) % ns, i % 5, (i * 7) % ns) for i in range(ns))
    return H + states + "</scxml>"


def rich_doc(rng):
    """a long pipeline whose stages use every element the C back-end keeps a table for: <send> with <param>/<content>/namelist,
    <donedata> with params, <foreach>, <data>, <invoke> with params and <finalize>, <if>/<elseif>/<else>, <cancel>, <script>:
    large enough for the DOM to spread over several heap regions (that is where pointer-keyed containers start to reorder)"""
    n = rng.randint(20, 34)
    out = ['<scxml xmlns="http://www.w3.org/2005/07/scxml" version="1.0" datamodel="lua" name="pipeline" initial="stage0">',
           '<datamodel><data id="processed" expr="0"/><data id="failed" expr="0"/><data id="items" expr="{1, 2, 3}"/></datamodel>']
    for i in range(n):
        nxt = "stage%d" % (i + 1) if i + 1 < n else "done"
        out.append('<state id="stage%d"><onentry><log label="pipeline" expr="\'entering stage %d\'"/>' % (i, i))
        for k in range(rng.randint(1, 3)):
            ps = "".join('<param name="p%d" expr="%d"/>' % (j, i * 10 + j) for j in range(rng.randint(1, 3)))
            out.append('<send event="stage%d.s%d" %s>%s</send>' % (i, k, rng.choice(['target="#_internal"', 'delay="%dms"' % (10 + i), 'id="snd%d_%d"' % (i, k), 'namelist="processed"']), ps))
        if rng.random() < 0.4: out.append('<foreach array="items" item="it%d" index="ix%d"><assign location="processed" expr="processed + it%d"/></foreach>' % (i, i, i))
        if rng.random() < 0.4: out.append('<if cond="failed == 0"><raise event="ok%d"/><elseif cond="failed == 1"/><raise event="one%d"/><else/><cancel sendid="snd%d_0"/></if>' % (i, i, i))
        if rng.random() < 0.3: out.append('<script>processed = processed + %d</script>' % i)
        out.append('</onentry>')
        if rng.random() < 0.25:
            out.append('<invoke type="scxml" id="inv%d"><param name="seed" expr="%d"/><param name="stage" expr="%d"/><content><scxml xmlns="http://www.w3.org/2005/07/scxml" version="1.0" datamodel="lua"><final id="f"/></scxml></content>'
                       '<finalize><assign location="processed" expr="processed + 1"/></finalize></invoke>' % (i, i, i))
        out.append('<transition event="stage%d.s0" cond="failed == 0" target="%s"><assign location="processed" expr="processed + 1"/>'
                   '<send event="stage.finished" target="#_internal"><param name="stage" expr="%d"/></send></transition>' % (i, nxt, i))
        out.append('<transition event="stage%d.s0" target="aborted"/><transition event="error.execution" target="aborted"><assign location="failed" expr="failed + 1"/></transition></state>' % i)
    out.append('<final id="done"><donedata><param name="processed" expr="processed"/><param name="failed" expr="failed"/></donedata></final>')
    out.append('<final id="aborted"><donedata><content expr="failed"/></donedata></final></scxml>')
    return "".join(out)


def suite_interp(ctx, n):
    rng = ctx.rng
    cases = E.gen_cases(rng, n, p_fail=0.1)
    lines = [E.case_line("large", d, e) for d, e in cases] + [E.case_line("fast", d, e) for d, e in cases]
    vs, cache = variants(ctx, "interp")
    outs = {}
    for name, pre, env in vs: outs[name] = run_variant(ctx, "trace", lines, pre, env)
    M = ctx.driver_lines("trace", lines, timeout=3600)
    shutil.rmtree(cache, ignore_errors=True)
    st = dict(inputs=len(lines), process_instances=len(vs), all_equal=0, equal_model=0, violations=0)
    for i, l in enumerate(lines):
        col = [outs[name][i] for name, _, _ in vs]
        if all(c == col[0] for c in col): st["all_equal"] += 1
        if all(c == M[i] for c in col):
            st["equal_model"] += 1
            continue
        st["violations"] += 1
        if len(ctx.violations) < 4:
            diff = [name for (name, _, _), c in zip(vs, col) if c != M[i]]
            ctx.violation("interp-%d" % len(ctx.violations), "interp", [l],
                          detail="the trace differs from the model's (a function of chart and events) in process instances %s\nchart: %s" % (diff, l.split("\t")[1][:600]))
    ctx.add_suite("interp", **st)


def suite_emit(ctx, n):
    rng = ctx.rng
    docs = []
    for i in range(n):
        fam = ("plain", "promela", "nested", "nested-promela", "big-promela", "big-plain", "big-rich")[i % 7]
        if fam == "big-rich": docs.append((fam, rich_doc(rng), ["c"]))
        elif fam == "big-promela": docs.append((fam, big_doc(rng, "promela"), ["c", "promela"]))
        elif fam == "big-plain": docs.append((fam, big_doc(rng, "null"), ["c", "vhdl"]))
        elif fam == "plain":
            g = charts.Gen(rng, max_states=rng.choice([3, 6, 10]), p_fail=0.05); docs.append((fam, charts.xml(g.chart()), ["c", "vhdl"]))
        elif fam == "promela":
            g = charts.Gen(rng, max_states=rng.choice([3, 6, 10]), p_fail=0.0, dm="promela", nvars=2); docs.append((fam, charts.xml(g.chart(), "promela", 2), ["c", "promela"]))
        elif fam == "nested":
            docs.append((fam, nested_doc(rng, "null"), ["c"]))
        else:
            docs.append((fam, nested_doc(rng, "promela"), ["c", "promela"]))
    lines, meta = [], []
    for fam, x, backends in docs:
        for b in backends:
            lines.append("%s\t%s\t%s" % (b, URL, hexs(x))); meta.append((fam, b, x))
    vs, cache = variants(ctx, "emit")
    outs = {}
    for name, pre, env in vs: outs[name] = run_variant(ctx, "emit", lines, pre, env)
    shutil.rmtree(cache, ignore_errors=True)
    st = dict(inputs=len(lines), process_instances=len(vs), identical=0, emitted=0, refused=0, violations=0, bytes=0)
    per = {}
    for i, (l, (fam, b, x)) in enumerate(zip(lines, meta)):
        col = [outs[name][i] for name, _, _ in vs]
        k = "%s/%s" % (fam, b); per[k] = per.get(k, 0) + 1
        if col[0].startswith(("EXC", "bad")): st["refused"] += 1
        else: st["emitted"] += 1; st["bytes"] += len(col[0]) // 2
        crash = [c for c in col if c.startswith(("CRASH", "EXIT"))]
        if all(c == col[0] for c in col) and not crash:
            st["identical"] += 1
            continue
        st["violations"] += 1
        if len(ctx.violations) < 4:
            why = "the transpiler ended abnormally (%s)" % crash[0] if crash else ""
            if not crash:
                j = next(j for j, c in enumerate(col) if c != col[0])
                try:
                    a = bytes.fromhex(col[0]).decode("utf-8", "replace").split("\n"); bb = bytes.fromhex(col[j]).decode("utf-8", "replace").split("\n")
                    dl = [(u, v) for u, v in zip(a, bb) if u != v]
                    why = "output of process instance %s differs from %s in %d lines, first: %r vs %r" % (vs[j][0], vs[0][0], len(dl) + abs(len(a) - len(bb)), dl[0][0][:120] if dl else "", dl[0][1][:120] if dl else "")
                except ValueError:
                    why = "outcomes differ: %s vs %s" % (col[0][:60], col[j][:60])
            ctx.violation("emit-%d" % len(ctx.violations), "emit", [l], detail="back-end %s, document family %s: %s\ndocument: %s" % (b, fam, why, x[:1500]))
    st["per_family_backend"] = per
    ctx.add_suite("emit", **st)
    ctx.sample({"suite": "emit", "backend": meta[0][1], "document": meta[0][2][:400], "sha256_of_output": hashlib.sha256(outs["aslr-1"][0].encode()).hexdigest()})


def run(ctx):
    ctx.setup(variants=("plain",))
    ctx.audit(THEOREMS, LEAN_FILES)
    quick = ctx.tier == "quick"
    suite_interp(ctx, 150 if quick else 1500)
    suite_emit(ctx, 66 if quick else 250)
    s1, s2 = ctx.coverage["suites"]["interp"], ctx.coverage["suites"]["emit"]
    ctx.coverage["evaluations"] = (s1["inputs"] + s2["inputs"]) * s2["process_instances"]
    ctx.coverage["distinct_nontrivial"] = s2["emitted"]
    ctx.coverage["rule"] = ("random charts x events interpreted by both engines, and documents of four families (plain, promela datamodel, parents with 2-4 invoked inline machines some of them identical, "
                            "the same with promela) transpiled by every applicable back-end, plus documents of several hundred elements (their DOM spreads over several heap blocks), each in 10 process instances: two with address-space randomisation, one without, two with perturbed heap layouts, three in which malloc serves large blocks from mmap (descending addresses), cache files cold and warm; "
                            "non-trivial = documents for which a back-end emitted text")
    ctx.assumptions += ["'different memory layouts' are those the kernel's randomisation produced in these runs plus the fixed layout of setarch -R",
                        "no Lean model of the emitted bytes exists: for the transpilers this check is a comparison of runs, not a proof"]


def replay(ctx, path):
    ctx.setup(variants=("plain",))
    for line in open(path):
        if "\t" not in line or line.startswith(("#", "property=")): continue
        l = line.rstrip("\n")
        cmd = "emit" if l.split("\t")[0] in ("c", "promela", "vhdl") else "trace"
        vs, cache = variants(ctx, "replay")
        for name, pre, env in vs:
            h = run_variant(ctx, cmd, [l], pre, env)
            print(name, hashlib.sha256(h[0].encode()).hexdigest()[:16], h[0][:80])
        shutil.rmtree(cache, ignore_errors=True)
    return 0
