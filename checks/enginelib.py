"""Shared machinery of the engine-family checks: case generation, harness/driver runs,
the abstraction `abs` of C01 and parallel batching."""
import os, sys, subprocess, random
from concurrent.futures import ThreadPoolExecutor
sys.path.insert(0, os.path.join(os.path.dirname(os.path.abspath(__file__)), "..", "gen"))
import charts, shrink, exhaustive
from uvlib import BrokenTie, hexs, chunks, DRIVER

KEEP = ("bpe:", "bx:", "ax:", "bt:", "at:", "be:", "ae:", "bc:", "ac:", "log:", "bcomp", "acomp")


def abs_trace(tokens):
    """C01's abstraction of an engine trace: drop micro-step brackets, step() results,
    the cycle warning and every configuration report except the one at a macrostep end."""
    out = []
    for i, t in enumerate(tokens):
        if t.startswith(KEEP): out.append(t)
        elif t == "st":
            out.append("st")
            # the configuration reported with the MACROSTEPPED result that follows
            if i + 2 < len(tokens) and tokens[i + 1] == "ret:MACROSTEPPED" and tokens[i + 2].startswith("cfg:"):
                out.append(tokens[i + 2])
        elif t in ("DIVERGE",) or t.startswith(("CRASH", "EXC", "EXIT")): out.append(t)
    return out


def case_line(engine, d, evs, dm="null", nvars=0):
    return "%s\t%s\t%s\t%s" % (engine, charts.sexpr(d), ",".join(evs) or "-", hexs(charts.xml(d, dm, nvars)))


def run_batches(ctx, lines, harness_args=(), want_harness=True, want_driver=True, nproc=16, variant=None):
    """returns (harness outputs or None, driver outputs or None), aligned with lines"""
    parts = list(chunks(lines, max(1, (len(lines) + nproc - 1) // nproc)))
    def work(part):
        h = d = None
        if want_harness:
            rc, h, err = ctx.harness_lines("trace", part, args=harness_args, variant=variant, timeout=1800)
            if rc != 0 or len(h) != len(part):
                raise BrokenTie("harness", "uvharness trace rc=%s lines=%d/%d %s" % (rc, len(h), len(part), err[-300:]))
        if want_driver:
            d = ctx.driver_lines("trace", part, timeout=1800)
        return h, d
    with ThreadPoolExecutor(nproc) as ex:
        res = list(ex.map(work, parts))
    H = [x for h, _ in res for x in (h or [])] if want_harness else None
    D = [x for _, d in res for x in (d or [])] if want_driver else None
    return H, D


def gen_cases(rng, n, sizes=(3, 6, 10, 14), max_events=5, **kw):
    cases = []
    for _ in range(n):
        g = charts.Gen(rng, max_states=rng.choice(sizes), **kw)
        d = g.chart()
        evs = charts.events_for(rng, g, rng.randint(0, max_events))
        cases.append((d, evs))
    return cases


def first_diff(a, b):
    k = 0
    while k < min(len(a), len(b)) and a[k] == b[k]: k += 1
    return k


def exhaustive_cases(tier):
    """all charts with <= 4 states and <= 2 transitions, and all 5-state charts with a parallel of
    >= 2 regions and two transitions (quick); all charts with <= 5 states and <= 2 transitions
    (thorough). One event `e`."""
    out = []
    if tier == "quick":
        for c in exhaustive.charts(4, 2): out.append((c, ["e"]))
        for c in exhaustive.charts(5, 2):
            if len(c.children) + sum(1 for _ in c.children[0].walk()) and sum(1 for x in c.walk() if x.kind != "scxml") == 5 and \
               sum(len(x.trans) for x in c.walk()) == 2 and any(x.kind == "parallel" and len(x.children) >= 2 for x in c.walk()):
                out.append((c, ["e"]))
    else:
        for c in exhaustive.charts(5, 2): out.append((c, ["e"]))
        for c in exhaustive.charts(6, 1): out.append((c, ["e", "e"]))
    return out


def parallel_done_cases(rng, n):
    """a parallel whose regions each reach a final state (done.state.<region>, then done.state.<parallel>), regions with or
    without a history child / an <initial> element, optionally left half-way and resumed through a history"""
    out = []
    for _ in range(n):
        nr = rng.randint(2, 3)
        regs, evs_to_final = [], []
        hist_region = None
        for i in range(nr):
            hist = rng.random() < 0.5
            deep = rng.random() < 0.3
            mid = rng.random() < 0.5
            kids = ""
            if hist:
                kids += " (%s r%dh (t - - e (r%da)))" % ("hdeep" if deep else "history", i, i)
                if hist_region is None: hist_region = i
            first = "(state r%da (t g%d - e (%s)))" % (i, i, "r%db" % i if mid else "r%df" % i)
            second = " (state r%db (t h%d - e (r%df)))" % (i, i, i) if mid else ""
            # (no target-less done.state.r<i> listeners: nested target-less transitions are the recorded finding nested-targetless)
            regs.append("(state r%d (init r%da)%s %s%s (final r%df))" % (i, i, kids, first, second, i))
            evs_to_final.append(["g%d" % i] + (["h%d" % i] if mid else []))
        resume = "(r%dh)" % hist_region if hist_region is not None else "(work)"
        sx = ("(scxml root (init work) (parallel work (onentry (log 1 IN)) (onexit (log 2 OUT)) %s (t pause - e (paused)) (t done.state.work - e (pass) (log 3 DONE))) "
              "(state paused (t resume - e %s)) (final pass))" % (" ".join(regs), resume))
        d = charts.from_sexpr(sx)
        # event history: interleave the regions' steps, maybe with a pause/resume in between
        steps = [e for ev in evs_to_final for e in ev]
        order = []
        pend = [list(ev) for ev in evs_to_final]
        while any(pend):
            k = rng.choice([i for i, p in enumerate(pend) if p])
            order.append(pend[k].pop(0))
        if rng.random() < 0.5:
            k = rng.randrange(len(order) + 1)
            order[k:k] = ["pause", "resume"]
            if rng.random() < 0.5: order += steps           # after a resume the other regions start over
        out.append((d, order))
    return out


def parallel_done_simul_cases(rng, n):
    """a parallel several of whose regions enter their final state in the SAME microstep (one event enabling a transition in
    each region, or one transition with a target in each region), next to an observer region that counts the done.state.<region>
    events seen before done.state.<parallel> and notices a second done.state.<parallel>"""
    out = []
    for _ in range(n):
        nr = rng.randint(2, 3)
        shared = rng.sample(range(nr), rng.randint(2, nr))          # the regions that finish together
        multi = rng.random() < 0.4
        regs, order = [], []
        for i in range(nr):
            mid = rng.random() < 0.4
            last = "gg" if i in shared and not multi else "g%d" % i
            if mid:
                body = "(state r%da (t m%d - e (r%db))) (state r%db (t %s - e (r%df)))" % (i, i, i, i, last, i)
                order.append("m%d" % i)
            else:
                body = "(state r%da (t %s - e (r%df)))" % (i, last, i)
            regs.append("(state r%d (init r%da) %s (final r%df))" % (i, i, body, i))
        rng.shuffle(order)
        alone = [i for i in range(nr) if i not in shared or multi]
        if multi:
            alone = [i for i in range(nr) if i not in shared]
            src = rng.choice(["work", "outer", "c0"])
            jump = "(t jump - e (%s))" % " ".join("r%df" % i for i in sorted(shared))
        else:
            src, jump = None, ""
        tail = ["g%d" % i for i in alone]
        rng.shuffle(tail)
        k = rng.randrange(len(tail) + 1)
        tail[k:k] = ["jump" if multi else "gg"]
        order += tail + ["fin"]
        anyr = ",".join("done.state.r%d" % i for i in range(nr))
        obs = ""
        for c in range(nr + 1):
            more = "(t %s - e (c%d)) (t done.state.work - e (early%d))" % (anyr, c + 1, c) if c < nr else "(t done.state.work - e (ok))"
            obs += "(state c%d %s%s) " % (c, more, " " + jump if src == "c0" and c == 0 else "")
        obs += "(state ok (t done.state.work - e (twice)) (t %s - e (late))) (state twice) (state late) " % anyr + " ".join("(state early%d)" % c for c in range(nr))
        sx = ("(scxml root (init outer) (parallel outer (parallel work (onentry (log 1 IN)) %s%s) (state obs (init c0) %s) (t fin - e (pass))%s) (final pass))"
              % (" ".join(regs), " " + jump if src == "work" else "", obs, " " + jump if src == "outer" else ""))
        out.append((charts.from_sexpr(sx), order))
    return out


def nested_if_cases(rng, n, nvars=2):
    """executable content with <if>/<elseif>/<else> nested three deep, conditions on variables set just before"""
    out = []
    for _ in range(n):
        uv = [0]
        def nuv():
            uv[0] += 1; return uv[0]
        def leaf():
            k = nuv()
            return rng.choice(["(log %d L%d)" % (k, k), "(raise %d i%d)" % (k, rng.randint(1, 2)), "(incr %d %d)" % (k, rng.randrange(nvars))])
        def cond(): return rng.choice(["var:%d:%d" % (rng.randrange(nvars), rng.randint(0, 2)), "never"])
        def items(depth):
            return " ".join(tree(depth) if depth < 3 and rng.random() < 0.6 else leaf() for _ in range(rng.randint(1, 2)))
        def tree(depth):
            s = "(if %d %s %s" % (nuv(), cond(), items(depth + 1))
            for _ in range(rng.choice([0, 0, 1, 2])): s += " (elseif %s) %s" % (cond(), items(depth + 1))
            if rng.random() < 0.6: s += " (else) %s" % items(depth + 1)
            return s + ")"
        pre = " ".join("(assign %d %d %d)" % (nuv(), v, rng.randint(0, 2)) for v in range(nvars))
        blocks = " ".join("(onentry %s %s %s)" % (pre if i == 0 else "", tree(0), leaf()) for i in range(rng.randint(1, 2)))
        sx = "(scxml root (state s %s (t i1 - e (t) %s) (t i2 - e - %s)) (state t (onentry %s)))" % (blocks, tree(0), tree(1), tree(0))
        out.append((charts.from_sexpr(sx), []))
    return out


def hypotheses(ctx, suite, docs):
    """the decidable hypothesis of the structural theorems - the document is well formed (WFDoc) - evaluated on the generated
    charts by the compiled Lean definitions, together with Coherent and IntervalOK (theorems for well-formed documents,
    evaluated all the same as a cross-check); a generated chart outside them is reported as a broken tie"""
    lines = [case_line("tables", d, []) for d in docs]
    out = []
    for part in chunks(lines, 500): out += ctx.driver_lines("coherent", part, timeout=1800)
    st = dict(charts=len(docs), wellformed_docs=sum(1 for x in out if "wfdoc=1" in x), coherent=sum(1 for x in out if "coh=1" in x), interval_ok=sum(1 for x in out if "ival=1" in x),
              plain_transitions=sum(int(x.split("plain=")[1].split("/")[0]) for x in out if "plain=" in x),
              transitions=sum(int(x.split("plain=")[1].split("/")[1].split(" ")[0]) for x in out if "plain=" in x),
              history_free=sum(1 for x in out if "hist=0" in x), history_free_entry_ok=sum(1 for x in out if "hist=0" in x and "entry=1" in x),
              history_free_down_ok=sum(1 for x in out if "hist=0" in x and "down=1" in x),
              plain_charts=sum(1 for x in out if "hist=0" in x and "init=0" in x), plain_charts_xor_ok=sum(1 for x in out if "hist=0" in x and "init=0" in x and "xor=1" in x))
    for d, x in zip(docs, out):
        if ("coh=1" not in x or "ival=1" not in x or "wfdoc=1" not in x or ("hist=0" in x and ("entry=1" not in x or "down=1" not in x)) or ("hist=0" in x and "init=0" in x and "xor=1" not in x)) and not any(p.endswith("hypotheses.txt") for p, _ in ctx.violations):
            ctx.violation("hypotheses", suite, [case_line("tables", d, [])], found_input=False,
                          detail="a generated (valid) chart is outside the hypotheses Coherent / IntervalOK (or, being history-free, EntryOk / SelPlain / SelPlainF / DownOk; without <initial> elements also XorOk) of the structural theorems (%s): they say nothing about it\nchart: %s" % (x, charts.sexpr(d)))
    ctx.add_suite(suite, **st)
    return st


def selfdriven(cases):
    """for back-ends that are run without outside events (Promela): a boot state sends the whole event history to the session
    itself before the chart proper is entered; log labels become L<uvid> (what the trace reader of C06 recognises)"""
    import re
    out = []
    for d, evs in cases:
        sx = charts.sexpr(d)
        sx = re.sub(r"\(log (\d+) [^)\s]+\)", lambda m: "(log %s L%s)" % (m.group(1), m.group(1)), sx)
        sends = " ".join("(send %d %s -)" % (100 + i, e) for i, e in enumerate(evs))
        m = re.match(r"\(scxml root \(init ([^)]*)\) ", sx)
        if m:
            first = m.group(1)
            sx = sx.replace(m.group(0), "(scxml root ", 1)
        else:
            first = re.search(r"\((?:state|parallel|final) (\S+)", sx).group(1)
        sx = sx.replace("(scxml root ", "(scxml root (init boot) (state boot (onentry %s) (t - - e (%s))) " % (sends, first), 1)
        out.append(charts.from_sexpr(sx))
    return out


def history_revisit_selfdriven(rng, n):
    return selfdriven(history_revisit_cases(rng, n))


def history_revisit_cases(rng, n):
    """a compound state with a (shallow or deep) history that is left and re-entered through the history several
    times, with a different child active each time; optionally a second level below one child"""
    out = []
    for _ in range(n):
        kind = rng.choice(["history", "hdeep"])
        nch = rng.randint(2, 4)
        kids = []
        for i in range(nch):
            nxt = (i + 1) % nch
            inner = ""
            if rng.random() < 0.4:
                inner = " (state c%dx (t m - e (c%dy))) (state c%dy (t m - e (c%dx)))" % (i, i, i, i)
            kids.append("(state c%d (onentry (log %d E%d)) (t n - e (c%d))%s)" % (i, 10 + i, i, nxt, inner))
        default = rng.randrange(nch)
        sx = "(scxml root (state out (onentry (log 1 OUT)) (t b - e (h))) (state p (%s h (t - - e (c%d))) %s (t o - e (out))))" % (kind, default, " ".join(kids))
        if rng.random() < 0.5:
            sx = sx.replace("(scxml root (state out", "(scxml root (init p) (state out", 1)
        d = charts.from_sexpr(sx)
        evs = []
        for _ in range(rng.randint(2, 4)):                 # rounds of: move on inside, leave, come back through the history
            evs += [rng.choice(["n", "n", "m"]) for _ in range(rng.randint(0, 3))] + ["o", "b"]
        if rng.random() < 0.3: evs.insert(rng.randrange(len(evs)), rng.choice(["o", "b", "n"]))
        out.append((d, evs))
    return out
