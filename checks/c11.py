"""C11 Invoked sessions start, communicate and stop as specified (DESIGN.md section 6, C11).

Theorems (Properties/C11.lean) are about Model.Invoke, the micro-steppers' invoke bookkeeping:
for every history of exits, entries, macrostep ends and finishes an invocation is started
exactly once when a macrostep ends with its state active, cancelled exactly once when the state
is exited, and all are cancelled when the interpreter finishes. Suites:

  invoke-bookkeeping  the compiled interpreter runs random charts in which some states invoke an
                      (idle) child session; the exits / entries / stable-configuration notices /
                      completion of its monitor trace are fed to Model.Invoke.run, whose
                      invoke/uninvoke sequence must be the one the interpreter reported
  invoke-threads      parent/child pairs with real child sessions (finishing at once, on an
                      event, never; parent leaving the invoking state early, late, never;
                      #_parent, #_<invokeid>, autoforward, finalize) on the ThreadSanitizer build:
                      done.invoke exactly once iff the child finished on its own, no child event
                      processed after the cancellation, finalize before the event is matched,
                      order of child events kept, no dead-lock (watchdog)
"""
import re
from concurrent.futures import ThreadPoolExecutor
from uvlib import BrokenTie, hexs, chunks
from checks import enginelib as E
from checks.enginelib import charts, shrink

P = "UscxmlVerif.Properties.C11."
THEOREMS = [
    (P + "starts_and_stops_alternate", "proved", "for EVERY history of exits, entries, macrostep ends and finishes and every state: #invoke = #uninvoke + (1 if its invocation runs else 0): nothing is started twice, cancelled twice, or cancelled without having been started"),
    (P + "macrostep_end_starts", "proved", "at the end of a macrostep every active state with <invoke> children is invoked; exactly those not yet invoked are started, once each, in document order"),
    (P + "exit_cancels_once", "proved", "exiting a state whose invocation runs tells the invoker exactly once, and the invocation is over (also when the state is re-entered in the same macrostep)"),
    (P + "exit_of_uninvoked_is_silent", "proved", "exiting a state without running invocation tells the invokers nothing"),
    (P + "invoked_only_while_active", "proved", "an invocation only runs while its state is active"),
    (P + "finish_cancels_all", "proved", "after the finalising step every state has been cancelled exactly as often as it was started"),
]
LEAN_FILES = ["UscxmlVerif.Properties.C11"]
CHILD = '<scxml xmlns="http://www.w3.org/2005/07/scxml" version="1.0" datamodel="null"><state id="idle"/></scxml>'


def with_invokes(rng, d):
    """render the chart and give some of its proper states an <invoke> of an idle child; returns (xml, ids of invoking states)"""
    x = charts.xml(d)
    cands = [n.id for n in d.walk() if n.kind in ("state", "parallel") and n.id]
    chosen = [i for i in cands if rng.random() < 0.4] or cands[:1]
    for sid in chosen:
        m = re.search(r'<(state|parallel) id="%s"[^>]*>' % re.escape(sid), x)
        if not m: continue
        x = x[:m.end()] + '<invoke type="scxml" id="inv_%s"><content>%s</content></invoke>' % (sid, CHILD) + x[m.end():]
    return x, chosen


def acts_from_trace(toks, idx):
    acts, outs = [], []
    for t in toks:
        if t.startswith("bx:") and t[3:] in idx: acts.append("x%d" % idx[t[3:]])
        elif t.startswith("be:") and t[3:] in idx: acts.append("e%d" % idx[t[3:]])
        elif t == "st": acts.append("m")
        elif t == "bcomp": acts.append("f")
        elif t.startswith("bi:inv_") and t[7:] in idx: outs.append("i%d" % idx[t[7:]])
        elif t.startswith("bu:inv_") and t[7:] in idx: outs.append("u%d" % idx[t[7:]])
    return acts, outs


def run_book(ctx, items):
    """items: (engine, chart, xml, invoking ids, events) -> (interpreter trace, model verdict)"""
    lines = ["%s\t-\t%s\t%s" % (eng, ",".join(ev) or "-", hexs(x)) for eng, d, x, inv, ev in items]
    H, _ = E.run_batches(ctx, lines, want_driver=False, variant="asan")
    N = ctx.driver_lines("names", ["x\t" + charts.sexpr(d) for _, d, _, _, _ in items], timeout=1800)
    reqs, real = [], []
    for (eng, d, x, inv, ev), h, nm in zip(items, H, N):
        idx = {kv.split("=", 1)[1]: int(kv.split("=", 1)[0][1:]) for kv in nm.split(" ") if kv.startswith("S")}
        acts, outs = acts_from_trace(h.split(" "), idx)
        nstates = sum(1 for kv in nm.split(" ") if kv.startswith("S"))      # ids may repeat (pseudo-states): count entries
        reqs.append("%d\t%s\t%s" % (nstates, ",".join(str(idx[i]) for i in inv if i in idx) or "-", " ".join(acts)))
        real.append(outs)
    M = ctx.driver_lines("invoke", reqs, timeout=1800)
    return H, real, [m.split(" ") if m else [] for m in M]


def suite_book(ctx, n):
    rng = ctx.rng
    items = []
    for _ in range(n):
        g = charts.Gen(rng, max_states=rng.choice([3, 5, 8]), p_fail=0.05, p_final=0.35, p_loop=0.4)
        d = g.chart()
        x, inv = with_invokes(rng, d)
        ev = charts.events_for(rng, g, rng.randint(1, 5))
        for eng in ("large", "fast"): items.append((eng, d, x, inv, ev))
    H, R, M = run_book(ctx, items)
    st = dict(inputs=len(items), agree=0, invocations=0, cancellations=0, reentries=0, finished=0, violations=0)
    for (eng, d, x, inv, ev), h, r, m in zip(items, H, R, M):
        st["invocations"] += sum(1 for o in r if o.startswith("i")); st["cancellations"] += sum(1 for o in r if o.startswith("u"))
        toks = h.split(" ")
        if "bcomp" in toks: st["finished"] += 1
        bad = [t for t in toks if t.startswith(("CRASH", "EXIT", "EXC"))]
        if any(r[i].startswith("u") and i + 1 < len(r) and r[i + 1] == "i" + r[i][1:] for i in range(len(r))): st["reentries"] += 1
        if r == m and not bad:
            st["agree"] += 1
            continue
        if "DIVERGE" in toks: st["agree"] += 1; continue
        st["violations"] += 1
        if len(ctx.violations) < 4:
            k = E.first_diff(r, m)
            ctx.violation("book-%d" % len(ctx.violations), "invoke-bookkeeping", ["%s\t%s\t%s\t%s" % (eng, charts.sexpr(d), ",".join(ev) or "-", hexs(x))],
                          detail="engine %s: %s; the interpreter told the invokers %s, the bookkeeping model %s (i<k>/u<k>: invoke/uninvoke of state k), first difference at %d\nstates invoking: %s\nchart: %s\nevents: %s" %
                                 (eng, ("abnormal end " + bad[0]) if bad else "invoke notifications differ", " ".join(r), " ".join(m), k, inv, charts.sexpr(d), ev))
    ctx.add_suite("invoke-bookkeeping", **st)
    ctx.sample({"suite": "invoke-bookkeeping", "document": items[0][2][:600], "events": items[0][4]})


# ------------------------------------------------------------------ suite: invoke-threads
NS = 'xmlns="http://www.w3.org/2005/07/scxml" version="1.0" datamodel="null"'


def scenario(rng):
    """-> (name, parent document, api operations, oracle(tokens) -> None | reason)"""
    k = rng.choice(["finishes", "never", "on-event", "ticks", "autoforward", "finalize", "to-child", "reenter", "nested", "nested"])
    blk = lambda n: ",".join(["b:%d" % rng.choice([5, 20, 40]), "q"] * n)
    if k == "finishes":        # the child reaches its final state at once: done.invoke exactly once
        child = '<scxml %s><final id="f"/></scxml>' % NS
        doc = ('<scxml %s><state id="a"><invoke type="scxml" id="c1"><content>%s</content></invoke><transition event="done.invoke.c1" target="b"/></state>'
               '<state id="b"><transition event="done.invoke" target="dup"/></state><state id="dup"/></scxml>' % (NS, child))
        ops = "q,%s,w:%d,q" % (blk(3), rng.choice([10, 60]))
        def oracle(t):
            n = t.count("bpe:done.invoke.c1")
            if n != 1: return "done.invoke.c1 was processed %d times, the child finished on its own" % n
            if not t[-2].startswith("cfg:") or "b" not in t[-2][4:].split(","): return "parent did not end in state b: %s" % t[-2]
    elif k == "never":         # the child never finishes and the parent leaves: no done.invoke
        child = '<scxml %s><state id="s"/></scxml>' % NS
        doc = ('<scxml %s><state id="a"><invoke type="scxml" id="c1"><content>%s</content></invoke><transition event="leave" target="b"/></state>'
               '<state id="b"><transition event="done.invoke" target="bad"/></state><state id="bad"/></scxml>' % (NS, child))
        ops = "q,%s,e:leave,q,w:60,q" % blk(rng.randint(0, 2))
        def oracle(t):
            if any(x.startswith("bpe:done.invoke") for x in t): return "done.invoke for a child that was cancelled and never reached a final state"
            if t.count("bu:c1") != 1: return "the invocation was cancelled %d times" % t.count("bu:c1")
    elif k == "on-event":      # the child finishes when the parent tells it to (#_c1)
        child = '<scxml %s><state id="s"><transition event="stop" target="f"/></state><final id="f"/></scxml>' % NS
        doc = ('<scxml %s><state id="a"><invoke type="scxml" id="c1"><content>%s</content></invoke><transition event="go"><send target="#_c1" event="stop"/></transition>'
               '<transition event="done.invoke.c1" target="b"/></state><state id="b"/></scxml>' % (NS, child))
        ops = "q,%s,e:go,q,%s,w:50,q" % (blk(1), blk(3))
        def oracle(t):
            if t.count("bpe:done.invoke.c1") != 1: return "done.invoke.c1 processed %d times after the child was told to finish" % t.count("bpe:done.invoke.c1")
    elif k == "ticks":         # the child keeps sending; after the cancellation returned nothing new may arrive
        child = ('<scxml %s><state id="s"><onentry><send event="t" delay="5ms"/><send target="#_parent" event="c.1"/><send target="#_parent" event="c.2"/><send target="#_parent" event="c.3"/></onentry>'
                 '<transition event="t"><send event="t" delay="5ms"/><send target="#_parent" event="tick"/></transition></state></scxml>' % NS)
        doc = ('<scxml %s><state id="a"><invoke type="scxml" id="c1"><content>%s</content></invoke><transition event="leave" target="b"/><transition event="c"/><transition event="tick"/></state>'
               '<state id="b"><transition event="tick"/></state></scxml>' % (NS, child))
        ops = "q,%s,e:leave,q,w:120,q,g,w:150,q" % blk(rng.randint(1, 3))
        def oracle(t):
            cs = [x for x in t if x.startswith("bpe:c.")]
            # in order, each at most once; how many of them arrive before the parent leaves depends on how fast the child's thread runs
            if cs != ["bpe:c.1", "bpe:c.2", "bpe:c.3"][:len(cs)]: return "the child's events arrived as %s" % cs
            k2 = t.index("state:IDLE") if "state:IDLE" in t else len(t)
            if any(x == "bpe:tick" for x in t[k2:]): return "an event of the cancelled child was processed long after the cancellation had returned"
    elif k == "autoforward":   # the parent's external events reach the child in order
        child = ('<scxml %s><state id="s"><transition event="e1"><send target="#_parent" event="echo.e1"/></transition><transition event="e2"><send target="#_parent" event="echo.e2"/></transition></state></scxml>' % NS)
        doc = ('<scxml %s><state id="a"><invoke type="scxml" id="c1" autoforward="true"><content>%s</content></invoke><transition event="echo"/><transition event="e1"/><transition event="e2"/></state></scxml>' % (NS, child))
        ops = "q,%s,e:e1,e:e2,e:e1,q,%s,w:60,q" % (blk(1), blk(3))
        def oracle(t):
            es = [x for x in t if x.startswith("bpe:echo.")]
            if es != ["bpe:echo.e1", "bpe:echo.e2", "bpe:echo.e1"][:len(es)]: return "autoforwarded events came back as %s" % es     # (a slow child may not have answered all of them yet)
    elif k == "finalize":      # finalize runs before the child's event is matched
        child = '<scxml %s><state id="s"><onentry><send target="#_parent" event="c.1"/></onentry></state></scxml>' % NS
        doc = ('<scxml %s><state id="a"><invoke type="scxml" id="c1"><content>%s</content><finalize><log label="FIN"/></finalize></invoke>'
               '<transition event="c.1"><log label="TRANS"/></transition></state></scxml>' % (NS, child))
        ops = "q,%s,w:40,q" % blk(3)
        def oracle(t):
            # finalize is run when the event is taken from the queue (before the monitors hear of it): what the
            # property fixes is its order relative to the transition that matches the event
            ls = [x for x in t if x in ("log:FIN", "log:TRANS")]
            if ls != ["log:FIN", "log:TRANS"] or t.count("bpe:c.1") != 1: return "finalize / transition order for the child's event: %s" % [x for x in t if x in ("log:FIN", "log:TRANS", "bpe:c.1")]
    elif k == "to-child":      # #_<invokeid> reaches the child, its answers keep the order
        child = ('<scxml %s><state id="s"><transition event="p1"><send target="#_parent" event="r.1"/></transition><transition event="p2"><send target="#_parent" event="r.2"/></transition></state></scxml>' % NS)
        doc = ('<scxml %s><state id="a"><invoke type="scxml" id="c1"><content>%s</content></invoke><transition event="go"><send target="#_c1" event="p1"/><send target="#_c1" event="p2"/><send target="#_c1" event="p1"/></transition><transition event="r"/></state></scxml>' % (NS, child))
        ops = "q,%s,e:go,q,%s,w:60,q" % (blk(1), blk(3))
        def oracle(t):
            rs = [x for x in t if x.startswith("bpe:r.")]
            if rs != ["bpe:r.1", "bpe:r.2", "bpe:r.1"]: return "answers of the child: %s" % rs
    elif k == "nested":        # the child invokes a grandchild; cancelling the child must cancel both and return
        grand = '<scxml %s><state id="g"><onentry><send target="#_parent" event="g.up"/></onentry></state></scxml>' % NS
        mode = rng.choice(["leave", "leave", "child-finishes"])
        child_fin = '<transition event="stop" target="cf"/>' if mode == "child-finishes" else ""
        child = ('<scxml %s><state id="c"><invoke type="scxml" id="g1"><content>%s</content></invoke><transition event="g.up"><send target="#_parent" event="c.up"/></transition>%s</state><final id="cf"/></scxml>'
                 % (NS, grand.replace("<", "&lt;").replace(">", "&gt;").replace('"', "&quot;") if False else grand, child_fin))
        doc = ('<scxml %s><state id="a"><invoke type="scxml" id="c1"><content>%s</content></invoke><transition event="leave" target="b"/><transition event="c.up"/>'
               '<transition event="go"><send target="#_c1" event="stop"/></transition><transition event="done.invoke.c1" target="b"/></state><state id="b"><transition event="c"/><transition event="g"/></state></scxml>' % (NS, child))
        ops = "q,%s,%s,q,%s,w:80,q,g,w:60,q" % (blk(rng.randint(1, 3)), "e:leave" if mode == "leave" else "e:go", blk(2))
        def oracle(t):
            if t.count("bi:c1") != 1 or t.count("bu:c1") != 1: return "the child was started %d times and cancelled %d times" % (t.count("bi:c1"), t.count("bu:c1"))
            if "au:c1" not in t: return "the cancellation of the child (which has an invocation of its own) never returned"
            n = t.count("bpe:done.invoke.c1")
            if mode == "leave" and n: return "done.invoke for a child that was cancelled"
            if mode != "leave" and n != 1: return "done.invoke.c1 processed %d times after the child was told to finish" % n
            cfgs = [x for x in t if x.startswith("cfg:")]
            if not cfgs or "b" not in cfgs[-1][4:].split(","): return "parent did not end in state b: %s" % (cfgs[-1] if cfgs else "-")
    else:                      # exit and re-entry: the old child is cancelled, a new one started, each once
        child = '<scxml %s><state id="s"><onentry><send target="#_parent" event="hello"/></onentry></state></scxml>' % NS
        doc = ('<scxml %s><state id="a"><invoke type="scxml" id="c1"><content>%s</content></invoke><transition event="again" target="a"/><transition event="hello"/></state></scxml>' % (NS, child))
        ops = "q,%s,e:again,q,%s,w:60,q" % (blk(2), blk(3))
        def oracle(t):
            if t.count("bi:c1") != 2 or t.count("bu:c1") != 1 + (1 if "destroyed" in t else 0) - (1 if "destroyed" in t else 0):
                return "invocations started %d times, cancelled %d times" % (t.count("bi:c1"), t.count("bu:c1"))
            if t.count("bpe:hello") != 2: return "each of the two child sessions says hello once, the parent processed %d" % t.count("bpe:hello")
    return k, doc, ops, oracle


def suite_threads(ctx, n):
    rng = ctx.rng
    cases = [scenario(rng) + (rng.choice(["large", "fast"]),) for _ in range(n)]
    lines = ["%s\t-\t%s\t%s" % (eng, ops, hexs(doc)) for (k, doc, ops, oracle, eng) in cases]
    parts = list(chunks(lines, max(1, (len(lines) + 7) // 8)))
    def work(part):
        rc, h, err = ctx.harness_lines("api", part, variant="tsan", timeout=3600, env={"TSAN_OPTIONS": "halt_on_error=1 exitcode=66"})
        if rc != 0 or len(h) != len(part): raise BrokenTie("harness", "uvharness api rc=%s" % rc)
        return h
    with ThreadPoolExecutor(8) as ex: H = [x for part in ex.map(work, parts) for x in part]
    st = dict(inputs=len(cases), ok=0, violations=0, per_scenario={})
    for (k, doc, ops, oracle, eng), l, h in zip(cases, lines, H):
        t = h.split(" ")
        st["per_scenario"][k] = st["per_scenario"].get(k, 0) + 1
        bad = [x for x in t if x.startswith(("CRASH", "EXIT", "EXC"))]
        why = None
        if bad: why = "ThreadSanitizer reported a data race" if "EXIT:66" in bad else ("did not return within the watchdog (dead-lock)" if "CRASH:14" in bad else "abnormal end " + bad[0])
        elif t[-1] != "end": why = "did not reach the end"
        else: why = oracle(t)
        if why is None:
            st["ok"] += 1
            continue
        st["violations"] += 1
        if len(ctx.violations) < 4:
            ctx.violation("threads-%d" % len(ctx.violations), "invoke-threads", [l],
                          detail="scenario %s, engine %s, operations %s: %s\ntrace (events/invocations): %s\ndocument: %s" %
                                 (k, eng, ops, why, " ".join(x for x in t if x.startswith(("bpe:", "bi:", "bu:", "log:", "state:")))[:600], doc))
    ctx.add_suite("invoke-threads", **st)


def run(ctx):
    ctx.setup(variants=("asan", "tsan"))
    ctx.audit(THEOREMS, LEAN_FILES)
    quick = ctx.tier == "quick"
    suite_book(ctx, 300 if quick else 8000)
    suite_threads(ctx, 64 if quick else 2000)
    s1 = ctx.coverage["suites"]["invoke-bookkeeping"]
    ctx.coverage["evaluations"] = s1["inputs"] + ctx.coverage["suites"]["invoke-threads"]["inputs"]
    ctx.coverage["distinct_nontrivial"] = s1["invocations"]
    ctx.coverage["rule"] = ("random charts of 3-8 states (finals with p=0.35 so that runs finish, loops so that invoking states are left and re-entered) in which 40% of the proper states invoke an idle child session, "
                            "x 1-5 external events, both engines, ASan build; non-trivial = invocations started; plus 9 parent/child scenarios with real child sessions (child finishing at once / on request / never, "
                            "a child that keeps sending, autoforward, finalize, #_<invokeid>, exit and re-entry, a child with an invocation of its own) with randomised blocking steps and waits on the ThreadSanitizer build")
    ctx.assumptions += ["the exits/entries/stable-configuration notices of the monitor trace are taken as the history the bookkeeping reacts to (they are what C13 checks for nesting and completeness)"]


def replay(ctx, path):
    ctx.setup(variants=("asan", "tsan"))
    for line in open(path):
        if "\t" not in line or line.startswith(("#", "property=")): continue
        f = line.rstrip("\n").split("\t")
        if f[1] == "-":
            rc, h, err = ctx.harness_lines("api", [line.rstrip("\n")], variant="tsan", env={"TSAN_OPTIONS": "exitcode=66"})
            print("I:", h[0][:3000]); print(err[-3000:]); continue
        d = charts.from_sexpr(f[1]); x = bytes.fromhex(f[3]).decode()
        inv = re.findall(r'id="inv_([^"]+)"', x)
        H, R, M = run_book(ctx, [(f[0], d, x, inv, [] if f[2] == "-" else f[2].split(","))])
        print("document:", x[:2000]); print("I:", " ".join(R[0])); print("M:", " ".join(M[0]))
    return 0
