"""C11 Invoked sessions start, communicate and stop as specified (DESIGN.md section 6, C11).

Theorems (Properties/C11.lean) are about Model.Invoke, the micro-steppers' invoke bookkeeping:
for every history of exits, entries, macrostep ends and finishes an invocation is started
exactly once when a macrostep ends with its state active, cancelled exactly once when the state
is exited, and all are cancelled when the interpreter finishes. Suites:

  invoke-bookkeeping  the compiled interpreter runs random charts in which some states invoke an
                      (idle) child session; the exits / entries / stable-configuration notices /
                      completion of its monitor trace are fed to Model.Invoke.run, whose
                      invoke/uninvoke sequence must be the one the interpreter reported
  invoke-threads      parent/child pairs with real child sessions (finishing at once, on an
                      event, never; parent leaving the invoking state early, late, never;
                      #_parent, #_<invokeid>, autoforward, finalize) on the ThreadSanitizer build:
                      done.invoke exactly once iff the child finished on its own, no child event
                      processed after the cancellation, finalize before the event is matched,
                      order of child events kept, no dead-lock (watchdog)
"""
import re
from concurrent.futures import ThreadPoolExecutor
from uvlib import BrokenTie, hexs, chunks
from checks import enginelib as E
from checks.enginelib import charts, shrink

P = "UscxmlVerif.Properties.C11."
THEOREMS = [
    (P + "starts_and_stops_alternate", "proved", "for EVERY history of exits, entries, macrostep ends and finishes and every state: #invoke = #uninvoke + (1 if its invocation runs else 0): nothing is started twice, cancelled twice, or cancelled without having been started"),
    (P + "macrostep_end_starts", "proved", "at the end of a macrostep every active state with <invoke> children is invoked; exactly those not yet invoked are started, once each, in document order"),
    (P + "exit_cancels_once", "proved", "exiting a state whose invocation runs tells the invoker exactly once, and the invocation is over (also when the state is re-entered in the same macrostep)"),
    (P + "exit_of_uninvoked_is_silent", "proved", "exiting a state without running invocation tells the invokers nothing"),
    (P + "invoked_only_while_active", "proved", "an invocation only runs while its state is active"),
    (P + "finish_cancels_all", "proved", "after the finalising step every state has been cancelled exactly as often as it was started"),
]
LEAN_FILES = ["UscxmlVerif.Properties.C11"]
CHILD = '<scxml xmlns="http://www.w3.org/2005/07/scxml" version="1.0" datamodel="null"><state id="idle"/></scxml>'


def with_invokes(rng, d):
    """render the chart and give some of its proper states an <invoke> of an idle child; returns (xml, ids of invoking states)"""
    x = charts.xml(d)
    cands = [n.id for n in d.walk() if n.kind in ("state", "parallel") and n.id]
    chosen = [i for i in cands if rng.random() < 0.4] or cands[:1]
    for sid in chosen:
        m = re.search(r'<(state|parallel) id="%s"[^>]*>' % re.escape(sid), x)
        if not m: continue
        x = x[:m.end()] + '<invoke type="scxml" id="inv_%s"><content>%s</content></invoke>' % (sid, CHILD) + x[m.end():]
    return x, chosen


def acts_from_trace(toks, idx):
    acts, outs = [], []
    for t in toks:
        if t.startswith("bx:") and t[3:] in idx: acts.append("x%d" % idx[t[3:]])
        elif t.startswith("be:") and t[3:] in idx: acts.append("e%d" % idx[t[3:]])
        elif t == "st": acts.append("m")
        elif t == "bcomp": acts.append("f")
        elif t.startswith("bi:inv_") and t[7:] in idx: outs.append("i%d" % idx[t[7:]])
        elif t.startswith("bu:inv_") and t[7:] in idx: outs.append("u%d" % idx[t[7:]])
    return acts, outs


def run_book(ctx, items):
    """items: (engine, chart, xml, invoking ids, events) -> (interpreter trace, model verdict)"""
    lines = ["%s\t-\t%s\t%s" % (eng, ",".join(ev) or "-", hexs(x)) for eng, d, x, inv, ev in items]
    H, _ = E.run_batches(ctx, lines, want_driver=False, variant="asan")
    N = ctx.driver_lines("names", ["x\t" + charts.sexpr(d) for _, d, _, _, _ in items], timeout=1800)
    reqs, real = [], []
    for (eng, d, x, inv, ev), h, nm in zip(items, H, N):
        idx = {kv.split("=", 1)[1]: int(kv.split("=", 1)[0][1:]) for kv in nm.split(" ") if kv.startswith("S")}
        acts, outs = acts_from_trace(h.split(" "), idx)
        reqs.append("%d\t%s\t%s" % (len(idx), ",".join(str(idx[i]) for i in inv if i in idx) or "-", " ".join(acts)))
        real.append(outs)
    M = ctx.driver_lines("invoke", reqs, timeout=1800)
    return H, real, [m.split(" ") if m else [] for m in M]


def suite_book(ctx, n):
    rng = ctx.rng
    items = []
    for _ in range(n):
        g = charts.Gen(rng, max_states=rng.choice([3, 5, 8]), p_fail=0.05, p_final=0.35, p_loop=0.4)
        d = g.chart()
        x, inv = with_invokes(rng, d)
        ev = charts.events_for(rng, g, rng.randint(1, 5))
        for eng in ("large", "fast"): items.append((eng, d, x, inv, ev))
    H, R, M = run_book(ctx, items)
    st = dict(inputs=len(items), agree=0, invocations=0, cancellations=0, reentries=0, finished=0, violations=0)
    for (eng, d, x, inv, ev), h, r, m in zip(items, H, R, M):
        st["invocations"] += sum(1 for o in r if o.startswith("i")); st["cancellations"] += sum(1 for o in r if o.startswith("u"))
        toks = h.split(" ")
        if "bcomp" in toks: st["finished"] += 1
        bad = [t for t in toks if t.startswith(("CRASH", "EXIT", "EXC"))]
        if any(r[i].startswith("u") and i + 1 < len(r) and r[i + 1] == "i" + r[i][1:] for i in range(len(r))): st["reentries"] += 1
        if r == m and not bad:
            st["agree"] += 1
            continue
        if "DIVERGE" in toks: st["agree"] += 1; continue
        st["violations"] += 1
        if len(ctx.violations) < 4:
            k = E.first_diff(r, m)
            ctx.violation("book-%d" % len(ctx.violations), "invoke-bookkeeping", ["%s\t%s\t%s\t%s" % (eng, charts.sexpr(d), ",".join(ev) or "-", hexs(x))],
                          detail="engine %s: %s; the interpreter told the invokers %s, the bookkeeping model %s (i<k>/u<k>: invoke/uninvoke of state k), first difference at %d\nstates invoking: %s\nchart: %s\nevents: %s" %
                                 (eng, ("abnormal end " + bad[0]) if bad else "invoke notifications differ", " ".join(r), " ".join(m), k, inv, charts.sexpr(d), ev))
    ctx.add_suite("invoke-bookkeeping", **st)
    ctx.sample({"suite": "invoke-bookkeeping", "document": items[0][2][:600], "events": items[0][4]})


def run(ctx):
    ctx.setup(variants=("asan",))
    ctx.audit(THEOREMS, LEAN_FILES)
    quick = ctx.tier == "quick"
    suite_book(ctx, 300 if quick else 8000)
    s1 = ctx.coverage["suites"]["invoke-bookkeeping"]
    ctx.coverage["evaluations"] = s1["inputs"]
    ctx.coverage["distinct_nontrivial"] = s1["invocations"]
    ctx.coverage["rule"] = ("random charts of 3-8 states (finals with p=0.35 so that runs finish, loops so that invoking states are left and re-entered) in which 40% of the proper states invoke an idle child session, "
                            "x 1-5 external events, both engines, ASan build; non-trivial = invocations started")
    ctx.assumptions += ["the exits/entries/stable-configuration notices of the monitor trace are taken as the history the bookkeeping reacts to (they are what C13 checks for nesting and completeness)"]


def replay(ctx, path):
    ctx.setup(variants=("asan",))
    for line in open(path):
        if "\t" not in line or line.startswith(("#", "property=")): continue
        f = line.rstrip("\n").split("\t")
        d = charts.from_sexpr(f[1]); x = bytes.fromhex(f[3]).decode()
        inv = re.findall(r'id="inv_([^"]+)"', x)
        H, R, M = run_book(ctx, [(f[0], d, x, inv, [] if f[2] == "-" else f[2].split(","))])
        print("document:", x[:2000]); print("I:", " ".join(R[0])); print("M:", " ".join(M[0]))
    return 0
