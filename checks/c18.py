"""C18 Generated VHDL micro-step logic computes the specified next configuration (DESIGN.md section 6, C18).

Translation validation, with the translator of this family of technique: on every run the
combinational signal assignments of the VHDL text the back-end emits for a document are parsed
(translate/vhdl_eqs.py) into a system of Boolean equations (Model.BoolEq); the compiled Lean
driver then decides, for that document, the full quantifier of the property - every legal
configuration (Spec.Legal) x the spontaneous step and every event of the document x every
valuation of the transition conditions, plus the initial step - by comparing state_next_* with
Spec.TStep.next (the SCXML micro-step over the transpilers' conflict relation). Suites:

  equations    random documents of the back-end's fragment + all small charts (exhaustive family)
  tstep        Spec.TStep is the interpreter's step: its configuration sequence on event
               histories equals the compiled interpreter's (and thereby Appendix D's, C01)
"""
import os, sys
from concurrent.futures import ThreadPoolExecutor
from uvlib import BrokenTie, hexs, chunks, VERIF
from checks import enginelib as E
from checks.enginelib import charts, shrink
sys.path.insert(0, os.path.join(VERIF, "translate"))
import vhdl_eqs

P = "UscxmlVerif.Properties.C18."
THEOREMS = [
    (P + "tstep_exit_is_appendix_d", "proved", "about the ORACLE of this check: for every coherent chart, every configuration of real states and every set of transitions of real states with real targets, the states Spec.TStep exits are Appendix D's computeExitSet"),
    (P + "tstep_selection_conflict_free", "proved", "the transitions Spec.TStep selects have pairwise disjoint Appendix D exit sets (the tables' conflict relation contains Appendix D's)"),
    (P + "select_free", "proved", "Spec.TStep.select never returns two transitions that conflict in the tables' sense"),
]
FINISH = {"level": "translation_validation"}
LEAN_FILES = ["UscxmlVerif.Spec.TStep", "UscxmlVerif.Model.BoolEq", "UscxmlVerif.Properties.C18"]


def fragment(d, max_conds=4):
    """restrict a generated chart to what the VHDL back-end handles: initial attributes naming one child,
    at most `max_conds` conditions (2^k valuations are enumerated)"""
    k = 0
    for n in d.walk():
        if n.init is not None:
            kids = [c.id for c in n.children if c.kind in ("state", "parallel", "final")]
            if len(n.init) != 1 or n.init[0] not in kids: n.init = None
        for t in n.trans:
            if t.cond != "-":
                k += 1
                if k > max_conds: t.cond = "-"
    return d


def emit(ctx, docs):
    lines = ["vhdl\t-\t%s" % hexs(charts.xml(d)) for d in docs]
    parts = list(chunks(lines, max(1, (len(lines) + 15) // 16)))
    def work(part):
        rc, h, err = ctx.harness_lines("emit", part, timeout=3600)
        if rc != 0 or len(h) != len(part): raise BrokenTie("harness", "uvharness emit rc=%s" % rc)
        return h
    with ThreadPoolExecutor(16) as ex: return [x for part in ex.map(work, parts) for x in part]


def model_line(d, text):
    defs, sigs = vhdl_eqs.extract(text)
    words = vhdl_eqs.document_events(charts.xml(d))
    if len(sigs) != len(words): raise vhdl_eqs.ParseError("%d event signals for %d event names %s" % (len(sigs), len(words), words))
    ns = sum(1 for _ in d.walk()); nt = sum(len(n.trans) for n in d.walk())
    eqs, nexts = vhdl_eqs.encode(defs, sigs, ns, nt)
    return "%s\t%s\t%s\t%s" % (charts.sexpr(d), ",".join(words) or "-", nexts, eqs)


def verdicts(ctx, docs):
    H = emit(ctx, docs)
    lines, idx, out = [], [], [None] * len(docs)
    for i, (d, h) in enumerate(zip(docs, H)):
        if h.startswith(("EXC", "CRASH", "EXIT", "bad")): out[i] = "emit:" + h; continue
        try:
            lines.append(model_line(d, bytes.fromhex(h).decode("latin-1"))); idx.append(i)
        except (vhdl_eqs.ParseError, ValueError, KeyError) as e:
            out[i] = "translate:" + str(e)[:200]
    if lines:
        parts = list(chunks(list(zip(idx, lines)), max(1, (len(lines) + 15) // 16)))
        def work(part):
            return [(i, r) for (i, _), r in zip(part, ctx.driver_lines("vhdl", [l for _, l in part], timeout=3600))]
        with ThreadPoolExecutor(16) as ex:
            for res in ex.map(work, parts):
                for i, r in res: out[i] = r
    return out


def suite_equations(ctx, docs, name):
    V = verdicts(ctx, docs)
    st = dict(inputs=len(docs), ok=0, situations=0, configs=0, refused=0, violations=0, broken=0)
    for d, v in zip(docs, V):
        if v.startswith("ok"):
            st["ok"] += 1
            f = dict(kv.split("=") for kv in v.split(" ")[1:])
            st["situations"] += int(f["situations"]); st["configs"] += int(f["configs"])
            continue
        if v.startswith("emit:EXC"): st["refused"] += 1; continue
        if v.startswith("mismatch") or v.startswith("emit:"):
            st["violations"] += 1
            if len(ctx.violations) < 4:
                def pred(d2, _):
                    v2 = verdicts(ctx, [fragment(d2)])[0]
                    return v2.startswith("mismatch") if v.startswith("mismatch") else v2.startswith("emit:") and not v2.startswith("emit:EXC")
                try: d2, _ = shrink.shrink(d, [], pred, max_rounds=25)
                except Exception: d2 = d
                v2 = verdicts(ctx, [fragment(d2)])[0]
                ctx.violation("vhdl-%d" % len(ctx.violations), name, ["vhdl\t%s\t-\t%s" % (charts.sexpr(d2), hexs(charts.xml(d2)))],
                              detail="the emitted equations and the SCXML step disagree: %s\nchart: %s\ndocument: %s" % (v2[:400], charts.sexpr(d2), charts.xml(d2)[:1200]))
        else:
            st["broken"] += 1
            if not any(p.endswith("translate.txt") for p, _ in ctx.violations):
                ctx.violation("translate", name, ["vhdl\t%s\t-\t%s" % (charts.sexpr(d), hexs(charts.xml(d)))], found_input=False,
                              detail="the translator cannot read the emitted VHDL any more (%s): the equations of this document are not checked\nchart: %s" % (v, charts.sexpr(d)))
    ctx.add_suite(name, **st)
    return st


def suite_tstep(ctx, n):
    """Spec.TStep against the compiled interpreter: configurations after every micro-step"""
    rng = ctx.rng
    cases = []
    for _ in range(n):
        g = charts.Gen(rng, max_states=rng.choice([3, 5, 8]), p_history=0.0, p_initial_elem=0.0, p_fail=0.0, p_exec=0.0, p_cond=0.0, p_final=0.0)
        d = fragment(g.chart())
        for nd in d.walk():
            nd.onentry = []; nd.onexit = []        # no internal events: the step function alone is compared
            for t in nd.trans: t.cond = "-"; t.content = []
        cases.append((d, charts.events_for(rng, g, rng.randint(1, 4))))
    lines = [E.case_line("large", d, e) for d, e in cases]
    H, _ = E.run_batches(ctx, lines, want_driver=False)
    M = ctx.driver_lines("tstep", ["\t".join(l.split("\t")[:3]) for l in lines], timeout=1800)
    st = dict(inputs=len(cases), agree=0, known=0, violations=0)
    for (d, evs), l, h, m in zip(cases, lines, H, M):
        toks = h.split(" ")
        cfgs = [toks[i + 1] for i, t in enumerate(toks[:-1]) if t == "ret:MICROSTEPPED" and toks[i + 1].startswith("cfg:")]
        # drop the repetitions reported by steps that found no transition
        seq = []
        for c in cfgs:
            if not seq or seq[-1] != c: seq.append(c)
        if "DIVERGE" in toks or " ".join(seq) == m:
            st["agree"] += 1
            continue
        if charts.has_nested_targetless_pair(d) and "nested-targetless" in ctx.findings:
            # the recorded deviation of the transpilers' selection (every transition a candidate, static conflict table): known only
            # if the oracle behaves exactly like Appendix D with that selection
            _, T = E.run_batches(ctx, [E.case_line("spect", d, evs)], want_harness=False, nproc=1)
            tt = T[0].split(" ")
            tc = [t for t in tt if t.startswith("cfg:")]            # (the specification's trace reports the configuration after every macrostep)
            ts = []
            for c in tc:
                if not ts or ts[-1] != c: ts.append(c)
            if "DIVERGE" in tt or " ".join(ts) == m:
                st["known"] += 1; ctx.known("nested-targetless", ""); continue
        st["violations"] += 1
        if len(ctx.violations) < 4:
            ctx.violation("tstep-%d" % len(ctx.violations), "tstep", [l], found_input=False,
                          detail="Spec.TStep (the oracle of this check) and the interpreter disagree on the configurations visited: I %s / spec %s\nchart: %s events %s" % (" ".join(seq)[:300], m[:300], charts.sexpr(d), evs))
    ctx.add_suite("tstep", **st)


def run(ctx):
    ctx.setup(variants=("plain",))
    ctx.audit(THEOREMS, LEAN_FILES)
    quick = ctx.tier == "quick"
    rng = ctx.rng
    docs = []
    for _ in range(250 if quick else 8000):
        g = charts.Gen(rng, max_states=rng.choice([3, 4, 5, 6, 8, 10]), p_history=0.0, p_initial_elem=0.0, p_fail=0.0, p_exec=0.3)
        docs.append(fragment(g.chart()))
    s1 = suite_equations(ctx, docs, "equations")
    ex = [fragment(c) for c, _ in E.exhaustive_cases("quick" if quick else "thorough") if not any(n.kind in ("history", "hdeep", "initial") for n in c.walk())]
    if quick: ex = rng.sample(ex, min(len(ex), 400))
    s2 = suite_equations(ctx, ex, "equations-exhaustive")
    suite_tstep(ctx, 300 if quick else 6000)
    ctx.sample({"suite": "equations", "chart": charts.sexpr(docs[0])[:400]})
    ctx.coverage["evaluations"] = s1["situations"] + s2["situations"]
    ctx.coverage["distinct_nontrivial"] = s1["ok"] + s2["ok"]
    ctx.coverage["rule"] = ("per document the whole quantifier of the property is enumerated by the compiled Lean specification (legal configurations x {spontaneous step, each event} x all "
                            "condition valuations (<= 4 conditions per document) + the initial step); documents: random charts of 3-10 states without history/<initial>/datamodel "
                            "(parallel, finals, internal/targetless/multi-target/eventless transitions, wildcard descriptors) and the exhaustive small-chart family; "
                            "evaluations = situations decided, non-trivial = documents decided completely")
    ctx.assumptions += ["the event controller, the FIFO and the sequencing of executable content in the emitted VHDL are outside the property (micro-step logic only)",
                        "the VHDL is not simulated (no ghdl here): the equations are given their meaning by Model.BoolEq (synchronous rounds until stable; the emitted systems are acyclic on the situations of the property)",
                        "per-document decision by exhaustive evaluation in compiled Lean code, not a kernel proof"]


def replay(ctx, path):
    ctx.setup(variants=("plain",))
    for line in open(path):
        if "\t" not in line or line.startswith(("#", "property=")): continue
        f = line.rstrip("\n").split("\t")
        d = charts.from_sexpr(f[1])
        print("chart:", f[1]); print("verdict:", verdicts(ctx, [fragment(d)])[0])
    return 0
