"""C16 Values survive the trip through the Lua datamodel (DESIGN.md section 6, C16)."""
import os, sys
from concurrent.futures import ThreadPoolExecutor
from uvlib import BrokenTie, VERIF, chunks
sys.path.insert(0, os.path.join(VERIF, "gen"))
import values

THEOREMS = [
    ("UscxmlVerif.Properties.C16.lua_roundtrip", "proved", "for EVERY unambiguous value d (strings over any bytes incl. empty / number-like / Lua-source-like, canonical integers, booleans, arrays of any length, maps with non-numeric keys, arbitrarily nested): getLuaAsData (getDataAsLua d) = d"),
    ("UscxmlVerif.Properties.C16.lua_roundtrip_twice", "proved", "the same after two trips (a <send> parameter: Lua -> event -> Lua)"),
]
LEAN_FILES = ["UscxmlVerif.Properties.C16"]


def hx(b): return bytes(b).hex()


class GenL:
    """unambiguous values: strings (any bytes), canonical integers, booleans, arrays, maps with non-numeric keys"""
    def __init__(self, rng, numeric_keys=False):
        self.r = rng; self.g = values.GenV(rng, allow_nul=False); self.numeric_keys = numeric_keys

    def atom(self):
        r = self.r; x = r.random()
        if x < 0.45: return ["V" + hx(self.g.bytestr())]
        if x < 0.6: return ["V" + hx(r.choice([b"", b"5", b"007", b"-1", b"1e3", b"true", b"nil", b"os.exit()", b"0x10", b" 12 "]))]
        if x < 0.8:
            n = r.choice([0, 1, -1, 7, 10, 42, r.randrange(-10**6, 10**6), r.randrange(0, 10**14)])
            return ["I" + hx(str(n).encode())]
        if x < 0.86:
            # reals of up to 15 significant digits whose decimal text survives the trip through a double unchanged
            return ["I" + hx(r.choice([b"0.5", b"2.5", b"0.001", b"3.14159265358979", b"0.333333333333333", b"123456789012.345", b"-7.25", b"0.1", b"0.3",
                                       b"1234.5678", b"100.125", b"0.000123456789012345"]))]
        return ["I" + hx(r.choice([b"true", b"false"]))]

    def value(self, depth=0, top=False):
        r = self.r; x = r.random()
        if not top and (depth >= 4 or x < 0.5): return self.atom()
        if x < 0.75:
            n = r.choice([1, 2, 3, 5, 9, 10, 11, 12, 25])
            out = ["A%d" % n]
            for _ in range(n): out += self.value(depth + 1) if n < 6 else self.atom()
            return out
        n = r.choice([1, 2, 3, 4])
        keys = set()
        while len(keys) < n:
            if self.numeric_keys and r.random() < 0.5: keys.add(str(r.choice([1, 2, 3, 10, 7])).encode())
            else: keys.add(r.choice([b"a", b"b", b"key", b"k1", b"x y", b"-5", b"0", b"1a", b"Z", b"_u", b"", b"-", b"--", b"0-1"]) if r.random() < 0.7 else (self.g.bytestr(4) or b"e"))
        keys = [k for k in keys if not (all(c in b'-0123456789' for c in k) and int((k.split(b'-')[0] or b'0')) > 0) or self.numeric_keys]
        if not keys: keys = [b"k"]
        out = ["O%d" % len(keys)]
        for k in sorted(keys):
            out.append(hx(k)); out += self.value(depth + 1)
        return out


def canon_number(dump):
    return dump


def run_pair(ctx, lines):
    parts = list(chunks(lines, max(1, len(lines) // 16 + 1)))
    def work(part):
        rc, h, err = ctx.harness_lines("lua", part, timeout=1800)
        if rc != 0 or len(h) != len(part): raise BrokenTie("harness", "uvharness lua rc=%s %d/%d" % (rc, len(h), len(part)))
        return h, ctx.driver_lines("lua", part, timeout=1800)
    with ThreadPoolExecutor(16) as ex: res = list(ex.map(work, parts))
    return [x for h, _ in res for x in h], [x for _, d in res for x in d]


def expected_dump(tokens):
    """the dump of the value itself (what the property demands to read back)"""
    def go(i):
        t = tokens[i]
        if t[0] in "VI":
            body = t[1:] or "-"
            return "(%s %s [] {})" % (body, "v" if t[0] == "V" else "i"), i + 1
        n = int(t[1:])
        if t[0] == "A":
            items = []; i += 1
            for _ in range(n):
                s, i = go(i); items.append(s)
            return "(- i [%s] {})" % " ".join(items), i
        kv = []; i += 1
        for _ in range(n):
            k = tokens[i] or "-"; s, i = go(i + 1); kv.append("%s %s" % (k, s))
        return "(- i [] {%s})" % " ".join(kv), i
    return go(0)[0]


def run(ctx):
    ctx.setup()
    ctx.audit(THEOREMS, LEAN_FILES)
    quick = ctx.tier == "quick"
    g = GenL(ctx.rng)
    n = 1200 if quick else 40000
    vals = [g.value(top=(ctx.rng.random() < 0.6)) for _ in range(n)]
    lines = []
    for v in vals:
        for way in ("data", "event", "param", "namelist", "content", "donedata", "donecontent"):
            if way == "event" and v[0][0] in "VI": continue      # event payload atoms take a different path (content)
            lines.append(way + "|" + " ".join(v))
    h, d = run_pair(ctx, lines)
    st = dict(inputs=len(lines), agree=0, preserved=0, violations=0, arrays_ge_10=0, empty_strings=0, numberlike_strings=0)
    broken = []
    for l, a, b in zip(lines, h, d):
        toks = l.split("|")[1].split(" ")
        if any(t.startswith("A") and int(t[1:]) >= 10 for t in toks): st["arrays_ge_10"] += 1
        if "V" in toks: st["empty_strings"] += 1
        want = "value " + expected_dump(toks)
        if a == b: st["agree"] += 1
        else: broken.append((l, a, b))
        if a == want: st["preserved"] += 1
        else:
            st["violations"] += 1
            if len(ctx.violations) < 4:
                ctx.violation("roundtrip-%d" % len(ctx.violations), "lua-roundtrip", [l],
                              detail="the value read back differs from the value that went in (%s)\ngot : %s\nwant: %s\nmodel: %s" % (l.split("|")[0], a[:300], want[:300], b[:300]))
    ctx.add_suite("lua-roundtrip", **st)
    ctx.sample({"request": lines[0][:300]})
    # system variables cannot be assigned
    slines = ["sysvar:%s|-" % n for n in ("_event", "_sessionid", "_name", "_ioprocessors", "_invokers")]
    rc, sh, err = ctx.harness_lines("lua", slines)
    st2 = dict(inputs=len(slines), protected=0)
    for l, a in zip(slines, sh):
        f = dict(kv.split("=", 1) for kv in a.split(" ") if "=" in kv)
        name = l.split("|")[0][7:]
        ok = f.get("state") == "e" and (f.get("before") == f.get("after") or name == "_event")
        if name == "_event": ok = ok and "6572726f722e657865637574696f6e" in f.get("after", "")   # the error event itself
        if ok: st2["protected"] += 1
        else:
            ctx.violation("sysvar-" + name, "lua-sysvars", [l], detail="assigning %s: %s" % (name, a[:300]))
    ctx.add_suite("lua-sysvars", **st2)
    if broken and not ctx.violations:
        l, a, b = broken[0]
        ctx.violation("correspondence", "lua", [l], found_input=False,
                      detail="correspondence lua broken on %d requests; first: code %s / model %s" % (len(broken), a[:200], b[:200]))
    ctx.coverage["evaluations"] = st["inputs"] + st2["inputs"]
    ctx.coverage["distinct_nontrivial"] = st["preserved"]
    ctx.coverage["rule"] = "random unambiguous values (strings over all bytes incl. empty, number-like and Lua-source-like ones; canonical integers; booleans; arrays up to 25 elements; maps with non-numeric keys; nesting <= 4) entering by assignment of a Data tree, as event payload, and as <send> parameter (two trips), read back with evalAsData / _event.data; non-trivial = value preserved"
    ctx.assumptions += ["liblua, LuaBridge and libstdc++ number formatting trusted", "floating point values excluded", "donedata / namelist share processParams/processNameLists with the send path"]


def replay(ctx, path):
    import uvlib
    return uvlib.generic_replay(ctx, path, [(None, "lua", "lua", None)])
