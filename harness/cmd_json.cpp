// uvharness json: one request per line
//   tojson <D> | fromjson <hex> | roundtrip <D> | escape <hex> | unescape <hex> | event <hexname> <D>
// <D>: prefix form V<hex> I<hex> A<n> item... O<n> (<hexkey> item)...
// every request runs in a forked child: a crash / sanitizer abort is a result (CRASH:<sig> / SAN)
#include "common.h"
#include "uscxml/messages/Data.h"
#include "uscxml/messages/Event.h"
#include <unistd.h>
#include <sys/wait.h>

using namespace uscxml;

// jsonEscape/jsonUnescape are protected statics
struct DataX : public Data {
	static std::string esc(const std::string& s) { return jsonEscape(s); }
	static std::string unesc(const std::string& s) { return jsonUnescape(s); }
};

static bool parseD(const std::vector<std::string>& t, size_t& i, Data& out) {
	if (i >= t.size()) return false;
	const std::string& s = t[i++];
	std::string b;
	if (s.size() < 1) return false;
	if (s[0] == 'V' || s[0] == 'I') {
		if (!uv::hexdec(s.size() > 1 ? s.substr(1) : "-", b)) return false;
		out = Data(b, s[0] == 'V' ? Data::VERBATIM : Data::INTERPRETED);
		return true;
	}
	int n = atoi(s.c_str() + 1);
	if (s[0] == 'A') {
		for (int k = 0; k < n; k++) { Data d; if (!parseD(t, i, d)) return false; out.array.push_back(d); }
		return true;
	}
	if (s[0] == 'O') {
		for (int k = 0; k < n; k++) {
			if (i >= t.size() || !uv::hexdec(t[i++], b)) return false;
			Data d; if (!parseD(t, i, d)) return false;
			out.compound[b] = d;
		}
		return true;
	}
	return false;
}

static std::string dump(const Data& d) {
	std::string s = "(" + uv::hexenc(d.atom) + " " + (d.type == Data::VERBATIM ? "v" : "i") + " [";
	const char* sep = "";
	for (const Data& x : d.array) { s += sep; s += dump(x); sep = " "; }
	s += "] {";
	sep = "";
	for (auto& kv : d.compound) { s += sep; s += uv::hexenc(kv.first) + " " + dump(kv.second); sep = " "; }
	return s + "})";
}

static std::string fromjson(const std::string& text) {
	try {
		Data d = Data::fromJSON(text);
		if (d.empty()) return "notjson";
		return "value " + dump(d);
	} catch (Event e) {
		std::string msg = e.data.compound["cause"].atom;
		if (msg.find("not enough tokens") != std::string::npos) return "error nomem";
		if (msg.find("invalid character") != std::string::npos) return "error inval";
		if (msg.find("more bytes expected") != std::string::npos) return "error part";
		if (msg.find("not a valid key") != std::string::npos) return "error key";
		return "error other:" + e.name;
	} catch (std::exception& e) {
		return std::string("exception ") + e.what();
	}
}

static std::string handle(const std::string& line) {
	std::vector<std::string> t = uv::split(line, ' ');
	std::string b;
	size_t i = 1;
	if (t[0] == "tojson") {
		Data d; if (!parseD(t, i, d) || i != t.size()) return "bad-op";
		return uv::hexenc(Data::toJSON(d));
	} else if (t[0] == "fromjson" && t.size() == 2 && uv::hexdec(t[1], b)) {
		return fromjson(b);
	} else if (t[0] == "roundtrip") {
		Data d; if (!parseD(t, i, d) || i != t.size()) return "bad-op";
		return fromjson(Data::toJSON(d)) + " want " + dump(d);
	} else if (t[0] == "escape" && t.size() == 2 && uv::hexdec(t[1], b)) {
		return uv::hexenc(DataX::esc(b));
	} else if (t[0] == "unescape" && t.size() == 2 && uv::hexdec(t[1], b)) {
		return uv::hexenc(DataX::unesc(b));
	} else if (t[0] == "event" && t.size() >= 3 && uv::hexdec(t[1], b)) {
		// Event -> Data -> Event
		i = 2;
		Data d; if (!parseD(t, i, d) || i != t.size()) return "bad-op";
		Event e(b, Event::EXTERNAL);
		e.data = d;
		e.sendid = "sid"; e.origin = "#_scxml_o"; e.origintype = "ot"; e.invokeid = "inv";
		Data asData = e.operator Data();
		Event back = Event::fromData(asData);
		std::string r = (back.name == e.name ? "name=ok" : "name=DIFF");
		r += (back.data == e.data) ? " data=ok" : " data=DIFF got " + dump(back.data);
		r += (back.sendid == e.sendid && back.origin == e.origin && back.origintype == e.origintype && back.invokeid == e.invokeid) ? " meta=ok" : " meta=DIFF";
		return r;
	}
	return "bad-op";
}

int cmd_json(int argc, char** argv) {
	bool nofork = argc > 1 && !strcmp(argv[1], "--nofork");
	std::string line;
	while (std::getline(std::cin, line)) {
		if (nofork) { uv::putline(handle(line)); continue; }
		int fds[2];
		if (pipe(fds)) { uv::putline("bad-pipe"); continue; }
		fflush(uv::out);
		pid_t pid = fork();
		if (pid == 0) {
			close(fds[0]); alarm(20);
			std::string out = handle(line);
			size_t off = 0;
			while (off < out.size()) { ssize_t n = write(fds[1], out.data() + off, out.size() - off); if (n <= 0) break; off += n; }
			close(fds[1]); _exit(0);
		}
		close(fds[1]);
		std::string out; char buf[65536]; ssize_t n;
		while ((n = read(fds[0], buf, sizeof buf)) > 0) out.append(buf, n);
		close(fds[0]);
		int status = 0; waitpid(pid, &status, 0);
		if (WIFSIGNALED(status)) out = std::string("CRASH:") + std::to_string(WTERMSIG(status));
		else if (WEXITSTATUS(status) != 0) out = std::string("SAN:") + std::to_string(WEXITSTATUS(status));
		uv::putline(out);
	}
	return 0;
}
