// uvharness dq: <script>\t<schedule hooks>
//   drives a BasicDelayedEventQueue in isolation from the calling thread while its timer thread runs.
//   script (comma separated): send:<key>:<delayMs>  cancel:<key>  cancelall  wait:<ms>
//   hooks: "<point>=<ms>[:<times>],..." as for `api`
//   -> tokens "<ms>:<what>:<key>" in the order in which the atomic sections of the ownership protocol
//      ran (reported by the USCXML_VERIF trace hook), "<ms>:ready:<key>" for every eventReady(),
//      and a final "end".  Each request runs in a forked child with a watchdog.
#include "common.h"
#include "uscxml/interpreter/BasicDelayedEventQueue.h"
#include "uscxml/messages/Event.h"
#include <unistd.h>
#include <sys/wait.h>
#include <map>
#include <mutex>
#include <thread>
#include <chrono>
#include <atomic>
#include <dlfcn.h>
#include <event2/event.h>

using namespace uscxml;

namespace {
std::mutex g_logMutex;
std::vector<std::string> g_log;
long g_start = 0;

long nowMs() {
	return uv::coarseMs() - g_start;
}
void logLine(const char* what, const char* key) {
	std::lock_guard<std::mutex> lock(g_logMutex);
	g_log.push_back(std::to_string(nowMs()) + ":" + what + ":" + key);
}
void traceHook(const char* what, const char* uuid) { logLine(what, uuid); }

struct Hook { int ms; std::atomic<int> left; };
std::map<std::string, Hook*> g_hooks;
std::atomic<int> g_afterAddMs(0), g_afterAddLeft(0);
void scheduleHook(const char* point) {
	auto it = g_hooks.find(point);
	if (it == g_hooks.end()) return;
	if (it->second->left.fetch_sub(1) <= 0) return;
	std::this_thread::sleep_for(std::chrono::milliseconds(it->second->ms));
}

class Callbacks : public DelayedEventQueueCallbacks {
public:
	void eventReady(Event& event, const std::string& eventId) { logLine("ready", eventId.c_str()); }
};

std::string dqOne(const std::string& script, const std::string& hooks) {
	g_start = uv::coarseMs();
	if (hooks != "-" && hooks.size()) {
		for (const std::string& h : uv::split(hooks, ',')) {
			size_t eq = h.find('=');
			if (eq == std::string::npos) continue;
			std::string rhs = h.substr(eq + 1);
			size_t col = rhs.find(':');
			Hook* hk = new Hook();
			hk->ms = atoi(rhs.substr(0, col).c_str());
			hk->left = col == std::string::npos ? 1000000 : atoi(rhs.substr(col + 1).c_str());
			g_hooks[h.substr(0, eq)] = hk;
			if (h.substr(0, eq) == "libevent.after_add") { g_afterAddMs = hk->ms; g_afterAddLeft = (int)hk->left; }
		}
		uscxml_verif_schedule_hook = scheduleHook;
	}
	uscxml_verif_trace_hook = traceHook;
	Callbacks cb;
	{
		BasicDelayedEventQueue q(&cb);
		for (const std::string& op : uv::split(script, ',')) {
			std::vector<std::string> f = uv::split(op, ':');
			if (f[0] == "send" && f.size() == 3) {
				Event e(f[1], Event::EXTERNAL);
				logLine("send-call", f[1].c_str());      // a lower bound of the time the timer is armed
				q.enqueueDelayed(e, (size_t)atoi(f[2].c_str()), f[1]);
			} else if (f[0] == "cancel" && f.size() == 2) {
				logLine("cancel-call", f[1].c_str());
				q.cancelDelayed(f[1]);
				logLine("cancel-ret", f[1].c_str());
			} else if (f[0] == "cancelall") {
				q.cancelAllDelayed();
			} else if (f[0] == "wait" && f.size() == 2) {
				std::this_thread::sleep_for(std::chrono::milliseconds(atoi(f[1].c_str())));
			}
		}
		logLine("destroy", "-");
	}
	logLine("end", "-");
	std::string out;
	std::lock_guard<std::mutex> lock(g_logMutex);
	for (size_t i = 0; i < g_log.size(); i++) { if (i) out += " "; out += g_log[i]; }
	return out;
}
}

// schedule point inside libevent: the thread that armed a short timer is held up right after event_add() returned
// (the executable's definition takes precedence over libevent's for the calls the library makes)
extern "C" int event_add(struct event* ev, const struct timeval* tv) {
	static int (*real)(struct event*, const struct timeval*) = (int (*)(struct event*, const struct timeval*))dlsym(RTLD_NEXT, "event_add");
	int rc = real(ev, tv);
	if (g_afterAddMs > 0 && tv != NULL && tv->tv_sec == 0 && tv->tv_usec <= 30000 && g_afterAddLeft.fetch_sub(1) > 0)
		std::this_thread::sleep_for(std::chrono::milliseconds((int)g_afterAddMs));
	return rc;
}

int cmd_dq(int argc, char** argv) {
	std::string line;
	while (std::getline(std::cin, line)) {
		std::vector<std::string> f = uv::split(line, '\t');
		if (f.size() != 2) { uv::putline("bad-op"); continue; }
		int fds[2];
		if (pipe(fds)) { uv::putline("bad-pipe"); continue; }
		fflush(uv::out);
		pid_t pid = fork();
		if (pid == 0) {
			close(fds[0]);
			alarm(20);
			std::string out = dqOne(f[0], f[1]);
			size_t off = 0;
			while (off < out.size()) { ssize_t n = write(fds[1], out.data() + off, out.size() - off); if (n <= 0) break; off += n; }
			close(fds[1]);
			_exit(0);
		}
		close(fds[1]);
		std::string out; char buf[65536]; ssize_t n;
		while ((n = read(fds[0], buf, sizeof buf)) > 0) out.append(buf, n);
		close(fds[0]);
		int status = 0; waitpid(pid, &status, 0);
		if (WIFSIGNALED(status)) out += (out.size() ? " " : "") + std::string("CRASH:") + std::to_string(WTERMSIG(status));
		else if (WEXITSTATUS(status) != 0) out += (out.size() ? " " : "") + std::string("EXIT:") + std::to_string(WEXITSTATUS(status));
		uv::putline(out);
	}
	return 0;
}
