// uvharness threads: <engine>\t<producers>\t<events per producer>\t<mode>\t<hex SCXML text>
//   N producer threads call Interpreter::receive() with events named p.<producer>.<seq> while the calling
//   thread drives the interpreter; afterwards another thread calls cancel() while step() blocks.
//   mode: block (step() with a long timeout), poll (step(0) in a loop), mixed (step(1))
//   -> the names of all processed events in order ("bpe:<name>"), then "ret:<state>" of the steps after
//      the cancel, then "end".  Run under TSan a data race ends the child with EXIT:66.
#include "common.h"
#include "uscxml/Interpreter.h"
#include "uscxml/interpreter/InterpreterMonitor.h"
#include "uscxml/interpreter/LoggingImpl.h"
#include "uscxml/plugins/Factory.h"
#include <unistd.h>
#include <sys/wait.h>
#include <thread>
#include <atomic>
#include <chrono>
#include <mutex>

using namespace uscxml;

namespace {
struct Rec2 {
	std::mutex m;
	std::vector<std::string> toks;
	std::atomic<int> external;
	void add(const std::string& t) { std::lock_guard<std::mutex> l(m); toks.push_back(t); }
};

class Mon : public InterpreterMonitor {
public:
	Rec2* r;
	Mon(Rec2* rec) : r(rec) {}
	void beforeProcessingEvent(const std::string&, const Event& e) {
		r->add("bpe:" + e.name);
		if (e.name.size() > 1 && e.name[0] == 'p' && e.name[1] == '.') r->external++;
	}
	void beforeCompletion(const std::string&) { r->add("bcomp"); }
	void afterCompletion(const std::string&) { r->add("acomp"); }
};

class QuietLogger : public LoggerImpl {
public:
	std::shared_ptr<LoggerImpl> create() { return std::shared_ptr<LoggerImpl>(new QuietLogger()); }
	void log(LogSeverity, const Event&) {}
	void log(LogSeverity, const Data&) {}
	void log(LogSeverity, const std::string&) {}
};

const char* stateName(InterpreterState s) {
	switch (s) {
	case USCXML_FINISHED: return "FINISHED"; case USCXML_IDLE: return "IDLE";
	case USCXML_INITIALIZED: return "INITIALIZED"; case USCXML_INSTANTIATED: return "INSTANTIATED";
	case USCXML_MICROSTEPPED: return "MICROSTEPPED"; case USCXML_MACROSTEPPED: return "MACROSTEPPED";
	case USCXML_CANCELLED: return "CANCELLED"; default: return "UNDEF";
	}
}

std::string threadsOne(const std::string& engine, int nprod, int nper, const std::string& mode, const std::string& xml) {
	Rec2 rec; rec.external = 0;
	try {
		Interpreter interp = Interpreter::fromXML(xml, "");
		ActionLanguage al;
		al.logger = Logger(std::shared_ptr<LoggerImpl>(new QuietLogger()));
		if (engine != "large")
			al.microStepper = Factory::getInstance()->createMicroStepper(engine, (MicroStepCallbacks*)interp.getImpl().get());
		interp.setActionLanguage(al);
		Mon mon(&rec);
		interp.addMonitor(&mon);
		// half of the producers start before the first step(): receive() on a not yet initialised interpreter
		std::vector<std::thread> producers;
		std::atomic<bool> go(false);
		for (int p = 0; p < nprod; p++) {
			producers.emplace_back([&, p]() {
				if (p % 2) while (!go.load()) std::this_thread::yield();
				for (int k = 0; k < nper; k++) {
					interp.receive(Event("p." + std::to_string(p) + "." + std::to_string(k), Event::EXTERNAL));
					if ((k + p) % 3 == 0) std::this_thread::yield();
					if ((k * 7 + p) % 11 == 0) std::this_thread::sleep_for(std::chrono::microseconds(200));
				}
			});
		}
		size_t block = mode == "block" ? 200 : (mode == "poll" ? 0 : 1);
		auto deadline = std::chrono::steady_clock::now() + std::chrono::seconds(12);
		interp.step(0);
		go = true;
		while (rec.external.load() < nprod * nper && std::chrono::steady_clock::now() < deadline) {
			InterpreterState s = interp.step(block);
			if (s == USCXML_FINISHED) break;
		}
		for (auto& t : producers) t.join();
		// drain
		for (int i = 0; i < 200000; i++) { InterpreterState s = interp.step(0); if (s == USCXML_IDLE || s == USCXML_FINISHED) break; }
		rec.add("drained");
		// cancel() from another thread unblocks a blocked step()
		std::thread canceller([&]() { std::this_thread::sleep_for(std::chrono::milliseconds(30)); interp.cancel(); });
		auto t0 = std::chrono::steady_clock::now();
		for (int i = 0; i < 20; i++) {
			InterpreterState s = interp.step(5000);
			rec.add(std::string("ret:") + stateName(s));
			if (s == USCXML_FINISHED) break;
		}
		long ms = (long)std::chrono::duration_cast<std::chrono::milliseconds>(std::chrono::steady_clock::now() - t0).count();
		rec.add(ms < 2000 ? "unblocked" : "slow-unblock:" + std::to_string(ms));
		canceller.join();
		interp.removeMonitor(&mon);
	} catch (Event e) {
		rec.add("EXC:" + e.name);
	} catch (std::exception& e) {
		rec.add(std::string("EXC:std:") + e.what());
	}
	rec.add("end");
	std::string out;
	for (size_t i = 0; i < rec.toks.size(); i++) { if (i) out += " "; out += rec.toks[i]; }
	return out;
}
}

int cmd_threads(int argc, char** argv) {
	std::string line;
	while (std::getline(std::cin, line)) {
		std::vector<std::string> f = uv::split(line, '\t');
		std::string xml;
		if (f.size() != 5 || !uv::hexdec(f[4], xml)) { uv::putline("bad-op"); continue; }
		int fds[2];
		if (pipe(fds)) { uv::putline("bad-pipe"); continue; }
		fflush(uv::out);
		pid_t pid = fork();
		if (pid == 0) {
			close(fds[0]);
			alarm(40);
			std::string out = threadsOne(f[0], atoi(f[1].c_str()), atoi(f[2].c_str()), f[3], xml);
			size_t off = 0;
			while (off < out.size()) { ssize_t n = write(fds[1], out.data() + off, out.size() - off); if (n <= 0) break; off += n; }
			close(fds[1]);
			_exit(0);
		}
		close(fds[1]);
		std::string out; char buf[65536]; ssize_t n;
		while ((n = read(fds[0], buf, sizeof buf)) > 0) out.append(buf, n);
		close(fds[0]);
		int status = 0; waitpid(pid, &status, 0);
		if (WIFSIGNALED(status)) out += (out.size() ? " " : "") + std::string("CRASH:") + std::to_string(WTERMSIG(status));
		else if (WEXITSTATUS(status) != 0) out += (out.size() ? " " : "") + std::string("EXIT:") + std::to_string(WEXITSTATUS(status));
		uv::putline(out);
	}
	return 0;
}
