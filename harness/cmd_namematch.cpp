// uvharness namematch
//   P\t<hex descriptor list>\t<hex event name>            ->  I=<interpreter> G=<gen-c scaffolding copy>
//   E\t<hex descriptor list>\t<maxlen>\t<hex alphabet>    ->  same, one bit per name of length 0..maxlen (length-lex order)
#include "common.h"
#include "uscxml/util/String.h"
#include "uscxml/util/Convenience.h"

namespace scaffold {
using namespace uscxml;
// text cut out of test/src/test-gen-c.cpp by lib/uvlib.py:extract_scaffold at check time
#include "scaffold_namematch.inc"
}

static void enumNames(const std::string& alpha, size_t len, std::string& cur, std::vector<std::string>& out) {
	if (cur.size() == len) { out.push_back(cur); return; }
	for (char c : alpha) { cur.push_back(c); enumNames(alpha, len, cur, out); cur.pop_back(); }
}

int cmd_namematch(int, char**) {
	std::string line;
	while (std::getline(std::cin, line)) {
		std::vector<std::string> f = uv::split(line, '\t');
		std::string ds, n;
		if (f.size() == 3 && f[0] == "P" && uv::hexdec(f[1], ds) && uv::hexdec(f[2], n)) {
			bool i = uscxml::nameMatch(ds, n);
			bool g = scaffold::nameMatch(ds, n);
			{ std::ostringstream _o; _o << "I=" << (i ? 1 : 0) << " G=" << (g ? 1 : 0); uv::putline(_o.str()); }
		} else if (f.size() == 4 && f[0] == "E" && uv::hexdec(f[1], ds) && uv::hexdec(f[3], n)) {
			std::vector<std::string> names; std::string cur;
			for (size_t l = 0; l <= (size_t)atoi(f[2].c_str()); l++) enumNames(n, l, cur, names);
			std::string bi, bg;
			for (const std::string& nm : names) {
				bi.push_back(uscxml::nameMatch(ds, nm) ? '1' : '0');
				bg.push_back(scaffold::nameMatch(ds, nm) ? '1' : '0');
			}
			{ std::ostringstream _o; _o << "I=" << bi << " G=" << bg; uv::putline(_o.str()); }
		} else uv::putline("bad-op");
	}
	return 0;
}
