#include "common.h"
#include <vector>
#include <cstdlib>
#include <unistd.h>
FILE* uv::out = NULL;
static uv::Cmd cmds[] = {
	{"namematch", cmd_namematch},
	{"trace", cmd_trace},
	{"serial", cmd_serial},
	{"api", cmd_api},
	{"dq", cmd_dq},
	{"threads", cmd_threads},
	{"emit", cmd_emit},
	{"json", cmd_json},
	{"promela", cmd_promela},
	{"lua", cmd_lua},
	{"tables", cmd_tables},
	{"validate", cmd_validate},
	{"trie", cmd_trie},
	{0, 0}
};
int main(int argc, char** argv) {
	if (argc < 2) { fprintf(stderr, "usage: uvharness <cmd> [args]\n"); return 2; }
	// UV_HEAP_PERTURB=<seed>: leave a seed-dependent pattern of holes in the heap, so that the relative
	// order of later allocations (and with it anything that depends on pointer values) differs between runs
	if (const char* hp = getenv("UV_HEAP_PERTURB")) {
		unsigned long x = strtoul(hp, NULL, 10) * 2654435761UL + 12345;
		std::vector<void*> blocks;
		for (int i = 0; i < 4000; i++) {
			x = x * 6364136223846793005UL + 1442695040888963407UL;
			blocks.push_back(malloc(16 + (x >> 33) % 700));
		}
		for (size_t i = 0; i < blocks.size(); i++) {
			x = x * 6364136223846793005UL + 1442695040888963407UL;
			if ((x >> 40) % 3) free(blocks[i]);
		}
	}
	uv::out = fdopen(dup(1), "w");
	dup2(2, 1);
	for (uv::Cmd* c = cmds; c->name; c++)
		if (!strcmp(c->name, argv[1])) return c->fn(argc - 1, argv + 1);
	fprintf(stderr, "unknown command %s\n", argv[1]);
	return 2;
}
