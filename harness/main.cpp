#include "common.h"
#include <unistd.h>
FILE* uv::out = NULL;
static uv::Cmd cmds[] = {
	{"namematch", cmd_namematch},
	{"trace", cmd_trace},
	{"serial", cmd_serial},
	{"api", cmd_api},
	{"dq", cmd_dq},
	{"threads", cmd_threads},
	{"json", cmd_json},
	{"promela", cmd_promela},
	{"lua", cmd_lua},
	{"tables", cmd_tables},
	{"validate", cmd_validate},
	{0, 0}
};
int main(int argc, char** argv) {
	if (argc < 2) { fprintf(stderr, "usage: uvharness <cmd> [args]\n"); return 2; }
	uv::out = fdopen(dup(1), "w");
	dup2(2, 1);
	for (uv::Cmd* c = cmds; c->name; c++)
		if (!strcmp(c->name, argv[1])) return c->fn(argc - 1, argv + 1);
	fprintf(stderr, "unknown command %s\n", argv[1]);
	return 2;
}
