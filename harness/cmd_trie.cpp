// uvharness trie
//   <hex word>,<hex word>,...\t<hex prefix>,<hex prefix>,...   ->  per prefix the values getWordsWithPrefix returns (hex, sorted), '|' separated;
//   then " n=<lastIndex>"
// the transpilers' event-name trie (src/uscxml/transform/Trie.cpp) with the separator "." they use
#include "common.h"
#include "uscxml/transform/Trie.h"
#include <algorithm>

int cmd_trie(int, char**) {
	std::string line;
	while (std::getline(std::cin, line)) {
		std::vector<std::string> f = uv::split(line, '\t');
		if (f.size() != 2) { uv::putline("bad-op"); continue; }
		uscxml::Trie t(".");
		bool ok = true;
		for (const std::string& hw : uv::split(f[0], ',')) {
			std::string w;
			if (hw == "-") { t.addWord(""); continue; }             // "-" = the empty word
			if (!uv::hexdec(hw, w)) { ok = false; break; }
			t.addWord(w);
		}
		std::string out;
		for (const std::string& hp : uv::split(f[1], ',')) {
			std::string p;
			if (hp != "-" && !uv::hexdec(hp, p)) { ok = false; break; }
			std::list<uscxml::TrieNode*> ns = t.getWordsWithPrefix(p);
			std::vector<std::string> vals;
			for (uscxml::TrieNode* n : ns) vals.push_back(n->value.size() ? uv::hexenc(n->value) : std::string("-"));
			std::sort(vals.begin(), vals.end());
			if (out.size()) out += "|";
			for (size_t i = 0; i < vals.size(); i++) out += (i ? "," : "") + vals[i];
		}
		if (!ok) { uv::putline("bad-op"); continue; }
		{ std::ostringstream _o; _o << out << " n=" << t.lastIndex; uv::putline(_o.str()); }
	}
	return 0;
}
