// uvharness validate: <x>\t<chart s-expr (ignored)>\t...\t<hex SCXML>
//   -> F=<sorted classes of fatal issues or ->  W=<number of warnings>  I=<number of infos>  U=<unclassified fatal messages>
#include "common.h"
#include "uscxml/Interpreter.h"
#include "uscxml/debug/InterpreterIssue.h"
#include <unistd.h>
#include <sys/wait.h>
#include <algorithm>

using namespace uscxml;

static const char* CLASSES[][2] = {
	{"State has no 'id' attribute", "noid"}, {"State has empty 'id'", "emptyid"},
	{"has multiple transitions", "hist-multi"}, {"has no default transition", "hist-none"},
	{"must not have a condition", "hist-cond"}, {"must not have an event attribute", "hist-event"},
	{"' has no target", "hist-notarget"}, {"has illegal target state", "hist-target"},
	{"Duplicate state with id", "dup"}, {"Transition has empty target state list", "emptytarget"},
	{"Transition has non-existant target", "badtarget"}, {"Initial attribute has invalid target", "init-bad"},
	{"Initial attribute references non-child", "init-nonchild"}, {"Target states cause illegal configuration", "illegal-targets"},
	{"Initial element must define exactly one transition", "initial-count"}, {"Initial transition cannot have a condition", "initial-cond"},
	{"Initial transition cannot be eventful", "initial-event"}, {"Target of initial transition references non-child", "initial-nonchild"},
	{"Send to unknown IO Processor", "send-type"}, {0, 0}
};

static std::string one(const std::string& xml) {
	try {
		Interpreter& interp = *(new Interpreter(Interpreter::fromXML(xml, "")));
		std::list<InterpreterIssue> issues = interp.validate();
		std::vector<std::string> fatal; int w = 0, inf = 0, syn = 0; std::string unk;
		for (auto& is : issues) {
			if (is.severity == InterpreterIssue::USCXML_ISSUE_WARNING) { w++; if (is.message.find("yntax") != std::string::npos) syn++; continue; }
			if (is.severity == InterpreterIssue::USCXML_ISSUE_INFO) { inf++; continue; }
			bool found = false;
			for (int k = 0; CLASSES[k][0]; k++) if (is.message.find(CLASSES[k][0]) != std::string::npos) { fatal.push_back(CLASSES[k][1]); found = true; break; }
			if (!found) { std::string m = is.message.substr(0, 60); for (char& c : m) if ((unsigned char)c <= 32) c = '_'; unk += "[" + m + "]"; }
		}
		std::sort(fatal.begin(), fatal.end());
		std::string f;
		for (auto& s : fatal) f += (f.size() ? "," : "") + s;
		return "F=" + (f.size() ? f : std::string("-")) + " W=" + std::to_string(w) + " I=" + std::to_string(inf) + " X=" + std::to_string(syn) + " U=" + (unk.size() ? unk : std::string("-"));
	} catch (Event e) {
		return "EXC:" + e.name;
	} catch (std::exception& e) {
		return std::string("EXC:std:") + e.what();
	}
}

int cmd_validate(int argc, char** argv) {
	std::string line;
	while (std::getline(std::cin, line)) {
		std::vector<std::string> f = uv::split(line, '\t');
		std::string xml;
		if (!uv::hexdec(f.back(), xml)) { uv::putline("bad-op"); continue; }
		int fds[2];
		if (pipe(fds)) { uv::putline("bad-pipe"); continue; }
		fflush(uv::out);
		pid_t pid = fork();
		if (pid == 0) {
			close(fds[0]); alarm(20);
			std::string out = one(xml);
			size_t off = 0;
			while (off < out.size()) { ssize_t n = write(fds[1], out.data() + off, out.size() - off); if (n <= 0) break; off += n; }
			close(fds[1]); _exit(0);
		}
		close(fds[1]);
		std::string out; char buf[65536]; ssize_t n;
		while ((n = read(fds[0], buf, sizeof buf)) > 0) out.append(buf, n);
		close(fds[0]);
		int status = 0; waitpid(pid, &status, 0);
		if (WIFSIGNALED(status)) out = std::string("CRASH:") + std::to_string(WTERMSIG(status));
		uv::putline(out);
	}
	return 0;
}
