// uvharness tables: <chart s-expr (ignored)>\t<events (ignored)>\t... last field = hex SCXML
//   -> the annotation ChartToC::prepare leaves in the DOM (what `uscxml-transform -a` writes), one token per
//      state  S<docOrder>:<id>:<parent>:<childBools>:<ancBools>:<completionBools>
//      and transition T<postFixOrder>:<source>:<exitSetBools>:<conflictBools>:<targetBools|->
#include "common.h"
#include "uscxml/Interpreter.h"
#include "uscxml/transform/ChartToC.h"
#include "uscxml/util/DOM.h"
#include <xercesc/dom/DOM.hpp>
#include <unistd.h>
#include <sys/wait.h>
#include <map>

using namespace uscxml;
using namespace XERCESC_NS;

static std::string A(const DOMElement* e, const char* n) {
	X x(n);
	return e->hasAttribute(x) ? X(e->getAttribute(x)).str() : "-";
}

static void walk(DOMElement* e, std::map<int, std::string>& states, std::map<int, std::string>& trans) {
	std::string ln = X(e->getLocalName()).str();
	if (ln == "scxml" || ln == "state" || ln == "parallel" || ln == "final" || ln == "history" || ln == "initial") {
		std::string id = A(e, "id");
		if (ln == "scxml") id = "root";
		else if (ln == "initial") id = "?initial";
		else if (id == "-") id = "";
		int n = atoi(A(e, "documentOrder").c_str());
		states[n] = "S" + A(e, "documentOrder") + ":" + id + ":" + A(e, "parent") + ":" + A(e, "childBools") + ":" + A(e, "ancBools") + ":" + A(e, "completionBools");
	} else if (ln == "transition") {
		int n = atoi(A(e, "postFixOrder").c_str());
		trans[n] = "T" + A(e, "postFixOrder") + ":" + A(e, "source") + ":" + A(e, "exitSetBools") + ":" + A(e, "conflictBools") + ":" + A(e, "targetBools");
	}
	for (DOMElement* c = e->getFirstElementChild(); c; c = c->getNextElementSibling()) walk(c, states, trans);
}

static std::string one(const std::string& xml) {
	try {
		Interpreter& interp = *(new Interpreter(Interpreter::fromXML(xml, "")));
		Transformer t = ChartToC::transform(interp);
		DOMDocument* doc = t.getImpl()->getDocument();
		std::map<int, std::string> states, trans;
		walk(doc->getDocumentElement(), states, trans);
		std::string out;
		for (auto& kv : states) out += (out.size() ? " " : "") + kv.second;
		for (auto& kv : trans) out += " " + kv.second;
		return out;
	} catch (Event e) {
		return "EXC:" + e.name;
	} catch (std::exception& e) {
		return std::string("EXC:std:") + e.what();
	}
}

int cmd_tables(int argc, char** argv) {
	std::string line;
	while (std::getline(std::cin, line)) {
		std::vector<std::string> f = uv::split(line, '\t');
		std::string xml;
		if (!uv::hexdec(f.back(), xml)) { uv::putline("bad-op"); continue; }
		int fds[2];
		if (pipe(fds)) { uv::putline("bad-pipe"); continue; }
		fflush(uv::out);
		pid_t pid = fork();
		if (pid == 0) {
			close(fds[0]); alarm(20);
			std::string out = one(xml);
			size_t off = 0;
			while (off < out.size()) { ssize_t n = write(fds[1], out.data() + off, out.size() - off); if (n <= 0) break; off += n; }
			close(fds[1]); _exit(0);
		}
		close(fds[1]);
		std::string out; char buf[65536]; ssize_t n;
		while ((n = read(fds[0], buf, sizeof buf)) > 0) out.append(buf, n);
		close(fds[0]);
		int status = 0; waitpid(pid, &status, 0);
		if (WIFSIGNALED(status)) out = std::string("CRASH:") + std::to_string(WTERMSIG(status));
		uv::putline(out);
	}
	return 0;
}
