// uvharness trace: <engine>\t<chart s-expression (ignored)>\t<events>\t<hex SCXML text>
//   -> one line of tokens: every monitor notification, log line, step() result and configuration
// Options: --cap N (max steps per run-to-quiescence, default 60)
#include "common.h"
#include "uscxml/Interpreter.h"
#include "uscxml/interpreter/InterpreterMonitor.h"
#include "uscxml/interpreter/LoggingImpl.h"
#include "uscxml/interpreter/MicroStepImpl.h"
#include "uscxml/plugins/Factory.h"
#include "uscxml/util/DOM.h"
#include "uscxml/debug/InterpreterIssue.h"
#include <xercesc/dom/DOM.hpp>
#include <unistd.h>
#include <functional>
#include "uscxml/interpreter/InterpreterImpl.h"
#include <sys/wait.h>

using namespace uscxml;
using namespace XERCESC_NS;

static std::string attr(const DOMElement* e, const char* name) {
	X n(name);
	if (!e->hasAttribute(n)) return "";
	return X(e->getAttribute(n)).str();
}

#include <chrono>
#include <thread>
static bool g_stamp = false;                                      // api op `T`: "@<ms>" tokens before events and content
static long g_stampT0 = 0;
struct Rec {
	std::vector<std::string> toks;
	void add(const std::string& t) { toks.push_back(t); }
	void stamp() {
		if (!g_stamp) return;
		long ms = uv::coarseMs() - g_stampT0;
		toks.push_back("@" + std::to_string(ms));
	}
};

class RecMonitor : public InterpreterMonitor {
public:
	Rec* r;
	std::string only;      // if set: the session whose notifications are recorded (invoked sessions inherit the monitor)
	RecMonitor(Rec* rec) : r(rec) {}
	bool mine(const std::string& sid) const { return only.empty() || sid == only; }
	static std::string sid(const DOMElement* s) {
		std::string id = attr(s, "id");
		if (id.size()) return id;
		std::string anon = attr(s, "uvname");
		if (anon.size()) return anon;
		std::string ln = X(s->getLocalName()).str();
		return ln == "scxml" ? "root" : "?" + ln;
	}
	static std::string tid(const DOMElement* t) {
		const DOMElement* p = static_cast<const DOMElement*>(t->getParentNode());
		if (X(p->getLocalName()).str() == "initial")
			return sid(static_cast<const DOMElement*>(p->getParentNode())) + "/i";
		int idx = 0;
		for (DOMElement* c = p->getFirstElementChild(); c && c != t; c = c->getNextElementSibling())
			if (X(c->getLocalName()).str() == "transition") idx++;
		return sid(p) + "." + std::to_string(idx);
	}
	static std::string xid(const DOMElement* x) {
		std::string uv = attr(x, "uvid");
		return uv.size() ? uv : "?" + X(x->getLocalName()).str();
	}
	void beforeProcessingEvent(const std::string& sid_, const Event& e) { if (!mine(sid_)) return; r->stamp(); r->add("bpe:" + e.name); }
	void beforeMicroStep(const std::string& sid_) { if (!mine(sid_)) return; r->add("bm"); }
	void beforeExitingState(const std::string& sid_, const std::string&, const DOMElement* s) { if (!mine(sid_)) return; r->add("bx:" + sid(s)); }
	void afterExitingState(const std::string& sid_, const std::string&, const DOMElement* s) { if (!mine(sid_)) return; r->add("ax:" + sid(s)); }
	void beforeExecutingContent(const std::string& sid_, const DOMElement* x) { if (!mine(sid_)) return; r->stamp(); r->add("bc:" + xid(x)); }
	void afterExecutingContent(const std::string& sid_, const DOMElement* x) { if (!mine(sid_)) return; r->add("ac:" + xid(x)); r->stamp(); }
	void beforeUninvoking(const std::string& sid_, const DOMElement* x, const std::string&) { if (!mine(sid_)) return; r->add("bu:" + attr(x, "id")); }
	void afterUninvoking(const std::string& sid_, const DOMElement* x, const std::string&) { if (!mine(sid_)) return; r->add("au:" + attr(x, "id")); }
	void beforeTakingTransition(const std::string& sid_, const DOMElement* t) { if (!mine(sid_)) return; r->add("bt:" + tid(t)); }
	void afterTakingTransition(const std::string& sid_, const DOMElement* t) { if (!mine(sid_)) return; r->add("at:" + tid(t)); }
	void beforeEnteringState(const std::string& sid_, const std::string&, const DOMElement* s) { if (!mine(sid_)) return; r->add("be:" + sid(s)); }
	void afterEnteringState(const std::string& sid_, const std::string&, const DOMElement* s) { if (!mine(sid_)) return; r->add("ae:" + sid(s)); }
	void beforeInvoking(const std::string& sid_, const DOMElement* x, const std::string&) { if (!mine(sid_)) return; r->add("bi:" + attr(x, "id")); }
	void afterInvoking(const std::string& sid_, const DOMElement* x, const std::string&) { if (!mine(sid_)) return; r->add("ai:" + attr(x, "id")); }
	void afterMicroStep(const std::string& sid_) { if (!mine(sid_)) return; r->add("am"); }
	void onStableConfiguration(const std::string& sid_) { if (!mine(sid_)) return; r->add("st"); }
	void beforeCompletion(const std::string& sid_) { if (!mine(sid_)) return; r->add("bcomp"); }
	void afterCompletion(const std::string& sid_) { if (!mine(sid_)) return; r->add("acomp"); }
	void reportIssue(const std::string& sid_, const InterpreterIssue&) { if (!mine(sid_)) return; r->add("issue"); }
};

class RecLogger : public LoggerImpl {
public:
	Rec* r;
	RecLogger(Rec* rec) : r(rec) {}
	std::shared_ptr<LoggerImpl> create() { return std::shared_ptr<LoggerImpl>(new RecLogger(r)); }
	void log(LogSeverity sev, const Event&) {}
	void log(LogSeverity sev, const Data&) {}
	void log(LogSeverity sev, const std::string& msg) {
		if (sev != USCXML_LOG) return;
		std::string m = msg;
		size_t c = m.find(':');
		if (c != std::string::npos) m = m.substr(0, c);
		while (m.size() && (m.back() == '\n' || m.back() == ' ')) m.pop_back();
		r->add("log:" + m);
	}
};

static const char* retName(InterpreterState s) {
	switch (s) {
	case USCXML_FINISHED: return "FINISHED"; case USCXML_IDLE: return "IDLE";
	case USCXML_INITIALIZED: return "INITIALIZED"; case USCXML_INSTANTIATED: return "INSTANTIATED";
	case USCXML_MICROSTEPPED: return "MICROSTEPPED"; case USCXML_MACROSTEPPED: return "MACROSTEPPED";
	case USCXML_CANCELLED: return "CANCELLED"; default: return "UNDEF";
	}
}

static std::string cfgToken(Interpreter& interp) {
	std::string s = "cfg:";
	const char* sep = "";
	for (DOMElement* e : interp.getConfiguration()) { s += sep; s += RecMonitor::sid(e); sep = ","; }
	return s;
}

static bool runQuiescent(Interpreter& interp, Rec& rec, int cap) {
	for (int i = 0; i < cap; i++) {
		InterpreterState s = interp.step(0);
		rec.add(std::string("ret:") + retName(s));
		rec.add(cfgToken(interp));
		if (s == USCXML_IDLE || s == USCXML_FINISHED) return true;
	}
	rec.add("DIVERGE");
	return false;
}

static std::string traceOne(const std::string& engine, const std::string& events, const std::string& xml, int cap) {
	Rec rec;
	try {
		// deliberately leaked: destruction (timer thread tear-down) is C10's subject, not this command's,
		// and every request runs in a forked child that _exit()s
		Interpreter& interp = *(new Interpreter(Interpreter::fromXML(xml, "")));
		ActionLanguage al;
		al.logger = Logger(std::shared_ptr<LoggerImpl>(new RecLogger(&rec)));
		if (engine != "large")
			al.microStepper = Factory::getInstance()->createMicroStepper(engine, (MicroStepCallbacks*)interp.getImpl().get());
		interp.setActionLanguage(al);
		// states without an id are named ?<k> by their position among the state-like elements of the document as written
		{
			int k = 0;
			std::function<void(DOMElement*)> name = [&](DOMElement* e) {
				std::string ln = X(e->getLocalName()).str();
				if (ln == "scxml" || ln == "state" || ln == "parallel" || ln == "final" || ln == "history" || ln == "initial") {
					if (ln != "scxml" && ln != "initial" && !e->hasAttribute(X("id")))
						e->setAttribute(X("uvname"), X("?" + std::to_string(k)));
					k++;
				}
				for (DOMElement* c = e->getFirstElementChild(); c; c = c->getNextElementSibling()) name(c);
			};
			name(interp.getImpl()->getDocument()->getDocumentElement());
		}
		RecMonitor* mon = new RecMonitor(&rec);
		mon->only = interp.getImpl()->getSessionId();
		interp.addMonitor(mon);
		InterpreterState s = interp.step(0);
		rec.add(std::string("ret:") + retName(s));
		bool ok = runQuiescent(interp, rec, cap);
		if (events != "-") {
			for (const std::string& ev : uv::split(events, ',')) {
				if (!ok) break;
				interp.receive(Event(ev, Event::EXTERNAL));
				ok = runQuiescent(interp, rec, cap);
			}
		}
	} catch (Event e) {
		rec.add("EXC:" + e.name);
	} catch (std::exception& e) {
		rec.add(std::string("EXC:std:") + e.what());
	} catch (...) {
		rec.add("EXC:unknown");
	}
	std::string out;
	for (size_t i = 0; i < rec.toks.size(); i++) { if (i) out += " "; out += rec.toks[i]; }
	return out;
}

static Interpreter& makeInterp(const std::string& engine, const std::string& xml, Rec& rec) {
	Interpreter& interp = *(new Interpreter(Interpreter::fromXML(xml, "")));
	ActionLanguage al;
	al.logger = Logger(std::shared_ptr<LoggerImpl>(new RecLogger(&rec)));
	if (engine != "large")
		al.microStepper = Factory::getInstance()->createMicroStepper(engine, (MicroStepCallbacks*)interp.getImpl().get());
	interp.setActionLanguage(al);
	RecMonitor* mon = new RecMonitor(&rec);
	mon->only = interp.getImpl()->getSessionId();
	interp.addMonitor(mon);
	return interp;
}

static std::string joinToks(const Rec& rec, size_t from = 0) {
	std::string out;
	for (size_t i = from; i < rec.toks.size(); i++) { if (out.size()) out += " "; out += rec.toks[i]; }
	return out;
}

// serial: <engine>\t<chart>\t<prefix events>\t<continuation events, "~<ms>" = wait>\t<hex xml>\t<hex xml of another document>
//  -> A=<continuation trace of the original> || B=<continuation trace of the restored copy> || FOREIGN=<rejected|accepted> || SER=<ok|err:..>
static std::string serialOne(const std::vector<std::string>& f) {
	std::string xml, other;
	if (f.size() != 6 || !uv::hexdec(f[4], xml) || !uv::hexdec(f[5], other)) return "bad-op";
	const std::string& engine = f[0];
	Rec recA, recB;
	std::string ser, status = "ok", foreign = "-";
	size_t fromA = 0, fromB = 0;
	try {
		Interpreter& a = makeInterp(engine, xml, recA);
		a.step(0);
		bool ok = runQuiescent(a, recA, 60);
		std::vector<std::string> pre = f[2] == "-" ? std::vector<std::string>() : uv::split(f[2], ',');
		for (size_t i = 0; i < pre.size() && ok; i++) {
			if (pre[i].size() > 1 && pre[i][0] == '=') {
				// "=<ms>": let time pass before the snapshot (pending delayed events age), then handle what arrived
				std::this_thread::sleep_for(std::chrono::milliseconds(atoi(pre[i].c_str() + 1)));
				ok = runQuiescent(a, recA, 60);
				continue;
			}
			a.receive(Event(pre[i], Event::EXTERNAL));
			if (i + 1 < pre.size()) ok = runQuiescent(a, recA, 60);
			else {
				// the snapshot point: the first stable configuration after the last prefix event
				for (int k = 0; k < 60; k++) {
					InterpreterState s = a.step(0);
					if (s == USCXML_MACROSTEPPED || s == USCXML_IDLE || s == USCXML_FINISHED) break;
				}
			}
		}
		if (!ok) return "DIVERGE";
		try { ser = a.serialize(); } catch (Event e) { return "SER=err:" + e.name; }
		std::vector<std::string> cont = f[3] == "-" ? std::vector<std::string>() : uv::split(f[3], ',');
		// one continuation: "~<ms>" = wait for the pending delayed events - step with a bound of <ms> until that long passes
		// without anything happening (the bound is per event, so a late timer only costs time), then settle
		auto continueWith = [&](Interpreter& x, Rec& rec) {
			bool ok = runQuiescent(x, rec, 60);
			for (const std::string& ev : cont) {
				if (!ok) break;
				if (ev.size() > 1 && ev[0] == '~') {
					int ms = atoi(ev.c_str() + 1);
					for (int k = 0; k < 400; k++) {
						size_t before = rec.toks.size();
						InterpreterState st = x.step(ms);
						if (st == USCXML_FINISHED) break;
						if (st == USCXML_IDLE && rec.toks.size() == before) break;
					}
					ok = runQuiescent(x, rec, 60);
				} else {
					x.receive(Event(ev, Event::EXTERNAL)); ok = runQuiescent(x, rec, 60);
				}
			}
		};
		// the original goes on right after the snapshot ...
		fromA = recA.toks.size();
		continueWith(a, recA);
		// ... and so does the restored copy after its restoration: the remaining delays in the snapshot are relative to the
		// moment it was taken, a copy left waiting while the original runs would see its timers expire early
		Interpreter& b = makeInterp(engine, xml, recB);
		try { b.deserialize(ser); } catch (Event e) { status = "err:" + e.name; }
		fromB = recB.toks.size();
		if (status == "ok") continueWith(b, recB);
		// a foreign document must be rejected
		{
			Rec recC;
			Interpreter& c = makeInterp(engine, other, recC);
			try { c.deserialize(ser); foreign = "accepted"; } catch (Event e) { foreign = "rejected"; } catch (...) { foreign = "rejected"; }
		}
		// what a second snapshot says
		std::string serA, serB;
		try { serA = a.serialize(); } catch (...) { serA = "ERR"; }
		try { serB = b.serialize(); } catch (...) { serB = "ERR"; }
		recA.add(std::string("reser:") + (serA == serB ? "same" : "differs"));
		recB.add(std::string("reser:") + (serA == serB ? "same" : "differs"));
	} catch (Event e) {
		return "EXC:" + e.name;
	} catch (std::exception& e) {
		return std::string("EXC:std:") + e.what();
	}
	return "A=" + joinToks(recA, fromA) + " || B=" + joinToks(recB, fromB) + " || FOREIGN=" + foreign + " || SER=" + status;
}

int cmd_serial(int argc, char** argv) {
	std::string line;
	while (std::getline(std::cin, line)) {
		std::vector<std::string> f = uv::split(line, '\t');
		int fds[2];
		if (pipe(fds)) { { std::ostringstream _o; _o << "bad-pipe"; uv::putline(_o.str()); } continue; }
		fflush(uv::out);
		pid_t pid = fork();
		if (pid == 0) {
			close(fds[0]);
			alarm(30);
			std::string out = serialOne(f);
			size_t off = 0;
			while (off < out.size()) { ssize_t n = write(fds[1], out.data() + off, out.size() - off); if (n <= 0) break; off += n; }
			close(fds[1]);
			_exit(0);
		}
		close(fds[1]);
		std::string out; char buf[65536]; ssize_t n;
		while ((n = read(fds[0], buf, sizeof buf)) > 0) out.append(buf, n);
		close(fds[0]);
		int status = 0; waitpid(pid, &status, 0);
		if (WIFSIGNALED(status)) out += (out.size() ? " " : "") + std::string("CRASH:") + std::to_string(WTERMSIG(status));
		uv::putline(out);
	}
	return 0;
}


// api: <engine>\t<chart s-expression (ignored)>\t<ops>\t<hex SCXML text>
//   ops (comma separated): s = one step(0); q = step until IDLE/FINISHED (cap 60); e:<name> = receive();
//   i:<name> = enqueueInternal() from outside a step; k:<ms> = blocking step during which another thread enqueues internal ierr, a wake-up and external ext; c = cancel(); r = reset(); d = destroy the interpreter and create a new one; g = getState();
//   T = from here on a token "@<ms>" precedes every bpe:/bc: token and follows every ac: token (monotonic clock)
static void nameAnon(Interpreter& interp) {
	int k = 0;
	std::function<void(DOMElement*)> name = [&](DOMElement* e) {
		std::string ln = X(e->getLocalName()).str();
		if (ln == "scxml" || ln == "state" || ln == "parallel" || ln == "final" || ln == "history" || ln == "initial") {
			if (ln != "scxml" && ln != "initial" && !e->hasAttribute(X("id")))
				e->setAttribute(X("uvname"), X("?" + std::to_string(k)));
			k++;
		}
		for (DOMElement* c = e->getFirstElementChild(); c; c = c->getNextElementSibling()) name(c);
	};
	name(interp.getImpl()->getDocument()->getDocumentElement());
}

// schedule hooks: "<point>=<ms>[:<times>],..." - the thread reaching <point> sleeps <ms> milliseconds (the first <times> times)
#include "uscxml/interpreter/BasicDelayedEventQueue.h"
#include <map>
#include <thread>
#include <chrono>
#include <atomic>
struct HookSpec { int ms; std::atomic<int> left; };
static std::map<std::string, HookSpec*> g_hooks;
static void scheduleHook(const char* point) {
	auto it = g_hooks.find(point);
	if (it == g_hooks.end()) return;
	if (it->second->left.fetch_sub(1) <= 0) return;
	std::this_thread::sleep_for(std::chrono::milliseconds(it->second->ms));
}
static void installHooks(const std::string& spec) {
	if (spec == "-" || spec.empty()) return;
	for (const std::string& h : uv::split(spec, ',')) {
		size_t eq = h.find('=');
		if (eq == std::string::npos) continue;
		std::string rhs = h.substr(eq + 1);
		size_t col = rhs.find(':');
		HookSpec* hs = new HookSpec();
		hs->ms = atoi(rhs.substr(0, col).c_str());
		hs->left = col == std::string::npos ? 1000000 : atoi(rhs.substr(col + 1).c_str());
		g_hooks[h.substr(0, eq)] = hs;
	}
	uscxml_verif_schedule_hook = scheduleHook;
}

static std::string apiOne(const std::string& engine, const std::string& ops, const std::string& xml, int cap) {
	Rec rec;
	Interpreter* interp = NULL;
	try {
		interp = &makeInterp(engine, xml, rec);
		nameAnon(*interp);
		for (const std::string& op : uv::split(ops, ',')) {
			if (op == "T") {
				g_stamp = true; g_stampT0 = uv::coarseMs();
			} else if (op == "s") {
				InterpreterState s = interp->step(0);
				rec.add(std::string("ret:") + retName(s));
				rec.add(cfgToken(*interp));
			} else if (op == "q") {
				runQuiescent(*interp, rec, cap);
			} else if (op == "c") {
				interp->cancel(); rec.add("cancel");
			} else if (op == "r") {
				interp->reset(); rec.add("reset");
			} else if (op == "g") {
				rec.add(std::string("state:") + retName(interp->getState()));
			} else if (op == "d") {
				delete interp; interp = NULL;
				rec.add("destroyed");
				interp = &makeInterp(engine, xml, rec);
				nameAnon(*interp);
			} else if (op.size() > 2 && op[0] == 'e' && op[1] == ':') {
				interp->receive(Event(op.substr(2), Event::EXTERNAL));
			} else if (op.size() > 2 && op[0] == 'i' && op[1] == ':') {
				// an internal event from outside a macrostep - what the timer thread does for a delayed <send target="#_internal">
				// and for the error event of a delayed delivery that fails
				interp->getImpl()->enqueueInternal(Event(op.substr(2), Event::INTERNAL));
			} else if (op.size() > 2 && op[0] == 'k' && op[1] == ':') {
				// kick: while this thread is inside a blocking step(), another thread - like the timer thread when the delivery of a
				// delayed <send> fails - puts an internal event on the internal queue, then the empty wake-up event and right behind it
				// an external event on the external queue. The step must come back for the internal event before it takes the external one.
				int ms = atoi(op.substr(2).c_str());
				Interpreter* ip = interp;
				std::thread kicker([ip, ms]() {
					std::this_thread::sleep_for(std::chrono::milliseconds(ms));
					ip->getImpl()->enqueueInternal(Event("ierr", Event::INTERNAL));
					ip->receive(Event());
					ip->receive(Event("ext", Event::EXTERNAL));
				});
				InterpreterState s = interp->step(ms + 400);
				rec.add(std::string("ret:") + retName(s));
				rec.add(cfgToken(*interp));
				kicker.join();
			} else if (op.size() > 2 && op[0] == 'w' && op[1] == ':') {
				// wait <ms>: lets timers fire / other threads run
				std::this_thread::sleep_for(std::chrono::milliseconds(atoi(op.substr(2).c_str())));
			} else if (op.size() > 2 && op[0] == 'b' && op[1] == ':') {
				// blocking step with a bound of <ms>
				InterpreterState s = interp->step(atoi(op.substr(2).c_str()));
				rec.add(std::string("ret:") + retName(s));
				rec.add(cfgToken(*interp));
			} else if (op != "-" && op.size()) {
				rec.add("bad-op:" + op);
			}
		}
		delete interp; interp = NULL;
		rec.add("end");
	} catch (Event e) {
		rec.add("EXC:" + e.name);
	} catch (std::exception& e) {
		rec.add(std::string("EXC:std:") + e.what());
	} catch (...) {
		rec.add("EXC:unknown");
	}
	return joinToks(rec);
}

int cmd_api(int argc, char** argv) {
	std::string line;
	while (std::getline(std::cin, line)) {
		std::vector<std::string> f = uv::split(line, '\t');
		std::string xml;
		if ((f.size() != 4 && f.size() != 5) || !uv::hexdec(f[3], xml)) { uv::putline("bad-op"); continue; }
		int fds[2];
		if (pipe(fds)) { uv::putline("bad-pipe"); continue; }
		fflush(uv::out);
		pid_t pid = fork();
		if (pid == 0) {
			close(fds[0]);
			alarm(20);
			if (f.size() == 5) installHooks(f[4]);
			std::string out = apiOne(f[0], f[2], xml, 60);
			size_t off = 0;
			while (off < out.size()) { ssize_t n = write(fds[1], out.data() + off, out.size() - off); if (n <= 0) break; off += n; }
			close(fds[1]);
			_exit(0);
		}
		close(fds[1]);
		std::string out; char buf[65536]; ssize_t n;
		while ((n = read(fds[0], buf, sizeof buf)) > 0) out.append(buf, n);
		close(fds[0]);
		int status = 0; waitpid(pid, &status, 0);
		if (WIFSIGNALED(status)) out += (out.size() ? " " : "") + std::string("CRASH:") + std::to_string(WTERMSIG(status));
		else if (WEXITSTATUS(status) != 0) out += (out.size() ? " " : "") + std::string("EXIT:") + std::to_string(WEXITSTATUS(status));
		uv::putline(out);
	}
	return 0;
}

// each request runs in a forked child so that a crash or hang is a result, not the end of the batch
int cmd_trace(int argc, char** argv) {
	int cap = 60;
	bool nofork = false;
	for (int i = 1; i < argc; i++) {
		if (!strcmp(argv[i], "--cap") && i + 1 < argc) cap = atoi(argv[++i]);
		if (!strcmp(argv[i], "--nofork")) nofork = true;
	}
	std::string line;
	while (std::getline(std::cin, line)) {
		std::vector<std::string> f = uv::split(line, '\t');
		std::string xml;
		if (f.size() != 4 || !uv::hexdec(f[3], xml)) { { std::ostringstream _o; _o << "bad-op"; uv::putline(_o.str()); } continue; }
		if (nofork) { { std::ostringstream _o; _o << traceOne(f[0], f[2], xml, cap); uv::putline(_o.str()); } continue; }
		int fds[2];
		if (pipe(fds)) { { std::ostringstream _o; _o << "bad-pipe"; uv::putline(_o.str()); } continue; }
		fflush(uv::out);
		pid_t pid = fork();
		if (pid == 0) {
			close(fds[0]);
			alarm(20);
			std::string out = traceOne(f[0], f[2], xml, cap);
			size_t off = 0;
			while (off < out.size()) { ssize_t n = write(fds[1], out.data() + off, out.size() - off); if (n <= 0) break; off += n; }
			close(fds[1]);
			_exit(0);
		}
		close(fds[1]);
		std::string out; char buf[65536]; ssize_t n;
		while ((n = read(fds[0], buf, sizeof buf)) > 0) out.append(buf, n);
		close(fds[0]);
		int status = 0; waitpid(pid, &status, 0);
		if (WIFSIGNALED(status)) out += (out.size() ? " " : "") + std::string("CRASH:") + std::to_string(WTERMSIG(status));
		else if (WEXITSTATUS(status) != 0) out += (out.size() ? " " : "") + std::string("EXIT:") + std::to_string(WEXITSTATUS(status));
		{ std::ostringstream _o; _o << out; uv::putline(_o.str()); }
	}
	return 0;
}
