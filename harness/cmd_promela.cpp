// uvharness promela: one session per line, fields separated by '|':
//   <decls> | <op> | <op> ...
//   decls: comma separated  name=int  or  name[size]   (declared through <data> elements)
//   ops:   e:<hex expr>   evalAsData  -> v:<atom> | err:<event name> 
//          b:<hex expr>   evalAsBool  -> 0/1 | err
//          a:<hex loc>:<hex expr>  assign(location, INTERPRETED expr) -> ok | err
//          s:<hex stmt>   eval of a statement (script element semantics) -> ok | err
//          t:<hex expr>   AST of the expression as an s-expression
// each session runs in a forked child: CRASH:<signal> is a result
#include "common.h"
#include "uscxml/Interpreter.h"
#include "uscxml/interpreter/InterpreterImpl.h"
#include "uscxml/plugins/datamodel/promela/PromelaParser.h"
#include "uscxml/plugins/datamodel/promela/parser/promela.tab.hpp"
#include <unistd.h>
#include <sys/wait.h>

using namespace uscxml;

static std::string astDump(PromelaParserNode* n) {
	std::string s = "(" + PromelaParserNode::typeToDesc(n->type);
	if (n->value.size()) s += ":" + n->value;
	for (auto c : n->operands) s += " " + astDump(c);
	return s + ")";
}

static std::string session(const std::string& line) {
	std::vector<std::string> f = uv::split(line, '|');
	std::string xml = "<scxml xmlns=\"http://www.w3.org/2005/07/scxml\" version=\"1.0\" datamodel=\"promela\"><datamodel>";
	if (f[0] != "-") {
		for (const std::string& d : uv::split(f[0], ',')) {
			size_t eq = d.find('='), br = d.find('[');
			if (br != std::string::npos) xml += "<data id=\"" + d.substr(0, br) + "\" type=\"int" + d.substr(br) + "\"/>";
			else if (eq != std::string::npos) xml += "<data id=\"" + d.substr(0, eq) + "\" type=\"int\" expr=\"" + d.substr(eq + 1) + "\"/>";
		}
	}
	xml += "</datamodel><state id=\"s\"/></scxml>";
	std::string out;
	try {
		Interpreter& interp = *(new Interpreter(Interpreter::fromXML(xml, "")));
		for (int i = 0; i < 6; i++) { InterpreterState s = interp.step(0); if (s == USCXML_IDLE) break; }
		std::shared_ptr<InterpreterImpl> impl = interp.getImpl();
		for (size_t i = 1; i < f.size(); i++) {
			std::string r;
			std::vector<std::string> p = uv::split(f[i], ':');
			std::string a, b;
			try {
				if (p[0] == "e" && p.size() == 2 && uv::hexdec(p[1], a)) {
					Data d = impl->evalAsData(a);
					r = "v:" + d.atom;
				} else if (p[0] == "b" && p.size() == 2 && uv::hexdec(p[1], a)) {
					// InterpreterImpl::isTrue swallows the error: go through the datamodel error path ourselves
					Data d = impl->evalAsData(a);
					r = (d.atom == "false" || d.atom == "0") ? "0" : "1";
				} else if (p[0] == "a" && p.size() == 3 && uv::hexdec(p[1], a) && uv::hexdec(p[2], b)) {
					impl->assign(a, Data(b, Data::INTERPRETED), std::map<std::string, std::string>());
					r = "ok";
				} else if (p[0] == "s" && p.size() == 2 && uv::hexdec(p[1], a)) {
					impl->eval(a);
					r = "ok";
				} else if (p[0] == "t" && p.size() == 2 && uv::hexdec(p[1], a)) {
					PromelaParser parser(a, 1, PromelaParser::PROMELA_EXPR);
					r = astDump(parser.ast);
				} else r = "bad-op";
			} catch (Event e) {
				r = "err:" + e.name;
			} catch (std::exception& e) {
				r = std::string("exc:") + e.what();
			}
			out += (i > 1 ? "|" : "") + r;
		}
	} catch (Event e) {
		out += "|SESSION-ERR:" + e.name;
	}
	return out;
}

int cmd_promela(int argc, char** argv) {
	std::string line;
	while (std::getline(std::cin, line)) {
		int fds[2];
		if (pipe(fds)) { uv::putline("bad-pipe"); continue; }
		fflush(uv::out);
		pid_t pid = fork();
		if (pid == 0) {
			close(fds[0]); alarm(10);
			std::string out = session(line);
			size_t off = 0;
			while (off < out.size()) { ssize_t n = write(fds[1], out.data() + off, out.size() - off); if (n <= 0) break; off += n; }
			close(fds[1]); _exit(0);
		}
		close(fds[1]);
		std::string out; char buf[65536]; ssize_t n;
		while ((n = read(fds[0], buf, sizeof buf)) > 0) out.append(buf, n);
		close(fds[0]);
		int status = 0; waitpid(pid, &status, 0);
		if (WIFSIGNALED(status)) out = std::string("CRASH:") + std::to_string(WTERMSIG(status));
		else if (WEXITSTATUS(status) != 0) out = std::string("SAN:") + std::to_string(WEXITSTATUS(status));
		uv::putline(out);
	}
	return 0;
}
