// uvharness lua: one session per line:  <way>|<D>   with <D> the prefix form of cmd_json (V I A O)
//   way = data    : assign("X", <Data tree>)            then evalAsData("X")
//         expr    : assign("X", Data(<lua source of D>, INTERPRETED)) then evalAsData("X")     (D given as hex lua source: S<hex>)
//         event   : receive(Event e with data = <Data tree>), chart takes a transition on e, evalAsData("_event.data")
//         content / namelist / donedata / donecontent : X := <Data tree>; sent to self as <content expr>, namelist, or raised as
//                   the donedata (<param> / <content expr>) of a final state; evalAsData of the event's data
//         param   : X := <Data tree>; <send event="p"><param name="p1" expr="X"/></send> to self; evalAsData("_event.data.p1")
//         sysvar:<name> : <assign location="<name>" expr="1"/> in a chart -> error event name and value of the variable before/after
// response: value <dump> | err:<event> | CRASH:<sig>
#include "common.h"
#include "uscxml/Interpreter.h"
#include "uscxml/interpreter/InterpreterImpl.h"
#include "uscxml/util/DOM.h"
#include <xercesc/dom/DOM.hpp>
#include <unistd.h>
#include <sys/wait.h>

using namespace uscxml;
using namespace XERCESC_NS;

static bool parseD(const std::vector<std::string>& t, size_t& i, Data& out) {
	if (i >= t.size()) return false;
	const std::string& s = t[i++];
	std::string b;
	if (s.size() < 1) return false;
	if (s[0] == 'V' || s[0] == 'I') {
		if (!uv::hexdec(s.size() > 1 ? s.substr(1) : "-", b)) return false;
		out = Data(b, s[0] == 'V' ? Data::VERBATIM : Data::INTERPRETED);
		return true;
	}
	int n = atoi(s.c_str() + 1);
	if (s[0] == 'A') { for (int k = 0; k < n; k++) { Data d; if (!parseD(t, i, d)) return false; out.array.push_back(d); } return true; }
	if (s[0] == 'O') {
		for (int k = 0; k < n; k++) {
			if (i >= t.size() || !uv::hexdec(t[i++], b)) return false;
			Data d; if (!parseD(t, i, d)) return false;
			out.compound[b] = d;
		}
		return true;
	}
	return false;
}

static std::string dump(const Data& d) {
	std::string s = "(" + uv::hexenc(d.atom) + " " + (d.type == Data::VERBATIM ? "v" : "i") + " [";
	const char* sep = "";
	for (const Data& x : d.array) { s += sep; s += dump(x); sep = " "; }
	s += "] {";
	sep = "";
	for (auto& kv : d.compound) { s += sep; s += uv::hexenc(kv.first) + " " + dump(kv.second); sep = " "; }
	return s + "})";
}

static const char* CHART =
    "<scxml xmlns=\"http://www.w3.org/2005/07/scxml\" version=\"1.0\" datamodel=\"lua\">"
    "<datamodel><data id=\"X\"/><data id=\"Seen\" expr=\"0\"/></datamodel>"
    "<state id=\"s\" initial=\"s0\">"
    "<transition event=\"ev\"><assign location=\"Seen\" expr=\"1\"/></transition>"
    "<transition event=\"p\"><assign location=\"Seen\" expr=\"2\"/></transition>"
    "<transition event=\"done.state.c1\"><assign location=\"Seen\" expr=\"3\"/></transition>"
    "<transition event=\"done.state.c2\"><assign location=\"Seen\" expr=\"3\"/></transition>"
    "<state id=\"s0\">"
    "<transition event=\"go\"><send event=\"p\"><param name=\"p1\" expr=\"X\"/></send></transition>"
    "<transition event=\"goc\"><send event=\"p\"><content expr=\"X\"/></send></transition>"
    "<transition event=\"gon\"><send event=\"p\" namelist=\"X\"/></transition>"
    "<transition event=\"god\" target=\"c1\"/>"
    "<transition event=\"godc\" target=\"c2\"/>"
    "</state>"
    "<state id=\"c1\"><final id=\"f1\"><donedata><param name=\"p1\" expr=\"X\"/></donedata></final></state>"
    "<state id=\"c2\"><final id=\"f2\"><donedata><content expr=\"X\"/></donedata></final></state>"
    "</state></scxml>";

static void settle(Interpreter& interp) {
	for (int i = 0; i < 40; i++) { InterpreterState s = interp.step(0); if (s == USCXML_IDLE || s == USCXML_FINISHED) break; }
}

static std::string session(const std::string& line) {
	size_t bar = line.find('|');
	if (bar == std::string::npos) return "bad-op";
	std::string way = line.substr(0, bar);
	std::vector<std::string> t = uv::split(line.substr(bar + 1), ' ');
	try {
		if (way.compare(0, 7, "sysvar:") == 0) {
			std::string name = way.substr(7);
			std::string xml = std::string("<scxml xmlns=\"http://www.w3.org/2005/07/scxml\" version=\"1.0\" datamodel=\"lua\" name=\"machine\">"
			                  "<state id=\"s\"><transition event=\"go\"><assign location=\"") + name + "\" expr=\"'overwritten'\"/></transition>"
			                  "<transition event=\"error.execution\" target=\"e\"/></state><state id=\"e\"/></scxml>";
			Interpreter& interp = *(new Interpreter(Interpreter::fromXML(xml, "")));
			settle(interp);
			std::shared_ptr<InterpreterImpl> impl = interp.getImpl();
			std::string before = dump(impl->evalAsData(name == "_event" ? "_event ~= nil and _event.name or nil" : "type(" + name + ") == 'table' and 'table' or " + name));
			interp.receive(Event("go", Event::EXTERNAL));
			settle(interp);
			std::string cfg;
			for (auto e : interp.getConfiguration()) { if (e->hasAttribute(X("id"))) cfg += X(e->getAttribute(X("id"))).str(); }
			std::string after = dump(impl->evalAsData(name == "_event" ? "_event.name" : "type(" + name + ") == 'table' and 'table' or " + name));
			return "state=" + cfg + " before=" + before + " after=" + after;
		}
		Interpreter& interp = *(new Interpreter(Interpreter::fromXML(CHART, "")));
		settle(interp);
		std::shared_ptr<InterpreterImpl> impl = interp.getImpl();
		size_t i = 0;
		if (way == "expr") {
			std::string src;
			if (t.size() != 1 || t[0][0] != 'S' || !uv::hexdec(t[0].substr(1), src)) return "bad-op";
			impl->assign("X", Data(src, Data::INTERPRETED), std::map<std::string, std::string>());
			return "value " + dump(impl->evalAsData("X"));
		}
		Data d;
		if (!parseD(t, i, d) || i != t.size()) return "bad-op";
		if (way == "data") {
			impl->assign("X", d, std::map<std::string, std::string>());
			return "value " + dump(impl->evalAsData("X"));
		} else if (way == "event") {
			Event e("ev", Event::EXTERNAL);
			e.data = d;
			interp.receive(e);
			settle(interp);
			if (impl->evalAsData("Seen").atom != "1") return "err:not-delivered";
			return "value " + dump(impl->evalAsData("_event.data"));
		} else if (way == "param") {
			impl->assign("X", d, std::map<std::string, std::string>());
			interp.receive(Event("go", Event::EXTERNAL));
			settle(interp);
			if (impl->evalAsData("Seen").atom != "2") return "err:not-delivered";
			return "value " + dump(impl->evalAsData("_event.data.p1"));
		} else if (way == "content" || way == "namelist" || way == "donedata" || way == "donecontent") {
			// the value leaves the datamodel through <send>/<donedata> and comes back as the data of the event
			impl->assign("X", d, std::map<std::string, std::string>());
			interp.receive(Event(way == "content" ? "goc" : way == "namelist" ? "gon" : way == "donedata" ? "god" : "godc", Event::EXTERNAL));
			settle(interp);
			std::string want = (way == "donedata" || way == "donecontent") ? "3" : "2";
			if (impl->evalAsData("Seen").atom != want) return "err:not-delivered";
			return "value " + dump(impl->evalAsData(way == "namelist" ? "_event.data.X" : way == "donedata" ? "_event.data.p1" : "_event.data"));
		}
		return "bad-op";
	} catch (Event e) {
		return "err:" + e.name;
	} catch (std::exception& e) {
		return std::string("exc:") + e.what();
	}
}

int cmd_lua(int argc, char** argv) {
	std::string line;
	while (std::getline(std::cin, line)) {
		int fds[2];
		if (pipe(fds)) { uv::putline("bad-pipe"); continue; }
		fflush(uv::out);
		pid_t pid = fork();
		if (pid == 0) {
			close(fds[0]); alarm(10);
			std::string out = session(line);
			size_t off = 0;
			while (off < out.size()) { ssize_t n = write(fds[1], out.data() + off, out.size() - off); if (n <= 0) break; off += n; }
			close(fds[1]); _exit(0);
		}
		close(fds[1]);
		std::string out; char buf[65536]; ssize_t n;
		while ((n = read(fds[0], buf, sizeof buf)) > 0) out.append(buf, n);
		close(fds[0]);
		int status = 0; waitpid(pid, &status, 0);
		if (WIFSIGNALED(status)) out = std::string("CRASH:") + std::to_string(WTERMSIG(status));
		else if (WEXITSTATUS(status) != 0) out = std::string("SAN:") + std::to_string(WEXITSTATUS(status));
		uv::putline(out);
	}
	return 0;
}
