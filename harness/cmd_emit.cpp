// uvharness emit: <backend c|promela|vhdl>\t<base url or ->\t<hex SCXML text>
//   -> hex of the text the transpiler emits for the document, or EXC:<...>
//   Each request runs in a forked child (fresh process state; the parent stays single-threaded).
#include "common.h"
#include "uscxml/Interpreter.h"
#include "uscxml/transform/ChartToC.h"
#include "uscxml/transform/ChartToPromela.h"
#include "uscxml/transform/ChartToVHDL.h"
#include <unistd.h>
#include <sys/wait.h>
#include <sstream>

using namespace uscxml;

static std::string emitOne(const std::string& backend, const std::string& url, const std::string& xml) {
	try {
		Interpreter interp = Interpreter::fromXML(xml, url == "-" ? "" : url);
		Transformer t;
		if (backend == "c") t = ChartToC::transform(interp);
		else if (backend == "promela") t = ChartToPromela::transform(interp);
		else if (backend == "vhdl") t = ChartToVHDL::transform(interp);
		else return "bad-backend";
		std::ostringstream ss;
		t.writeTo(ss);
		return uv::hexenc(ss.str());
	} catch (Event e) {
		return "EXC:" + e.name;
	} catch (std::exception& e) {
		return std::string("EXC:std:") + e.what();
	} catch (...) {
		return "EXC:unknown";
	}
}

int cmd_emit(int argc, char** argv) {
	std::string line;
	while (std::getline(std::cin, line)) {
		std::vector<std::string> f = uv::split(line, '\t');
		std::string xml;
		if (f.size() != 3 || !uv::hexdec(f[2], xml)) { uv::putline("bad-op"); continue; }
		int fds[2];
		if (pipe(fds)) { uv::putline("bad-pipe"); continue; }
		fflush(uv::out);
		pid_t pid = fork();
		if (pid == 0) {
			close(fds[0]);
			alarm(60);
			std::string out = emitOne(f[0], f[1], xml);
			size_t off = 0;
			while (off < out.size()) { ssize_t n = write(fds[1], out.data() + off, out.size() - off); if (n <= 0) break; off += n; }
			close(fds[1]);
			_exit(0);
		}
		close(fds[1]);
		std::string out; char buf[65536]; ssize_t n;
		while ((n = read(fds[0], buf, sizeof buf)) > 0) out.append(buf, n);
		close(fds[0]);
		int status = 0; waitpid(pid, &status, 0);
		if (WIFSIGNALED(status)) out = std::string("CRASH:") + std::to_string(WTERMSIG(status));
		else if (WEXITSTATUS(status) != 0) out = std::string("EXIT:") + std::to_string(WEXITSTATUS(status));
		uv::putline(out);
	}
	return 0;
}
