// Shared helpers for uvharness: hex line protocol, forked batches.
#pragma once
#include <string>
#include <vector>
#include <iostream>
#include <sstream>
#include <cstdio>
#include <cstdlib>
#include <cstring>

namespace uv {

inline std::string hexenc(const std::string& s) {
	if (s.empty()) return "-";
	static const char* d = "0123456789abcdef";
	std::string o; o.reserve(s.size() * 2);
	for (unsigned char c : s) { o.push_back(d[c >> 4]); o.push_back(d[c & 15]); }
	return o;
}
inline int hv(char c) {
	if (c >= '0' && c <= '9') return c - '0';
	if (c >= 'a' && c <= 'f') return c - 'a' + 10;
	if (c >= 'A' && c <= 'F') return c - 'A' + 10;
	return -1;
}
inline bool hexdec(const std::string& h, std::string& out) {
	out.clear();
	if (h == "-") return true;
	if (h.size() % 2) return false;
	for (size_t i = 0; i < h.size(); i += 2) {
		int a = hv(h[i]), b = hv(h[i + 1]);
		if (a < 0 || b < 0) return false;
		out.push_back((char)(a * 16 + b));
	}
	return true;
}
inline std::vector<std::string> split(const std::string& s, char sep) {
	std::vector<std::string> r; std::string cur;
	for (char c : s) { if (c == sep) { r.push_back(cur); cur.clear(); } else cur.push_back(c); }
	r.push_back(cur);
	return r;
}

// results go to a private copy of the original stdout; fd 1 is redirected to stderr so that
// library chatter ("[Info] ...") cannot corrupt the line protocol
extern FILE* out;
inline void putline(const std::string& l0) {
	// one response line per request, whatever the library put into a token (log labels, exception texts)
	std::string l = l0;
	for (size_t i = 0; i < l.size(); i++) if (l[i] == '\n' || l[i] == '\r' || l[i] == '\0') l[i] = '?';
	fputs(l.c_str(), out); fputc('\n', out); fflush(out);
}

typedef int (*cmd_fn)(int argc, char** argv);
struct Cmd { const char* name; cmd_fn fn; };
}

int cmd_namematch(int, char**);
int cmd_trace(int, char**);
int cmd_serial(int, char**);
int cmd_api(int, char**);
int cmd_dq(int, char**);
int cmd_threads(int, char**);
int cmd_emit(int, char**);
int cmd_json(int, char**);
int cmd_promela(int, char**);
int cmd_lua(int, char**);
int cmd_tables(int, char**);
int cmd_validate(int, char**);
int cmd_trie(int, char**);

// the clock the library's timers run on: libevent (without EVENT_BASE_FLAG_PRECISE_TIMER) reads CLOCK_MONOTONIC_COARSE, which lags
// behind CLOCK_MONOTONIC by up to a tick - and by tens of milliseconds on a loaded or frequently paused virtual machine. Stamps that
// are compared with delays are taken from the same clock, so that "not before its delay has elapsed" is judged on the time base the
// implementation can see.
#include <time.h>
namespace uv {
inline long coarseMs() {
	struct timespec ts;
#ifdef CLOCK_MONOTONIC_COARSE
	clock_gettime(CLOCK_MONOTONIC_COARSE, &ts);
#else
	clock_gettime(CLOCK_MONOTONIC, &ts);
#endif
	return (long)ts.tv_sec * 1000L + ts.tv_nsec / 1000000L;
}
}
