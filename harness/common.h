// Shared helpers for uvharness: hex line protocol, forked batches.
#pragma once
#include <string>
#include <vector>
#include <iostream>
#include <sstream>
#include <cstdio>
#include <cstdlib>
#include <cstring>

namespace uv {

inline std::string hexenc(const std::string& s) {
	if (s.empty()) return "-";
	static const char* d = "0123456789abcdef";
	std::string o; o.reserve(s.size() * 2);
	for (unsigned char c : s) { o.push_back(d[c >> 4]); o.push_back(d[c & 15]); }
	return o;
}
inline int hv(char c) {
	if (c >= '0' && c <= '9') return c - '0';
	if (c >= 'a' && c <= 'f') return c - 'a' + 10;
	if (c >= 'A' && c <= 'F') return c - 'A' + 10;
	return -1;
}
inline bool hexdec(const std::string& h, std::string& out) {
	out.clear();
	if (h == "-") return true;
	if (h.size() % 2) return false;
	for (size_t i = 0; i < h.size(); i += 2) {
		int a = hv(h[i]), b = hv(h[i + 1]);
		if (a < 0 || b < 0) return false;
		out.push_back((char)(a * 16 + b));
	}
	return true;
}
inline std::vector<std::string> split(const std::string& s, char sep) {
	std::vector<std::string> r; std::string cur;
	for (char c : s) { if (c == sep) { r.push_back(cur); cur.clear(); } else cur.push_back(c); }
	r.push_back(cur);
	return r;
}

// results go to a private copy of the original stdout; fd 1 is redirected to stderr so that
// library chatter ("[Info] ...") cannot corrupt the line protocol
extern FILE* out;
inline void putline(const std::string& l) { fputs(l.c_str(), out); fputc('\n', out); fflush(out); }

typedef int (*cmd_fn)(int argc, char** argv);
struct Cmd { const char* name; cmd_fn fn; };
}

int cmd_namematch(int, char**);
int cmd_trace(int, char**);
int cmd_serial(int, char**);
int cmd_api(int, char**);
int cmd_dq(int, char**);
int cmd_threads(int, char**);
int cmd_emit(int, char**);
int cmd_json(int, char**);
int cmd_promela(int, char**);
int cmd_lua(int, char**);
int cmd_tables(int, char**);
int cmd_validate(int, char**);
int cmd_trie(int, char**);
