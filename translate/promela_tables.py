"""Probe the compiled Promela parser/evaluator and write lean/UscxmlVerif/Generated/PromelaPrec.lean.

The reduce-first matrix: for every ordered pair of binary operators the shape of the AST the
compiled LALR parser builds for `a o1 b o2 c`; for the prefix operators `- a o b` and `! a o b`.
The implementation table: which operators evaluateExpr has a case for (probe `7 o 3`), what a
zero divisor, a unary minus and a negative index do. Exhaustive over these finite domains."""
import os, subprocess, sys

OPS = [("or", "||", "OR"), ("and", "&&", "AND"), ("bitor", "|", "BITOR"), ("bitxor", "^", "BITXOR"), ("bitand", "&", "BITAND"),
       ("eq", "==", "EQ"), ("ne", "!=", "NE"), ("gt", ">", "GT"), ("lt", "<", "LT"), ("ge", ">=", "GE"), ("le", "<=", "LE"),
       ("lshift", "<<", "LSHIFT"), ("rshift", ">>", "RSHIFT"), ("plus", "+", "PLUS"), ("minus", "-", "MINUS"),
       ("times", "*", "TIMES"), ("divide", "/", "DIVIDE"), ("modulo", "%", "MODULO")]


def hx(s): return s.encode().hex()


UB_PROBES = [  # (store, expression, expected result of 32 bit wrap-around arithmetic)
    ("a=2147483647,b=1", "a + b", "v:-2147483648"), ("a=-2147483647,b=2", "a - b", "v:2147483647"),
    ("a=65536,b=65536", "a * b", "v:0"), ("a=2147483647,b=3", "a * b", "v:2147483645"),
    ("a=-2147483647,b=1", "-(a - b)", "v:-2147483648"), ("a=-2147483647,b=1,c=-1", "(a - b) / c", "v:-2147483648"),
    ("a=-2147483647,b=1,c=-1", "(a - b) % c", "v:0"), ("a=1,b=31", "a << b", "v:-2147483648"), ("a=3,b=31", "a << b", "v:-2147483648"),
    ("a=1,b=32", "a << b", "err"), ("a=1,b=-1", "a << b", "err"), ("a=1,b=32", "a >> b", "err"), ("a=-8,b=1", "a >> b", "v:-4"),
]


LAST_UB = []


def probe_ub(harness):
    """on a sanitizer build undefined behaviour ends the child: anything but the expected line counts as 'does not wrap'"""
    lines = ["%s|e:%s" % (st, hx(ex)) for st, ex, _ in UB_PROBES]
    p = subprocess.run([harness, "promela"], input="".join(l + "\n" for l in lines), stdout=subprocess.PIPE, stderr=subprocess.DEVNULL,
                       universal_newlines=True, env=dict(os.environ, USCXML_NOCACHE_FILES="1", ASAN_OPTIONS="detect_leaks=0"))
    out = p.stdout.split("\n")[:-1]
    if len(out) != len(lines): raise RuntimeError("overflow probe failed: %d/%d" % (len(out), len(lines)))
    global LAST_UB
    LAST_UB = out
    bad = [(ex, o) for (st, ex, w), o in zip(UB_PROBES, out) if not (o == w or (w == "err" and o.startswith("err")))]
    return not bad, bad


def probe(harness):
    lines, keys = [], []
    for a in OPS:
        for b in OPS:
            lines.append("a=1,b=2,c=3|t:" + hx("a %s b %s c" % (a[1], b[1]))); keys.append(("bin", a, b))
    for b in OPS:
        lines.append("a=1,b=2|t:" + hx("- a %s b" % b[1])); keys.append(("minus", b))
        lines.append("a=1,b=2|t:" + hx("! a %s b" % b[1])); keys.append(("bang", b))
    for a in OPS:
        lines.append("a=7,b=3|e:" + hx("a %s b" % a[1])); keys.append(("impl", a))
    lines.append("a=7|e:" + hx("-a")); keys.append(("uminus",))
    lines.append("a=7,b=0|e:" + hx("a / b")); keys.append(("div0",))
    lines.append("a=7,b=0|e:" + hx("a % b")); keys.append(("mod0",))
    lines.append("a=7,arr[3]|e:" + hx("arr[0 - 1]")); keys.append(("negidx",))
    p = subprocess.run([harness, "promela"], input="".join(l + "\n" for l in lines), stdout=subprocess.PIPE, stderr=subprocess.DEVNULL,
                       universal_newlines=True, env=dict(os.environ, USCXML_NOCACHE_FILES="1"))
    out = p.stdout.split("\n")[:-1]
    if len(out) != len(lines): raise RuntimeError("probe failed: %d/%d" % (len(out), len(lines)))
    return dict(zip(keys, out)), dict(zip(keys, lines))


def generate(harness, path, ub_harness=None):
    res, req = probe(harness)
    wraps, ub_bad = probe_ub(ub_harness or harness)
    red, mf, bf, impl = [], [], [], []
    for a in OPS:
        row = []
        for b in OPS:
            r = res[("bin", a, b)]
            left = "(%s (%s (NAME:a) (NAME:b)) (NAME:c))" % (b[2], a[2])
            right = "(%s (NAME:a) (%s (NAME:b) (NAME:c)))" % (a[2], b[2])
            if r == left: row.append(True)
            elif r == right: row.append(False)
            else: raise RuntimeError("unexpected AST for a %s b %s c: %s" % (a[1], b[1], r))
        red.append(row)
    for b in OPS:
        r = res[("minus", b)]
        first = "(%s (MINUS (NAME:a)) (NAME:b))" % b[2]; later = "(MINUS (%s (NAME:a) (NAME:b)))" % b[2]
        if r not in (first, later): raise RuntimeError("unexpected AST for - a %s b: %s" % (b[1], r))
        mf.append(r == first)
        r = res[("bang", b)]
        first = "(%s (NEG (NAME:a)) (NAME:b))" % b[2]; later = "(NEG (%s (NAME:a) (NAME:b)))" % b[2]
        if r not in (first, later): raise RuntimeError("unexpected AST for ! a %s b: %s" % (b[1], r))
        bf.append(r == first)
    for a in OPS: impl.append(res[("impl", a)].startswith("v:"))
    um = res[("uminus",)].startswith("v:")
    z = res[("div0",)].startswith("err") and res[("mod0",)].startswith("err")
    ni = res[("negidx",)].startswith("err")
    bl = lambda b: "true" if b else "false"
    txt = "import UscxmlVerif.Model.PromelaExpr\n/-! GENERATED by translate/promela_tables.py from the compiled parser and evaluator - do not edit -/\n"
    txt += "namespace UscxmlVerif.Generated.PromelaPrec\nopen UscxmlVerif.Model.Promela\n\n"
    txt += "def reduceFirstM : List (List Bool) := [\n" + ",\n".join("  [" + ", ".join(bl(x) for x in row) + "]" for row in red) + "]\n\n"
    txt += "def minusFirstM : List Bool := [" + ", ".join(bl(x) for x in mf) + "]\n"
    txt += "def bangFirstM : List Bool := [" + ", ".join(bl(x) for x in bf) + "]\n"
    txt += "def hasOpM : List Bool := [" + ", ".join(bl(x) for x in impl) + "]\n\n"
    txt += "def probedTable : PrecTable where\n  reduceFirst o1 o2 := (reduceFirstM.getD o1.idx []).getD o2.idx false\n  minusFirst o := minusFirstM.getD o.idx false\n  bangFirst o := bangFirstM.getD o.idx false\n\n"
    txt += "def probedImpl : Impl where\n  hasOp o := hasOpM.getD o.idx false\n  hasUnaryMinus := %s\n  checksZeroDivisor := %s\n  checksNegativeIndex := %s\n  wrapsOverflow := %s\n\n" % (bl(um), bl(z), bl(ni), bl(wraps))
    txt += "end UscxmlVerif.Generated.PromelaPrec\n"
    old = open(path).read() if os.path.exists(path) else None
    if old != txt: open(path, "w").write(txt)
    res[('ub',)] = ub_bad
    return res


if __name__ == "__main__":
    r = generate(sys.argv[1], sys.argv[2])
    for k in (("uminus",), ("div0",), ("mod0",), ("negidx",)): print(k, r[k])
