"""Translator: the combinational signal assignments of the VHDL the back-end emits -> numbered
Boolean equations for Model.BoolEq (driver command `vhdl`).

Only concurrent assignments `name <= expr;` whose name is one of the micro-step signals are read:
in_optimal_transition_set_<t>_sig, optimal_transition_set_combined_sig, spontaneous_active,
in_exit_set_<s>_sig, in_complete_entry_set_up_<s>_sig, in_complete_entry_set_<s>_sig,
in_entry_set_<s>_sig, state_next_<s>_sig."""
import re

SIGNAL = re.compile(r"^(in_optimal_transition_set_\d+_sig|optimal_transition_set_combined_sig|spontaneous_active|in_exit_set_\d+_sig|"
                    r"in_complete_entry_set_up_\d+_sig|in_complete_entry_set_\d+_sig|in_entry_set_\d+_sig|state_next_\d+_sig)$")


class ParseError(Exception): pass


def tokenize(s):
    return re.findall(r"\(|\)|'[01]'|[A-Za-z_][A-Za-z_0-9]*", s)


def parse(tokens):
    """or-expression over and-expressions over not/atoms (VHDL needs parentheses to mix, the emitter always parenthesises)"""
    pos = [0]
    def peek(): return tokens[pos[0]] if pos[0] < len(tokens) else None
    def take():
        t = peek(); pos[0] += 1; return t
    def atom():
        t = take()
        if t == "(":
            e = expr()
            if take() != ")": raise ParseError("missing )")
            return e
        if t == "not": return ("not", atom())
        if t == "'0'": return ("const", 0)
        if t == "'1'": return ("const", 1)
        if t is None or t in (")", "and", "or"): raise ParseError("unexpected %r" % t)
        return ("name", t)
    def expr():
        first = atom()
        op = peek()
        if op not in ("and", "or"): return first
        items = [first]
        while peek() == op:
            take(); items.append(atom())
        if peek() in ("and", "or"): raise ParseError("mixed and/or without parentheses")
        return (op, items)
    e = expr()
    if pos[0] != len(tokens): raise ParseError("trailing tokens %r" % tokens[pos[0]:pos[0] + 3])
    return e


def extract(text):
    """-> dict name -> expression tree, list of event words in the order of their event_<w>_sig declarations"""
    defs = {}
    # statements end with ';' - take those starting with a micro-step signal at the start of a line
    for m in re.finditer(r"^\s*([A-Za-z_0-9]+)\s*<=(.*?);", text, re.S | re.M):
        name = m.group(1)
        if not SIGNAL.match(name): continue
        if name in defs: continue      # the reset/clocked re-assignments of in_complete_entry_set_0_sig etc.
        body = m.group(2)
        if "when" in body or "rising_edge" in body: continue
        try:
            defs[name] = parse(tokenize(body))
        except ParseError as e:
            raise ParseError("%s: %s" % (name, e))
    # event signals in declaration order; identifiers may contain any byte (escapeMacro appends a hash *character*)
    sigs = re.findall(r"^signal event_(.*)_sig : std_logic;", text, re.M)
    return defs, sigs


def document_events(xml_text):
    """the event names of a document as the back-end collects them (event attributes of transition, raise and
    send; descriptors tokenised, trailing '*' and '.' removed), in the order of its prefix trie: by token lists"""
    words = set()
    for m in re.finditer(r"<(?:transition|raise|send)\b[^>]*?\bevent=\"([^\"]*)\"", xml_text):
        for tok in m.group(1).split():
            if tok.endswith("*"): tok = tok[:-1]
            if tok.endswith("."): tok = tok[:-1]
            if tok: words.add(tok)
    return sorted(words, key=lambda w: [t for t in w.split(".") if t])


def encode(defs, sigs, nstates, ntrans):
    """`sigs`: the escaped names of the event signals in declaration order (= the order of the document's event names)"""
    words = sigs
    """numbering: inputs 0..n-1 state_active, n.. events, then conditions, spontaneous_en, in_complete_entry_set_0_sig, completed_sig"""
    sig = {name: i for i, name in enumerate(sorted(defs))}
    n, m, T = nstates, len(words), ntrans
    def inp(name):
        mm = re.match(r"state_active_(\d+)_sig$", name)
        if mm: return int(mm.group(1))
        mm = re.match(r"event_(.*)_sig$", name)
        if mm and mm.group(1) in words: return n + words.index(mm.group(1))
        mm = re.match(r"transition_condition_fulfilled_(\d+)_i$", name)
        if mm: return n + m + int(mm.group(1))
        if name == "spontaneous_en": return n + m + T
        if name == "in_complete_entry_set_0_sig": return n + m + T + 1
        if name == "completed_sig": return n + m + T + 2
        raise ParseError("unknown name %s" % name)
    def enc(e):
        k = e[0]
        if k == "const": return "C%d" % e[1]
        if k == "not": return "N " + enc(e[1])
        if k == "name":
            return "S%d" % sig[e[1]] if e[1] in sig else "I%d" % inp(e[1])
        return "%s%d %s" % ("A" if k == "and" else "O", len(e[1]), " ".join(enc(x) for x in e[1]))
    eqs = ";".join("D %d %s" % (sig[name], enc(defs[name])) for name in sorted(defs))
    nexts = ",".join("%d=%d" % (int(re.match(r"state_next_(\d+)_sig", name).group(1)), sig[name]) for name in sorted(defs)
                     if name.startswith("state_next_") and name != "state_next_0_sig")
    return eqs, nexts
