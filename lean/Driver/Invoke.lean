import UscxmlVerif.Model.Invoke
namespace Driver
open UscxmlVerif.Model.Invoke

/-- request: `<n>\t<states with invoke, comma separated or ->\t<acts: x<k> exit, e<k> enter, m macrostep end, f finish>`
answer: the notifications in order, `i<k>` / `u<k>` -/
def invoke (line : String) : String :=
  match line.splitOn "\t" with
  | [ns, inv, acts] =>
    let n := ns.toNat?.getD 0
    let invs := if inv == "-" then [] else (inv.splitOn ",").filterMap (·.toNat?)
    let as : List Act := ((acts.splitOn " ").filter (· != "")).filterMap (fun t =>
      if t == "m" then some .macroEnd
      else if t == "f" then some .finish
      else if t.startsWith "x" then (t.drop 1).toString.toNat?.map .exit
      else if t.startsWith "e" then (t.drop 1).toString.toNat?.map .enter
      else none)
    let st := run n (fun s => invs.contains s) as
    " ".intercalate (st.out.map (fun o => match o with | .invoke s => s!"i{s}" | .uninvoke s => s!"u{s}"))
  | _ => "bad-op"

end Driver
