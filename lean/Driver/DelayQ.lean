import UscxmlVerif.Model.DelayQueue
namespace Driver
open UscxmlVerif.Model.DelayQueue

def parseAct (s : String) : Option Act :=
  match s.splitOn ":" with
  | ["tick"] => some .tick
  | ["enqueue", k, d] => (k.toNat?).bind (fun k => d.toNat?.map (fun d => .enqueue k d))
  | ["detach", k] => k.toNat?.map .detach
  | ["dispose", i] => i.toNat?.map .dispose
  | ["fire", i] => i.toNat?.map .fire
  | ["check"] => some .check
  | ["deliver"] => some .deliver
  | ["free"] => some .free
  | _ => none

def timerTok : Timer → String
  | .idle => "idle" | .entered i => s!"entered:{i}" | .owning i => s!"owning:{i}" | .done i => s!"done:{i}"

/-- replay a schedule: request is a space separated list of actions; `tick*<n>` abbreviates n ticks.
Answer: `ok` or `rejected:<index of the action that is not enabled>`, then the state:
fault flag, timer position, per entry `<key>/<deliveries>/<cancelled>/<loc>` -/
def dq (line : String) : String :=
  let toks := (line.splitOn " ").filter (· != "")
  let rec go (s : DQ) (k : Nat) : List String → (DQ × Option Nat)
    | [] => (s, none)
    | t :: ts =>
      if t.startsWith "tick*" then
        let n := ((t.drop 5).toString.toNat?).getD 0
        go { s with now := s.now + n } (k + 1) ts
      else
        match parseAct t with
        | none => (s, some k)
        | some a =>
          match step s a with
          | none => (s, some k)
          | some s' => go s' (k + 1) ts
  let (s, rej) := go {} 0 toks
  let locTok : Loc → String
    | .inMap => "map" | .timerOwned => "timer" | .cancOwned => "canc" | .freed => "freed"
  let ents := s.nodes.map (fun e => s!"{e.key}/{e.deliveries}/{if e.cancelled then 1 else 0}/{locTok e.loc}")
  let head := match rej with | none => "ok" | some k => s!"rejected:{k}"
  s!"{head} fault={if s.fault then 1 else 0} timer={timerTok s.timer} canc={s.canc.length} " ++ " ".intercalate ents

end Driver
