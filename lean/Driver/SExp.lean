import UscxmlVerif.Chart.Doc
/-! S-expression front end of the line protocol: charts as produced by gen/charts.py -/
namespace Driver
open UscxmlVerif

inductive SExp where
  | atom (s : String)
  | list (l : List SExp)
  deriving Repr, Inhabited

partial def parseList (toks : List String) (acc : List SExp) : Option (List SExp × List String) :=
  match toks with
  | [] => none
  | ")" :: rest => some (acc.reverse, rest)
  | "(" :: rest =>
    match parseList rest [] with
    | some (l, rest') => parseList rest' (SExp.list l :: acc)
    | none => none
  | a :: rest => parseList rest (SExp.atom a :: acc)

def tokenize (s : String) : List String :=
  let rec go (cs : List Char) (cur : List Char) (acc : List String) : List String :=
    match cs with
    | [] => (if cur.isEmpty then acc else String.ofList cur.reverse :: acc).reverse
    | c :: rest =>
      if c == '(' || c == ')' then
        let acc := if cur.isEmpty then acc else String.ofList cur.reverse :: acc
        go rest [] (String.singleton c :: acc)
      else if c == ' ' then
        go rest [] (if cur.isEmpty then acc else String.ofList cur.reverse :: acc)
      else go rest (c :: cur) acc
  go s.toList [] []

def parseSExp (s : String) : Option SExp :=
  match tokenize s with
  | "(" :: rest =>
    match parseList rest [] with
    | some (l, []) => some (SExp.list l)
    | _ => none
  | _ => none

def parseCond (s : String) : Option Cond :=
  if s == "-" then some .none
  else if s == "never" then some .never
  else if s == "err" then some .err
  else match s.splitOn ":" with
    | ["in", id] => some (.inState id)
    | ["notin", id] => some (.notIn id)
    | ["var", v, k] => do
      let v ← v.toNat?
      let k ← k.toInt?
      pure (.var v k)
    | _ => none

partial def parseExec : SExp → Option Exec
  | .list [.atom "raise", .atom uv, .atom n] => do pure (.raise (← uv.toNat?) n)
  | .list [.atom "log", .atom uv, .atom l] => do pure (.log (← uv.toNat?) l)
  | .list [.atom "send", .atom uv, .atom n, .atom t] => do pure (.send (← uv.toNat?) n (if t == "-" then "" else t))
  | .list [.atom "fail", .atom uv, .atom k] => do pure (.fail (← uv.toNat?) (k == "comm"))
  | .list [.atom "assign", .atom uv, .atom v, .atom k] => do pure (.assign (← uv.toNat?) (← v.toNat?) (← k.toInt?))
  | .list [.atom "incr", .atom uv, .atom v] => do pure (.incr (← uv.toNat?) (← v.toNat?))
  | .list (.atom "if" :: .atom uv :: .atom c :: children) => do
    pure (.ite (← uv.toNat?) (← parseCond c) (← children.mapM parseExec))
  | .list [.atom "elseif", .atom c] => do pure (.elseif (← parseCond c))
  | .list [.atom "else"] => some .else_
  | _ => none

def parseKind : String → Option Kind
  | "scxml" => some .scxml | "state" => some .state | "parallel" => some .parallel
  | "final" => some .final | "history" => some .history | "hdeep" => some .hdeep
  | "initial" => some .initial | _ => none

def atoms (l : List SExp) : Option (List String) :=
  l.mapM (fun | .atom a => some a | _ => none)

structure Parts where
  initAttr : Option (List String) := none
  onentry : List (List Exec) := []
  onexit : List (List Exec) := []
  trans : List RawTrans := []
  children : List Doc := []
  late : Bool := false

partial def parseDoc : SExp → Option (Doc × Bool)
  | .list (.atom k :: .atom id :: items) => do
    let kind ← parseKind k
    let mut p : Parts := {}
    for it in items do
      match it with
      | .list (.atom "init" :: ids) => p := { p with initAttr := some (← atoms ids) }
      | .list [.atom "binding", .atom "late"] => p := { p with late := true }
      | .list (.atom "onentry" :: es) => p := { p with onentry := p.onentry ++ [← es.mapM parseExec] }
      | .list (.atom "onexit" :: es) => p := { p with onexit := p.onexit ++ [← es.mapM parseExec] }
      | .list (.atom "t" :: .atom ev :: .atom c :: .atom ty :: tg :: es) =>
        let targets ← (match tg with
          | .atom "-" => some none
          | .list ids => (atoms ids).map some
          | _ => none)
        let t : RawTrans := {
          event := if ev == "-" then none else some (ev.replace "," " ")
          cond := ← parseCond c
          internal := ty == "i"
          targets := targets
          content := ← es.mapM parseExec }
        p := { p with trans := p.trans ++ [t] }
      | other =>
        let (d, _) ← parseDoc other
        p := { p with children := p.children ++ [d] }
    pure (Doc.node kind (if id == "-" then (if kind == .initial then "?initial" else "") else id) p.initAttr p.onentry p.onexit p.trans p.children, p.late)
  | _ => none

mutual
/-- states without an id are named `?<k>` by their pre-order position in the document as written -/
partial def nameAnon : Doc → Nat → Doc × Nat
  | .node k i a e x t cs, n =>
    let i' := if i == "" && k != .scxml && k != .initial then s!"?{n}" else i
    let (cs', n') := nameAnonList cs (n + 1)
    (.node k i' a e x t cs', n')
partial def nameAnonList : List Doc → Nat → List Doc × Nat
  | [], n => ([], n)
  | d :: ds, n =>
    let (d', n1) := nameAnon d n
    let (ds', n2) := nameAnonList ds n1
    (d' :: ds', n2)
end

def parseDocNamed (s : SExp) : Option (Doc × Bool) :=
  (parseDoc s).map (fun (d, late) => ((nameAnon d 0).1, late))

end Driver
