import Driver.SExp
import UscxmlVerif.Spec.Legal
import UscxmlVerif.Spec.Nesting
import UscxmlVerif.Model.Tables
import UscxmlVerif.Model.Validate
import UscxmlVerif.Properties.C05
import UscxmlVerif.Proofs.Interval
import UscxmlVerif.Proofs.ParentsFast
import UscxmlVerif.Proofs.DownOk
import UscxmlVerif.Proofs.XorOk
namespace Driver
open UscxmlVerif

/-- request `<chart>\t<cfg;cfg;…>` (each cfg a comma separated id list); response one bit per cfg -/
def legal (line : String) : String :=
  match line.splitOn "\t" with
  | sx :: cfgs :: _ =>
    match parseSExp sx >>= parseDocNamed with
    | some (d, late) =>
      let c := flatten d late
      let idx (id : String) : Nat := (c.states.toList.findIdx? (fun s => s.id == id)).getD c.states.size
      String.ofList ((cfgs.splitOn ";").map (fun cfg =>
        let ids := if cfg == "" then [] else cfg.splitOn ","
        if Spec.Legal.legal c (ids.map idx) then '1' else '0'))
    | none => "bad-chart"
  | _ => "bad-op"

/-- request: a trace (space separated tokens); response `ok` or `bad:<index of offending token>` -/
def nest (line : String) : String :=
  match Spec.Nesting.check (line.splitOn " ") [] 0 with
  | none => "ok"
  | some i => s!"bad:{i}"

/-- request: a chart s-expression (further tab separated fields ignored); response: the annotation dump -/
def tables (line : String) : String :=
  match line.splitOn "\t" with
  | _ :: sx :: _ =>
    match parseSExp sx >>= parseDoc with
    | some (d, late) => Model.Tables.dump (flatten d late)
    | none => "bad-chart"
  | _ => "bad-op"

/-- request: a chart s-expression (as for `tables`); response: whether the flat chart meets the hypotheses of the C05
theorems (`Coherent`), how many of its transitions are plain (`plainTrans`), whether it has history states and whether it
meets the hypotheses of the parent-closure theorem of C02 (`EntryOk`, `SelPlain`, `SelPlainF`) -/
def coherent (line : String) : String :=
  match line.splitOn "\t" with
  | _ :: sx :: _ =>
    match parseSExp sx >>= parseDoc with
    | some (d, late) =>
      let c := flatten d late
      let n := c.trans.size
      let k := ((List.range n).filter (fun i => Properties.C05.plainTrans c (Model.Tables.tr c i))).length
      s!"wfdoc={if Proofs.Flatten.WFDoc d && d.kind == .scxml then 1 else 0} coh={if Proofs.Struct.Coherent c then 1 else 0} ival={if Proofs.Interval.IntervalOK c then 1 else 0} plain={k}/{n} hist={if (List.range c.states.size).any (fun i => (Model.Large.st c i).typ.isHistory) then 1 else 0} entry={if Proofs.EntryClosed.EntryOk c && Proofs.Parents.SelPlain c && Proofs.ParentsFast.SelPlainF c then 1 else 0} down={if Proofs.DownOk.DownOk c then 1 else 0} xor={if Proofs.XorOk.XorOk c then 1 else 0} init={if (List.range c.states.size).any (fun i => (Model.Large.st c i).typ == .initial) then 1 else 0}"
    | none => "bad-chart"
  | _ => "bad-op"

/-- request: `<x>\t<chart s-expression>…`; response: the sorted classes of the fatal issues -/
def validate (line : String) : String :=
  match line.splitOn "\t" with
  | _ :: sx :: _ =>
    match parseSExp sx >>= parseDoc with
    | some (d, _) =>
      let is := (Model.Validate.fatalIssues d).mergeSort (· ≤ ·)
      if is.isEmpty then "-" else ",".intercalate is
    | none => "bad-chart"
  | _ => "bad-op"

end Driver
