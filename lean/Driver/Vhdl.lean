import Driver.SExp
import UscxmlVerif.Model.BoolEq
import UscxmlVerif.Spec.TStep
namespace Driver
open UscxmlVerif UscxmlVerif.Model UscxmlVerif.Model.BoolEq

/-- prefix expression parser: `C0 C1 S<i> I<j> N <e> A<k> e1..ek O<k> e1..ek` -/
partial def parseBExp : List String → Option (BExp × List String)
  | [] => none
  | t :: ts =>
    if t == "C0" then some (.const false, ts)
    else if t == "C1" then some (.const true, ts)
    else if t.startsWith "S" then (t.drop 1).toString.toNat?.map (fun i => (.sig i, ts))
    else if t.startsWith "I" then (t.drop 1).toString.toNat?.map (fun i => (.inp i, ts))
    else if t == "N" then (parseBExp ts).map (fun (e, r) => (.not e, r))
    else if t.startsWith "A" || t.startsWith "O" then
      match (t.drop 1).toString.toNat? with
      | none => none
      | some k =>
        let rec many (k : Nat) (ts : List String) (acc : List BExp) : Option (List BExp × List String) :=
          match k with
          | 0 => some (acc.reverse, ts)
          | k + 1 => match parseBExp ts with
            | some (e, r) => many k r (e :: acc)
            | none => none
        (many k ts []).map (fun (es, r) => (if t.startsWith "A" then .and es else .or es, r))
    else none

def parseEqs (s : String) : Eqs :=
  let defs := (s.splitOn ";").filterMap (fun d =>
    match (d.splitOn " ").filter (· != "") with
    | "D" :: i :: rest => match i.toNat?, parseBExp rest with
      | some i, some (e, []) => some (i, e)
      | _, _ => none
    | _ => none)
  let n := defs.foldl (fun m (i, _) => max m (i + 1)) 0
  defs.foldl (fun (a : Eqs) (i, e) => a.set! i (some e)) (Array.replicate n none)

def subsets : List Nat → List (List Nat)
  | [] => [[]]
  | x :: xs => let r := subsets xs; r ++ r.map (x :: ·)

/-- request: `<chart>\t<event words, comma separated or ->\t<next map k=sig,...>\t<equations>`.
Compares, for every legal configuration x (no event | each event word) x spontaneous_en x
valuation of the conditions, the value of `state_next_k` with the specification's next
configuration; plus the initial step. -/
def vhdl (line : String) : String :=
  match line.splitOn "\t" with
  | [sx, words, nextMap, eqsS] =>
    match parseSExp sx >>= parseDocNamed with
    | none => "bad-chart"
    | some (d, late) =>
      let c := flatten d late
      let n := c.states.size
      let T := c.trans.size
      let ws := if words == "-" then [] else words.splitOn ","
      let m := ws.length
      let eqs := parseEqs eqsS
      let nexts : List (Nat × Nat) := (nextMap.splitOn ",").filterMap (fun kv =>
        match kv.splitOn "=" with
        | [k, s] => match k.toNat?, s.toNat? with | some k, some s => some (k, s) | _, _ => none
        | _ => none)
      let condTs := (List.range T).filter (fun t => (Spec.TStep.tr c t).cond != .none)
      let cfgs := (subsets (List.range n)).filter (fun cfg => Spec.Legal.legal c cfg)
      let vals := subsets condTs
      let check (cfg : List Nat) (ev : Option String) (spont : Bool) (trueConds : List Nat) (ices0 : Bool) (expected : List Nat) : Option String :=
        let inp : Nat → Bool := fun i =>
          if i < n then cfg.contains i
          else if i < n + m then (match ev with | some e => ws[i - n]? == some e | none => false)
          else if i < n + m + T then trueConds.contains (i - n - m)
          else if i == n + m + T then spont
          else if i == n + m + T + 1 then ices0
          else false
        let vals := solve eqs inp
        nexts.findSome? (fun (k, s) =>
          let v := vals.getD s false
          if v == expected.contains k then none
          else some s!"mismatch state={(Spec.TStep.st c k).id} equations={v} spec={expected.contains k} cfg={cfg.map (fun s => (Spec.TStep.st c s).id)} event={ev} spontaneous_en={spont} conds_true={trueConds} initial={ices0}")
      let cv (trueConds : List Nat) : Nat → Bool := fun t => trueConds.contains t
      -- the situations of the property: the spontaneous step (spontaneous_en, no event signal) and the
      -- processing of each event (one event signal, spontaneous_en low)
      let sits : List (Option String × Bool) := (none, true) :: (none, false) :: ws.map (fun w => (some w, false))
      let r := cfgs.findSome? (fun cfg => sits.findSome? (fun (ev, spont) => vals.findSome? (fun tc =>
        let expected :=
          match ev with
          | some e => Spec.TStep.next c cfg (cv tc) (some e)
          | none => if spont then Spec.TStep.next c cfg (cv tc) none else cfg
        check cfg ev spont tc false expected)))
      match r with
      | some msg => msg
      | none =>
        match check [] none false [] true (Spec.TStep.initial c) with
        | some msg => msg
        | none => s!"ok configs={cfgs.length} situations={cfgs.length * sits.length * vals.length + 1}"
  | _ => "bad-op"

/-- request `<engine>\t<chart>\t<events>`: the configurations `Spec.TStep` visits (consecutive
repetitions dropped): initial entry, eventless steps until none is enabled, then per event its
step followed by the eventless steps -/
def tstep (line : String) : String :=
  match line.splitOn "\t" with
  | _ :: sx :: evs :: _ =>
    match parseSExp sx >>= parseDocNamed with
    | none => "bad-chart"
    | some (d, late) =>
      let c := flatten d late
      let cv : Nat → Bool := fun _ => true
      let tok (cfg : List Nat) : String := "cfg:" ++ ",".intercalate (cfg.map (fun s => (Spec.TStep.st c s).id))
      let push (acc : List String) (cfg : List Nat) : List String :=
        if acc.head? == some (tok cfg) then acc else tok cfg :: acc
      let rec spont (fuel : Nat) (cfg : List Nat) (acc : List String) : List Nat × List String :=
        match fuel with
        | 0 => (cfg, acc)
        | fuel + 1 =>
          if (Spec.TStep.select c cfg cv none).isEmpty then (cfg, acc)
          else
            let cfg' := Spec.TStep.next c cfg cv none
            spont fuel cfg' (push acc cfg')
      let cfg0 := Spec.TStep.initial c
      let (cfg, acc) := spont 60 cfg0 [tok cfg0]
      let events := if evs == "-" then [] else evs.splitOn ","
      let (_, acc) := events.foldl (fun (st : List Nat × List String) ev =>
        let (cfg, acc) := st
        let cfg' := Spec.TStep.next c cfg cv (some ev)
        spont 60 cfg' (push acc cfg')) (cfg, acc)
      " ".intercalate acc.reverse
  | _ => "bad-op"

end Driver
