import Driver.NameMatch
import Driver.Trace
import Driver.Misc
import Driver.Json
import Driver.Promela
import Driver.Lua
import Driver.DelayQ
import Driver.Vhdl
import Driver.Invoke
open Driver

partial def loop (h : IO.FS.Stream) (out : IO.FS.Stream) (f : String → String) : IO Unit := do
  let line ← h.getLine
  if line.isEmpty then return ()
  let l := if line.endsWith "\n" then (line.dropEnd 1).toString else line
  out.putStrLn (f l)
  loop h out f

def commands : List (String × (String → String)) := [
  ("namematch", namematch),
  ("trace", trace),
  ("api", api),
  ("names", names),
  ("snapcheck", snapcheck),
  ("dq", dq),
  ("vhdl", vhdl),
  ("tstep", tstep),
  ("invoke", invoke),
  ("legal", legal),
  ("nest", nest),
  ("tables", tables),
  ("coherent", coherent),
  ("trie", trie),
  ("validate", validate),
  ("json", json),
  ("promela", promela),
  ("lua", lua)
]

def main (args : List String) : IO UInt32 := do
  match args with
  | [cmd] =>
    match commands.lookup cmd with
    | some f =>
      let out ← IO.getStdout
      loop (← IO.getStdin) out f
      out.flush
      return 0
    | none => IO.eprintln s!"unknown command {cmd}"; return 2
  | _ => IO.eprintln "usage: uvdriver <command>"; return 2
