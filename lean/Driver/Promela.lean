import UscxmlVerif.Model.PromelaExpr
import UscxmlVerif.Common.Bytes
import UscxmlVerif.Generated.PromelaPrec
namespace Driver
open UscxmlVerif UscxmlVerif.Model.Promela UscxmlVerif.Generated.PromelaPrec

def parseDecls (s : String) : Store :=
  if s == "-" then [] else
  (s.splitOn ",").filterMap (fun d =>
    match d.splitOn "=" with
    | [n, v] => (v.toInt?).map (fun k => (n, Val.int k))
    | _ =>
      match d.splitOn "[" with
      | [n, r] => ((r.dropEnd 1).toString.toNat?).map (fun k => (n, Val.arr (List.replicate k 0)))
      | _ => none)

def showRes : Except EvalErr Int → String
  | .ok v => s!"v:{v}"
  | .error .crash => "crash"
  | .error _ => "err"

def hexStr (h : String) : Option String := (Hex.decode h).map (fun b => String.ofList (b.map (fun c => Char.ofNat c.toNat)))

/-- one session per line: `<decls>|op|op…`; ops `e:<hex>` `a:<hexloc>:<hexexpr>` `t:<hex>`;
response fields `M=<model> S=<spec>` per op, separated by `|` -/
def promela (line : String) : String :=
  match line.splitOn "|" with
  | decls :: ops =>
    let σ0 := parseDecls decls
    let (_, _, outs) := ops.foldl (fun (acc : Store × Store × List String) op =>
      let (σm, σs, outs) := acc
      match op.splitOn ":" with
      | ["e", h] =>
        match hexStr h with
        | some s =>
          let m := match parse probedTable s with | some e => showRes (evalModel probedImpl σm e) | none => "err"
          let sp := match parse specTable s with | some e => showRes (evalSpec σs e) | none => "err"
          let same := (parse probedTable s).map PExpr.dump == (parse specTable s).map PExpr.dump
          (σm, σs, outs ++ [s!"M={m} S={sp} P={if same then 1 else 0}"])
        | none => (σm, σs, outs ++ ["bad-op"])
      | ["a", hl, he] =>
        match hexStr hl, hexStr he with
        | some l, some s =>
          let step (T : PrecTable) (I : Impl) (σ : Store) : Store × String :=
            match parse T l, parse T s with
            | some loc, some e =>
              match evalModel I σ e with
              | .ok v => match assign I σ loc v with
                | .ok σ' => (σ', "ok")
                | .error .crash => (σ, "crash")
                | .error _ => (σ, "err")
              | .error .crash => (σ, "crash")
              | .error _ => (σ, "err")
            | _, _ => (σ, "err")
          let (σm', m) := step probedTable probedImpl σm
          let (σs', sp) := step specTable fullImpl σs
          (σm', σs', outs ++ [s!"M={m} S={sp}"])
        | _, _ => (σm, σs, outs ++ ["bad-op"])
      | ["t", h] =>
        match hexStr h with
        | some s => (σm, σs, outs ++ [match parse probedTable s with | some e => e.dump | none => "parse-error"])
        | none => (σm, σs, outs ++ ["bad-op"])
      | _ => (σm, σs, outs ++ ["bad-op"])) (σ0, σ0, [])
    "|".intercalate outs
  | [] => "bad-op"

end Driver
