import Driver.Json
import UscxmlVerif.Model.LuaMarshal
namespace Driver
open UscxmlVerif UscxmlVerif.Model.Json UscxmlVerif.Model.LuaMarshal

/-- `<way>|<D>`: the value after its trip(s) through the Lua datamodel, and whether it is in the
unambiguous fragment and unchanged -/
def lua (line : String) : String :=
  match line.splitOn "|" with
  | [way, ds] =>
    match parseD (ds.splitOn " ") with
    | some (d, []) =>
      let once := ofLua (toLua d)
      let r := if way == "param" || way == "content" || way == "namelist" || way == "donedata" || way == "donecontent" then ofLua (toLua once) else once
      "value " ++ dumpNode (ofD r)
    | _ => "bad-op"
  | _ => "bad-op"

end Driver
