import UscxmlVerif.Model.NameMatch
import UscxmlVerif.Spec.Descriptor
import UscxmlVerif.Model.Trie
namespace Driver
open UscxmlVerif

def b2s (b : Bool) : String := if b then "1" else "0"

def enumNames (alpha : Bytes) : Nat → List Bytes
  | 0 => [[]]
  | l + 1 => alpha.flatMap (fun c => (enumNames alpha l).map (c :: ·))

def allNames (alpha : Bytes) (maxlen : Nat) : List Bytes :=
  (List.range (maxlen + 1)).flatMap (enumNames alpha)

def bits (f : Bytes → Bool) (ns : List Bytes) : String := String.ofList (ns.map (fun n => if f n then '1' else '0'))

/-- `P\t<hex descriptor list>\t<hex event name>` or `E\t<hex ds>\t<maxlen>\t<hex alphabet>`;
response `M=<model> S=<spec> WF=<both well formed>` -/
def namematch (line : String) : String :=
  match line.splitOn "\t" with
  | ["P", a, b] =>
    match Hex.decode a, Hex.decode b with
    | some ds, some n =>
      s!"M={b2s (Model.NameMatch.nameMatch ds n)} S={b2s (Spec.Descriptor.listMatches ds n)} WF={b2s (Spec.Descriptor.wfDescList ds && Spec.Descriptor.wfName n)}"
    | _, _ => "bad-op"
  | ["E", a, l, b] =>
    match Hex.decode a, l.toNat?, Hex.decode b with
    | some ds, some maxlen, some alpha =>
      let ns := allNames alpha maxlen
      let wfd := Spec.Descriptor.wfDescList ds
      s!"M={bits (Model.NameMatch.nameMatch ds) ns} S={bits (Spec.Descriptor.listMatches ds) ns} WF={bits (fun n => wfd && Spec.Descriptor.wfName n) ns}"
    | _, _, _ => "bad-op"
  | _ => "bad-op"

/-- `<hex word>,…\t<hex prefix>,…` ("-" = the empty string): per prefix the words `getWordsWithPrefix` returns (sorted), then the
number of marked nodes; the same spelling as `uvharness trie` -/
def trie (line : String) : String :=
  let dec (h : String) : Option Bytes := if h == "-" then some [] else Hex.decode h
  let enc (b : Bytes) : String := if b.isEmpty then "-" else Hex.encode b
  match line.splitOn "\t" with
  | [ws, ps] =>
    match (ws.splitOn ",").mapM dec, (ps.splitOn ",").mapM dec with
    | some words, some prefixes =>
      let t := Model.Trie.build words
      let per := prefixes.map (fun p => ",".intercalate (((Model.Trie.query t p).map enc).mergeSort (· ≤ ·)))
      s!"{"|".intercalate per} n={(Model.Trie.words t).length}"
    | _, _ => "bad-op"
  | _ => "bad-op"

end Driver
