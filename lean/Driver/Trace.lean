import Driver.SExp
import UscxmlVerif.Model.Large
import UscxmlVerif.Model.Fast
import UscxmlVerif.Spec.W3C
import UscxmlVerif.Model.Api
import UscxmlVerif.Model.Serial
namespace Driver
open UscxmlVerif UscxmlVerif.Model

def cfgToken (c : Chart) (config : List Nat) : String :=
  "cfg:" ++ ",".intercalate (config.map (fun s => (Large.st c s).id))

/-- run `step(0)` until IDLE/FINISHED (or the cap), appending `ret:`/`cfg:` after every step -/
def runLarge (c : Chart) : Nat → Large.EState → Large.EState
  | 0, e => { e with x := e.x.emit (.note "DIVERGE") }
  | fuel + 1, e =>
    let (e, r) := Large.step c e
    let e := { e with x := (e.x.emit (.ret r.toString)).emit (.note (cfgToken c e.config)) }
    if r == .idle || r == .finished then e else runLarge c fuel e

def stepCap : Nat := 60

def runFast (c : Chart) : Nat → Large.EState → Large.EState
  | 0, e => { e with x := e.x.emit (.note "DIVERGE") }
  | fuel + 1, e =>
    let (e, r) := Fast.step c e
    let e := { e with x := (e.x.emit (.ret r.toString)).emit (.note (cfgToken c e.config)) }
    if r == .idle || r == .finished then e else runFast c fuel e

def traceFast (c : Chart) (events : List String) : String :=
  let e : Large.EState := { x := { obs := [Tok.ret "INITIALIZED"] } }
  let e := runFast c stepCap e
  let e := events.foldl (fun e ev =>
    if e.x.obs.head? == some (Tok.note "DIVERGE") then e
    else runFast c stepCap { e with x := e.x.sendExt ev }) e
  " ".intercalate (e.x.obs.reverse.map Tok.toString)

def traceLarge (c : Chart) (events : List String) : String :=
  let e : Large.EState := { x := { obs := [Tok.ret "INITIALIZED"] } }
  let e := runLarge c stepCap e
  let e := events.foldl (fun e ev =>
    if e.x.obs.head? == some (Tok.note "DIVERGE") then e
    else runLarge c stepCap { e with x := e.x.sendExt ev }) e
  " ".intercalate (e.x.obs.reverse.map Tok.toString)

/-- request `<engine>\t<chart s-expression>\t<comma separated events or ->` -/
def trace (line : String) : String :=
  match line.splitOn "\t" with
  | engine :: sx :: evs :: _ =>
    match parseSExp sx >>= parseDocNamed with
    | some (d, late) =>
      let c := flatten d late
      let events := if evs == "-" then [] else evs.splitOn ","
      match engine with
      | "large" => traceLarge c events
      | "fast" => traceFast c events
      | "spec" => " ".intercalate (Spec.W3C.run c events)
      | "specq" => " ".intercalate (Spec.W3C.run c events { histDomainRaw := true, sharedHistory := true })
      | "spect" => " ".intercalate (Spec.W3C.run c events { transpilerSelect := true })
      | "spectq" => " ".intercalate (Spec.W3C.run c events { transpilerSelect := true, histDomainRaw := true })
      | _ => "bad-engine"
    | none => "bad-chart"
  | _ => "bad-op"

def parseOp (s : String) : Option Model.Api.Op :=
  if s == "s" then some .step
  else if s == "q" then some .quiesce
  else if s == "c" then some .cancel
  else if s == "r" then some .reset
  else if s == "d" then some .destroy
  else if s == "g" then some .getState
  else if s.startsWith "e:" then some (.receive (s.drop 2).toString)
  else if s.startsWith "i:" then some (.inject (s.drop 2).toString)
  else none

/-- request `<engine>\t<chart s-expression>\t<comma separated ops>` -/
def api (line : String) : String :=
  match line.splitOn "\t" with
  | engine :: sx :: ops :: _ =>
    match parseSExp sx >>= parseDocNamed with
    | some (d, late) =>
      let c := flatten d late
      let ops := if ops == "-" then [] else (ops.splitOn ",").filterMap parseOp
      let eng : Model.Api.Engine := if engine == "fast" then .fast else .large
      let s := Model.Api.run eng c ops
      " ".intercalate (s.log ++ ["end"])
    | none => "bad-chart"
  | _ => "bad-op"

/-- request `<anything>\t<chart>`: the names the trace alphabet uses for the numbered states and
transitions of the flat chart: `S<k>=<id>` in document order, `T<k>=<name>` in post-fix order -/
def names (line : String) : String :=
  match line.splitOn "\t" with
  | _ :: sx :: _ =>
    match parseSExp sx >>= parseDocNamed with
    | some (d, late) =>
      let c := flatten d late
      let ss := (List.range c.states.size).map (fun i => s!"S{i}={(Large.st c i).id}")
      let ts := (List.range c.trans.size).map (fun i => s!"T{i}={Large.tname c i}")
      " ".intercalate (ss ++ ts)
    | none => "bad-chart"
  | _ => "bad-op"

/-- decidable form of `Serial.Snapshotable` plus the conclusion of `restore_snapshot` on a concrete state -/
def snapshotOk (c : Chart) (e : Large.EState) : Bool :=
  let r := Model.Serial.restore c (Model.Serial.snapshot e)
  Model.Serial.sorted e.config && Model.Serial.sorted e.history && Model.Serial.sorted e.invocations &&
  e.configPF.filter (Model.Serial.hasTrans c) == (Model.Serial.rebuildPF c e.config).filter (Model.Serial.hasTrans c) && e.x.iq.isEmpty && e.microConfigs.isEmpty && !e.cancelled &&
  r.config == e.config && r.configPF.filter (Model.Serial.hasTrans c) == e.configPF.filter (Model.Serial.hasTrans c) && r.history == e.history && r.invocations == e.invocations &&
  r.x.eq == e.x.eq && r.x.vars == e.x.vars && r.stable == e.stable && r.finished == e.finished &&
  r.topLevelFinal == e.topLevelFinal && r.pristine == e.pristine && r.spontaneous == e.spontaneous

/-- request `<engine>\t<chart>\t<events>`: run the model; at every point where a snapshot may be taken
(step returned MACROSTEPPED or IDLE; a finished interpreter is inert) check `snapshotOk`. Answer `ok <points>` or `bad <point>` -/
def snapcheck (line : String) : String :=
  match line.splitOn "\t" with
  | engine :: sx :: evs :: _ =>
    match parseSExp sx >>= parseDocNamed with
    | some (d, late) =>
      let c := flatten d late
      let events := if evs == "-" then [] else evs.splitOn ","
      let stepF := if engine == "fast" then Fast.step c else Large.step c
      let rec go (fuel : Nat) (e : Large.EState) (pts : Nat) (bad : Option Nat) : Large.EState × Nat × Option Nat :=
        match fuel with
        | 0 => (e, pts, bad)
        | fuel + 1 =>
          let (e', r) := stepF e
          let stablePoint := r == .macrostepped || r == .idle
          let bad' := if bad.isNone && stablePoint && !snapshotOk c e' then some pts else bad
          let pts' := if stablePoint then pts + 1 else pts
          if r == .idle || r == .finished then (e', pts', bad') else go fuel e' pts' bad'
      let init : Large.EState := {}
      let (e, pts, bad) := go stepCap init 0 none
      let (_, pts, bad) := events.foldl (fun (acc : Large.EState × Nat × Option Nat) ev =>
        let (e, pts, bad) := acc
        go stepCap { e with x := e.x.sendExt ev } pts bad) (e, pts, bad)
      match bad with
      | none => s!"ok {pts}"
      | some k => s!"bad {k}"
    | none => "bad-chart"
  | _ => "bad-op"

end Driver
