import Driver.SExp
import UscxmlVerif.Model.Large
import UscxmlVerif.Model.Fast
import UscxmlVerif.Spec.W3C
namespace Driver
open UscxmlVerif UscxmlVerif.Model

def cfgToken (c : Chart) (config : List Nat) : String :=
  "cfg:" ++ ",".intercalate (config.map (fun s => (Large.st c s).id))

/-- run `step(0)` until IDLE/FINISHED (or the cap), appending `ret:`/`cfg:` after every step -/
def runLarge (c : Chart) : Nat → Large.EState → Large.EState
  | 0, e => { e with x := e.x.emit "DIVERGE" }
  | fuel + 1, e =>
    let (e, r) := Large.step c e
    let e := { e with x := (e.x.emit s!"ret:{r.toString}").emit (cfgToken c e.config) }
    if r == .idle || r == .finished then e else runLarge c fuel e

def stepCap : Nat := 60

def runFast (c : Chart) : Nat → Large.EState → Large.EState
  | 0, e => { e with x := e.x.emit "DIVERGE" }
  | fuel + 1, e =>
    let (e, r) := Fast.step c e
    let e := { e with x := (e.x.emit s!"ret:{r.toString}").emit (cfgToken c e.config) }
    if r == .idle || r == .finished then e else runFast c fuel e

def traceFast (c : Chart) (events : List String) : String :=
  let e : Large.EState := { x := { obs := ["ret:INITIALIZED"] } }
  let e := runFast c stepCap e
  let e := events.foldl (fun e ev =>
    if e.x.obs.head? == some "DIVERGE" then e
    else runFast c stepCap { e with x := e.x.sendExt ev }) e
  " ".intercalate e.x.obs.reverse

def traceLarge (c : Chart) (events : List String) : String :=
  let e : Large.EState := { x := { obs := ["ret:INITIALIZED"] } }
  let e := runLarge c stepCap e
  let e := events.foldl (fun e ev =>
    if e.x.obs.head? == some "DIVERGE" then e
    else runLarge c stepCap { e with x := e.x.sendExt ev }) e
  " ".intercalate e.x.obs.reverse

/-- request `<engine>\t<chart s-expression>\t<comma separated events or ->` -/
def trace (line : String) : String :=
  match line.splitOn "\t" with
  | engine :: sx :: evs :: _ =>
    match parseSExp sx >>= parseDocNamed with
    | some (d, late) =>
      let c := flatten d late
      let events := if evs == "-" then [] else evs.splitOn ","
      match engine with
      | "large" => traceLarge c events
      | "fast" => traceFast c events
      | "spec" => " ".intercalate (Spec.W3C.run c events)
      | "specq" => " ".intercalate (Spec.W3C.run c events { histDomainRaw := true, sharedHistory := true })
      | _ => "bad-engine"
    | none => "bad-chart"
  | _ => "bad-op"

end Driver
