import UscxmlVerif.Model.Json
namespace Driver
open UscxmlVerif UscxmlVerif.Model.Json

/-- parse the prefix form of a well-formed value: `V<hex>` `I<hex>` `A<n> item…` `O<n> (<hexkey> item)…` -/
partial def parseD : List String → Option (D × List String)
  | [] => none
  | t :: rest =>
    match t.toList with
    | 'V' :: h => (Hex.decode (String.ofList h)).map (fun b => (D.atom .verbatim b, rest))
    | 'I' :: h => (Hex.decode (String.ofList h)).map (fun b => (D.atom .interpreted b, rest))
    | 'A' :: n => do
      let n ← (String.ofList n).toNat?
      let mut items := []
      let mut r := rest
      for _ in [0:n] do
        let (d, r') ← parseD r
        items := items ++ [d]; r := r'
      pure (D.arr items, r)
    | 'O' :: n => do
      let n ← (String.ofList n).toNat?
      let mut ks := []
      let mut vs := []
      let mut r := rest
      for _ in [0:n] do
        match r with
        | k :: r1 =>
          let kb ← Hex.decode k
          let (d, r') ← parseD r1
          ks := ks ++ [kb]; vs := vs ++ [d]; r := r'
        | [] => none
      pure (D.obj ks vs, r)
    | _ => none

partial def dumpNode : Node → String
  | .mk a t l ks vs =>
    let items := " ".intercalate (l.map dumpNode)
    let kv := " ".intercalate ((ks.zip vs).map (fun (k, v) => Hex.encode k ++ " " ++ dumpNode v))
    s!"({Hex.encode a} {if t == .verbatim then "v" else "i"} [{items}] \{{kv}})"

def showResult : JResult → String
  | .value n => if n.atom.isEmpty && n.arr.isEmpty && n.keys.isEmpty then "notjson" else "value " ++ dumpNode n   -- `Data::empty()`
  | .notJson => "notjson"
  | .error .nomem => "error nomem"
  | .error .inval => "error inval"
  | .error .part => "error part"
  | .error .key => "error key"
  | .oob => "oob"

/-- `tojson <D>` | `fromjson <hex>` | `roundtrip <D>` | `escape <hex>` | `unescape <hex>` -/
def json (line : String) : String :=
  match line.splitOn " " with
  | "tojson" :: rest =>
    match parseD rest with
    | some (d, []) => Hex.encode (toJSON d 1)
    | _ => "bad-op"
  | ["fromjson", h] =>
    match Hex.decode h with
    | some b => showResult (fromJSON b)
    | none => "bad-op"
  | "roundtrip" :: rest =>
    match parseD rest with
    | some (d, []) => showResult (fromJSON (toJSON d 1)) ++ " want " ++ dumpNode (ofD d)
    | _ => "bad-op"
  | ["escape", h] => match Hex.decode h with | some b => Hex.encode (jsonEscape b) | none => "bad-op"
  | ["unescape", h] => match Hex.decode h with | some b => Hex.encode (jsonUnescape b) | none => "bad-op"
  | _ => "bad-op"

end Driver
