import UscxmlVerif.Proofs.XorOk
import UscxmlVerif.Proofs.RootActive
import UscxmlVerif.Spec.Legal
/-!
# The invariants add up to `Spec.Legal.legal`
-/
namespace UscxmlVerif.Proofs.LegalThm
open UscxmlVerif UscxmlVerif.Model UscxmlVerif.Model.Large UscxmlVerif.Proofs.Struct UscxmlVerif.Proofs.ExitClosed
  UscxmlVerif.Proofs.EntryClosed UscxmlVerif.Proofs.CfgInv UscxmlVerif.Proofs.Down UscxmlVerif.Proofs.Xor UscxmlVerif.Proofs.XorOk

theorem exists_max : ∀ (l : List Nat), l ≠ [] → ∃ m ∈ l, ∀ x ∈ l, x ≤ m
  | [], h => absurd rfl h
  | [a], _ => ⟨a, List.mem_cons_self, fun x hx => by simp at hx; omega⟩
  | a :: b :: t, _ => by
    obtain ⟨m, hm, hmax⟩ := exists_max (b :: t) (by simp)
    by_cases h : a ≤ m
    · exact ⟨m, List.mem_cons_of_mem _ hm, fun x hx => by
        rcases List.mem_cons.mp hx with h1 | h1
        · omega
        · exact hmax x h1⟩
    · exact ⟨a, List.mem_cons_self, fun x hx => by
        rcases List.mem_cons.mp hx with h1 | h1
        · omega
        · have := hmax x h1; omega⟩

theorem length_one_of_unique : ∀ (l : List Nat) (a : Nat), l.Nodup → a ∈ l → (∀ x ∈ l, x = a) → l.length = 1
  | [], a, _, h, _ => by cases h
  | [b], _, _, _, _ => rfl
  | b :: b' :: t, a, hn, _, hall => by
    exfalso
    have h1 := hall b List.mem_cons_self
    have h2 := hall b' (List.mem_cons_of_mem _ List.mem_cons_self)
    rw [List.nodup_cons] at hn
    apply hn.1
    rw [h1, ← h2]
    exact List.mem_cons_self

/-- the six clauses of legality from the invariants of the run -/
theorem legal_of_invariants (c : Chart) (hc : Coh c) (hk : EOK c) (hd : DOK c) (hl : LOK c) (cfg : List Nat)
    (hroot : 0 ∈ cfg) (hasc : Asc cfg) (hcfg : ConfigOk c cfg) (hpc : ParentClosed c cfg) (hdown : DownClosed c cfg)
    (hxor : XorU c cfg) : Spec.Legal.legal c cfg = true := by
  have est : ∀ i, Spec.Legal.st c i = Large.st c i := fun _ => rfl
  have eT : ∀ i, T.st c i = Large.st c i := fun _ => rfl
  -- members of the configuration are proper and no pseudo-states
  have hproper : ∀ s ∈ cfg, (Large.st c s).kind.isProper = true := by
    intro s hs
    rcases (hcfg s hs).2 with h | h | h | h
    · rw [h, ← eT, hc.rootKind]; rfl
    · rw [← eT, h]; rfl
    · rw [← eT, h]; rfl
    · rw [← eT, h]; rfl
  have hnps : ∀ s ∈ cfg, (Large.st c s).typ.isPseudo = false := fun s hs => hl.properNotPseudo s (hproper s hs)
  unfold Spec.Legal.legal
  simp only [Bool.and_eq_true]
  refine ⟨⟨⟨⟨⟨?_, ?_⟩, ?_⟩, ?_⟩, ?_⟩, ?_⟩
  · exact List.contains_iff_mem.mpr hroot
  · simp only [decide_eq_true_eq]
    exact List.Pairwise.imp (fun h => Nat.ne_of_lt h) hasc
  · rw [List.all_eq_true]
    intro s hs
    simp only [Bool.and_eq_true, decide_eq_true_eq]
    exact ⟨(hcfg s hs).1, by rw [est]; exact hproper s hs⟩
  · rw [List.all_eq_true]
    intro s hs
    rw [est]
    cases hp : (Large.st c s).parent with
    | some p => exact List.contains_iff_mem.mpr (hpc s hs p hp)
    | none =>
      simp only [beq_iff_eq]
      by_cases h0 : s = 0
      · exact h0
      · obtain ⟨p, hp', _, _⟩ := hc.parent s h0 (hcfg s hs).1
        rw [← eT, hp'] at hp; cases hp
  · rw [List.all_eq_true]
    intro s hs
    rw [est]
    obtain ⟨hdp, hdc⟩ := hdown s hs
    cases ht : (Large.st c s).typ with
    | compound =>
      simp only [beq_iff_eq]
      obtain ⟨ch, hch, hps, hcc⟩ := hdc ht
      have hchL : ch ∈ (Spec.Legal.properChildren c s).filter (fun k => cfg.contains k) := by
        unfold Spec.Legal.properChildren
        rw [est]
        simp only [List.mem_filter]
        exact ⟨⟨hch, by rw [est]; exact hproper ch hcc⟩, List.contains_iff_mem.mpr hcc⟩
      refine length_one_of_unique _ ch ?_ hchL ?_
      · unfold Spec.Legal.properChildren
        rw [est]
        exact List.Pairwise.filter _ (List.Pairwise.filter _ (hl.childNodup s))
      · intro x hx
        unfold Spec.Legal.properChildren at hx
        rw [est] at hx
        simp only [List.mem_filter] at hx
        obtain ⟨⟨hxc, _⟩, hxcfg⟩ := hx
        have hxm := List.contains_iff_mem.mp hxcfg
        exact hxor x hxm ch hcc s (hk.children s x hxc) (hk.children s ch hch) ht (hnps x hxm) hps
    | parallel =>
      simp only
      rw [List.all_eq_true]
      intro k hk'
      unfold Spec.Legal.properChildren at hk'
      rw [est] at hk'
      simp only [List.mem_filter] at hk'
      rw [est] at hk'
      exact List.contains_iff_mem.mpr (hdp ht k (hd.parAll s ht k hk'.1 (hl.properNotPseudo k hk'.2)))
    | atomic => rfl
    | final => rfl
    | histShallow => rfl
    | histDeep => rfl
    | initial => rfl
  · -- the last state in document order is a leaf
    rw [List.any_eq_true]
    obtain ⟨m, hm, hmax⟩ := exists_max cfg (by intro h; rw [h] at hroot; cases hroot)
    refine ⟨m, hm, ?_⟩
    rw [est]
    obtain ⟨hdp, hdc⟩ := hdown m hm
    cases ht : (Large.st c m).typ with
    | atomic => rfl
    | final => rfl
    | compound =>
      exfalso
      obtain ⟨ch, hch, _, hcc⟩ := hdc ht
      have hp := hk.children m ch hch
      have hch0 : ch ≠ 0 := by
        intro h0
        rw [h0, ← eT, hc.rootParent] at hp; cases hp
      obtain ⟨p, hp', hlt, _⟩ := hc.parent ch hch0 (hcfg ch hcc).1
      rw [← eT, hp'] at hp
      simp only [Option.some.injEq] at hp
      have := hmax ch hcc
      omega
    | parallel =>
      exfalso
      have hne := hl.parNonempty m ht
      cases hcm : (Large.st c m).completion with
      | nil => exact hne hcm
      | cons k rest =>
        have hkc : k ∈ (Large.st c m).completion := by rw [hcm]; exact List.mem_cons_self
        have := hmax k (hdp ht k hkc)
        have := (hd.complGt m k hkc).1
        omega
    | histShallow => have := hnps m hm; rw [ht] at this; cases this
    | histDeep => have := hnps m hm; rw [ht] at this; cases this
    | initial => have := hnps m hm; rw [ht] at this; cases this

end UscxmlVerif.Proofs.LegalThm
