import UscxmlVerif.Proofs.DownExit
/-!
# Downward completeness as an invariant of the run (LargeMicroStep, history-free charts)
-/
namespace UscxmlVerif.Proofs.DownRun
open UscxmlVerif UscxmlVerif.Model UscxmlVerif.Model.Large UscxmlVerif.Model.Api UscxmlVerif.Proofs.Struct UscxmlVerif.Proofs.ExitClosed
  UscxmlVerif.Proofs.EntryClosed UscxmlVerif.Proofs.CfgInv UscxmlVerif.Proofs.Select UscxmlVerif.Proofs.Down
  UscxmlVerif.Proofs.Interval UscxmlVerif.Proofs.ExitSet UscxmlVerif.Proofs.Parents UscxmlVerif.Proofs.DownExit
  UscxmlVerif.Proofs.SortedIns

/-- selection keeps: the target set is ascending and holds the targets of every selected transition -/
def TIn (c : Chart) (sel : Sel) : Prop :=
  Asc sel.targetSet ∧ ∀ i ∈ sel.transSet, ∀ g ∈ (Large.tr c i).targets, g ∈ sel.targetSet

theorem large_selectInState_tin (c : Chart) (config : List Nat) (ev : Option String) (s : Nat) :
    ∀ (l : List Nat) (sel : Sel), TIn c sel → TIn c (selectInState c config ev s l sel) := by
  intro l
  induction l with
  | nil => intro sel h; exact h
  | cons ti rest ih =>
    intro sel h
    unfold selectInState
    simp only
    repeat' split
    all_goals first
      | exact ih _ h
      | exact h
      | (refine ⟨asc_insAll _ _ h.1, ?_⟩
         intro i hi g hg
         rcases (mem_ins ti _ i).mp hi with h1 | h1
         · rw [h1] at hg
           exact (mem_insAll _ _ g).mpr (Or.inl hg)
         · exact (mem_insAll _ _ g).mpr (Or.inr (h.2 i h1 g hg)))

theorem large_selectLoop_tin (c : Chart) (config : List Nat) (ev : Option String) :
    ∀ (l : List Nat) (sel : Sel), TIn c sel → TIn c (Large.selectLoop c config ev l sel) := by
  intro l
  induction l with
  | nil => intro sel h; exact h
  | cons s rest ih =>
    intro sel h
    unfold Large.selectLoop
    split
    · exact ih sel h
    · exact ih _ (large_selectInState_tin c config ev s _ sel h)

/-- the invariant of the run -/
def DC (c : Chart) (e : EState) : Prop := PC c e ∧ DownClosed c e.config

theorem large_selectAndStep_dc (c : Chart) (hcoh : Coherent c = true) (hi : IntervalOK c = true) (hk : EOK c) (hd : DOK c)
    (hp : SelPlain c = true) (e : EState) (ev : Option String) (h : DC c e) : DC c (Large.selectAndStep c e ev).1 := by
  have hc := coh_of_coherent hcoh
  refine ⟨large_selectAndStep_pc c hcoh hi hk hp e ev h.1, ?_⟩
  have hsel := large_selectLoop_inv c hk hp e.config ev e.configPF { x := e.x } ⟨(by intro i hi; cases hi), (by intro g hg; cases hg)⟩
  have htin := large_selectLoop_tin c e.config ev e.configPF { x := e.x } ⟨List.Pairwise.nil, (by intro i hi; cases hi)⟩
  have hexit := large_selectLoop_exit c e.config ev e.configPF { x := e.x } (by intro s; simp)
  have hx := exit_respects c hcoh hi hd e.config _ _ _ (configOk_of_pc hk h.1) hexit hsel.1 htin.2
  unfold Large.selectAndStep
  simp only
  split
  · exact h.2
  · exact large_microstep_down c hc hk hd _ _ _ _ _ hsel.2 htin.1 h.1.2.2 h.2 hx

theorem large_selectAndStep_down (c : Chart) (hcoh : Coherent c = true) (hi : IntervalOK c = true) (hk : EOK c) (hd : DOK c)
    (hp : SelPlain c = true) (e : EState) (ev : Option String) (h : DC c e) : DownClosed c (Large.selectAndStep c e ev).1.config :=
  (large_selectAndStep_dc c hcoh hi hk hd hp e ev h).2

theorem large_step_dc (c : Chart) (hcoh : Coherent c = true) (hi : IntervalOK c = true) (hk : EOK c) (hd : DOK c)
    (hp : SelPlain c = true) (e : EState) (h : DC c e) : DC c (Large.step c e).1 := by
  have hc := coh_of_coherent hcoh
  refine ⟨large_step_pc c hcoh hi hk hp e h.1, ?_⟩
  have hnil : ExitRespects c e.config (Large.st c 0).completion [] := by
    intro ch hch; cases hch
  unfold Large.step
  simp only
  repeat' split
  all_goals first
    | exact h.2
    | exact large_microstep_down c hc hk hd _ _ _ _ _ (hk.complLt 0) hd.rootComplAsc h.1.2.2 h.2 hnil
    | exact large_selectAndStep_down c hcoh hi hk hd hp _ _ h

theorem dc_fresh (c : Chart) : DC c ({} : Api).e := ⟨pc_fresh c, fun s hs => by cases hs⟩

section run
variable (c : Chart) (hcoh : Coherent c = true) (hi : IntervalOK c = true) (hk : EOK c) (hd : DOK c) (hp : SelPlain c = true)
include hcoh hi hk hd hp

theorem stepObserved_dc (a : Api) (h : DC c a.e) : DC c (stepObserved .large c a).1.e := by
  unfold stepObserved stepOnce
  simp only
  split
  · exact h
  · exact large_step_dc c hcoh hi hk hd hp a.e h

theorem quiesce_dc (fuel : Nat) (a : Api) (h : DC c a.e) : DC c (quiesce .large c fuel a).e := by
  induction fuel generalizing a with
  | zero => exact h
  | succ n ih =>
    unfold quiesce
    simp only
    split
    · exact stepObserved_dc c hcoh hi hk hd hp a h
    · exact ih _ (stepObserved_dc c hcoh hi hk hd hp a h)

theorem apply_dc (s : Session) (op : Op) (h : DC c s.a.e) : DC c (apply .large c s op).a.e := by
  cases op with
  | step => exact stepObserved_dc c hcoh hi hk hd hp s.a h
  | quiesce => exact quiesce_dc c hcoh hi hk hd hp cap s.a h
  | receive ev => exact h
  | cancel => exact h
  | getState => exact h
  | inject ev => exact h
  | reset => exact dc_fresh c
  | destroy => exact dc_fresh c

theorem run_dc (ops : List Op) : DC c (run .large c ops).a.e := by
  unfold run
  exact foldl_pres (fun s : Session => DC c s.a.e) (apply .large c) (fun s op hs => apply_dc c hcoh hi hk hd hp s op hs) ops {} (dc_fresh c)

end run

end UscxmlVerif.Proofs.DownRun
