import UscxmlVerif.Proofs.DownRun
/-!
# Entering completes what it enters (FastMicroStep, history-free charts)

The alternative engine walks the growing entry set by "next greater member" and drops an `<initial>` element
from the set once its transition has been expanded. The argument is the one of `Proofs/Down.lean`, carried
out over the ghost set `G` = entry set + the dropped elements (all pseudo-states, so they do not matter for
what is entered).
-/
namespace UscxmlVerif.Proofs.DownFast
open UscxmlVerif UscxmlVerif.Model UscxmlVerif.Model.Large UscxmlVerif.Model.Api UscxmlVerif.Proofs.Struct UscxmlVerif.Proofs.ExitClosed
  UscxmlVerif.Proofs.EntryClosed UscxmlVerif.Proofs.CfgInv UscxmlVerif.Proofs.Select UscxmlVerif.Proofs.Down
  UscxmlVerif.Proofs.SortedIns UscxmlVerif.Proofs.Parents UscxmlVerif.Proofs.ParentsFast

/-- membership in `Fast.descendants` -/
theorem mem_descendants (c : Chart) (s y : Nat) : y ∈ Fast.descendants c s ↔ y < c.states.size ∧ s ∈ Large.ancs c y := by
  unfold Fast.descendants hasAnc
  simp [List.mem_filter, List.mem_range]

theorem inter_true {a b : List Nat} (h : inter a b = true) : ∃ y ∈ a, y ∈ b := by
  unfold inter at h
  rw [List.any_eq_true] at h
  obtain ⟨y, hy, hc⟩ := h
  exact ⟨y, hy, List.contains_iff_mem.mp hc⟩

theorem inter_false {a b : List Nat} (h : inter a b = false) : ∀ y ∈ a, y ∉ b := by
  intro y hy hb
  have : inter a b = true := by
    unfold inter
    rw [List.any_eq_true]
    exact ⟨y, hy, List.contains_iff_mem.mpr hb⟩
  rw [h] at this; cases this

/-- what a visit establishes for the visited state, relative to the ghost set `G` -/
def PostF (c : Chart) (e : EState) (exitS : List Nat) (G : List Nat) (s : Nat) : Prop :=
  ((Large.st c s).typ = .parallel → ∀ k ∈ (Large.st c s).completion, k ∈ G) ∧
  ((Large.st c s).typ = .compound →
    (∃ y ∈ G, s ∈ Large.ancs c y) ∨ ((∃ y ∈ e.config, s ∈ Large.ancs c y) ∧ ∀ z ∈ exitS, s ∉ Large.ancs c z)) ∧
  ((Large.st c s).typ = .initial → ∀ ti ∈ (Large.st c s).trans, ∀ g ∈ (Large.tr c ti).targets,
    g ∈ G ∧ ∀ a ∈ Large.ancs c g, a ∈ G)

theorem postF_mono (c : Chart) (e : EState) (exitS : List Nat) (G G' : List Nat) (h : ∀ y ∈ G, y ∈ G') (s : Nat)
    (hp : PostF c e exitS G s) : PostF c e exitS G' s := by
  refine ⟨fun ht k hk => h k (hp.1 ht k hk), fun ht => ?_, fun ht ti hti g hg => ?_⟩
  · rcases hp.2.1 ht with ⟨y, hy, hs⟩ | h2
    · exact Or.inl ⟨y, h y hy, hs⟩
    · exact Or.inr h2
  · obtain ⟨h1, h2⟩ := hp.2.2 ht ti hti g hg
    exact ⟨h g h1, fun a ha => h a (h2 a ha)⟩

/-- membership after a visit: nothing but pseudo `s` is lost, and what is new follows `s` in document order -/
structure VisitF (c : Chart) (e : EState) (exitS : List Nat) (s : Nat) (entry entry' : List Nat) : Prop where
  asc : Asc entry'
  keep : ∀ y ∈ entry, y ≠ s → y ∈ entry'
  keepS : (Large.st c s).typ.isPseudo = false → s ∈ entry'
  newGt : ∀ y ∈ entry', y ∈ entry ∨ s < y
  post : PostF c e exitS (s :: entry') s

theorem mem_foldl_targets_iff (c : Chart) : ∀ (gs l : List Nat) (y : Nat),
    y ∈ gs.foldl (fun en g => insAll (Large.ancs c g) (ins g en)) l ↔ y ∈ l ∨ ∃ g ∈ gs, y = g ∨ y ∈ Large.ancs c g
  | [], l, y => by simp
  | g :: gs, l, y => by
    rw [List.foldl_cons, mem_foldl_targets_iff c gs _ y, mem_insAll, mem_ins]
    simp only [List.mem_cons, exists_eq_or_imp]
    constructor
    · rintro ((h | h | h) | h)
      · exact Or.inr (Or.inl (Or.inr h))
      · exact Or.inr (Or.inl (Or.inl h))
      · exact Or.inl h
      · exact Or.inr (Or.inr h)
    · rintro (h | (h | h) | h)
      · exact Or.inl (Or.inr (Or.inr h))
      · exact Or.inl (Or.inr (Or.inl h))
      · exact Or.inl (Or.inl h)
      · exact Or.inr h

theorem asc_foldl_targets (c : Chart) : ∀ (gs l : List Nat), Asc l → Asc (gs.foldl (fun en g => insAll (Large.ancs c g) (ins g en)) l)
  | [], l, h => h
  | g :: gs, l, h => by
    rw [List.foldl_cons]
    exact asc_foldl_targets c gs _ (asc_insAll _ _ (asc_ins g l h))

theorem ancs_oor (c : Chart) (y : Nat) (h : ¬ y < c.states.size) : Large.ancs c y = [] := by
  have e : Large.ancs c y = Large.ancestors c c.states.size y := rfl
  rw [e]
  cases hn : c.states.size with
  | zero => rfl
  | succ m =>
    unfold Large.ancestors
    rw [st_oor c y h]
    rfl

/-- ancestors of a state in range precede it -/
theorem anc_lt' (c : Chart) (hc : Coh c) (g a : Nat) (h : a ∈ Large.ancs c g) : a < g := by
  by_cases hlt : g < c.states.size
  · exact ancs_lt c hc g g (Nat.le_refl _) hlt a h
  · rw [ancs_oor c g hlt] at h; cases h

theorem fast_descVisit_step (c : Chart) (hc : Coh c) (hk : EOK c) (hd : DOK c) (e : EState) (exitS : List Nat) (s : Nat)
    (entry ts : List Nat) (hs : s ∈ entry) (hinv : Inv c entry) (hasc : Asc entry) :
    VisitF c e exitS s entry (Fast.descVisit c e exitS s entry ts).1 := by
  have hanc : ∀ a ∈ Large.ancs c s, a ∈ entry := closed_ancs c hc entry hinv.1 s s (Nat.le_refl _) hs
  have same : ∀ (hpost : PostF c e exitS (s :: entry) s), VisitF c e exitS s entry entry :=
    fun hpost => ⟨hasc, fun y hy _ => hy, fun _ => hs, fun y hy => Or.inl hy, hpost⟩
  unfold Fast.descVisit
  simp only
  split
  · rename_i ht
    exact same (by unfold PostF; rw [ht]; simp)
  · rename_i ht
    exact same (by unfold PostF; rw [ht]; simp)
  · -- parallel
    rename_i ht
    refine ⟨asc_insAll _ _ hasc, fun y hy _ => (mem_insAll _ _ y).mpr (Or.inr hy), fun _ => (mem_insAll _ _ s).mpr (Or.inr hs), ?_, ?_⟩
    · intro y hy
      rcases (mem_insAll _ _ y).mp hy with h | h
      · exact Or.inr (hd.complGt s y h).1
      · exact Or.inl h
    · unfold PostF
      rw [ht]
      exact ⟨fun _ k hk' => List.mem_cons_of_mem _ ((mem_insAll _ _ k).mpr (Or.inl hk')), (fun h => by cases h), (fun h => by cases h)⟩
  · rename_i ht
    have := hk.noHist s
    rw [ht] at this; cases this
  · rename_i ht
    have := hk.noHist s
    rw [ht] at this; cases this
  · -- initial
    rename_i ht
    have hps : (Large.st c s).typ.isPseudo = true := by rw [ht]; rfl
    split
    · rename_i hnil
      exact same (by unfold PostF; rw [ht, hnil]; exact ⟨(fun h => by cases h), (fun h => by cases h), fun _ ti hti => by cases hti⟩)
    · -- facts about every target of the element's transitions
      have hgs : ∀ ti ∈ (Large.st c s).trans, ∀ g ∈ (Large.tr c ti).targets,
          (s < g ∧ g ≠ s) ∧ ∀ a ∈ Large.ancs c g, (a ∈ entry ∨ s < a) ∧ a ≠ s := by
        intro ti hti g hg
        obtain ⟨hsg, _, hpg⟩ := hd.initT s ht ti hti g hg
        refine ⟨⟨hsg, by omega⟩, ?_⟩
        intro a ha
        have hane : a ≠ s := by
          intro h
          have := ancs_not_pseudo c hc hk g g (Nat.le_refl _) a ha
          rw [h, hps] at this; cases this
        refine ⟨?_, hane⟩
        have hslt : s < c.states.size := hinv.2 s hs
        have hs0 : s ≠ 0 := by
          intro h0
          have hk0 := hk.pseudo 0 (by rw [← h0]; exact hps)
          have : Large.st c 0 = T.st c 0 := rfl
          rw [this, hc.rootKind] at hk0
          cases hk0
        obtain ⟨p, hp, _, _⟩ := hc.parent s hs0 hslt
        have e1 : Large.st c s = T.st c s := rfl
        have hp' : (Large.st c s).parent = some p := by rw [e1]; exact hp
        have hpe : p ∈ entry := hinv.1 s hs p hp'
        rcases ancs_split c hc g g (Nat.le_refl _) p (hpg p hp') a ha with h1 | h1 | h1
        · exact Or.inr (hd.initFirst s p ht hp' a h1 hane)
        · exact Or.inl (by rw [h1]; exact hpe)
        · exact Or.inl (closed_ancs c hc entry hinv.1 p p (Nat.le_refl _) hpe a h1)
      have key : ∀ (tis : List Nat), (∀ ti ∈ tis, ti ∈ (Large.st c s).trans) → ∀ (acc : List Nat × List Nat),
          Asc acc.1 → (∀ y ∈ entry, y ≠ s → y ∈ acc.1) → (∀ y ∈ acc.1, y ∈ entry ∨ s < y) →
          let r := tis.foldl (fun (acc : List Nat × List Nat) ti =>
            ((Large.tr c ti).targets.foldl (fun en g => insAll (Large.ancs c g) (ins g en)) (acc.1.filter (· != s)), ins ti acc.2)) acc
          Asc r.1 ∧ (∀ y ∈ entry, y ≠ s → y ∈ r.1) ∧ (∀ y ∈ r.1, y ∈ entry ∨ s < y) ∧ (∀ y ∈ acc.1, y ≠ s → y ∈ r.1) ∧
            (∀ ti ∈ tis, ∀ g ∈ (Large.tr c ti).targets, g ∈ r.1 ∧ ∀ a ∈ Large.ancs c g, a ∈ r.1) := by
        intro tis
        induction tis with
        | nil => intro _ acc ha h1 h2; exact ⟨ha, h1, h2, fun y hy _ => hy, fun ti hti => by cases hti⟩
        | cons ti tis ih =>
          intro hmem acc ha h1 h2
          simp only [List.foldl_cons]
          have hti := hmem ti List.mem_cons_self
          have hmemT := mem_foldl_targets_iff c (Large.tr c ti).targets (acc.1.filter (· != s))
          have a1 : Asc ((Large.tr c ti).targets.foldl (fun en g => insAll (Large.ancs c g) (ins g en)) (acc.1.filter (· != s))) :=
            asc_foldl_targets c _ _ (List.Pairwise.filter _ ha)
          have a2 : ∀ y ∈ entry, y ≠ s → y ∈ (Large.tr c ti).targets.foldl (fun en g => insAll (Large.ancs c g) (ins g en)) (acc.1.filter (· != s)) := by
            intro y hy hne
            rw [hmemT]
            exact Or.inl (List.mem_filter.mpr ⟨h1 y hy hne, by simpa using hne⟩)
          have a3 : ∀ y ∈ (Large.tr c ti).targets.foldl (fun en g => insAll (Large.ancs c g) (ins g en)) (acc.1.filter (· != s)), y ∈ entry ∨ s < y := by
            intro y hy
            rcases (hmemT y).mp hy with h | ⟨g, hg, h | h⟩
            · exact h2 y (List.mem_filter.mp h).1
            · rw [h]; exact Or.inr (hgs ti hti g hg).1.1
            · exact ((hgs ti hti g hg).2 y h).1
          obtain ⟨b1, b2, b3, b4, b5⟩ := ih (fun t ht' => hmem t (List.mem_cons_of_mem _ ht')) (_, ins ti acc.2) a1 a2 a3
          refine ⟨b1, b2, b3, ?_, ?_⟩
          · intro y hy hne
            exact b4 y ((hmemT y).mpr (Or.inl (List.mem_filter.mpr ⟨hy, by simpa using hne⟩))) hne
          · intro t ht' g hg
            rcases List.mem_cons.mp ht' with h | h
            · subst h
              refine ⟨b4 g ((hmemT g).mpr (Or.inr ⟨g, hg, Or.inl rfl⟩)) (hgs t hti g hg).1.2, ?_⟩
              intro a ha'
              exact b4 a ((hmemT a).mpr (Or.inr ⟨g, hg, Or.inr ha'⟩)) ((hgs t hti g hg).2 a ha').2
            · exact b5 t h g hg
      obtain ⟨r1, r2, r3, _, r5⟩ := key (Large.st c s).trans (fun _ h => h) (entry, ts) hasc (fun y hy _ => hy) (fun y hy => Or.inl hy)
      refine ⟨r1, r2, (fun h => by rw [hps] at h; cases h), r3, ?_⟩
      unfold PostF
      rw [ht]
      refine ⟨(fun h => by cases h), (fun h => by cases h), fun _ ti hti g hg => ?_⟩
      obtain ⟨m1, m2⟩ := r5 ti hti g hg
      exact ⟨List.mem_cons_of_mem _ m1, fun a ha => List.mem_cons_of_mem _ (m2 a ha)⟩
  · -- compound
    rename_i ht
    split
    · -- the default completion is added, each member with its ancestors
      have hmem := mem_foldl_insAll (fun k => Large.ancs c k) (Large.st c s).completion (insAll (Large.st c s).completion entry)
      have hasc' : Asc ((Large.st c s).completion.foldl (fun en k => insAll (Large.ancs c k) en) (insAll (Large.st c s).completion entry)) :=
        asc_foldl_ancs c _ _ (asc_insAll _ _ hasc)
      refine ⟨hasc', ?_, ?_, ?_, ?_⟩
      · intro y hy _
        exact (hmem y).mpr (Or.inl ((mem_insAll _ _ y).mpr (Or.inr hy)))
      · intro _
        exact (hmem s).mpr (Or.inl ((mem_insAll _ _ s).mpr (Or.inr hs)))
      · intro y hy
        rcases (hmem y).mp hy with h | ⟨k, hkc, hyk⟩
        · rcases (mem_insAll _ _ y).mp h with h1 | h1
          · exact Or.inr (hd.complGt s y h1).1
          · exact Or.inl h1
        · rcases ancs_split c hc k k (Nat.le_refl _) s (hd.complGt s k hkc).2 y hyk with h1 | h1 | h1
          · exact Or.inr (anc_lt' c hc y s h1)
          · exact Or.inl (by rw [h1]; exact hs)
          · exact Or.inl (hanc y h1)
      · unfold PostF
        rw [ht]
        refine ⟨(fun h => by cases h), fun _ => ?_, (fun h => by cases h)⟩
        have hne := hd.compNonempty s ht
        cases hcm : (Large.st c s).completion with
        | nil => exact absurd hcm hne
        | cons k rest =>
          have hkc : k ∈ (Large.st c s).completion := by rw [hcm]; exact List.mem_cons_self
          refine Or.inl ⟨k, List.mem_cons_of_mem _ ?_, (hd.complGt s k hkc).2⟩
          rw [← hcm]
          exact (hmem k).mpr (Or.inl ((mem_insAll _ _ k).mpr (Or.inl hkc)))
    · rename_i hcond
      refine same ?_
      unfold PostF
      rw [ht]
      refine ⟨(fun h => by cases h), fun _ => ?_, (fun h => by cases h)⟩
      simp only [Bool.and_eq_true, Bool.not_eq_eq_eq_not, Bool.not_true, Bool.or_eq_true, not_and, not_or] at hcond
      cases h1 : inter entry (Fast.descendants c s) with
      | true =>
        obtain ⟨y, hy, hyd⟩ := inter_true h1
        exact Or.inl ⟨y, List.mem_cons_of_mem _ hy, ((mem_descendants c s y).mp hyd).2⟩
      | false =>
        have h2 := hcond h1
        have hcfg : inter e.config (Fast.descendants c s) = true := by
          cases h3 : inter e.config (Fast.descendants c s) with
          | true => rfl
          | false => exact absurd h3 h2.1
        have hex : inter exitS (Fast.descendants c s) = false := by
          cases h3 : inter exitS (Fast.descendants c s) with
          | false => rfl
          | true => exact absurd h3 h2.2
        obtain ⟨y, hy, hyd⟩ := inter_true hcfg
        refine Or.inr ⟨⟨y, hy, ((mem_descendants c s y).mp hyd).2⟩, ?_⟩
        intro z hz hsz
        have hzlt : z < c.states.size := by
          by_cases h : z < c.states.size
          · exact h
          · rw [ancs_oor c z h] at hsz; cases hsz
        exact inter_false hex z hz ((mem_descendants c s z).mpr ⟨hzlt, hsz⟩)

/-! ## the loop -/

theorem head_filter_min (l : List Nat) (p : Nat → Bool) (x : Nat) (ha : Asc l) (h : (l.filter p).head? = some x) :
    x ∈ l ∧ p x = true ∧ ∀ y ∈ l, p y = true → x ≤ y := by
  have hx : x ∈ l.filter p := List.mem_of_mem_head? h
  obtain ⟨hxl, hpx⟩ := List.mem_filter.mp hx
  refine ⟨hxl, hpx, ?_⟩
  intro y hy hpy
  have hfa : Asc (l.filter p) := List.Pairwise.filter _ ha
  obtain ⟨t, ht⟩ := List.head?_eq_some_iff.mp h
  have hy' : y ∈ l.filter p := List.mem_filter.mpr ⟨hy, hpy⟩
  rw [ht] at hy' hfa
  unfold Asc at hfa
  rw [List.pairwise_cons] at hfa
  rcases List.mem_cons.mp hy' with h1 | h1
  · omega
  · have := hfa.1 y h1; omega

/-- the invariant of the walk, over the ghost set `G` (entry set plus the dropped `<initial>` elements) -/
structure LInv (c : Chart) (e : EState) (exitS : List Nat) (G entry : List Nat) (oi : Option Nat) : Prop where
  inv : Inv c entry
  asc : Asc entry
  sub : ∀ y ∈ entry, y ∈ G
  rest : ∀ y ∈ G, y ∈ entry ∨ (Large.st c y).typ.isPseudo = true
  ancG : ∀ y ∈ G, ∀ a ∈ Large.ancs c y, a ∈ G
  cur : ∀ i, oi = some i → i ∈ entry
  rem : ∀ i, oi = some i → ∀ y ∈ G, y ∉ entry → y < i
  vis : ∀ y ∈ G, (∀ i, oi = some i → y < i) → PostF c e exitS G y

theorem fast_descLoop_post (c : Chart) (hc : Coh c) (hk : EOK c) (hd : DOK c) (e : EState) (exitS : List Nat) :
    ∀ (fuel : Nat) (oi : Option Nat) (entry ts G : List Nat), LInv c e exitS G entry oi →
      (∀ i, oi = some i → c.states.size + 1 ≤ fuel + i) →
      ∃ G', (∀ y ∈ G, y ∈ G') ∧ Inv c (Fast.descLoop c e exitS fuel oi entry ts).1 ∧
        (∀ y ∈ (Fast.descLoop c e exitS fuel oi entry ts).1, y ∈ G') ∧
        (∀ y ∈ G', y ∈ (Fast.descLoop c e exitS fuel oi entry ts).1 ∨ (Large.st c y).typ.isPseudo = true) ∧
        (∀ y ∈ G', ∀ a ∈ Large.ancs c y, a ∈ G') ∧ ∀ y ∈ G', PostF c e exitS G' y := by
  intro fuel
  induction fuel with
  | zero =>
    intro oi entry ts G h hf
    cases oi with
    | none =>
      unfold Fast.descLoop
      exact ⟨G, fun _ hy => hy, h.inv, h.sub, h.rest, h.ancG, fun y hy => h.vis y hy (fun i hi => by cases hi)⟩
    | some i =>
      exfalso
      have := hf i rfl
      have := h.inv.2 i (h.cur i rfl)
      omega
  | succ f ih =>
    intro oi entry ts G h hf
    cases oi with
    | none =>
      unfold Fast.descLoop
      exact ⟨G, fun _ hy => hy, h.inv, h.sub, h.rest, h.ancG, fun y hy => h.vis y hy (fun i hi => by cases hi)⟩
    | some i =>
      unfold Fast.descLoop
      simp only
      have hie := h.cur i rfl
      have hv := fast_descVisit_step c hc hk hd e exitS i entry ts hie h.inv h.asc
      have hinv' := fast_descVisit_inv c hc hk e exitS i entry ts hie h.inv
      -- the next ghost set
      have hL : LInv c e exitS (G ++ (Fast.descVisit c e exitS i entry ts).1) (Fast.descVisit c e exitS i entry ts).1
          (((Fast.descVisit c e exitS i entry ts).1.filter (· > i)).head?) := by
        refine ⟨hinv', hv.asc, fun y hy => List.mem_append.mpr (Or.inr hy), ?_, ?_, ?_, ?_, ?_⟩
        · intro y hy
          rcases List.mem_append.mp hy with h1 | h1
          · rcases h.rest y h1 with h2 | h2
            · by_cases hyi : y = i
              · cases hps : (Large.st c y).typ.isPseudo with
                | true => exact Or.inr rfl
                | false => exact Or.inl (by rw [hyi]; exact hv.keepS (by rw [← hyi]; exact hps))
              · exact Or.inl (hv.keep y h2 hyi)
            · exact Or.inr h2
          · exact Or.inl h1
        · intro y hy a ha
          rcases List.mem_append.mp hy with h1 | h1
          · exact List.mem_append.mpr (Or.inl (h.ancG y h1 a ha))
          · exact List.mem_append.mpr (Or.inr (closed_ancs c hc _ hinv'.1 y y (Nat.le_refl _) h1 a ha))
        · intro i' hi'
          exact (head_filter_min _ _ i' hv.asc hi').1
        · intro i' hi' y hy hny
          have hmin := head_filter_min _ _ i' hv.asc hi'
          have hii' : i < i' := by simpa using hmin.2.1
          rcases List.mem_append.mp hy with h1 | h1
          · by_cases hye : y ∈ entry
            · by_cases hyi : y = i
              · omega
              · exact absurd (hv.keep y hye hyi) hny
            · have := h.rem i rfl y h1 hye; omega
          · exact absurd h1 hny
        · intro y hy hlt
          have hGsub : ∀ z ∈ G, z ∈ G ++ (Fast.descVisit c e exitS i entry ts).1 := fun z hz => List.mem_append.mpr (Or.inl hz)
          by_cases hyi : y < i
          · -- visited before: y is old
            have hyG : y ∈ G := by
              rcases List.mem_append.mp hy with h1 | h1
              · exact h1
              · rcases hv.newGt y h1 with h2 | h2
                · exact h.sub y h2
                · omega
            exact postF_mono c e exitS G _ hGsub y (h.vis y hyG (fun i0 hi0 => by cases hi0; exact hyi))
          · by_cases hyeq : y = i
            · subst hyeq
              refine postF_mono c e exitS _ _ ?_ y hv.post
              intro z hz
              rcases List.mem_cons.mp hz with h1 | h1
              · rw [h1]; exact List.mem_append.mpr (Or.inl (h.sub y hie))
              · exact List.mem_append.mpr (Or.inr h1)
            · -- y > i: it would be the next one or later
              exfalso
              have hygt : i < y := by omega
              by_cases hye' : y ∈ (Fast.descVisit c e exitS i entry ts).1
              · cases hnext : ((Fast.descVisit c e exitS i entry ts).1.filter (· > i)).head? with
                | none =>
                  have : y ∈ (Fast.descVisit c e exitS i entry ts).1.filter (· > i) := List.mem_filter.mpr ⟨hye', by simpa using hygt⟩
                  rw [List.head?_eq_none_iff] at hnext
                  rw [hnext] at this; cases this
                | some i' =>
                  have hmin := head_filter_min _ _ i' hv.asc hnext
                  have := hmin.2.2 y hye' (by simpa using hygt)
                  have := hlt i' hnext
                  omega
              · -- not in the entry set any more: a dropped element, hence visited earlier
                have hyG : y ∈ G := by
                  rcases List.mem_append.mp hy with h1 | h1
                  · exact h1
                  · exact absurd h1 hye'
                by_cases hye : y ∈ entry
                · exact hye' (hv.keep y hye hyeq)
                · have := h.rem i rfl y hyG hye; omega
      have hf' : ∀ i', ((Fast.descVisit c e exitS i entry ts).1.filter (· > i)).head? = some i' → c.states.size + 1 ≤ f + i' := by
        intro i' hi'
        have hmin := head_filter_min _ _ i' hv.asc hi'
        have hii' : i < i' := by simpa using hmin.2.1
        have := hf i rfl
        omega
      obtain ⟨G', g1, g2, g3, g4, g5, g6⟩ := ih _ _ (Fast.descVisit c e exitS i entry ts).2 _ hL hf'
      exact ⟨G', fun y hy => g1 y (List.mem_append.mpr (Or.inl hy)), g2, g3, g4, g5, g6⟩

/-! ## the configuration after a micro-step of FastMicroStep -/

def entryOfF (c : Chart) (e : EState) (t xs ts : List Nat) : List Nat :=
  (Fast.descLoop c e (xs.filter (fun s => mem s e.config)) (2 * c.states.size + 2)
    (t.foldl (fun en g => insAll (Large.ancs c g) en) t).head? (t.foldl (fun en g => insAll (Large.ancs c g) en) t) ts).1

theorem fast_microstep_config_entry (c : Chart) (e : EState) (t xs ts : List Nat) (o : List (Nat × Nat)) (x : Nat) :
    x ∈ (Fast.microstep c e t xs ts o).config ↔
      (x ∈ e.config ∧ x ∉ xs) ∨ (x ∈ entryOfF c e t xs ts ∧ (st c x).typ.isPseudo = false) := by
  unfold Fast.microstep entryOfF
  simp only
  split
  all_goals (
    simp only [fast_enterFold_config, transFold_config, fast_exitFold_config, List.mem_reverse, List.mem_filter, mem]
    constructor
    · rintro (⟨h1, h2⟩ | h)
      · refine Or.inl ⟨h1, fun hx => h2 ⟨hx, ?_⟩⟩
        exact List.contains_iff_mem.mpr h1
      · exact Or.inr h
    · rintro (⟨h1, h2⟩ | h)
      · exact Or.inl ⟨h1, fun hx => h2 hx.1⟩
      · exact Or.inr h)

/-- the entry set of FastMicroStep and its ghost set -/
theorem entryOfF_facts (c : Chart) (hc : Coh c) (hk : EOK c) (hd : DOK c) (e : EState) (t xs ts : List Nat)
    (ht : ∀ g ∈ t, g < c.states.size) (hta : Asc t) :
    ∃ G, (∀ g ∈ t, g ∈ G ∧ ∀ a ∈ Large.ancs c g, a ∈ G) ∧ (∀ y ∈ entryOfF c e t xs ts, y ∈ G) ∧
      (∀ y ∈ G, y ∈ entryOfF c e t xs ts ∨ (Large.st c y).typ.isPseudo = true) ∧
      (∀ y ∈ G, ∀ a ∈ Large.ancs c y, a ∈ G) ∧
      ∀ y ∈ G, PostF c e (xs.filter (fun s => mem s e.config)) G y := by
  have h0 := entry0_inv c hc t ht
  have ha0 := asc_foldl_ancs c t t hta
  have hL : LInv c e (xs.filter (fun s => mem s e.config)) (t.foldl (fun en g => insAll (Large.ancs c g) en) t)
      (t.foldl (fun en g => insAll (Large.ancs c g) en) t) (t.foldl (fun en g => insAll (Large.ancs c g) en) t).head? := by
    refine ⟨h0, ha0, fun _ h => h, fun _ h => Or.inl h, ?_, fun i hi => List.mem_of_mem_head? hi, fun i _ y hy hny => absurd hy hny, ?_⟩
    · intro y hy a ha
      exact closed_ancs c hc _ h0.1 y y (Nat.le_refl _) hy a ha
    · intro y hy hlt
      exfalso
      cases hh : (t.foldl (fun en g => insAll (Large.ancs c g) en) t).head? with
      | none =>
        rw [List.head?_eq_none_iff] at hh
        rw [hh] at hy; cases hy
      | some i =>
        have hyi := hlt i hh
        obtain ⟨tl, htl⟩ := List.head?_eq_some_iff.mp hh
        rw [htl] at hy ha0
        unfold Asc at ha0
        rw [List.pairwise_cons] at ha0
        rcases List.mem_cons.mp hy with h1 | h1
        · omega
        · have := ha0.1 y h1; omega
  obtain ⟨G', g1, _, g3, g4, g5, g6⟩ := fast_descLoop_post c hc hk hd e (xs.filter (fun s => mem s e.config))
    (2 * c.states.size + 2) _ _ ts _ hL (fun i _ => by omega)
  refine ⟨G', ?_, g3, g4, g5, g6⟩
  intro g hg
  have hmem := mem_foldl_insAll (fun g => Large.ancs c g) t t
  exact ⟨g1 g ((hmem g).mpr (Or.inl hg)), fun a ha => g1 a ((hmem a).mpr (Or.inr ⟨g, hg, ha⟩))⟩

theorem fast_microstep_down (c : Chart) (hc : Coh c) (hk : EOK c) (hd : DOK c) (e : EState) (t xs ts : List Nat)
    (o : List (Nat × Nat)) (ht : ∀ g ∈ t, g < c.states.size) (hta : Asc t)
    (hok : EOk c e) (hpc : ParentClosed c e.config) (hdown : DownClosed c e.config)
    (hx : ExitRespects c e.config t (xs.filter (fun s => mem s e.config))) :
    DownClosed c (Fast.microstep c e t xs ts o).config := by
  obtain ⟨G, htg, hsub, hrest, hancG, hpost⟩ := entryOfF_facts c hc hk hd e t xs ts ht hta
  have hmem := fast_microstep_config_entry c e t xs ts o
  -- non-pseudo members of the ghost set are entered (or active already)
  have hin : ∀ y ∈ G, (Large.st c y).typ.isPseudo = false → y ∈ (Fast.microstep c e t xs ts o).config := by
    intro y hy hps
    rw [hmem]
    rcases hrest y hy with h | h
    · exact Or.inr ⟨h, hps⟩
    · rw [hps] at h; cases h
  intro s hs
  by_cases hsG : s ∈ G
  · have hp := hpost s hsG
    refine ⟨fun htp k hkc => hin k (hp.1 htp k hkc) (hd.parProper s htp k hkc), fun htc => ?_⟩
    -- from a member of the ghost set below s to a real child of s
    have fromG : ∀ y ∈ G, s ∈ Large.ancs c y → ∃ ch ∈ (Large.st c s).children, (Large.st c ch).typ.isPseudo = false ∧
        ch ∈ (Fast.microstep c e t xs ts o).config := by
      intro y hy hsy
      obtain ⟨ch, hpar, hlt, hor⟩ := child_on_chain c hc y y (Nat.le_refl _) s hsy
      have hchG : ch ∈ G := by
        rcases hor with h | h
        · rw [h]; exact hy
        · exact hancG y hy ch h
      have hchc := hd.childrenAll ch s hlt hpar
      cases hps : (Large.st c ch).typ.isPseudo with
      | false => exact ⟨ch, hchc, hps, hin ch hchG hps⟩
      | true =>
        have hti : (Large.st c ch).typ = .initial := by
          have hnh := hk.noHist ch
          have key : ∀ ty : Typ, ty.isPseudo = true → ty.isHistory = false → ty = .initial := by
            intro ty; cases ty <;> simp [Typ.isPseudo, Typ.isHistory]
          exact key _ hps hnh
        obtain ⟨ti, htim, g, hg⟩ := hd.initHas ch hti
        obtain ⟨hgG, haG⟩ := (hpost ch hchG).2.2 hti ti htim g hg
        obtain ⟨_, hgp, hparg⟩ := hd.initT ch hti ti htim g hg
        obtain ⟨ch', hp', hlt', hor'⟩ := child_on_chain c hc g g (Nat.le_refl _) s (hparg s hpar)
        have hch'G : ch' ∈ G := by
          rcases hor' with h | h
          · rw [h]; exact hgG
          · exact haG ch' h
        have hch'p : (Large.st c ch').typ.isPseudo = false := by
          rcases hor' with h | h
          · rw [h]; exact hgp
          · exact ancs_not_pseudo c hc hk g g (Nat.le_refl _) ch' h
        exact ⟨ch', hd.childrenAll ch' s hlt' hp', hch'p, hin ch' hch'G hch'p⟩
    rcases hp.2.1 htc with ⟨y, hy, hsy⟩ | ⟨⟨y, hy, hsy⟩, hnox⟩
    · exact fromG y hy hsy
    · -- an active descendant, nothing below s is exited: the child on the way to it stays
      obtain ⟨ch, hpar, hlt, hor⟩ := child_on_chain c hc y y (Nat.le_refl _) s hsy
      have hchc : ch ∈ e.config := by
        rcases hor with h | h
        · rw [h]; exact hy
        · exact closed_ancs c hc e.config hpc y y (Nat.le_refl _) hy ch h
      have hnx : ch ∉ xs := by
        intro hcx
        have : ch ∈ xs.filter (fun s => mem s e.config) := List.mem_filter.mpr ⟨hcx, by simpa [mem] using hchc⟩
        exact hnox ch this (parent_mem_ancs c hc ch s hpar)
      exact ⟨ch, hd.childrenAll ch s hlt hpar, hok.2 ch hchc, by rw [hmem]; exact Or.inl ⟨hchc, hnx⟩⟩
  · have hsc : s ∈ e.config ∧ s ∉ xs := by
      rw [hmem] at hs
      rcases hs with h | ⟨h, _⟩
      · exact h
      · exact absurd (hsub s h) hsG
    have hsnx : s ∉ xs.filter (fun s => mem s e.config) := fun h => hsc.2 (List.mem_filter.mp h).1
    obtain ⟨hdp, hdc⟩ := hdown s hsc.1
    refine ⟨fun htp k hkc => ?_, fun htc => ?_⟩
    · rw [hmem]
      by_cases hkx : k ∈ xs
      · have hkc' := hdp htp k hkc
        have : k ∈ xs.filter (fun s => mem s e.config) := List.mem_filter.mpr ⟨hkx, by simpa [mem] using hkc'⟩
        exact absurd htp (hx k this s (hk.parCompl s htp k hkc) hsc.1 hsnx).1
      · exact Or.inl ⟨hdp htp k hkc, hkx⟩
    · obtain ⟨ch, hch, hps, hcc⟩ := hdc htc
      by_cases hcx : ch ∈ xs
      · exfalso
        have : ch ∈ xs.filter (fun s => mem s e.config) := List.mem_filter.mpr ⟨hcx, by simpa [mem] using hcc⟩
        obtain ⟨_, g, hg, hsg⟩ := hx ch this s (hk.children s ch hch) hsc.1 hsnx
        exact hsG ((htg g hg).2 s hsg)
      · exact ⟨ch, hch, hps, by rw [hmem]; exact Or.inl ⟨hcc, hcx⟩⟩

end UscxmlVerif.Proofs.DownFast
