import UscxmlVerif.Proofs.DownRun
/-!
# The decidable form of `DOK`
-/
namespace UscxmlVerif.Proofs.DownOk
open UscxmlVerif UscxmlVerif.Model UscxmlVerif.Model.Large UscxmlVerif.Proofs.Struct UscxmlVerif.Proofs.EntryClosed
  UscxmlVerif.Proofs.CfgInv UscxmlVerif.Proofs.Down

/-- what the completion half relies on, per state (decidable) -/
def stateOk (c : Chart) (s : Nat) : Bool :=
  (Large.st c s).completion.all (fun k => decide (s < k) && (Large.ancs c k).contains s) &&
  ((Large.st c s).typ != .initial ||
    ((Large.st c s).trans.all (fun ti => (Large.tr c ti).targets.all (fun g =>
        decide (s < g) && !(Large.st c g).typ.isPseudo &&
        (match (Large.st c s).parent with | some p => (Large.ancs c g).contains p | none => true))) &&
     (match (Large.st c s).parent with
      | some p => (List.range c.states.size).all (fun y => !(Large.ancs c y).contains p || y == s || decide (s < y))
      | none => true) &&
     (Large.st c s).trans.any (fun ti => !(Large.tr c ti).targets.isEmpty))) &&
  (match (Large.st c s).parent with | some p => (Large.st c p).children.contains s | none => true) &&
  ((Large.st c s).typ != .parallel ||
    ((Large.st c s).children.all (fun ch => (Large.st c ch).typ.isPseudo || (Large.st c s).completion.contains ch) &&
     (Large.st c s).completion.all (fun k => !(Large.st c k).typ.isPseudo) && (Large.st c s).kind == .parallel)) &&
  ((Large.st c s).typ != .compound || !(Large.st c s).completion.isEmpty)

def DownOk (c : Chart) : Bool :=
  (List.range c.states.size).all (stateOk c) && decide ((Large.st c 0).completion.Pairwise (· < ·)) && (Large.st c 0).typ == .compound

theorem ancs_oor (c : Chart) (y : Nat) (h : ¬ y < c.states.size) : Large.ancs c y = [] := by
  have e : Large.ancs c y = Large.ancestors c c.states.size y := rfl
  rw [e]
  cases hn : c.states.size with
  | zero => rfl
  | succ m =>
    unfold Large.ancestors
    rw [st_oor c y h]
    rfl

theorem dok_of_downOk {c : Chart} (h : DownOk c = true) : DOK c := by
  unfold DownOk at h
  simp only [Bool.and_eq_true, List.all_eq_true, List.mem_range, decide_eq_true_eq, beq_iff_eq] at h
  obtain ⟨⟨hall, hasc⟩, hroot⟩ := h
  have hd : ∀ s, ¬ s < c.states.size → Large.st c s = default := fun s hs => st_oor c s hs
  have dcompl : (default : St).completion = [] := rfl
  have dtrans : (default : St).trans = [] := rfl
  have dtyp : (default : St).typ = .atomic := rfl
  have dpar : (default : St).parent = none := rfl
  have dch : (default : St).children = [] := rfl
  -- the per-state facts, unpacked
  have ok : ∀ s, s < c.states.size → stateOk c s = true := hall
  refine ⟨?_, ?_, ?_, ?_, ?_, ?_, ?_, ?_, hasc, ?_, hroot⟩
  · -- complGt
    intro s k hk
    by_cases hs : s < c.states.size
    · have := ok s hs
      unfold stateOk at this
      simp only [Bool.and_eq_true, List.all_eq_true, decide_eq_true_eq] at this
      have h1 := this.1.1.1.1 k hk
      exact ⟨h1.1, List.contains_iff_mem.mp h1.2⟩
    · rw [hd s hs, dcompl] at hk; cases hk
  · -- initT
    intro s ht ti hti g hg
    by_cases hs : s < c.states.size
    · have := ok s hs
      unfold stateOk at this
      simp only [Bool.and_eq_true, Bool.or_eq_true, bne_iff_ne, ne_eq, List.all_eq_true, decide_eq_true_eq,
        Bool.not_eq_eq_eq_not, Bool.not_true] at this
      rcases this.1.1.1.2 with h1 | h1
      · exact absurd ht h1
      · have h2 := h1.1.1 ti hti g hg
        refine ⟨h2.1.1, h2.1.2, ?_⟩
        intro p hp
        have h3 := h2.2
        rw [hp] at h3
        exact List.contains_iff_mem.mp h3
    · rw [hd s hs, dtyp] at ht; cases ht
  · -- initFirst
    intro s p ht hp y hy hys
    by_cases hs : s < c.states.size
    · by_cases hylt : y < c.states.size
      · have := ok s hs
        unfold stateOk at this
        simp only [Bool.and_eq_true, Bool.or_eq_true, bne_iff_ne, ne_eq, List.all_eq_true, decide_eq_true_eq,
          Bool.not_eq_eq_eq_not, Bool.not_true] at this
        rcases this.1.1.1.2 with h1 | h1
        · exact absurd ht h1
        · have h2 := h1.1.2
          rw [hp] at h2
          simp only [List.all_eq_true, List.mem_range, Bool.or_eq_true, Bool.not_eq_eq_eq_not, Bool.not_true,
            beq_iff_eq, decide_eq_true_eq] at h2
          rcases h2 y hylt with (h3 | h3) | h3
          · have := List.contains_iff_mem.mpr hy
            rw [this] at h3; cases h3
          · exact absurd h3 hys
          · exact h3
      · rw [ancs_oor c y hylt] at hy; cases hy
    · rw [hd s hs, dtyp] at ht; cases ht
  · -- initHas
    intro s ht
    by_cases hs : s < c.states.size
    · have := ok s hs
      unfold stateOk at this
      simp only [Bool.and_eq_true, Bool.or_eq_true, bne_iff_ne, ne_eq, List.any_eq_true,
        Bool.not_eq_eq_eq_not, Bool.not_true] at this
      rcases this.1.1.1.2 with h1 | h1
      · exact absurd ht h1
      · obtain ⟨ti, hti, hne⟩ := h1.2
        refine ⟨ti, hti, ?_⟩
        cases htg : (Large.tr c ti).targets with
        | nil => rw [htg] at hne; simp at hne
        | cons g rest => exact ⟨g, List.mem_cons_self⟩
    · rw [hd s hs, dtyp] at ht; cases ht
  · -- childrenAll
    intro ch s hch hp
    have := ok ch hch
    unfold stateOk at this
    simp only [Bool.and_eq_true] at this
    have h1 := this.1.1.2
    rw [hp] at h1
    exact List.contains_iff_mem.mp h1
  · -- parAll
    intro s ht ch hch hps
    by_cases hs : s < c.states.size
    · have := ok s hs
      unfold stateOk at this
      simp only [Bool.and_eq_true, Bool.or_eq_true, bne_iff_ne, ne_eq, List.all_eq_true] at this
      rcases this.1.2 with h1 | h1
      · exact absurd ht h1
      · rcases h1.1.1 ch hch with h2 | h2
        · rw [hps] at h2; cases h2
        · exact List.contains_iff_mem.mp h2
    · rw [hd s hs, dtyp] at ht; cases ht
  · -- compNonempty
    intro s ht
    by_cases hs : s < c.states.size
    · have := ok s hs
      unfold stateOk at this
      simp only [Bool.and_eq_true, Bool.or_eq_true, bne_iff_ne, ne_eq, Bool.not_eq_eq_eq_not, Bool.not_true] at this
      rcases this.2 with h1 | h1
      · exact absurd ht h1
      · intro hnil
        rw [hnil] at h1
        simp at h1
    · rw [hd s hs, dtyp] at ht; cases ht
  · -- parProper
    intro s ht k hk
    by_cases hs : s < c.states.size
    · have := ok s hs
      unfold stateOk at this
      simp only [Bool.and_eq_true, Bool.or_eq_true, bne_iff_ne, ne_eq, List.all_eq_true,
        Bool.not_eq_eq_eq_not, Bool.not_true] at this
      rcases this.1.2 with h1 | h1
      · exact absurd ht h1
      · exact h1.1.2 k hk
    · rw [hd s hs, dtyp] at ht; cases ht
  · -- parKind
    intro s ht
    by_cases hs : s < c.states.size
    · have := ok s hs
      unfold stateOk at this
      simp only [Bool.and_eq_true, Bool.or_eq_true, bne_iff_ne, ne_eq, beq_iff_eq] at this
      rcases this.1.2 with h1 | h1
      · exact absurd ht h1
      · exact h1.2
    · rw [hd s hs, dtyp] at ht; cases ht

end UscxmlVerif.Proofs.DownOk
