import UscxmlVerif.Proofs.DownRunFast
/-!
# At most one active child of a compound state (LargeMicroStep; charts without `<history>` and `<initial>` elements)

`U` = the entry set together with the states that stay active. The invariant `XorU`: no compound state has
two different (non-pseudo) children in `U`. It holds of the targets with their ancestors (conflict-free
selection, legal target sets), every visit of the descendant loop keeps it (a compound state gets its default
completion only while none of its children is in `U`), and the new configuration is part of the final `U`.
-/
namespace UscxmlVerif.Proofs.Xor
open UscxmlVerif UscxmlVerif.Model UscxmlVerif.Model.Large UscxmlVerif.Model.Api UscxmlVerif.Proofs.Struct UscxmlVerif.Proofs.ExitClosed
  UscxmlVerif.Proofs.EntryClosed UscxmlVerif.Proofs.CfgInv UscxmlVerif.Proofs.Select UscxmlVerif.Proofs.Down
  UscxmlVerif.Proofs.SortedIns UscxmlVerif.Proofs.Parents UscxmlVerif.Proofs.ParentsFast

/-- no compound state has two different real children in `U` -/
def XorU (c : Chart) (U : List Nat) : Prop :=
  ∀ a ∈ U, ∀ b ∈ U, ∀ q, (Large.st c a).parent = some q → (Large.st c b).parent = some q → (Large.st c q).typ = .compound →
    (Large.st c a).typ.isPseudo = false → (Large.st c b).typ.isPseudo = false → a = b

/-- the chain from a state to the root -/
def chain (c : Chart) (k : Nat) : List Nat := k :: Large.ancs c k

/-- two states whose chains split only at parallel states -/
def Compatible (c : Chart) (k1 k2 : Nat) : Prop :=
  ∀ a ∈ chain c k1, ∀ b ∈ chain c k2, ∀ q, (Large.st c a).parent = some q → (Large.st c b).parent = some q →
    (Large.st c q).typ = .compound → a = b

/-- chart conditions of this file (decidable form below): no `<initial>` elements; the members of every completion and the
targets of every transition are pairwise compatible -/
structure XOK (c : Chart) : Prop where
  noInit : ∀ s, (Large.st c s).typ ≠ .initial
  legalCompl : ∀ v, ∀ k1 ∈ (Large.st c v).completion, ∀ k2 ∈ (Large.st c v).completion, Compatible c k1 k2
  legalTargets : ∀ i, ∀ g1 ∈ (Large.tr c i).targets, ∀ g2 ∈ (Large.tr c i).targets, Compatible c g1 g2
  transSrc : ∀ s, ∀ ti ∈ (Large.st c s).trans, (Large.tr c ti).source = s

/-- the states that stay active through the micro-step -/
def stayOf (e : EState) (exitS : List Nat) : List Nat := e.config.filter (fun x => !exitS.contains x)

theorem mem_stayOf (e : EState) (exitS : List Nat) (x : Nat) : x ∈ stayOf e exitS ↔ x ∈ e.config ∧ x ∉ exitS := by
  unfold stayOf
  simp [List.mem_filter]

/-- a visit of the descendant loop keeps the invariant -/
theorem descVisit_xor (c : Chart) (hc : Coh c) (hk : EOK c) (hd : DOK c) (hx : XOK c) (e : EState) (exitS : List Nat) (s : Nat)
    (entry ts : List Nat) (hs : s ∈ entry) (hinv : Inv c entry) (hstayC : Closed c (stayOf e exitS))
    (hstayR : ∀ x ∈ stayOf e exitS, x < c.states.size)
    (h : XorU c (entry ++ stayOf e exitS)) : XorU c ((descVisit c e exitS s entry ts).1 ++ stayOf e exitS) := by
  have hanc : ∀ a ∈ Large.ancs c s, a ∈ entry := closed_ancs c hc entry hinv.1 s s (Nat.le_refl _) hs
  unfold descVisit
  simp only
  split
  · exact h
  · exact h
  · -- parallel: the new members are children of a parallel state
    rename_i ht
    intro a ha b hb q hpa hpb hq hna hnb
    have hold : ∀ x, x ∈ insAll (Large.st c s).completion entry ++ stayOf e exitS →
        x ∈ entry ++ stayOf e exitS ∨ (Large.st c x).parent = some s := by
      intro x hx'
      rcases List.mem_append.mp hx' with h1 | h1
      · rcases (mem_insAll _ _ x).mp h1 with h2 | h2
        · exact Or.inr (hk.parCompl s ht x h2)
        · exact Or.inl (List.mem_append.mpr (Or.inl h2))
      · exact Or.inl (List.mem_append.mpr (Or.inr h1))
    rcases hold a ha with h1 | h1
    · rcases hold b hb with h2 | h2
      · exact h a h1 b h2 q hpa hpb hq hna hnb
      · rw [h2] at hpb
        simp only [Option.some.injEq] at hpb
        rw [← hpb, ht] at hq; cases hq
    · rw [h1] at hpa
      simp only [Option.some.injEq] at hpa
      rw [← hpa, ht] at hq; cases hq
  · rename_i ht
    have := hk.noHist s
    rw [ht] at this; cases this
  · rename_i ht
    have := hk.noHist s
    rw [ht] at this; cases this
  · rename_i ht
    exact absurd ht (hx.noInit s)
  · -- compound
    rename_i ht
    split
    · exact h
    · rename_i hcond
      -- nothing of s's children is in U
      have hnone : ∀ ch, (Large.st c ch).parent = some s → ch < c.states.size → ch ∉ entry ++ stayOf e exitS := by
        intro ch hp hlt hmem
        have hchc := hd.childrenAll ch s hlt hp
        have hany : (Large.st c s).children.any (fun ch => mem ch entry || (!mem ch exitS && mem ch e.config)) = true := by
          rw [List.any_eq_true]
          refine ⟨ch, hchc, ?_⟩
          rcases List.mem_append.mp hmem with h1 | h1
          · simp only [mem, Bool.or_eq_true, Bool.and_eq_true, Bool.not_eq_eq_eq_not, Bool.not_true]
            exact Or.inl (List.contains_iff_mem.mpr h1)
          · obtain ⟨h2, h3⟩ := (mem_stayOf e exitS ch).mp h1
            have h4 : exitS.contains ch = false := by
              cases hh : exitS.contains ch with
              | false => rfl
              | true => exact absurd (List.contains_iff_mem.mp hh) h3
            simp only [mem, Bool.or_eq_true, Bool.and_eq_true, Bool.not_eq_eq_eq_not, Bool.not_true]
            exact Or.inr ⟨h4, List.contains_iff_mem.mpr h2⟩
        exact hcond hany
      -- U is closed under parents, so nothing below s is in U either
      have hUclosed : Closed c (entry ++ stayOf e exitS) := by
        intro x hx' p hp
        rcases List.mem_append.mp hx' with h1 | h1
        · exact List.mem_append.mpr (Or.inl (hinv.1 x h1 p hp))
        · exact List.mem_append.mpr (Or.inr (hstayC x h1 p hp))
      have hUrange : ∀ x ∈ entry ++ stayOf e exitS, x < c.states.size := by
        intro x hx'
        rcases List.mem_append.mp hx' with h1 | h1
        · exact hinv.2 x h1
        · exact hstayR x h1
      have hbelow : ∀ x ∈ entry ++ stayOf e exitS, s ∉ Large.ancs c x := by
        intro x hxU hsx
        obtain ⟨ch, hp, hlt, hor⟩ := child_on_chain c hc x x (Nat.le_refl _) s hsx
        have : ch ∈ entry ++ stayOf e exitS := by
          rcases hor with h1 | h1
          · rw [h1]; exact hxU
          · exact closed_ancs c hc _ hUclosed x x (Nat.le_refl _) hxU ch h1
        exact hnone ch hp hlt this
      -- what is new lies below s, on the chain to a member of the completion
      have hmemE := mem_foldl_cond (fun k => (Large.st c s).children.contains k) (fun k => Large.ancs c k) (Large.st c s).completion
        (insAll (Large.st c s).completion entry)
      have hnew : ∀ x, x ∈ (Large.st c s).completion.foldl (fun en k =>
            if (Large.st c s).children.contains k then en else insAll (Large.ancs c k) en) (insAll (Large.st c s).completion entry) ++ stayOf e exitS →
          x ∈ entry ++ stayOf e exitS ∨ (s ∈ Large.ancs c x ∧ ∃ k ∈ (Large.st c s).completion, x ∈ chain c k) := by
        intro x hx'
        rcases List.mem_append.mp hx' with h1 | h1
        · rcases (hmemE x).mp h1 with h2 | ⟨k, hkc, _, hxk⟩
          · rcases (mem_insAll _ _ x).mp h2 with h3 | h3
            · exact Or.inr ⟨(hd.complGt s x h3).2, x, h3, List.mem_cons_self⟩
            · exact Or.inl (List.mem_append.mpr (Or.inl h3))
          · rcases ancs_split c hc k k (Nat.le_refl _) s (hd.complGt s k hkc).2 x hxk with h3 | h3 | h3
            · exact Or.inr ⟨h3, k, hkc, List.mem_cons_of_mem _ hxk⟩
            · exact Or.inl (List.mem_append.mpr (Or.inl (by rw [h3]; exact hs)))
            · exact Or.inl (List.mem_append.mpr (Or.inl (hanc x h3)))
        · exact Or.inl (List.mem_append.mpr (Or.inr h1))
      intro a ha b hb q hpa hpb hq hna hnb
      rcases hnew a ha with h1 | ⟨hsa, k1, hk1, hak1⟩
      · rcases hnew b hb with h2 | ⟨hsb, k2, hk2, hbk2⟩
        · exact h a h1 b h2 q hpa hpb hq hna hnb
        · -- b new, a old: a's parent q is s or below s - impossible, nothing at or below s's children is in U
          exfalso
          have hq' := parent_mem_ancs c hc b q hpb
          have : q = s ∨ s ∈ Large.ancs c q := by
            by_cases hblt : b < c.states.size
            · by_cases hb0 : b = 0
              · rw [hb0] at hpb
                have : Large.st c 0 = T.st c 0 := rfl
                rw [this, hc.rootParent] at hpb; cases hpb
              · obtain ⟨p, hp, _, hcons⟩ := Proofs.Subtree.ancs_cons c hc b hb0 hblt
                have e1 : Large.st c b = T.st c b := rfl
                rw [e1, hp] at hpb
                simp only [Option.some.injEq] at hpb
                subst hpb
                rw [ancs_eq, hcons] at hsb
                rcases List.mem_cons.mp hsb with h3 | h3
                · exact Or.inl h3.symm
                · exact Or.inr (by rw [ancs_eq]; exact h3)
            · rw [st_oor c b hblt] at hpb; cases hpb
          rcases this with h3 | h3
          · subst h3
            exact hnone a hpa (hUrange a h1) h1
          · exact hbelow a h1 (by
              -- s is above q, q is a's parent
              have := closed_insAll_ancs c hc a [] (by intro x hx'; cases hx')
              exact (ancs_closed c hc a a (Nat.le_refl _)) |> fun _ => by
                -- ancs a = q :: ancs q
                by_cases halt : a < c.states.size
                · by_cases ha0 : a = 0
                  · rw [ha0] at hpa
                    have : Large.st c 0 = T.st c 0 := rfl
                    rw [this, hc.rootParent] at hpa; cases hpa
                  · obtain ⟨p, hp, _, hcons⟩ := Proofs.Subtree.ancs_cons c hc a ha0 halt
                    have e1 : Large.st c a = T.st c a := rfl
                    rw [e1, hp] at hpa
                    simp only [Option.some.injEq] at hpa
                    subst hpa
                    rw [ancs_eq, hcons]
                    exact List.mem_cons_of_mem _ (by rw [← ancs_eq]; exact h3)
                · rw [st_oor c a halt] at hpa; cases hpa)
      · rcases hnew b hb with h2 | ⟨hsb, k2, hk2, hbk2⟩
        · -- a new, b old: symmetric
          exfalso
          have : q = s ∨ s ∈ Large.ancs c q := by
            by_cases halt : a < c.states.size
            · by_cases ha0 : a = 0
              · rw [ha0] at hpa
                have : Large.st c 0 = T.st c 0 := rfl
                rw [this, hc.rootParent] at hpa; cases hpa
              · obtain ⟨p, hp, _, hcons⟩ := Proofs.Subtree.ancs_cons c hc a ha0 halt
                have e1 : Large.st c a = T.st c a := rfl
                rw [e1, hp] at hpa
                simp only [Option.some.injEq] at hpa
                subst hpa
                rw [ancs_eq, hcons] at hsa
                rcases List.mem_cons.mp hsa with h3 | h3
                · exact Or.inl h3.symm
                · exact Or.inr (by rw [ancs_eq]; exact h3)
            · rw [st_oor c a halt] at hpa; cases hpa
          rcases this with h3 | h3
          · subst h3
            exact hnone b hpb (hUrange b h2) h2
          · refine hbelow b h2 ?_
            by_cases hblt : b < c.states.size
            · by_cases hb0 : b = 0
              · rw [hb0] at hpb
                have : Large.st c 0 = T.st c 0 := rfl
                rw [this, hc.rootParent] at hpb; cases hpb
              · obtain ⟨p, hp, _, hcons⟩ := Proofs.Subtree.ancs_cons c hc b hb0 hblt
                have e1 : Large.st c b = T.st c b := rfl
                rw [e1, hp] at hpb
                simp only [Option.some.injEq] at hpb
                subst hpb
                rw [ancs_eq, hcons]
                exact List.mem_cons_of_mem _ (by rw [← ancs_eq]; exact h3)
            · rw [st_oor c b hblt] at hpb; cases hpb
        · -- both new: on the chains to two members of the completion
          exact hx.legalCompl s k1 hk1 k2 hk2 a hak1 b hbk2 q hpa hpb hq

theorem descLoop_xor (c : Chart) (hc : Coh c) (hk : EOK c) (hd : DOK c) (hx : XOK c) (e : EState) (exitS : List Nat)
    (hstayC : Closed c (stayOf e exitS)) (hstayR : ∀ x ∈ stayOf e exitS, x < c.states.size) :
    ∀ (fuel i : Nat) (entry ts : List Nat), Inv c entry → XorU c (entry ++ stayOf e exitS) →
      XorU c ((descLoop c e exitS fuel i entry ts).1 ++ stayOf e exitS) := by
  intro fuel
  induction fuel with
  | zero => intro i entry ts _ h; exact h
  | succ f ih =>
    intro i entry ts hinv h
    unfold descLoop
    split
    · exact h
    · rename_i s hs
      have hsm := List.mem_of_getElem? hs
      exact ih (i + 1) _ _ (descVisit_inv c hc hk e exitS s entry ts hsm hinv)
        (descVisit_xor c hc hk hd hx e exitS s entry ts hsm hinv hstayC hstayR h)

end UscxmlVerif.Proofs.Xor
