import UscxmlVerif.Model.Json
/-!
# `Data::fromJSON` never reads outside its token array and never pops an empty stack

`Model.Json.fromJSON` returns `.oob` wherever the C++ would index `t[]` beyond the allocated
`numTokens + 1` entries or call `back()` / `pop_back()` on an empty vector. This file proves that no
input reaches such a point.

Parser side (`jsmnParse`): the tokens handed out are exactly `toknext` many and every token ends
at or before the end of the text. Builder side (`build`): the data stack is one longer than the
token stack at the head of the loop, the token stack holds containers only, and its bottom entry
is the first token, which `fromJSON` has checked to span the whole text - so leaving finished
containers (`popWhile`) never empties it.
-/
namespace UscxmlVerif.Proofs.JsonBounds
open UscxmlVerif UscxmlVerif.Model.Json

/-! ## parser -/

theorem at0_lt (js : Bytes) (i : Nat) (h : at0 js i ≠ 0) : i < js.length := by
  unfold at0 at h
  by_cases hlt : i < js.length
  · exact hlt
  · exfalso
    apply h
    simp [List.getD, List.getElem?_eq_none (by omega : js.length ≤ i)]

theorem primScan_le (js : Bytes) : ∀ (fuel pos q : Nat), pos ≤ js.length → primScan js fuel pos = some q → q ≤ js.length := by
  intro fuel
  induction fuel with
  | zero => intro pos q hp h; simp only [primScan, Option.some.injEq] at h; omega
  | succ f ih =>
    intro pos q hp h
    unfold primScan at h
    simp only at h
    split at h
    · simp only [Option.some.injEq] at h; omega
    · split at h
      · simp only [Option.some.injEq] at h; omega
      · split at h
        · cases h
        · rename_i hb _ _
          have : at0 js pos ≠ 0 := by
            intro h0; apply hb; rw [h0]; rfl
          have := at0_lt js pos this
          exact ih (pos + 1) q (by omega) h

theorem strScan_lt (js : Bytes) : ∀ (fuel pos q : Nat), strScan js fuel pos = .ok q → q < js.length := by
  intro fuel
  induction fuel with
  | zero => intro pos q h; simp [strScan] at h
  | succ f ih =>
    intro pos q h
    unfold strScan at h
    simp only at h
    split at h
    · cases h
    · split at h
      · rename_i hq
        simp only [Except.ok.injEq] at h
        subst h
        apply at0_lt
        intro h0
        rw [h0] at hq
        cases hq
      · split at h
        · split at h
          · exact ih _ q h
          · cases h
        · exact ih _ q h

theorem cast (n : Nat) : Int.ofNat n = (n : Int) := rfl

/-- what the builder needs to know about the parser's result: `k` tokens were handed out, at most `n`, each ending at or
before the end of the text -/
structure PI (js : Bytes) (n : Nat) (toks : List Tok) (k : Nat) : Prop where
  len : toks.length = k
  stop : ∀ t ∈ toks, t.stop ≤ Int.ofNat js.length
  cap : k ≤ n

abbrev PInv (js : Bytes) (n : Nat) (p : Parser) : Prop := PI js n p.toks p.toknext

theorem setTok_length (toks : List Tok) (i : Nat) (f : Tok → Tok) : (setTok toks i f).length = toks.length := by
  simp [setTok]

theorem mem_setTok (toks : List Tok) (i : Nat) (f : Tok → Tok) (t : Tok) (h : t ∈ setTok toks i f) :
    t ∈ toks ∨ ∃ u ∈ toks, t = f u := by
  unfold setTok at h
  rw [List.mem_mapIdx] at h
  obtain ⟨j, hj, rfl⟩ := h
  split
  · exact Or.inr ⟨toks[j], List.getElem_mem hj, rfl⟩
  · exact Or.inl (List.getElem_mem hj)

theorem pi_setTok (js : Bytes) (n : Nat) (toks : List Tok) (k i : Nat) (f : Tok → Tok) (h : PI js n toks k)
    (hf : ∀ u ∈ toks, (f u).stop ≤ Int.ofNat js.length) : PI js n (setTok toks i f) k := by
  refine ⟨by rw [setTok_length]; exact h.len, ?_, h.cap⟩
  intro t ht
  rcases mem_setTok _ _ _ _ ht with h1 | ⟨u, hu, rfl⟩
  · exact h.stop t h1
  · exact hf u hu

theorem pi_bumpSuper (js : Bytes) (n : Nat) (p : Parser) (k : Nat) (h : PI js n p.toks k) : PI js n (bumpSuper p).toks k := by
  unfold bumpSuper
  split
  · exact pi_setTok js n p.toks k _ _ h (fun u hu => h.stop u hu)
  · exact h

theorem bumpSuper_toknext (p : Parser) : (bumpSuper p).toknext = p.toknext := by
  unfold bumpSuper
  split <;> rfl

theorem pinv_bumpSuper (js : Bytes) (n : Nat) (p : Parser) (h : PInv js n p) : PI js n (bumpSuper p).toks (bumpSuper p).toknext := by
  rw [bumpSuper_toknext]
  exact pi_bumpSuper js n p p.toknext h

theorem pi_allocFill (js : Bytes) (p p' : Parser) (n : Nat) (ty : TType) (a b : Int) (h : PInv js n p)
    (hb : b ≤ Int.ofNat js.length) (ha : allocFill p n ty a b = some p') : PInv js n p' := by
  unfold allocFill at ha
  split at ha
  · cases ha
  · rename_i hfull
    simp only [Option.some.injEq] at ha
    subst ha
    refine ⟨by simp [h.len], ?_, by simp only; omega⟩
    intro t ht
    simp only [List.mem_append, List.mem_singleton] at ht
    rcases ht with ht | ht
    · exact h.stop t ht
    · subst ht; exact hb

theorem pinv_parseLoop (js : Bytes) (n : Nat) : ∀ (fuel : Nat) (p p' : Parser), PInv js n p →
    parseLoop js n fuel p = .ok p' → PInv js n p' := by
  intro fuel
  induction fuel with
  | zero => intro p p' h hp; simp only [parseLoop, Except.ok.injEq] at hp; subst hp; exact h
  | succ f ih =>
    intro p p' h hp
    unfold parseLoop at hp
    simp only at hp
    split at hp
    · simp only [Except.ok.injEq] at hp; subst hp; exact h
    · rename_i hc0
      have hpos : p.pos < js.length := at0_lt js p.pos (by intro h0; apply hc0; rw [h0]; rfl)
      split at hp
      · -- `{` or `[`
        split at hp
        · cases hp
        · rename_i p1 ha
          have h1 : PInv js n p1 := pi_allocFill js p p1 n _ _ _ h (by simp only [cast]; omega) ha
          refine ih _ p' ?_ hp
          exact pi_bumpSuper js n { p1 with toksuper := p.toksuper } p1.toknext h1
      · split at hp
        · -- `}` or `]`
          repeat' split at hp
          all_goals first
            | cases hp
            | (refine ih _ p' ?_ hp
               exact pi_setTok js n p.toks p.toknext _ _ h (fun u _ => by simp only [cast]; omega))
        · split at hp
          · -- string
            split at hp
            · cases hp
            · rename_i q hq
              have hql := strScan_lt js _ _ q hq
              split at hp
              · cases hp
              · rename_i p1 ha
                have h1 : PInv js n p1 := pi_allocFill js p p1 n _ _ _ h (by simp only [cast]; omega) ha
                refine ih _ p' ?_ hp
                exact pinv_bumpSuper js n p1 h1
          · split at hp
            · refine ih _ p' ?_ hp
              exact ⟨h.len, h.stop, h.cap⟩
            · -- primitive
              split at hp
              · cases hp
              · rename_i q hq
                have hql := primScan_le js _ _ q (by omega) hq
                split at hp
                · cases hp
                · rename_i p1 ha
                  have h1 : PInv js n p1 := pi_allocFill js p p1 n _ _ _ h (by simp only [cast]; omega) ha
                  refine ih _ p' ?_ hp
                  exact pinv_bumpSuper js n p1 h1

theorem pinv_jsmnParse (js : Bytes) (n : Nat) (p : Parser) (h : jsmnParse js n = .ok p) : PInv js n p := by
  unfold jsmnParse at h
  split at h
  · cases h
  · rename_i p0 hp0
    split at h
    · cases h
    · simp only [Except.ok.injEq] at h
      subst h
      exact pinv_parseLoop js n _ {} p0 ⟨rfl, (by intro t ht; exact absurd ht List.not_mem_nil), Nat.zero_le _⟩ hp0

theorem pinv_budgetParse (js : Bytes) : ∀ (fracs : List Nat) (p : Parser) (n : Nat), budgetParse js fracs = .ok (p, n) →
    PInv js n p ∧ n ≤ js.length := by
  intro fracs
  induction fracs with
  | nil => intro p n h; simp [budgetParse] at h
  | cons frac rest ih =>
    intro p n h
    unfold budgetParse at h
    simp only at h
    split at h
    · split at h
      · cases h
      · exact ih p n h
    · cases h
    · rename_i p0 hp0
      simp only [Except.ok.injEq, Prod.mk.injEq] at h
      obtain ⟨h1, h2⟩ := h
      subst h1
      subst h2
      exact ⟨pinv_jsmnParse js _ p0 hp0, Nat.div_le_self _ _⟩

/-! ## builder -/

theorem tokAt_some (p : Parser) (n i : Nat) (hl : p.toks.length = p.toknext) (hi : i < p.toknext) :
    ∃ t, tokAt p n i = some t ∧ t ∈ p.toks ∧ p.toks[i]? = some t := by
  unfold tokAt
  rw [if_pos hi]
  have : i < p.toks.length := by omega
  exact ⟨p.toks[i], by simp [this], List.getElem_mem this, by simp [this]⟩

def isContainer (t : Tok) : Prop := t.type = .object ∨ t.type = .array

/-- the token stack: containers only, the bottom one spanning the whole text -/
structure TSInv (len : Int) (ts : List Tok) : Prop where
  cont : ∀ t ∈ ts, isContainer t
  bottom : ∀ t, ts.getLast? = some t → t.stop = len

theorem popWhile_ok (len : Int) (stop : Int) (hstop : stop ≤ len) : ∀ (fuel : Nat) (ts : List Tok) (ds : List (List Step)),
    ts ≠ [] → ts.length < fuel → ds.length = ts.length → TSInv len ts →
    ∃ ts' ds', popWhile stop fuel ts ds = some (ts', ds') ∧ ts' ≠ [] ∧ ds'.length = ts'.length ∧ TSInv len ts' := by
  intro fuel
  induction fuel with
  | zero => intro ts ds _ h; omega
  | succ f ih =>
    intro ts ds hne hf hl hinv
    cases ts with
    | nil => exact absurd rfl hne
    | cons top ts' =>
      unfold popWhile
      simp only
      by_cases hgt : stop > top.stop
      · rw [if_pos hgt]
        cases ds with
        | nil => simp at hl
        | cons d ds' =>
          simp only
          have hne' : ts' ≠ [] := by
            intro he
            subst he
            have := hinv.bottom top rfl
            omega
          refine ih ts' ds' hne' (by simp only [List.length_cons] at hf; omega) (by simpa using hl) ⟨?_, ?_⟩
          · intro t ht; exact hinv.cont t (List.mem_cons_of_mem _ ht)
          · intro t ht
            apply hinv.bottom t
            rw [List.getLast?_cons_of_ne_nil hne']
            exact ht
      · rw [if_neg hgt]
        exact ⟨top :: ts', ds, rfl, hne, hl, hinv⟩

/-- the invariant at the head of the loop -/
structure BInv (js : Bytes) (p : Parser) (b : BState) : Prop where
  cur : b.currTok ≤ p.toknext
  lens : b.dataStack.length = b.tokenStack.length + 1
  ts : TSInv (Int.ofNat js.length) b.tokenStack
  start : b.tokenStack = [] → b.currTok = 0

theorem getLast?_cons_cons {α} (a b : α) (l : List α) : (a :: b :: l).getLast? = (b :: l).getLast? := by
  simp [List.getLast?_cons_cons]

/-- after the switch: both stacks have the same length, the token stack keeps its invariant -/
theorem stepA_ok (js : Bytes) (p : Parser) (t : Tok) (b : BState) (hb : BInv js p b)
    (ht0 : b.currTok = 0 → t.stop = Int.ofNat js.length) :
    ∃ b', stepA js t b = some b' ∧ b'.currTok = b.currTok + 1 ∧ b'.dataStack.length = b'.tokenStack.length ∧
      TSInv (Int.ofNat js.length) b'.tokenStack := by
  unfold stepA
  cases htype : t.type with
  | string =>
    simp only
    cases hds : b.dataStack with
    | nil => have := hb.lens; rw [hds] at this; simp at this
    | cons top ds =>
      refine ⟨_, rfl, rfl, ?_, hb.ts⟩
      have := hb.lens; rw [hds] at this
      simp only [List.length_cons] at this
      simp only; omega
  | primitive =>
    simp only
    cases hds : b.dataStack with
    | nil => have := hb.lens; rw [hds] at this; simp at this
    | cons top ds =>
      refine ⟨_, rfl, rfl, ?_, hb.ts⟩
      have := hb.lens; rw [hds] at this
      simp only [List.length_cons] at this
      simp only; omega
  | object =>
    refine ⟨_, rfl, rfl, by simp only [List.length_cons]; exact hb.lens, ?_, ?_⟩
    · intro u hu
      rcases List.mem_cons.mp hu with hu | hu
      · subst hu; exact Or.inl htype
      · exact hb.ts.cont u hu
    · intro u hu
      cases hts : b.tokenStack with
      | nil =>
        rw [hts] at hu
        simp only [List.getLast?_singleton, Option.some.injEq] at hu
        subst hu
        exact ht0 (hb.start hts)
      | cons x xs =>
        rw [hts, getLast?_cons_cons] at hu
        apply hb.ts.bottom u
        rw [hts]; exact hu
  | array =>
    refine ⟨_, rfl, rfl, by simp only [List.length_cons]; exact hb.lens, ?_, ?_⟩
    · intro u hu
      rcases List.mem_cons.mp hu with hu | hu
      · subst hu; exact Or.inr htype
      · exact hb.ts.cont u hu
    · intro u hu
      cases hts : b.tokenStack with
      | nil =>
        rw [hts] at hu
        simp only [List.getLast?_singleton, Option.some.injEq] at hu
        subst hu
        exact ht0 (hb.start hts)
      | cons x xs =>
        rw [hts, getLast?_cons_cons] at hu
        apply hb.ts.bottom u
        rw [hts]; exact hu

/-- the second half of the loop body re-establishes the invariant of the loop head -/
theorem stepB_ok (js : Bytes) (p : Parser) (t : Tok) (b : BState) (hcur : b.currTok < p.toknext)
    (hne : b.tokenStack ≠ []) (hl : b.dataStack.length = b.tokenStack.length) (hts : TSInv (Int.ofNat js.length) b.tokenStack)
    (hstop : t.stop ≤ Int.ofNat js.length) :
    ∃ b', stepB js t b = some b' ∧ BInv js p b' ∧ b.currTok ≤ b'.currTok := by
  unfold stepB
  obtain ⟨ts', ds', hpop, hne', hl', hts'⟩ := popWhile_ok (Int.ofNat js.length) t.stop hstop (b.tokenStack.length + 1)
    b.tokenStack b.dataStack hne (by omega) hl hts
  rw [hpop]
  simp only
  cases ts' with
  | nil => exact absurd rfl hne'
  | cons top tsr =>
    cases ds' with
    | nil => simp at hl'
    | cons dtop dsr =>
      simp only
      have hcont := hts'.cont top (List.mem_cons_self)
      have hlen : (dtop :: dsr).length = (top :: tsr).length := hl'
      by_cases hobj : top.type = .object
      · -- the enclosing container is an object: a slot is pushed, nothing more
        have harr : (top.type == TType.array) = false := by rw [hobj]; rfl
        have hobjb : (top.type == TType.object) = true := by rw [hobj]; rfl
        by_cases hkey : (t.type == .primitive || t.type == .string) = true
        · simp only [hobjb, hkey, Bool.not_true, Bool.and_false, Bool.false_eq_true, ↓reduceIte, harr]
          refine ⟨_, rfl, ⟨by simp only; omega, ?_, hts', ?_⟩, by simp only; omega⟩
          · simp only [List.length_cons] at hlen ⊢; omega
          · intro h; cases h
        · have hkey' : (t.type == .primitive || t.type == .string) = false := by
            cases h : (t.type == .primitive || t.type == .string)
            · rfl
            · exact absurd h hkey
          simp only [hobjb, hkey', Bool.not_false, Bool.and_self, ↓reduceIte, harr, Bool.false_eq_true]
          refine ⟨_, rfl, ⟨by simp only; omega, ?_, hts', ?_⟩, by simp only; omega⟩
          · simp only [List.length_cons] at hlen ⊢; omega
          · intro h; cases h
      · -- it is an array: an element is appended and its slot pushed
        have harr : top.type = .array := by
          rcases hcont with h | h
          · exact absurd h hobj
          · exact h
        have hobjb : (top.type == TType.object) = false := by rw [harr]; rfl
        have harrb : (top.type == TType.array) = true := by rw [harr]; rfl
        simp only [hobjb, Bool.false_and, Bool.false_eq_true, ↓reduceIte, harrb]
        refine ⟨_, rfl, ⟨by simp only; omega, ?_, hts', ?_⟩, by simp only; omega⟩
        · simp only [List.length_cons] at hlen ⊢; omega
        · intro h; cases h

theorem build_no_oob (js : Bytes) (p : Parser) (n : Nat) (hp : PInv js n p)
    (h0 : ∀ t0, p.toks[0]? = some t0 → t0.stop = Int.ofNat js.length) :
    ∀ (fuel : Nat) (b : BState), BInv js p b → p.toknext + 1 ≤ fuel + b.currTok → build js p n fuel b ≠ .oob := by
  intro fuel
  induction fuel with
  | zero => intro b hb hf; have := hb.cur; omega
  | succ f ih =>
    intro b hb hf
    unfold build
    by_cases hdone : b.currTok ≥ p.toknext
    · rw [if_pos hdone]; intro h; cases h
    · rw [if_neg hdone]
      obtain ⟨t, htok, _, hidx⟩ := tokAt_some p n b.currTok hp.len (by omega)
      rw [htok]
      simp only
      obtain ⟨b1, hA, hc1, hl1, hts1⟩ := stepA_ok js p t b hb (by intro hz; rw [hz] at hidx; exact h0 t hidx)
      rw [hA]
      simp only
      by_cases hend : (b1.currTok ≥ p.toknext || b1.tokenStack.isEmpty) = true
      · rw [if_pos hend]; intro h; cases h
      · rw [if_neg hend]
        simp only [Bool.or_eq_true, decide_eq_true_eq, not_or, List.isEmpty_iff] at hend
        obtain ⟨t2, htok2, hmem2, _⟩ := tokAt_some p n b1.currTok hp.len (by omega)
        rw [htok2]
        simp only
        obtain ⟨b2, hB, hinv2, hc2⟩ := stepB_ok js p t2 b1 (by omega) hend.2 hl1 hts1 (hp.stop t2 hmem2)
        rw [hB]
        simp only
        exact ih b2 hinv2 (by omega)

/-- **no out-of-bounds access**: for every byte string, `Data::fromJSON` (as modelled, with checked indices) returns a
value, "not JSON" or an error - it never reaches a read outside the token array or a pop of an empty stack -/
theorem fromJSON_no_oob (input : Bytes) : ∀ r, fromJSON input = r → r ≠ .oob := by
  intro r hr
  subst hr
  unfold fromJSON
  simp only
  split
  · intro h; cases h
  · split
    · intro h; cases h
    · split
      · intro h; cases h
      · rename_i p n hbp
        obtain ⟨hp, hn⟩ := pinv_budgetParse (trim input) _ p n hbp
        split
        · intro h; cases h
        · rename_i t0 ht0
          split
          · intro h; cases h
          · rename_i hstop
            have hstop' : t0.stop = Int.ofNat (trim input).length := by
              by_cases h : t0.stop = Int.ofNat (trim input).length
              · exact h
              · exfalso; apply hstop; simpa using h
            apply build_no_oob (trim input) p n hp
            · intro u hu
              have : p.toks.head? = p.toks[0]? := by cases p.toks <;> rfl
              rw [this, hu] at ht0
              simp only [Option.some.injEq] at ht0
              subst ht0; exact hstop'
            · exact ⟨Nat.zero_le _, rfl, ⟨(by intro t ht; exact absurd ht List.not_mem_nil), (by intro t ht; cases ht)⟩, fun _ => rfl⟩
            · -- the fuel `2 * length + 4` covers `toknext + 1` iterations
              have h1 : p.toknext ≤ (trim input).length := Nat.le_trans hp.cap hn
              show p.toknext + 1 ≤ 2 * (trim input).length + 4 + 0
              omega

end UscxmlVerif.Proofs.JsonBounds
