import UscxmlVerif.Proofs.Select
import UscxmlVerif.Proofs.Struct
import UscxmlVerif.Properties.C05
/-!
# The engines' exit intervals are Appendix D's exit sets

LargeMicroStep and FastMicroStep represent the exit set of a transition as the document-order
interval after its domain (`Large.exitSet`) and decide conflicts by interval overlap. Under the
decidable numbering condition `IntervalOK` (the descendants of a state are exactly the interval
after it - what pre-order numbering gives; evaluated on every generated chart by the driver
command `coherent`) and `Coherent`, the interval *is* the set of descendants of the domain, the
domain is Appendix D's, and therefore two transitions whose intervals do not overlap have disjoint
exit sets in the sense of Appendix D, in every configuration.
-/
namespace UscxmlVerif.Proofs.Interval
open UscxmlVerif UscxmlVerif.Model UscxmlVerif.Model.Large UscxmlVerif.Proofs.Struct UscxmlVerif.Proofs.Select

/-- the interval of numbers after `d` up to the next state that is not below it -/
def ival (c : Chart) (d : Nat) : Nat × Nat :=
  match nextStateAfter c c.states.size d with
  | some sib => (d + 1, sib - 1)
  | none => (d + 1, c.states.size - 1)

/-- pre-order numbering: the proper descendants of every state are exactly the interval after it -/
def IntervalOK (c : Chart) : Bool :=
  (List.range c.states.size).all fun d => !(Large.st c d).kind.isProper || (List.range c.states.size).all fun s =>
    hasAnc c s d == (decide ((ival c d).1 ≤ s) && decide (s ≤ (ival c d).2))

theorem intervalOK_spec {c : Chart} (h : IntervalOK c = true) {d s : Nat} (hd : d < c.states.size) (hs : s < c.states.size)
    (hp : (Large.st c d).kind.isProper = true) :
    hasAnc c s d = true ↔ (ival c d).1 ≤ s ∧ s ≤ (ival c d).2 := by
  unfold IntervalOK at h
  rw [List.all_eq_true] at h
  have h1 := h d (List.mem_range.mpr hd)
  rw [hp] at h1
  simp only [Bool.not_true, Bool.false_or] at h1
  rw [List.all_eq_true] at h1
  have h2 := h1 s (List.mem_range.mpr hs)
  rw [beq_iff_eq] at h2
  rw [h2]
  simp

theorem large_anc_eq (c : Chart) (f s : Nat) : Large.ancestors c f s = T.ancestors c f s := by
  induction f generalizing s with
  | zero => rfl
  | succ f ih =>
    unfold Large.ancestors Model.Tables.ancestors
    have : Large.st c s = T.st c s := rfl
    rw [this]
    cases (T.st c s).parent with
    | some p => simp only; rw [ih]
    | none => rfl

theorem hasAnc_eq (c : Chart) (s a : Nat) : hasAnc c s a = T.isDescendant c s a := by
  unfold hasAnc Large.ancs Model.Tables.isDescendant Model.Tables.ancs
  rw [large_anc_eq]

theorem typ_compound_eq (c : Chart) (h : Coh c) (a : Nat) (hlt : a < c.states.size) :
    ((Large.st c a).typ == .compound) = T.isCompound c a := by
  have ht := h.typ a hlt
  have hfin := h.finalLeaf a hlt
  have hst : Large.st c a = T.st c a := rfl
  rw [hst, ht]
  unfold Model.Tables.isCompound
  have hp : T.isProper c a = (T.st c a).kind.isProper := rfl
  rw [hp]
  generalize (T.st c a).children.any (T.isProper c) = b at hfin ⊢
  cases hkind : (T.st c a).kind <;> cases b <;> first | rfl | (have := hfin hkind; cases this)

/-- the engine's transition domain is the transpilers' (and so Appendix D's, `Struct.domain_eq`) -/
theorem large_domain_eq (c : Chart) (h : Coh c) (t : Tr) (p : PlainTrans c t) : Large.domain c t = T.transitionDomain c t := by
  have hs0 := src_ne_root c h t p
  unfold Large.domain Model.Tables.transitionDomain
  have hsrc : T.sourceState c t = t.source := by
    unfold Model.Tables.sourceState
    rcases p.srcKind with hk | hk <;> rw [hk] <;> rfl
  simp only
  rw [hsrc]
  by_cases he : t.targets.isEmpty = true
  · rw [if_pos he, if_pos he]
  · rw [if_neg he, if_neg he]
    rw [typ_compound_eq c h t.source p.srcRange]
    have hall : (t.targets.all fun g => hasAnc c g t.source) = (t.targets.all fun g => T.isDescendant c g t.source) := by
      apply all_congr'
      intro g _
      rw [hasAnc_eq]
    rw [hall]
    split
    · rfl
    · -- the search over the ancestors
      obtain ⟨l, hl, hallp⟩ := ancs_shape c h t.source hs0 p.srcRange
      unfold Model.Tables.findLCCA
      simp only
      rw [properAncestors_all c h t.source hs0 p.srcRange]
      have hancs : Large.ancs c t.source = T.ancs c t.source := by
        unfold Large.ancs Model.Tables.ancs
        rw [large_anc_eq]
      rw [hancs]
      have hmem : ∀ a ∈ T.ancs c t.source, T.isDescendant c t.source a = true := fun a ha => desc_of_mem_ancs c t.source a ha
      have hpred : (T.ancs c t.source).find? (fun a => (Large.st c a).typ == .compound && t.targets.all (fun g => hasAnc c g a)) =
          (T.ancs c t.source).find? (fun a => T.isCompound c a && (t.source :: t.targets).all (fun s => T.isDescendant c s a)) := by
        apply find_congr
        intro a ha
        have halt : a < c.states.size := by
          rw [hl] at ha
          rcases List.mem_append.mp ha with ha | ha
          · exact (hallp a ha).2.1
          · simp only [List.mem_singleton] at ha; subst ha; have := p.srcRange; omega
        rw [typ_compound_eq c h a halt]
        simp only [List.all_cons, hmem a ha, Bool.true_and]
        congr 1
        apply all_congr'
        intro g _
        rw [hasAnc_eq]
      rw [hpred]
      cases hf : (T.ancs c t.source).find? (fun a => T.isCompound c a && (t.source :: t.targets).all (fun s => T.isDescendant c s a)) with
      | some a => rfl
      | none =>
        simp only
        rw [hl]
        simp

/-- intervals that do not overlap (in the engines' sense) share no number -/
theorem no_common_of_not_overlaps (e1 e2 : Nat × Nat) (h : overlaps e1 e2 = false) (h1 : e1.1 ≠ 0) (h2 : e2.1 ≠ 0) (s : Nat)
    (hs1 : e1.1 ≤ s ∧ s ≤ e1.2) (hs2 : e2.1 ≤ s ∧ s ≤ e2.2) : False := by
  unfold overlaps at h
  have h1' : (e1.1 != 0) = true := by simpa using h1
  have h2' : (e2.1 != 0) = true := by simpa using h2
  rw [h1', h2'] at h
  simp only [Bool.true_and, Bool.or_eq_false_iff, Bool.and_eq_false_iff, decide_eq_false_iff_not] at h
  omega

/-- a state in the static exit set of a plain transition lies in the engine's exit interval of that transition -/
theorem mem_exitSet_interval (c : Chart) (hc : Coh c) (hi : IntervalOK c = true) (t : Tr) (p : PlainTrans c t) (s : Nat)
    (hs : s ∈ T.exitSet c t) : (Large.exitSet c t).1 ≠ 0 ∧ (Large.exitSet c t).1 ≤ s ∧ s ≤ (Large.exitSet c t).2 := by
  unfold Model.Tables.exitSet at hs
  split at hs
  · cases hs
  · split at hs
    · cases hs
    · rename_i d hd
      simp only [List.mem_filter, List.mem_range] at hs
      obtain ⟨hslt, hdesc⟩ := hs
      simp only [Bool.and_eq_true] at hdesc
      have hdom : Large.domain c t = some d := by rw [large_domain_eq c hc t p]; exact hd
      have hdlt : d < c.states.size ∧ (Large.st c d).kind.isProper = true := by
        -- `s` has `d` among its ancestors, which are states that can have children
        have : d ∈ T.ancs c s := by
          have := hdesc.1
          unfold Model.Tables.isDescendant at this
          simpa using this
        by_cases hs0 : s = 0
        · subst hs0
          unfold Model.Tables.ancs at this
          rw [anc_root_nil c hc] at this
          cases this
        · obtain ⟨l, hl, hall⟩ := ancs_shape c hc s hs0 hslt
          rw [hl] at this
          rcases List.mem_append.mp this with hm | hm
          · refine ⟨(hall d hm).2.1, ?_⟩
            have hk := (hall d hm).2.2
            have hst : Large.st c d = T.st c d := rfl
            rw [hst]
            unfold parentKind at hk
            cases hkind : (T.st c d).kind <;> simp_all [Kind.isProper]
          · simp only [List.mem_singleton] at hm
            subst hm
            refine ⟨by omega, ?_⟩
            have hst : Large.st c 0 = T.st c 0 := rfl
            rw [hst, hc.rootKind]; rfl
      have hanc : hasAnc c s d = true := by rw [hasAnc_eq]; exact hdesc.1
      have hiv := (intervalOK_spec hi hdlt.1 hslt hdlt.2).mp hanc
      have hex : Large.exitSet c t = ival c d := by
        unfold Large.exitSet ival
        rw [hdom]
        rfl
      rw [hex]
      refine ⟨?_, hiv.1, hiv.2⟩
      unfold ival
      split <;> simp

/-- **two transitions whose exit intervals do not overlap have disjoint exit sets in Appendix D's sense, in every configuration** -/
theorem disjoint_of_not_overlaps (c : Chart) (hc : Coherent c = true) (hi : IntervalOK c = true) (S : Spec.W3C.SState)
    (hcfg : ConfigOk c S.config) (i j : Nat)
    (pi : Properties.C05.plainTrans c (T.tr c i) = true) (pj : Properties.C05.plainTrans c (T.tr c j) = true)
    (hno : overlaps (Large.exitSet c (Large.tr c i)) (Large.exitSet c (Large.tr c j)) = false) (s : Nat)
    (h1 : s ∈ Spec.W3C.exitSetOf c S i) (h2 : s ∈ Spec.W3C.exitSetOf c S j) : False := by
  have hcoh := coh_of_coherent hc
  have e1 := ((Properties.C05.exit_set_is_w3c c hc S i pi hcfg s).mp h1).2
  have e2 := ((Properties.C05.exit_set_is_w3c c hc S j pj hcfg s).mp h2).2
  have m1 := mem_exitSet_interval c hcoh hi (T.tr c i) (Properties.C05.plain_of_plainTrans pi).1 s e1
  have m2 := mem_exitSet_interval c hcoh hi (T.tr c j) (Properties.C05.plain_of_plainTrans pj).1 s e2
  have ht : ∀ k, Large.tr c k = T.tr c k := fun _ => rfl
  rw [ht, ht] at hno
  exact no_common_of_not_overlaps _ _ hno m1.1 m2.1 s m1.2 m2.2

end UscxmlVerif.Proofs.Interval
