import UscxmlVerif.Proofs.Struct
/-!
# `flatten` of a well-formed document is a coherent chart

`Coherent` (the hypothesis of the structural theorems of C01/C03/C05) is a theorem for every
chart that `flatten` builds from a document tree whose root is `<scxml>`, in which only
`<scxml>`, `<state>` and `<parallel>` elements have state-like children and no child is an
`<scxml>` element (`WFDoc`, decidable on the tree). The pre-order numbering lemma behind it:
the parent number stored with a node is smaller than the node's own number and names the node
whose child it is.
-/
namespace UscxmlVerif.Proofs.Flatten
open UscxmlVerif UscxmlVerif.Proofs.Struct

mutual
/-- only scxml / state / parallel elements have state-like children; no child is an scxml element -/
def WFDoc : Doc → Bool
  | .node k _ _ _ _ _ cs => (cs.isEmpty || parentKind k) && kidsOk cs
def kidsOk : List Doc → Bool
  | [] => true
  | c :: cs => c.kind != .scxml && WFDoc c && kidsOk cs
end

theorem kidsOk_mem : ∀ (cs : List Doc) (x : Doc), kidsOk cs = true → x ∈ cs → x.kind ≠ .scxml ∧ WFDoc x = true := by
  intro cs
  induction cs with
  | nil => intro x _ hx; cases hx
  | cons c cs ih =>
    intro x h hx
    unfold kidsOk at h
    simp only [Bool.and_eq_true, bne_iff_ne, ne_eq] at h
    rcases List.mem_cons.mp hx with hx | hx
    · subst hx; exact ⟨h.1.1, h.1.2⟩
    · exact ih x h.2 hx

theorem wf_children (d : Doc) (h : WFDoc d = true) :
    (d.children ≠ [] → parentKind d.kind = true) ∧ kidsOk d.children = true := by
  cases d with
  | node k i a e x t cs =>
    unfold WFDoc at h
    simp only [Bool.and_eq_true, Bool.or_eq_true, List.isEmpty_iff] at h
    refine ⟨?_, h.2⟩
    intro hne
    rcases h.1 with h1 | h1
    · exact absurd h1 hne
    · exact h1

/-! ## sizes -/

mutual
theorem preorder_length : ∀ (d : Doc) (p : Option Nat) (n : Nat), (d.preorder p n).length = d.size
  | .node _ _ _ _ _ _ cs, p, n => by
    unfold Doc.preorder Doc.size
    simp only [List.length_cons]
    rw [preorderList_length cs (some n) (n + 1)]
    omega
theorem preorderList_length : ∀ (ds : List Doc) (p : Option Nat) (n : Nat), (Doc.preorderList ds p n).length = Doc.sizeList ds
  | [], _, _ => rfl
  | d :: ds, p, n => by
    unfold Doc.preorderList Doc.sizeList
    rw [List.length_append, preorder_length d p n, preorderList_length ds p (n + d.size)]
end

/-! ## the parent numbers -/

/-- what is known of entry `j` of a node list `L` that starts at number `n`: it hangs under an entry of `L` with a smaller number -/
def Inner (L : List (Doc × Option Nat)) (n j : Nat) (sub : Doc) (q : Option Nat) : Prop :=
  ∃ pi, q = some pi ∧ n ≤ pi ∧ pi < n + j ∧ ∃ pd pq, L[pi - n]? = some (pd, pq) ∧ sub ∈ pd.children ∧ j < (pi - n) + pd.size

mutual
theorem preorder_parent : ∀ (d : Doc) (p : Option Nat) (n j : Nat) (sub : Doc) (q : Option Nat),
    (d.preorder p n)[j]? = some (sub, q) →
    (j = 0 ∧ sub = d ∧ q = p) ∨ (0 < j ∧ Inner (d.preorder p n) n j sub q)
  | .node k i a e x t cs, p, n, j, sub, q => by
    intro h
    unfold Doc.preorder at h ⊢
    cases j with
    | zero =>
      simp only [List.getElem?_cons_zero, Option.some.injEq, Prod.mk.injEq] at h
      exact Or.inl ⟨rfl, h.1.symm, h.2.symm⟩
    | succ j' =>
      simp only [List.getElem?_cons_succ] at h
      right
      refine ⟨Nat.succ_pos _, ?_⟩
      have hj'len : j' < Doc.sizeList cs := by
        have := (List.getElem?_eq_some_iff.mp h).1
        rw [preorderList_length] at this
        exact this
      rcases preorderList_parent cs (some n) (n + 1) j' sub q h with ⟨hq, hmem⟩ | ⟨pi, hq, h1, h2, pd, pq, hpd, hsub, hb⟩
      · refine ⟨n, hq, Nat.le_refl _, by omega, Doc.node k i a e x t cs, p, by simp, hmem, ?_⟩
        unfold Doc.size
        omega
      · refine ⟨pi, hq, by omega, by omega, pd, pq, ?_, hsub, by omega⟩
        have : pi - n = (pi - (n + 1)) + 1 := by omega
        rw [this, List.getElem?_cons_succ]
        exact hpd
theorem preorderList_parent : ∀ (ds : List Doc) (p : Option Nat) (n j : Nat) (sub : Doc) (q : Option Nat),
    (Doc.preorderList ds p n)[j]? = some (sub, q) →
    (q = p ∧ sub ∈ ds) ∨ Inner (Doc.preorderList ds p n) n j sub q
  | [], _, _, _, _, _ => by intro h; simp [Doc.preorderList] at h
  | d :: ds, p, n, j, sub, q => by
    intro h
    unfold Doc.preorderList at h ⊢
    have hlen := preorder_length d p n
    by_cases hj : j < d.size
    · rw [List.getElem?_append_left (by omega)] at h
      rcases preorder_parent d p n j sub q h with ⟨_, hs, hq⟩ | ⟨_, pi, hq, h1, h2, pd, pq, hpd, hsub, hb⟩
      · exact Or.inl ⟨hq, by rw [hs]; exact List.mem_cons_self⟩
      · right
        refine ⟨pi, hq, h1, h2, pd, pq, ?_, hsub, hb⟩
        rw [List.getElem?_append_left (by omega)]
        exact hpd
    · rw [List.getElem?_append_right (by omega), hlen] at h
      rcases preorderList_parent ds p (n + d.size) (j - d.size) sub q h with ⟨hq, hmem⟩ | ⟨pi, hq, h1, h2, pd, pq, hpd, hsub, hb⟩
      · exact Or.inl ⟨hq, List.mem_cons_of_mem _ hmem⟩
      · right
        refine ⟨pi, hq, by omega, by omega, pd, pq, ?_, hsub, by omega⟩
        rw [List.getElem?_append_right (by omega), hlen]
        have : pi - n - d.size = pi - (n + d.size) := by omega
        rw [this]
        exact hpd
end

/-! ## every listed node is well formed -/

mutual
theorem preorder_wf : ∀ (d : Doc) (p : Option Nat) (n : Nat), WFDoc d = true → ∀ x ∈ d.preorder p n, WFDoc x.1 = true
  | .node k i a e x t cs, p, n => by
    intro h y hy
    unfold Doc.preorder at hy
    rcases List.mem_cons.mp hy with hy | hy
    · rw [hy]; exact h
    · exact preorderList_wf cs (some n) (n + 1) (wf_children _ h).2 y hy
theorem preorderList_wf : ∀ (ds : List Doc) (p : Option Nat) (n : Nat), kidsOk ds = true → ∀ x ∈ Doc.preorderList ds p n, WFDoc x.1 = true
  | [], _, _ => by intro _ y hy; simp [Doc.preorderList] at hy
  | d :: ds, p, n => by
    intro h y hy
    unfold Doc.preorderList at hy
    unfold kidsOk at h
    simp only [Bool.and_eq_true] at h
    rcases List.mem_append.mp hy with hy | hy
    · exact preorder_wf d p n h.1.2 y hy
    · exact preorderList_wf ds p (n + d.size) h.2 y hy
end

/-- the facts about the node list of a well-formed document that `Coherent` needs -/
theorem nodes_facts (d : Doc) (h : WFDoc d = true) (j : Nat) (sub : Doc) (q : Option Nat)
    (hj : (d.preorder none 0)[j]? = some (sub, q)) :
    (j = 0 ∧ sub = d ∧ q = none) ∨
    (0 < j ∧ sub.kind ≠ .scxml ∧ ∃ pi pd pq, q = some pi ∧ pi < j ∧ (d.preorder none 0)[pi]? = some (pd, pq) ∧
      sub ∈ pd.children ∧ parentKind pd.kind = true ∧ WFDoc pd = true ∧ j < pi + pd.size) := by
  rcases preorder_parent d none 0 j sub q hj with h0 | ⟨hpos, pi, hq, _, h2, pd, pq, hpd, hsub, hb⟩
  · exact Or.inl h0
  · right
    have hpd' : (d.preorder none 0)[pi]? = some (pd, pq) := by simpa using hpd
    have hwf : WFDoc pd = true := preorder_wf d none 0 h (pd, pq) (List.mem_of_getElem? hpd')
    have hc := wf_children pd hwf
    have hne : pd.children ≠ [] := by intro he; rw [he] at hsub; cases hsub
    exact ⟨hpos, (kidsOk_mem _ sub hc.2 hsub).1, pi, pd, pq, hq, by omega, hpd', hsub, hc.1 hne, hwf, by omega⟩

end UscxmlVerif.Proofs.Flatten

namespace UscxmlVerif.Proofs.Flatten
open UscxmlVerif UscxmlVerif.Proofs.Struct

theorem flatten_size (d0 : Doc) (late : Bool) : (flatten d0 late).states.size = (d0.resort.preorder none 0).length := by
  simp [flatten]

theorem st_flatten (d0 : Doc) (late : Bool) (i : Nat) (nd : Doc) (p : Option Nat)
    (h : (d0.resort.preorder none 0)[i]? = some (nd, p)) :
    (T.st (flatten d0 late) i).kind = nd.kind ∧ (T.st (flatten d0 late) i).parent = p ∧
    (T.st (flatten d0 late) i).children = childrenOf (d0.resort.preorder none 0) i ∧
    (T.st (flatten d0 late) i).typ = typOf (d0.resort.preorder none 0) i nd := by
  have hi : i < (d0.resort.preorder none 0).length := (List.getElem?_eq_some_iff.mp h).1
  have hg : (d0.resort.preorder none 0)[i] = (nd, p) := (List.getElem?_eq_some_iff.mp h).2
  unfold Model.Tables.st flatten
  simp [hi, hg]


theorem mem_childrenOf {nodes : List (Doc × Option Nat)} {i j : Nat} (h : j ∈ childrenOf nodes i) :
    j < nodes.length ∧ ∃ sub, nodes[j]? = some (sub, some i) := by
  unfold childrenOf at h
  rw [List.mem_filter, List.mem_range] at h
  refine ⟨h.1, ?_⟩
  have h2 := h.2
  cases hg : nodes[j]? with
  | none => rw [hg] at h2; simp at h2
  | some x =>
    obtain ⟨sub, q⟩ := x
    rw [hg] at h2
    simp only [Option.map_some, beq_iff_eq, Option.some.injEq] at h2
    exact ⟨sub, by rw [h2]⟩

theorem isProper_flatten (d0 : Doc) (late : Bool) (j : Nat) (hj : j < (d0.resort.preorder none 0).length) :
    T.isProper (flatten d0 late) j = isProperAt (d0.resort.preorder none 0) j := by
  have hg : (d0.resort.preorder none 0)[j]? = some ((d0.resort.preorder none 0)[j].1, (d0.resort.preorder none 0)[j].2) := by simp [hj]
  obtain ⟨hk, _, _, _⟩ := st_flatten d0 late j _ _ hg
  unfold Model.Tables.isProper isProperAt
  rw [hk, hg]

theorem all_congr_any {α} {l : List α} {p q : α → Bool} (h : ∀ a ∈ l, p a = q a) : l.any p = l.any q := by
  induction l with
  | nil => rfl
  | cons x xs ih =>
    simp only [List.any_cons]
    rw [h x (List.mem_cons_self), ih (fun a ha => h a (List.mem_cons_of_mem _ ha))]

theorem any_filter_isEmpty {α} (l : List α) (p : α → Bool) : l.any p = !(l.filter p).isEmpty := by
  induction l with
  | nil => rfl
  | cons x xs ih =>
    simp only [List.any_cons, List.filter_cons]
    cases hp : p x
    · simp [ih]
    · simp

/-- **`flatten` of a well-formed document is coherent** -/
theorem coherent_flatten' (d0 : Doc) (late : Bool) (hwf : WFDoc d0.resort = true) (hroot : d0.resort.kind = .scxml) :
    Coherent (flatten d0 late) = true := by
  have hfacts := nodes_facts d0.resort hwf
  have hlen := flatten_size d0 late
  have hpos : 0 < (d0.resort.preorder none 0).length := by
    rw [preorder_length]
    cases d0.resort with
    | node k i a e x t cs => unfold Doc.size; omega
  have hsome : ∀ s, s < (d0.resort.preorder none 0).length → ∃ nd q, (d0.resort.preorder none 0)[s]? = some (nd, q) := by
    intro s hs
    exact ⟨(d0.resort.preorder none 0)[s].1, (d0.resort.preorder none 0)[s].2, by simp [hs]⟩
  -- the root
  obtain ⟨nd0, q0, h0⟩ := hsome 0 hpos
  have h0f : nd0 = d0.resort ∧ q0 = none := by
    rcases hfacts 0 nd0 q0 h0 with ⟨_, a, b⟩ | ⟨hp, _⟩
    · exact ⟨a, b⟩
    · omega
  obtain ⟨hk0, hp0, _, _⟩ := st_flatten d0 late 0 nd0 q0 h0
  unfold Coherent
  simp only [Bool.and_eq_true, List.all_eq_true, List.mem_range, Bool.or_eq_true, beq_iff_eq, bne_iff_ne]
  refine ⟨⟨⟨⟨?_, ?_⟩, ?_⟩, ?_⟩, ?_⟩
  · rw [hk0, h0f.1]; exact hroot
  · rw [hp0, h0f.2]
  · intro s hs
    rw [hlen] at hs
    by_cases hs0 : s = 0
    · exact Or.inl hs0
    · right
      obtain ⟨nd, q, hg⟩ := hsome s hs
      obtain ⟨hk, hp, _, _⟩ := st_flatten d0 late s nd q hg
      rcases hfacts s nd q hg with ⟨h, _⟩ | ⟨_, hne, pi, pd, pq, hq, hlt, hpd, _, hpk, _, _⟩
      · exact absurd h hs0
      · refine ⟨by rw [hk]; exact hne, ?_⟩
        rw [hp, hq]
        simp only [Bool.and_eq_true, decide_eq_true_eq]
        obtain ⟨hkp, _, _, _⟩ := st_flatten d0 late pi pd pq hpd
        exact ⟨hlt, by rw [hkp]; exact hpk⟩
  · intro s hs
    rw [hlen] at hs
    obtain ⟨nd, q, hg⟩ := hsome s hs
    obtain ⟨hk, _, hc, ht⟩ := st_flatten d0 late s nd q hg
    rw [hk, hc, ht]
    have hany : (childrenOf (d0.resort.preorder none 0) s).any (T.isProper (flatten d0 late)) =
        !((childrenOf (d0.resort.preorder none 0) s).filter (isProperAt (d0.resort.preorder none 0))).isEmpty := by
      rw [← any_filter_isEmpty]
      apply all_congr_any
      intro j hj
      exact isProper_flatten d0 late j (mem_childrenOf hj).1
    rw [hany]
    unfold typOf
    generalize ((childrenOf (d0.resort.preorder none 0) s).filter (isProperAt (d0.resort.preorder none 0))).isEmpty = b
    cases nd.kind <;> cases b <;> rfl
  · intro s hs
    rw [hlen] at hs
    obtain ⟨nd, q, hg⟩ := hsome s hs
    obtain ⟨hk, _, hc, _⟩ := st_flatten d0 late s nd q hg
    by_cases hfin : nd.kind = .final
    · right
      rw [hc]
      have hempty : childrenOf (d0.resort.preorder none 0) s = [] := by
        apply List.eq_nil_iff_forall_not_mem.mpr
        intro j hj
        obtain ⟨_, sub, hsub⟩ := mem_childrenOf hj
        rcases hfacts j sub (some s) hsub with ⟨_, _, hq⟩ | ⟨_, _, pi, pd, pq, hq, _, hpd, _, hpk, _, _⟩
        · cases hq
        · simp only [Option.some.injEq] at hq
          subst hq
          rw [hg] at hpd
          simp only [Option.some.injEq, Prod.mk.injEq] at hpd
          rw [← hpd.1, hfin] at hpk
          cases hpk
      rw [hempty]
      rfl
    · left
      rw [hk]; exact hfin


/-! ## `resortStates` keeps a document well formed -/

theorem mem_resortChildren (cs : List Doc) (x : Doc) (h : x ∈ resortChildren cs) : x ∈ cs := by
  unfold resortChildren at h
  simp only [List.mem_append, List.mem_reverse, List.mem_filter] at h
  rcases h with ⟨h | h, _⟩ | ⟨h | h, _⟩
  · exact h.1
  · exact h.1
  · exact h.1
  · exact h.1

theorem resort_kind (d : Doc) : d.resort.kind = d.kind := by
  cases d with
  | node k i a e x t cs => unfold Doc.resort; rfl

theorem kidsOk_of_forall : ∀ (cs : List Doc), (∀ x ∈ cs, x.kind ≠ .scxml ∧ WFDoc x = true) → kidsOk cs = true := by
  intro cs
  induction cs with
  | nil => intro _; rfl
  | cons c cs ih =>
    intro h
    unfold kidsOk
    simp only [Bool.and_eq_true, bne_iff_ne, ne_eq]
    exact ⟨⟨(h c List.mem_cons_self).1, (h c List.mem_cons_self).2⟩, ih (fun x hx => h x (List.mem_cons_of_mem _ hx))⟩

mutual
theorem wf_resort : ∀ (d : Doc), WFDoc d = true → WFDoc d.resort = true
  | .node k i a e x t cs => by
    intro h
    have hc := wf_children _ h
    unfold Doc.resort WFDoc
    simp only [Bool.and_eq_true, Bool.or_eq_true, List.isEmpty_iff]
    constructor
    · by_cases hk : parentKind k = true
      · exact Or.inr hk
      · left
        have : cs = [] := by
          cases cs with
          | nil => rfl
          | cons c cs' => exact absurd (hc.1 (by simp [Doc.children])) hk
        subst this
        rfl
    · apply kidsOk_of_forall
      intro y hy
      exact wf_resortList cs hc.2 y (mem_resortChildren _ y hy)
theorem wf_resortList : ∀ (cs : List Doc), kidsOk cs = true → ∀ x ∈ Doc.resortList cs, x.kind ≠ .scxml ∧ WFDoc x = true
  | [], _ => by intro x hx; simp [Doc.resortList] at hx
  | c :: cs, h => by
    intro x hx
    unfold Doc.resortList at hx
    unfold kidsOk at h
    simp only [Bool.and_eq_true, bne_iff_ne, ne_eq] at h
    rcases List.mem_cons.mp hx with hx | hx
    · rw [hx, resort_kind]
      exact ⟨h.1.1, wf_resort c h.1.2⟩
    · exact wf_resortList cs h.2 x hx
end

/-- **`flatten` of a well-formed document is a coherent chart** (the hypothesis of the structural theorems, for every document
whose root is `<scxml>`, in which only scxml / state / parallel elements have state-like children and no child is an scxml element) -/
theorem coherent_flatten (d0 : Doc) (late : Bool) (hwf : WFDoc d0 = true) (hroot : d0.kind = .scxml) :
    Coherent (flatten d0 late) = true :=
  coherent_flatten' d0 late (wf_resort d0 hwf) (by rw [resort_kind]; exact hroot)

end UscxmlVerif.Proofs.Flatten
