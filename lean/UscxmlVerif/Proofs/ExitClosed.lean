import UscxmlVerif.Proofs.ExitSet
import UscxmlVerif.Proofs.Subtree
/-!
# Exiting never orphans a state

On a coherent chart numbered in pre-order: if every active state's parent is active, then after
removing the exit set LargeMicroStep computed this still holds - the exit set is closed under
active descendants (a child of an exited state lies in the same exit interval).
-/
namespace UscxmlVerif.Proofs.ExitClosed
open UscxmlVerif UscxmlVerif.Model UscxmlVerif.Model.Large UscxmlVerif.Proofs.Struct UscxmlVerif.Proofs.Interval
  UscxmlVerif.Proofs.ExitSet

/-- every active state but the root has its parent active -/
def ParentClosed (c : Chart) (cfg : List Nat) : Prop :=
  ∀ s ∈ cfg, ∀ p, (Large.st c s).parent = some p → p ∈ cfg

/-- a child lies in every exit interval its parent lies in -/
theorem child_in_interval (c : Chart) (hc : Coh c) (hi : IntervalOK c = true) (t : Tr)
    (s p : Nat) (hs : s < c.states.size) (hp : (Large.st c s).parent = some p)
    (hdom : ∃ d, Large.domain c t = some d ∧ d < c.states.size ∧ (Large.st c d).kind.isProper = true)
    (hin : (exitSet c t).1 ≠ 0 ∧ (exitSet c t).1 ≤ p ∧ p ≤ (exitSet c t).2) :
    (exitSet c t).1 ≤ s ∧ s ≤ (exitSet c t).2 := by
  obtain ⟨d, hd, hdlt, hdp⟩ := hdom
  have hex : exitSet c t = ival c d := by
    unfold Large.exitSet ival
    rw [hd]
    rfl
  rw [hex] at hin ⊢
  have hs0 : s ≠ 0 := by
    intro h0
    rw [h0] at hp
    have : Large.st c 0 = T.st c 0 := rfl
    rw [this, hc.rootParent] at hp
    cases hp
  obtain ⟨p', hp', hps, _⟩ := hc.parent s hs0 hs
  have hst : Large.st c s = T.st c s := rfl
  rw [hst, hp'] at hp
  simp only [Option.some.injEq] at hp
  subst hp
  have hplt : p' < c.states.size := by omega
  -- p' is below d, so is its child s
  have hpd : hasAnc c p' d = true := (intervalOK_spec hi hdlt hplt hdp).mpr ⟨hin.2.1, hin.2.2⟩
  have hsd : hasAnc c s d = true := by
    rw [hasAnc_eq] at hpd ⊢
    unfold Model.Tables.isDescendant at hpd ⊢
    have hanc : T.ancs c s = p' :: T.ancs c p' := by
      obtain ⟨q, hq, _, hcons⟩ := Proofs.Subtree.ancs_cons c hc s hs0 hs
      rw [hp'] at hq
      simp only [Option.some.injEq] at hq
      subst hq
      exact hcons
    rw [hanc]
    simp only [List.contains_cons, Bool.or_eq_true]
    exact Or.inr hpd
  exact (intervalOK_spec hi hdlt hs hdp).mp hsd

/-- exiting keeps the configuration parent-closed, for any set `X` that holds exactly the active states inside the exit
intervals of a set of plain transitions -/
theorem exit_keeps_parents_gen (c : Chart) (hc : Coherent c = true) (hi : IntervalOK c = true)
    (config X transSet : List Nat)
    (hcfg : ConfigOk c config) (hclosed : ParentClosed c config)
    (hinv : ∀ s, s ∈ X ↔ ∃ t ∈ transSet, s ∈ config ∧ (exitSet c (Large.tr c t)).1 ≠ 0 ∧
      (exitSet c (Large.tr c t)).1 ≤ s ∧ s ≤ (exitSet c (Large.tr c t)).2)
    (hplain : ∀ i ∈ transSet, Properties.C05.plainTrans c (T.tr c i) = true) :
    ParentClosed c (config.filter (fun s => !X.contains s)) := by
  have hcoh := coh_of_coherent hc
  intro s hs p hp
  simp only [List.mem_filter, Bool.not_eq_eq_eq_not, Bool.not_true] at hs ⊢
  obtain ⟨hsc, hsx⟩ := hs
  refine ⟨hclosed s hsc p hp, ?_⟩
  cases hcp : X.contains p with
  | false => rfl
  | true =>
  exfalso
  have hpx : p ∈ X := by simpa using hcp
  have hsx' : s ∉ X := by
    intro h
    have : X.contains s = true := by simpa using h
    rw [this] at hsx; cases hsx
  apply hsx'
  -- the parent is in the exit interval of some selected transition; so is the child
  obtain ⟨t, ht, _, h0, h1, h2⟩ := (hinv p).mp hpx
  have hpl := (Properties.C05.plain_of_plainTrans (hplain t ht)).1
  have htr : Large.tr c t = T.tr c t := rfl
  have hdom : ∃ d, Large.domain c (Large.tr c t) = some d ∧ d < c.states.size ∧ (Large.st c d).kind.isProper = true := by
    rw [htr, large_domain_eq c hcoh _ hpl]
    cases hd : T.transitionDomain c (T.tr c t) with
    | none =>
      exfalso
      have : exitSet c (Large.tr c t) = (0, 0) := by
        unfold Large.exitSet
        rw [htr, large_domain_eq c hcoh _ hpl, hd]
      rw [this] at h0
      exact h0 rfl
    | some d => exact ⟨d, rfl, domain_proper c hcoh _ hpl d hd⟩
  have := child_in_interval c hcoh hi (Large.tr c t) s p (hcfg s hsc).1 hp hdom ⟨h0, h1, h2⟩
  exact (hinv s).mpr ⟨t, ht, hsc, h0, this.1, this.2⟩

/-- **exiting keeps the configuration parent-closed**: what is left after removing the exit set of the selected transitions still
has every state's parent -/
theorem exit_keeps_parents (c : Chart) (hc : Coherent c = true) (hi : IntervalOK c = true)
    (config : List Nat) (ev : Option String) (pf : List Nat) (xs : XS)
    (hcfg : ConfigOk c config) (hclosed : ParentClosed c config)
    (hplain : ∀ i ∈ (Large.selectLoop c config ev pf { x := xs }).transSet, Properties.C05.plainTrans c (T.tr c i) = true) :
    ParentClosed c (config.filter (fun s => !(Large.selectLoop c config ev pf { x := xs }).exitSet.contains s)) :=
  exit_keeps_parents_gen c hc hi config _ _ hcfg hclosed
    (large_selectLoop_exit c config ev pf { x := xs } (by intro s; simp)) hplain

end UscxmlVerif.Proofs.ExitClosed
