import UscxmlVerif.Model.Trie
/-!
# The event-name trie answers prefix queries exactly

`lookup t q` is the word stored at token path `q`. Inserting changes one path (`lookup_ins`), the
collected words of a node are the words at the paths below it (`mem_words_iff`, for tries without
duplicate keys - which `ins` maintains), walking a prefix and then a suffix is walking the whole path
(`find_append`).
-/
namespace UscxmlVerif.Proofs.TrieSpec
open UscxmlVerif UscxmlVerif.Model.Trie

theorem lookup_fresh : ∀ (ts : List Bytes) (w : Bytes) (q : List Bytes),
    lookup (fresh ts w) q = if q = ts then some w else none
  | [], w, [] => by simp [lookup, fresh, find, wordAt]
  | [], w, a :: qs => by simp [lookup, fresh, find, findK]
  | t :: ts, w, [] => by simp [lookup, fresh, find, wordAt]
  | t :: ts, w, a :: qs => by
    have ih := lookup_fresh ts w qs
    unfold lookup at ih ⊢
    simp only [fresh, find, findK]
    by_cases h : a = t
    · subst h
      simp only [beq_self_eq_true, if_true, List.cons.injEq, true_and]
      exact ih
    · have hb : (a == t) = false := by simp [h]
      simp only [hb, Bool.false_eq_true, if_false, Option.bind_none, List.cons.injEq, h, false_and]

/-- what is stored after an insertion: the first word wins -/
def keep (old : Option Bytes) (w : Bytes) : Option Bytes :=
  match old with
  | some v => some v
  | none => some w

mutual
theorem lookup_ins : ∀ (t : T) (ts : List Bytes) (w : Bytes) (q : List Bytes),
    lookup (ins t ts w) q = if q = ts then keep (lookup t ts) w else lookup t q
  | .node wd ks, [], w, [] => by
    cases wd <;> simp [lookup, ins, find, wordAt, keep]
  | .node wd ks, [], w, a :: qs => by
    simp [lookup, ins, find]
  | .node wd ks, t :: ts, w, [] => by
    simp [lookup, ins, find, wordAt]
  | .node wd ks, t :: ts, w, a :: qs => by
    have ih := lookupK_ins ks t ts w a qs
    simp only [lookup, ins, find] at ih ⊢
    exact ih
theorem lookupK_ins : ∀ (ks : K) (key : Bytes) (ts : List Bytes) (w : Bytes) (a : Bytes) (qs : List Bytes),
    (findK (insK ks key ts w) a qs).bind wordAt =
      if a :: qs = key :: ts then keep ((findK ks key ts).bind wordAt) w else (findK ks a qs).bind wordAt
  | .nil, key, ts, w, a, qs => by
    have hf := lookup_fresh ts w qs
    unfold lookup at hf
    simp only [insK, findK, Option.bind_none, keep, List.cons.injEq]
    by_cases h : a = key
    · subst h
      simp only [beq_self_eq_true, if_true, true_and]
      rw [hf]
    · have hb : (a == key) = false := by simp [h]
      simp [hb, h]
  | .cons k t rest, key, ts, w, a, qs => by
    simp only [insK]
    by_cases hk : key = k
    · subst hk
      simp only [beq_self_eq_true, if_true, findK, List.cons.injEq]
      by_cases ha : a = key
      · subst ha
        simp only [beq_self_eq_true, if_true, true_and]
        have ih := lookup_ins t ts w qs
        unfold lookup at ih
        exact ih
      · have hb : (a == key) = false := by simp [ha]
        simp [hb, ha]
    · have hkb : (key == k) = false := by simp [hk]
      simp only [hkb, Bool.false_eq_true, if_false, findK, List.cons.injEq]
      by_cases ha : a = k
      · subst ha
        have hne : ¬ (a = key) := fun h => hk h.symm
        simp [hne]
      · have hb : (a == k) = false := by simp [ha]
        simp only [hb, Bool.false_eq_true, if_false]
        have ih := lookupK_ins rest key ts w a qs
        simp only [List.cons.injEq] at ih
        exact ih
end

/-! ## no duplicate keys -/

def keysK : K → List Bytes
  | .nil => []
  | .cons k _ rest => k :: keysK rest

mutual
def WF : T → Prop
  | .node _ ks => WFK ks
def WFK : K → Prop
  | .nil => True
  | .cons k t rest => WF t ∧ WFK rest ∧ k ∉ keysK rest
end

theorem wf_fresh : ∀ (ts : List Bytes) (w : Bytes), WF (fresh ts w)
  | [], w => by simp [fresh, WF, WFK]
  | t :: ts, w => by
    simp only [fresh, WF, WFK, keysK, List.not_mem_nil, not_false_eq_true, and_true]
    exact wf_fresh ts w

theorem keys_insK : ∀ (ks : K) (key : Bytes) (ts : List Bytes) (w : Bytes) (x : Bytes),
    x ∈ keysK (insK ks key ts w) ↔ x = key ∨ x ∈ keysK ks
  | .nil, key, ts, w, x => by simp [insK, keysK]
  | .cons k t rest, key, ts, w, x => by
    simp only [insK]
    by_cases hk : key = k
    · subst hk
      simp only [beq_self_eq_true, if_true, keysK, List.mem_cons]
      constructor
      · exact Or.inr
      · rintro (h | h)
        · exact Or.inl h
        · exact h
    · have hkb : (key == k) = false := by simp [hk]
      simp only [hkb, Bool.false_eq_true, if_false, keysK, List.mem_cons, keys_insK rest key ts w x]
      constructor
      · rintro (h | h | h)
        · exact Or.inr (Or.inl h)
        · exact Or.inl h
        · exact Or.inr (Or.inr h)
      · rintro (h | h | h)
        · exact Or.inr (Or.inl h)
        · exact Or.inl h
        · exact Or.inr (Or.inr h)

mutual
theorem wf_ins : ∀ (t : T) (ts : List Bytes) (w : Bytes), WF t → WF (ins t ts w)
  | .node wd ks, [], w, h => by simpa [ins, WF] using h
  | .node wd ks, t :: ts, w, h => by
    simp only [ins, WF] at h ⊢
    exact wfK_ins ks t ts w h
theorem wfK_ins : ∀ (ks : K) (key : Bytes) (ts : List Bytes) (w : Bytes), WFK ks → WFK (insK ks key ts w)
  | .nil, key, ts, w, _ => by
    simp only [insK, WFK, keysK, List.not_mem_nil, not_false_eq_true, and_true]
    exact wf_fresh ts w
  | .cons k t rest, key, ts, w, h => by
    simp only [WFK] at h
    simp only [insK]
    by_cases hk : key = k
    · subst hk
      simp only [beq_self_eq_true, if_true, WFK]
      exact ⟨wf_ins t ts w h.1, h.2.1, h.2.2⟩
    · have hkb : (key == k) = false := by simp [hk]
      simp only [hkb, Bool.false_eq_true, if_false, WFK]
      refine ⟨h.1, wfK_ins rest key ts w h.2.1, ?_⟩
      rw [keys_insK]
      rintro (h1 | h1)
      · exact hk h1.symm
      · exact h.2.2 h1
end

theorem findK_key : ∀ (ks : K) (a : Bytes) (qs : List Bytes) (s : T), findK ks a qs = some s → a ∈ keysK ks
  | .nil, a, qs, s, h => by simp [findK] at h
  | .cons k t rest, a, qs, s, h => by
    simp only [findK] at h
    by_cases ha : a = k
    · subst ha; simp [keysK]
    · have hb : (a == k) = false := by simp [ha]
      rw [hb] at h
      simp only [Bool.false_eq_true, if_false] at h
      exact List.mem_cons_of_mem _ (findK_key rest a qs s h)

/-! ## the words below a node are the words at the paths below it -/

mutual
theorem mem_words_iff : ∀ (t : T), WF t → ∀ v, v ∈ words t ↔ ∃ q, lookup t q = some v
  | .node wd ks, h, v => by
    simp only [WF] at h
    have ih := mem_wordsK_iff ks h v
    simp only [words, List.mem_append, ih]
    constructor
    · rintro (h1 | ⟨a, qs, h1⟩)
      · refine ⟨[], ?_⟩
        cases wd with
        | none => simp at h1
        | some x =>
          simp only [Option.toList_some, List.mem_singleton] at h1
          simp [lookup, find, wordAt, h1]
      · exact ⟨a :: qs, by simpa [lookup, find] using h1⟩
    · rintro ⟨q, hq⟩
      cases q with
      | nil =>
        refine Or.inl ?_
        simp only [lookup, find, Option.bind_some, wordAt] at hq
        rw [hq]; simp
      | cons a qs => exact Or.inr ⟨a, qs, by simpa [lookup, find] using hq⟩
theorem mem_wordsK_iff : ∀ (ks : K), WFK ks → ∀ v, v ∈ wordsK ks ↔ ∃ a qs, (findK ks a qs).bind wordAt = some v
  | .nil, _, v => by simp [wordsK, findK]
  | .cons k t rest, h, v => by
    simp only [WFK] at h
    have ih1 := mem_words_iff t h.1 v
    have ih2 := mem_wordsK_iff rest h.2.1 v
    simp only [wordsK, List.mem_append, ih1, ih2]
    constructor
    · rintro (⟨q, hq⟩ | ⟨a, qs, hq⟩)
      · refine ⟨k, q, ?_⟩
        simp only [findK, beq_self_eq_true, if_true]
        exact hq
      · refine ⟨a, qs, ?_⟩
        have hne : a ≠ k := by
          intro hak
          cases hf : findK rest a qs with
          | none => rw [hf] at hq; simp at hq
          | some s =>
            have := findK_key rest a qs s hf
            rw [hak] at this
            exact h.2.2 this
        have hb : (a == k) = false := by simp [hne]
        simp only [findK, hb, Bool.false_eq_true, if_false]
        exact hq
    · rintro ⟨a, qs, hq⟩
      simp only [findK] at hq
      by_cases ha : a = k
      · subst ha
        simp only [beq_self_eq_true, if_true] at hq
        exact Or.inl ⟨qs, hq⟩
      · have hb : (a == k) = false := by simp [ha]
        rw [hb] at hq
        simp only [Bool.false_eq_true, if_false] at hq
        exact Or.inr ⟨a, qs, hq⟩
end

/-! ## walking a prefix, then the rest -/

mutual
theorem find_append : ∀ (t : T) (p q : List Bytes), find t (p ++ q) = (find t p).bind (fun s => find s q)
  | t, [], q => by simp [find]
  | .node wd ks, a :: ps, q => by
    simp only [List.cons_append, find]
    exact findK_append ks a ps q
theorem findK_append : ∀ (ks : K) (a : Bytes) (ps q : List Bytes),
    findK ks a (ps ++ q) = (findK ks a ps).bind (fun s => find s q)
  | .nil, a, ps, q => by simp [findK]
  | .cons k t rest, a, ps, q => by
    simp only [findK]
    by_cases ha : a = k
    · subst ha
      simp only [beq_self_eq_true, if_true]
      exact find_append t ps q
    · have hb : (a == k) = false := by simp [ha]
      simp only [hb, Bool.false_eq_true, if_false]
      exact findK_append rest a ps q
end

mutual
theorem wf_find : ∀ (t : T) (p : List Bytes) (s : T), WF t → find t p = some s → WF s
  | t, [], s, h, hf => by
    simp only [find, Option.some.injEq] at hf
    rw [← hf]; exact h
  | .node wd ks, a :: ps, s, h, hf => by
    simp only [find] at hf
    simp only [WF] at h
    exact wfK_find ks a ps s h hf
theorem wfK_find : ∀ (ks : K) (a : Bytes) (ps : List Bytes) (s : T), WFK ks → findK ks a ps = some s → WF s
  | .nil, a, ps, s, _, hf => by simp [findK] at hf
  | .cons k t rest, a, ps, s, h, hf => by
    simp only [WFK] at h
    simp only [findK] at hf
    by_cases ha : a = k
    · subst ha
      simp only [beq_self_eq_true, if_true] at hf
      exact wf_find t ps s h.1 hf
    · have hb : (a == k) = false := by simp [ha]
      rw [hb] at hf
      simp only [Bool.false_eq_true, if_false] at hf
      exact wfK_find rest a ps s h.2.1 hf
end

/-- **prefix queries**: on a trie without duplicate keys, `getWordsWithPrefix p` returns exactly the words stored at the
token paths that extend the tokens of `p` -/
theorem mem_query_iff (t : T) (h : WF t) (p v : Bytes) :
    v ∈ query t p ↔ ∃ q, lookup t (toks p ++ q) = some v := by
  unfold query
  cases hf : find t (toks p) with
  | none =>
    simp only [List.not_mem_nil, false_iff, not_exists]
    intro q
    simp [lookup, find_append, hf]
  | some s =>
    simp only
    rw [mem_words_iff s (wf_find t (toks p) s h hf) v]
    constructor
    · rintro ⟨q, hq⟩
      exact ⟨q, by simpa [lookup, find_append, hf] using hq⟩
    · rintro ⟨q, hq⟩
      exact ⟨q, by simpa [lookup, find_append, hf] using hq⟩

/-! ## the trie of a list of words -/

theorem wf_empty : WF empty := by simp [empty, WF, WFK]

theorem wf_foldl (ws : List Bytes) : ∀ (t : T), WF t → WF (ws.foldl addWord t) := by
  induction ws with
  | nil => intro t h; exact h
  | cons w ws ih => intro t h; exact ih _ (wf_ins t (toks w) w h)

theorem wf_build (ws : List Bytes) : WF (build ws) := wf_foldl ws empty wf_empty

theorem lookup_empty (q : List Bytes) : lookup empty q = none := by
  cases q <;> simp [lookup, empty, find, findK, wordAt]

/-- the word at a path: the first word added with these tokens -/
theorem lookup_foldl (ws : List Bytes) : ∀ (t : T) (q : List Bytes),
    lookup (ws.foldl addWord t) q = match lookup t q with
      | some v => some v
      | none => ws.find? (fun w => toks w == q) := by
  induction ws with
  | nil => intro t q; cases h : lookup t q <;> simp [h]
  | cons w ws ih =>
    intro t q
    rw [List.foldl_cons, ih, addWord, lookup_ins]
    by_cases hq : q = toks w
    · subst hq
      simp only [if_true, List.find?_cons, beq_self_eq_true]
      cases lookup t (toks w) <;> simp [keep]
    · have hb : (toks w == q) = false := by
        simp only [beq_eq_false_iff_ne, ne_eq]
        exact fun h => hq h.symm
      simp only [hq, if_false, List.find?_cons, hb]

theorem lookup_build (ws : List Bytes) (q : List Bytes) : lookup (build ws) q = ws.find? (fun w => toks w == q) := by
  unfold build
  rw [lookup_foldl, lookup_empty]

/-- **`getWordsWithPrefix` on the trie of `ws`**: the result holds exactly, for every word whose tokens extend the
tokens of the prefix, the first word of `ws` with those tokens -/
theorem query_build (ws : List Bytes) (p v : Bytes) :
    v ∈ query (build ws) p ↔ ∃ w ∈ ws, (toks p).isPrefixOf (toks w) = true ∧ ws.find? (fun u => toks u == toks w) = some v := by
  rw [mem_query_iff _ (wf_build ws)]
  constructor
  · rintro ⟨q, hq⟩
    rw [lookup_build] at hq
    have hv := List.mem_of_find?_eq_some hq
    have hp := List.find?_some hq
    simp only [beq_iff_eq] at hp
    refine ⟨v, hv, ?_, ?_⟩
    · rw [hp]; simp
    · rw [hp]; exact hq
  · rintro ⟨w, _, hpre, hf⟩
    obtain ⟨q, hq⟩ := List.isPrefixOf_iff_prefix.mp hpre
    refine ⟨q, ?_⟩
    rw [lookup_build, hq]
    exact hf

/-- when no two words have the same tokens (event names are distinct and carry no stray dots): the result is the set of
words whose tokens extend the prefix's -/
theorem query_build_distinct (ws : List Bytes) (hd : ∀ a ∈ ws, ∀ b ∈ ws, toks a = toks b → a = b) (p v : Bytes) :
    v ∈ query (build ws) p ↔ v ∈ ws ∧ (toks p).isPrefixOf (toks v) = true := by
  rw [query_build]
  constructor
  · rintro ⟨w, hw, hpre, hf⟩
    have hv := List.mem_of_find?_eq_some hf
    have hp := List.find?_some hf
    simp only [beq_iff_eq] at hp
    have : v = w := hd v hv w hw hp
    subst this
    exact ⟨hv, hpre⟩
  · rintro ⟨hv, hpre⟩
    refine ⟨v, hv, hpre, ?_⟩
    -- the first word with v's tokens is v itself
    cases hf : ws.find? (fun u => toks u == toks v) with
    | none =>
      have := List.find?_eq_none.mp hf v hv
      simp at this
    | some u =>
      have hu := List.mem_of_find?_eq_some hf
      have hp := List.find?_some hf
      simp only [beq_iff_eq] at hp
      rw [hd u hu v hv hp]

/-! ## the trie's tokens and the Recommendation's -/

open UscxmlVerif.Spec.Descriptor in
def joinHead (pre : Bytes) : List Bytes → List Bytes
  | [] => [pre]
  | t :: ts => (pre ++ t) :: ts

open UscxmlVerif.Spec.Descriptor in
theorem splitDrop_tokens : ∀ (bs cur : Bytes),
    splitDrop (· == 46) bs cur = (joinHead cur.reverse (tokens bs)).filter (fun t => !t.isEmpty)
  | [], cur => by
    simp only [splitDrop, tokens, joinHead, List.append_nil]
    cases cur with
    | nil => simp
    | cons c cs => simp
  | b :: bs, cur => by
    by_cases hb : (b == 46) = true
    · have ih := splitDrop_tokens bs []
      simp only [List.reverse_nil] at ih
      have hj : ∀ X : List Bytes, (joinHead [] X).filter (fun t => !t.isEmpty) = X.filter (fun t => !t.isEmpty) ∨ X = [] := by
        intro X
        cases X with
        | nil => exact Or.inr rfl
        | cons t ts => exact Or.inl (by simp [joinHead])
      have hne : tokens bs ≠ [] := by
        cases bs with
        | nil => simp [tokens]
        | cons c cs =>
          simp only [tokens]
          split
          · simp
          · cases tokens cs <;> simp [consHead]
      have ih' : splitDrop (· == 46) bs [] = (tokens bs).filter (fun t => !t.isEmpty) := by
        rcases hj (tokens bs) with h | h
        · rw [ih, h]
        · exact absurd h hne
      simp only [splitDrop, hb, if_true, tokens, joinHead, List.append_nil]
      cases cur with
      | nil => simp [ih']
      | cons c cs => simp [ih']
    · have hb' : (b == 46) = false := by simpa using hb
      have ih := splitDrop_tokens bs (b :: cur)
      simp only [splitDrop, hb', Bool.false_eq_true, if_false, tokens]
      rw [ih]
      cases tokens bs with
      | nil => simp [joinHead, consHead]
      | cons t ts => simp [joinHead, consHead]

open UscxmlVerif.Spec.Descriptor in
/-- on names without empty tokens the trie's tokens are the Recommendation's -/
theorem toks_eq_tokens (n : Bytes) (h : wfName n = true) : toks n = tokens n := by
  unfold toks
  rw [splitDrop_tokens]
  simp only [List.reverse_nil]
  have hne : ∀ t ∈ tokens n, (!t.isEmpty) = true := by
    intro t ht
    unfold wfName at h
    rw [List.all_eq_true] at h
    have := h t ht
    unfold wfToken at this
    simp only [Bool.and_eq_true] at this
    exact this.1
  cases hx : tokens n with
  | nil => 
    -- never: `tokens` yields at least one token
    cases n with
    | nil => simp [tokens] at hx
    | cons c cs =>
      simp only [tokens] at hx
      split at hx
      · simp at hx
      · cases hcs : tokens cs <;> rw [hcs] at hx <;> simp [consHead] at hx
  | cons t ts =>
    rw [hx] at hne
    simp only [joinHead, List.nil_append]
    exact List.filter_eq_self.mpr hne

open UscxmlVerif.Spec.Descriptor in
/-- **static resolution by the trie is the Recommendation's matching** (for well-formed names and descriptors): the event names a
back-end lists for a descriptor - `getWordsWithPrefix` of the descriptor without its optional `.*` / `.` - are exactly the names
of the document that the descriptor matches -/
theorem trie_resolves_descriptor (ws : List Bytes) (hwf : ∀ n ∈ ws, wfName n = true)
    (hd : ∀ a ∈ ws, ∀ b ∈ ws, toks a = toks b → a = b) (d : Bytes) (hstar : d ≠ [42]) (hwd : wfName (stripSuffix d) = true) (n : Bytes) :
    n ∈ query (build ws) (stripSuffix d) ↔ n ∈ ws ∧ descMatches d n = true := by
  rw [query_build_distinct ws hd]
  have hs : (d == [42]) = false := by simpa using hstar
  constructor
  · rintro ⟨hn, hp⟩
    refine ⟨hn, ?_⟩
    unfold descMatches
    rw [hs, Bool.false_or, ← toks_eq_tokens _ hwd, ← toks_eq_tokens n (hwf n hn)]
    exact hp
  · rintro ⟨hn, hm⟩
    refine ⟨hn, ?_⟩
    unfold descMatches at hm
    rw [hs, Bool.false_or, ← toks_eq_tokens _ hwd, ← toks_eq_tokens n (hwf n hn)] at hm
    exact hm

end UscxmlVerif.Proofs.TrieSpec
