import UscxmlVerif.Proofs.Parents
/-!
# Every active state's parent is active (FastMicroStep, history-free charts)

The same invariant for the alternative engine: selection over all transitions, the exit set taken from
the whole chart and cut down to the active states, the entry loops over a growing set, states already
active skipped while entering.
-/
namespace UscxmlVerif.Proofs.ParentsFast
open UscxmlVerif UscxmlVerif.Model UscxmlVerif.Model.Large UscxmlVerif.Model.Api UscxmlVerif.Proofs.Struct UscxmlVerif.Proofs.ExitClosed
  UscxmlVerif.Proofs.EntryClosed UscxmlVerif.Proofs.CfgInv UscxmlVerif.Proofs.Select UscxmlVerif.Proofs.Parents

/-- decidable: every transition selection can pick (not of an `<initial>` / `<history>` element) is plain -/
def SelPlainF (c : Chart) : Bool :=
  (List.range c.trans.size).all (fun ti =>
    (Large.tr c ti).isHistory || (Large.tr c ti).isInitial || Properties.C05.plainTrans c (T.tr c ti))

/-- `sel.exitSet` of this engine: the states of the chart inside the exit interval of some selected transition -/
def FExitInv (c : Chart) (sel : Sel) : Prop :=
  ∀ s, s ∈ sel.exitSet ↔ ∃ t ∈ sel.transSet, s < c.states.size ∧ (exitSet c (tr c t)).1 ≠ 0 ∧
    (exitSet c (tr c t)).1 ≤ s ∧ s ≤ (exitSet c (tr c t)).2

theorem fExitInv_add (c : Chart) (sel : Sel) (ti : Nat) (h : FExitInv c sel)
    (sel' : Sel) (hts : sel'.transSet = ins ti sel.transSet)
    (hes : sel'.exitSet = if (exitSet c (tr c ti)).1 != 0 then
        insAll ((List.range c.states.size).filter (fun s => decide ((exitSet c (tr c ti)).1 ≤ s) && decide (s ≤ (exitSet c (tr c ti)).2))) sel.exitSet
      else sel.exitSet) : FExitInv c sel' := by
  intro s
  rw [hes, hts]
  by_cases h0 : (exitSet c (tr c ti)).1 = 0
  · have : ((exitSet c (tr c ti)).1 != 0) = false := by simp [h0]
    rw [this]
    simp only [Bool.false_eq_true, ↓reduceIte]
    rw [h s]
    constructor
    · rintro ⟨t, ht, hr⟩
      exact ⟨t, (mem_ins ti _ t).mpr (Or.inr ht), hr⟩
    · rintro ⟨t, ht, hr⟩
      rcases (mem_ins ti _ t).mp ht with ht | ht
      · subst ht; exact absurd h0 hr.2.1
      · exact ⟨t, ht, hr⟩
  · have : ((exitSet c (tr c ti)).1 != 0) = true := by simp [h0]
    rw [this]
    simp only [↓reduceIte]
    rw [mem_insAll, h s]
    simp only [List.mem_filter, List.mem_range, Bool.and_eq_true, decide_eq_true_eq]
    constructor
    · rintro (⟨hc, h1, h2⟩ | ⟨t, ht, hr⟩)
      · exact ⟨ti, (mem_ins ti _ ti).mpr (Or.inl rfl), hc, h0, h1, h2⟩
      · exact ⟨t, (mem_ins ti _ t).mpr (Or.inr ht), hr⟩
    · rintro ⟨t, ht, hr⟩
      rcases (mem_ins ti _ t).mp ht with ht | ht
      · subst ht; exact Or.inl ⟨hr.1, hr.2.2.1, hr.2.2.2⟩
      · exact Or.inr ⟨t, ht, hr⟩

/-- selection keeps: the exit set characterisation, plain selected transitions, targets of the chart -/
def FSelInv (c : Chart) (sel : Sel) : Prop := FExitInv c sel ∧ SelInv c sel

theorem fast_selectLoop_inv (c : Chart) (hk : EOK c) (config : List Nat) (ev : Option String) :
    ∀ (l : List Nat) (sel : Sel) (confl : List Nat),
      (∀ ti ∈ l, ((Large.tr c ti).isHistory || (Large.tr c ti).isInitial) = true ∨ Properties.C05.plainTrans c (T.tr c ti) = true) →
      FSelInv c sel → FSelInv c (Fast.selectLoop c config ev l sel confl) := by
  intro l
  induction l with
  | nil => intro sel confl _ h; exact h
  | cons ti rest ih =>
    intro sel confl hl h
    have hrest := fun t ht => hl t (List.mem_cons_of_mem _ ht)
    have hti := hl ti List.mem_cons_self
    unfold Fast.selectLoop
    simp only
    split
    · exact ih _ _ hrest h
    · rename_i hnot
      have hplain : Properties.C05.plainTrans c (T.tr c ti) = true := by
        rcases hti with h1 | h1
        · exact absurd h1 hnot
        · exact h1
      have hsame : ∀ sel' : Sel, sel'.transSet = sel.transSet → sel'.exitSet = sel.exitSet → sel'.targetSet = sel.targetSet →
          FSelInv c sel' := by
        intro sel' h1 h2 h3
        refine ⟨?_, ?_, ?_⟩
        · intro s; rw [h2, h1]; exact h.1 s
        · rw [h1]; exact h.2.1
        · rw [h3]; exact h.2.2
      have hadd : ∀ sel' : Sel, sel'.transSet = ins ti sel.transSet →
          (sel'.exitSet = if (exitSet c (tr c ti)).1 != 0 then
            insAll ((List.range c.states.size).filter (fun s => decide ((exitSet c (tr c ti)).1 ≤ s) && decide (s ≤ (exitSet c (tr c ti)).2))) sel.exitSet
            else sel.exitSet) → sel'.targetSet = insAll (tr c ti).targets sel.targetSet → FSelInv c sel' := by
        intro sel' h1 h2 h3
        refine ⟨fExitInv_add c sel ti h.1 sel' h1 h2, ?_, ?_⟩
        · intro i hi
          rw [h1] at hi
          rcases (mem_ins ti _ i).mp hi with h4 | h4
          · rw [h4]; exact hplain
          · exact h.2.1 i h4
        · intro g hg
          rw [h3] at hg
          rcases (mem_insAll _ _ g).mp hg with h4 | h4
          · exact hk.targetLt ti g h4
          · exact h.2.2 g h4
      repeat' split
      all_goals first
        | exact ih _ _ hrest h
        | exact ih _ _ hrest (hsame _ rfl rfl rfl)
        | exact ih _ _ hrest (hadd _ rfl rfl rfl)
        | exact ih _ _ hrest (hadd _ rfl (by rw [if_pos (by assumption)]) rfl)
        | exact ih _ _ hrest (hadd _ rfl (by rw [if_neg (by assumption)]) rfl)

/-! ## the entry set -/

/-- a parent is never a pseudo-state -/
theorem parent_not_pseudo (c : Chart) (hc : Coh c) (hk : EOK c) (x p : Nat) (hx : x < c.states.size)
    (hp : (Large.st c x).parent = some p) : (Large.st c p).typ.isPseudo = false := by
  have hx0 : x ≠ 0 := by
    intro h0
    subst h0
    have : Large.st c 0 = T.st c 0 := rfl
    rw [this, hc.rootParent] at hp; cases hp
  obtain ⟨p', hp', _, hkind⟩ := hc.parent x hx0 hx
  have e1 : Large.st c x = T.st c x := rfl
  rw [e1, hp'] at hp
  simp only [Option.some.injEq] at hp
  subst hp
  cases hps : (Large.st c p').typ.isPseudo with
  | false => rfl
  | true =>
    have := hk.pseudo p' hps
    have e2 : Large.st c p' = T.st c p' := rfl
    rw [e2, hkind] at this; cases this

/-- dropping a pseudo-state keeps the invariant: nobody's parent -/
theorem inv_drop_pseudo (c : Chart) (hc : Coh c) (hk : EOK c) (s : Nat) (hs : (Large.st c s).typ.isPseudo = true)
    (l : List Nat) (h : Inv c l) : Inv c (l.filter (· != s)) := by
  refine ⟨?_, ?_⟩
  · intro x hx p hp
    simp only [List.mem_filter, bne_iff_ne, ne_eq] at hx ⊢
    refine ⟨h.1 x hx.1 p hp, ?_⟩
    intro hps
    have := parent_not_pseudo c hc hk x p (h.2 x hx.1) hp
    rw [hps, hs] at this; cases this
  · intro x hx
    exact h.2 x (List.mem_filter.mp hx).1

theorem fast_descVisit_inv (c : Chart) (hc : Coh c) (hk : EOK c) (e : EState) (exitS : List Nat) (s : Nat) (entry ts : List Nat)
    (hs : s ∈ entry) (h : Inv c entry) : Inv c (Fast.descVisit c e exitS s entry ts).1 := by
  unfold Fast.descVisit
  simp only
  split
  · exact h
  · exact h
  · -- parallel: its children
    rename_i hp
    refine ⟨?_, ?_⟩
    · intro x hx p hxp
      rw [mem_insAll] at hx ⊢
      rcases hx with h1 | h1
      · have := hk.parCompl s hp x h1
        rw [this] at hxp
        simp only [Option.some.injEq] at hxp
        subst hxp
        exact Or.inr hs
      · exact Or.inr (h.1 x h1 p hxp)
    · intro x hx
      rw [mem_insAll] at hx
      rcases hx with h1 | h1
      · exact hk.complLt s x h1
      · exact h.2 x h1
  · rename_i hp
    have := hk.noHist s
    rw [hp] at this; cases this
  · rename_i hp
    have := hk.noHist s
    rw [hp] at this; cases this
  · -- initial: the targets with their ancestors; the pseudo-state itself leaves the set
    rename_i hp
    have hps : (Large.st c s).typ.isPseudo = true := by rw [hp]; rfl
    split
    · exact h
    · have : ∀ (l : List Nat) (acc : List Nat × List Nat), Inv c acc.1 →
          Inv c (l.foldl (fun (acc : List Nat × List Nat) ti =>
            ((Large.tr c ti).targets.foldl (fun en g => insAll (Large.ancs c g) (ins g en)) (acc.1.filter (· != s)), ins ti acc.2)) acc).1 := by
        intro l acc hacc
        refine foldl_pres (fun acc : List Nat × List Nat => Inv c acc.1) _ ?_ l acc hacc
        intro acc ti hacc
        simp only
        have hin : ∀ g ∈ (Large.tr c ti).targets, g < c.states.size := hk.targetLt ti
        have hstart : Inv c (acc.1.filter (· != s)) := inv_drop_pseudo c hc hk s hps acc.1 hacc
        generalize (Large.tr c ti).targets = tg at hin
        generalize acc.1.filter (· != s) = start at hstart
        induction tg generalizing start with
        | nil => exact hstart
        | cons g gs ih =>
          rw [List.foldl_cons]
          first
            | exact ih (fun g' hg' => hin g' (List.mem_cons_of_mem _ hg')) _ (inv_add_with_ancs c hc g (hin g List.mem_cons_self) start hstart)
            | exact ih _ (fun g' hg' => hin g' (List.mem_cons_of_mem _ hg')) (inv_add_with_ancs c hc g (hin g List.mem_cons_self) start hstart)
      exact this _ (entry, ts) h
  · -- compound: default completion with all ancestors
    split
    · have hmem := mem_foldl_insAll (fun k => Large.ancs c k) (Large.st c s).completion (insAll (Large.st c s).completion entry)
      refine ⟨?_, ?_⟩
      · intro x hx p hxp
        rw [hmem] at hx ⊢
        rcases hx with hx | ⟨k, hkc, hxk⟩
        · rw [mem_insAll] at hx
          rcases hx with hx | hx
          · exact Or.inr ⟨x, hx, parent_mem_ancs c hc x p hxp⟩
          · exact Or.inl (by rw [mem_insAll]; exact Or.inr (h.1 x hx p hxp))
        · exact Or.inr ⟨k, hkc, ancs_closed c hc k k (Nat.le_refl _) x hxk p hxp⟩
      · intro x hx
        rw [hmem] at hx
        rcases hx with hx | ⟨k, hkc, hxk⟩
        · rw [mem_insAll] at hx
          rcases hx with hx | hx
          · exact hk.complLt s x hx
          · exact h.2 x hx
        · exact ancs_inRange c hc k (hk.complLt s k hkc) x hxk
    · exact h

theorem fast_descLoop_inv (c : Chart) (hc : Coh c) (hk : EOK c) (e : EState) (exitS : List Nat) :
    ∀ (fuel : Nat) (oi : Option Nat) (entry ts : List Nat), Inv c entry → (∀ i, oi = some i → i ∈ entry) →
      Inv c (Fast.descLoop c e exitS fuel oi entry ts).1 := by
  intro fuel
  induction fuel with
  | zero => intro oi entry ts h _; unfold Fast.descLoop; exact h
  | succ f ih =>
    intro oi entry ts h hoi
    cases oi with
    | none => unfold Fast.descLoop; exact h
    | some i =>
      unfold Fast.descLoop
      simp only
      refine ih _ _ _ (fast_descVisit_inv c hc hk e exitS i entry ts (hoi i rfl) h) ?_
      intro j hj
      exact (List.mem_filter.mp (List.mem_of_mem_head? hj)).1

/-! ## the configuration after a micro-step -/

theorem fast_exitFold_config (c : Chart) (l : List Nat) : ∀ (e : EState) (x : Nat),
    x ∈ (l.foldl (fun e s =>
      { e with config := e.config.filter (· != s),
               x := (execBlocks c e.config (st c s).onexit (e.x.emit (.bx ((st c s).id)))).emit (.ax ((st c s).id)) }) e).config
      ↔ x ∈ e.config ∧ x ∉ l := by
  induction l with
  | nil => intro e x; simp
  | cons a as ih =>
    intro e x
    rw [List.foldl_cons, ih]
    simp only [List.mem_filter, bne_iff_ne, ne_eq, List.mem_cons, not_or]
    constructor
    · rintro ⟨⟨h1, h2⟩, h3⟩; exact ⟨h1, h2, h3⟩
    · rintro ⟨h1, h2, h3⟩; exact ⟨⟨h1, h2⟩, h3⟩

theorem fast_enterState_config (c : Chart) (ts : List Nat) (e : EState) (s : Nat) (x : Nat) :
    x ∈ (Fast.enterState c ts e s).config ↔ x ∈ e.config ∨ (x = s ∧ (st c s).typ.isPseudo = false) := by
  unfold Fast.enterState
  simp only
  split
  · rename_i hm
    have hm' : s ∈ e.config := by simpa [mem] using hm
    constructor
    · exact Or.inl
    · rintro (h | ⟨h, _⟩)
      · exact h
      · rw [h]; exact hm'
  · split
    · rename_i hp
      constructor
      · exact Or.inl
      · rintro (h | ⟨_, h⟩)
        · exact h
        · rw [hp] at h; cases h
    · rename_i hp
      have hp' : (st c s).typ.isPseudo = false := by simpa using hp
      have key : x ∈ ins s e.config ↔ x ∈ e.config ∨ (x = s ∧ (st c s).typ.isPseudo = false) := by
        rw [mem_ins]
        constructor
        · rintro (h | h)
          · exact Or.inr ⟨h, hp'⟩
          · exact Or.inl h
        · rintro (h | ⟨h, _⟩)
          · exact Or.inr h
          · exact Or.inl h
      repeat' split
      all_goals exact key

theorem fast_enterFold_config (c : Chart) (ts : List Nat) (l : List Nat) : ∀ (e : EState) (x : Nat),
    x ∈ (l.foldl (Fast.enterState c ts) e).config ↔ x ∈ e.config ∨ (x ∈ l ∧ (st c x).typ.isPseudo = false) := by
  induction l with
  | nil => intro e x; simp
  | cons a as ih =>
    intro e x
    rw [List.foldl_cons, ih, fast_enterState_config]
    simp only [List.mem_cons]
    constructor
    · rintro ((h | ⟨h1, h2⟩) | ⟨h1, h2⟩)
      · exact Or.inl h
      · exact Or.inr ⟨Or.inl h1, by rw [h1]; exact h2⟩
      · exact Or.inr ⟨Or.inr h1, h2⟩
    · rintro (h | ⟨h1 | h1, h2⟩)
      · exact Or.inl (Or.inl h)
      · exact Or.inl (Or.inr ⟨h1, by rw [← h1]; exact h2⟩)
      · exact Or.inr ⟨h1, h2⟩

theorem fast_microstep_config (c : Chart) (hc : Coh c) (hk : EOK c) (e : EState) (t xs ts : List Nat) (o : List (Nat × Nat))
    (ht : ∀ g ∈ t, g < c.states.size) :
    ∃ E, Inv c E ∧ ∀ x, x ∈ (Fast.microstep c e t xs ts o).config ↔
      (x ∈ e.config ∧ x ∉ xs) ∨ (x ∈ E ∧ (st c x).typ.isPseudo = false) := by
  unfold Fast.microstep
  simp only
  have h0 := entry0_inv c hc t ht
  have hE := fast_descLoop_inv c hc hk e (xs.filter (fun s => mem s e.config)) (2 * c.states.size + 2) _ _ ts h0
    (fun i hi => List.mem_of_mem_head? hi)
  refine ⟨_, hE, ?_⟩
  intro x
  split
  all_goals (
    simp only [fast_enterFold_config, transFold_config, fast_exitFold_config, List.mem_reverse, List.mem_filter, mem]
    constructor
    · rintro (⟨h1, h2⟩ | h)
      · refine Or.inl ⟨h1, fun hx => h2 ⟨hx, ?_⟩⟩
        exact List.contains_iff_mem.mpr h1
      · exact Or.inr h
    · rintro (⟨h1, h2⟩ | h)
      · exact Or.inl ⟨h1, fun hx => h2 hx.1⟩
      · exact Or.inr h)

theorem fast_microstep_pc (c : Chart) (hc : Coh c) (hk : EOK c) (e : EState) (t xs ts : List Nat) (o : List (Nat × Nat))
    (ht : ∀ g ∈ t, g < c.states.size) (hr : ∀ k ∈ e.config, k < c.states.size) (hok : EOk c e)
    (h1 : ParentClosed c (e.config.filter (fun s => !xs.contains s))) : PC c (Fast.microstep c e t xs ts o) := by
  obtain ⟨E, hE, hmem⟩ := fast_microstep_config c hc hk e t xs ts o ht
  refine ⟨?_, ?_, fast_microstep_ok c e t xs ts o hok⟩
  · intro x hx p hp
    rw [hmem] at hx ⊢
    rcases hx with ⟨hxc, hxx⟩ | ⟨hxE, hxps⟩
    · have hxf : x ∈ e.config.filter (fun s => !xs.contains s) := by
        simp only [List.mem_filter, Bool.not_eq_eq_eq_not, Bool.not_true]
        exact ⟨hxc, by simpa using hxx⟩
      have := h1 x hxf p hp
      simp only [List.mem_filter, Bool.not_eq_eq_eq_not, Bool.not_true] at this
      exact Or.inl ⟨this.1, by simpa using this.2⟩
    · exact Or.inr ⟨hE.1 x hxE p hp, parent_not_pseudo c hc hk x p (hE.2 x hxE) hp⟩
  · intro x hx
    rw [hmem] at hx
    rcases hx with ⟨hxc, _⟩ | ⟨hxE, _⟩
    · exact hr x hxc
    · exact hE.2 x hxE

theorem selPlainF_spec {c : Chart} (h : SelPlainF c = true) : ∀ ti ∈ List.range c.trans.size,
    ((Large.tr c ti).isHistory || (Large.tr c ti).isInitial) = true ∨ Properties.C05.plainTrans c (T.tr c ti) = true := by
  intro ti hti
  unfold SelPlainF at h
  simp only [List.all_eq_true, Bool.or_eq_true] at h
  rcases h ti hti with (h1 | h1) | h1
  · exact Or.inl (by simp [h1])
  · exact Or.inl (by simp [h1])
  · exact Or.inr h1

theorem fast_selectAndStep_pc (c : Chart) (hcoh : Coherent c = true) (hi : Proofs.Interval.IntervalOK c = true) (hk : EOK c)
    (hp : SelPlainF c = true) (e : EState) (ev : Option String) (h : PC c e) : PC c (Fast.selectAndStep c e ev).1 := by
  have hc := coh_of_coherent hcoh
  have hsel := fast_selectLoop_inv c hk e.config ev (List.range c.trans.size) { x := e.x } [] (selPlainF_spec hp)
    ⟨(by intro s; simp), (by intro i hi; cases hi), (by intro g hg; cases hg)⟩
  -- the exit set cut down to the active states is what `exit_keeps_parents_gen` wants
  have hx := exit_keeps_parents_gen c hcoh hi e.config
    ((Fast.selectLoop c e.config ev (List.range c.trans.size) { x := e.x } []).exitSet.filter (fun s => mem s e.config))
    (Fast.selectLoop c e.config ev (List.range c.trans.size) { x := e.x } []).transSet (configOk_of_pc hk h) h.1
    (by
      intro s
      simp only [List.mem_filter, mem, List.contains_iff_mem]
      rw [hsel.1 s]
      constructor
      · rintro ⟨⟨t, ht, _, h0, h1, h2⟩, hs⟩
        exact ⟨t, ht, hs, h0, h1, h2⟩
      · rintro ⟨t, ht, hs, h0, h1, h2⟩
        exact ⟨⟨t, ht, h.2.1 s hs, h0, h1, h2⟩, hs⟩)
    hsel.2.1
  unfold Fast.selectAndStep
  simp only
  split
  · exact h
  · exact fast_microstep_pc c hc hk _ _ _ _ _ hsel.2.2 h.2.1 h.2.2 hx

theorem fast_step_pc (c : Chart) (hcoh : Coherent c = true) (hi : Proofs.Interval.IntervalOK c = true) (hk : EOK c)
    (hp : SelPlainF c = true) (e : EState) (h : PC c e) : PC c (Fast.step c e).1 := by
  have hc := coh_of_coherent hcoh
  have hnil : ParentClosed c (e.config.filter (fun s => !([] : List Nat).contains s)) := by
    intro x hx p hpx
    simp only [List.contains_nil, Bool.not_false, List.mem_filter, and_true] at hx ⊢
    exact h.1 x hx p hpx
  unfold Fast.step
  simp only
  repeat' split
  all_goals first
    | exact h
    | exact fast_microstep_pc c hc hk _ _ _ _ _ (hk.complLt 0) h.2.1 h.2.2 hnil
    | exact fast_selectAndStep_pc c hcoh hi hk hp _ _ h

/-! ## both engines, every sequence of API operations -/

section run
variable (c : Chart) (hcoh : Coherent c = true) (hi : Proofs.Interval.IntervalOK c = true) (hk : EOK c)
  (hp : SelPlain c = true) (hpf : SelPlainF c = true)
include hcoh hi hk hp hpf

theorem engineStep_pc (eng : Engine) (e : EState) (h : PC c e) : PC c (engineStep eng c e).1 := by
  cases eng
  · exact large_step_pc c hcoh hi hk hp e h
  · exact fast_step_pc c hcoh hi hk hpf e h

theorem stepObserved_pc (eng : Engine) (a : Api) (h : PC c a.e) : PC c (stepObserved eng c a).1.e := by
  unfold stepObserved stepOnce
  simp only
  split
  · exact h
  · exact engineStep_pc c hcoh hi hk hp hpf eng a.e h

theorem quiesce_pc (eng : Engine) (fuel : Nat) (a : Api) (h : PC c a.e) : PC c (quiesce eng c fuel a).e := by
  induction fuel generalizing a with
  | zero => exact h
  | succ n ih =>
    unfold quiesce
    simp only
    split
    · exact stepObserved_pc c hcoh hi hk hp hpf eng a h
    · exact ih _ (stepObserved_pc c hcoh hi hk hp hpf eng a h)

theorem apply_pc (eng : Engine) (s : Session) (op : Op) (h : PC c s.a.e) : PC c (apply eng c s op).a.e := by
  cases op with
  | step => exact stepObserved_pc c hcoh hi hk hp hpf eng s.a h
  | quiesce => exact quiesce_pc c hcoh hi hk hp hpf eng cap s.a h
  | receive ev => exact h
  | cancel => exact h
  | getState => exact h
  | inject ev => exact h
  | reset => exact pc_fresh c
  | destroy => exact pc_fresh c

theorem run_pc (eng : Engine) (ops : List Op) : PC c (run eng c ops).a.e := by
  unfold run
  exact foldl_pres (fun s : Session => PC c s.a.e) (apply eng c) (fun s op hs => apply_pc c hcoh hi hk hp hpf eng s op hs) ops {} (pc_fresh c)

end run

end UscxmlVerif.Proofs.ParentsFast
