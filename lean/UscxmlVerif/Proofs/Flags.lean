import UscxmlVerif.Proofs.CfgInv
/-!
# The stable-configuration flag through a micro-step

`USCXML_CTX_STABLE` is written in two places only: cleared when transitions are selected, set when the
stable-configuration notice is issued. Exits, transitions and entries leave it alone.
-/
namespace UscxmlVerif.Proofs.Flags
open UscxmlVerif UscxmlVerif.Model UscxmlVerif.Model.Large UscxmlVerif.Proofs.CfgInv

theorem large_enterState_stable (c : Chart) (ts : List Nat) (e : EState) (s : Nat) (b : Bool) (h : e.stable = b) :
    (Large.enterState c ts e s).stable = b := by
  unfold Large.enterState
  simp only
  repeat' split
  all_goals exact h

theorem fast_enterState_stable (c : Chart) (ts : List Nat) (e : EState) (s : Nat) (b : Bool) (h : e.stable = b) :
    (Fast.enterState c ts e s).stable = b := by
  unfold Fast.enterState
  simp only
  repeat' split
  all_goals exact h

theorem large_microstep_stable (c : Chart) (e : EState) (t xs ts : List Nat) (o : List (Nat × Nat)) :
    (Large.microstep c e t xs ts o).stable = e.stable := by
  unfold Large.microstep
  simp only
  generalize hb : e.stable = b
  have h1 : ∀ (l : List Nat) (a : EState), a.stable = b → (l.foldl (fun e s =>
      { e with config := e.config.filter (· != s), configPF := pfErase c s e.configPF,
               x := (execBlocks c e.config (st c s).onexit (e.x.emit (.bx ((st c s).id)))).emit (.ax ((st c s).id)) }) a).stable = b := by
    intro l a ha
    refine foldl_pres (fun a : EState => a.stable = b) _ ?_ l a ha
    intro a s ha
    exact ha
  have h2 : ∀ (l : List Nat) (a : EState), a.stable = b → (l.foldl (fun e ti =>
      if (tr c ti).isHistory || (tr c ti).isInitial then e
      else { e with x := takeTrans c e.config ti e.x }) a).stable = b := by
    intro l a ha
    refine foldl_pres (fun a : EState => a.stable = b) _ (fun a ti ha => ?_) l a ha
    split
    · exact ha
    · exact ha
  have h3 : ∀ (l : List Nat) (ts' : List Nat) (a : EState), a.stable = b → (l.foldl (Large.enterState c ts') a).stable = b :=
    fun l ts' a ha => foldl_pres (fun a : EState => a.stable = b) _ (fun a s ha => large_enterState_stable c ts' a s b ha) l a ha
  split <;> exact h3 _ _ _ (h2 _ _ (h1 _ _ hb))

theorem fast_microstep_stable (c : Chart) (e : EState) (t xs ts : List Nat) (o : List (Nat × Nat)) :
    (Fast.microstep c e t xs ts o).stable = e.stable := by
  unfold Fast.microstep
  simp only
  generalize hb : e.stable = b
  have h1 : ∀ (l : List Nat) (a : EState), a.stable = b → (l.foldl (fun e s =>
      { e with config := e.config.filter (· != s),
               x := (execBlocks c e.config (st c s).onexit (e.x.emit (.bx ((st c s).id)))).emit (.ax ((st c s).id)) }) a).stable = b := by
    intro l a ha
    refine foldl_pres (fun a : EState => a.stable = b) _ ?_ l a ha
    intro a s ha
    exact ha
  have h2 : ∀ (l : List Nat) (a : EState), a.stable = b → (l.foldl (fun e ti =>
      if (tr c ti).isHistory || (tr c ti).isInitial then e
      else { e with x := takeTrans c e.config ti e.x }) a).stable = b := by
    intro l a ha
    refine foldl_pres (fun a : EState => a.stable = b) _ (fun a ti ha => ?_) l a ha
    split
    · exact ha
    · exact ha
  have h3 : ∀ (l : List Nat) (ts' : List Nat) (a : EState), a.stable = b → (l.foldl (Fast.enterState c ts') a).stable = b :=
    fun l ts' a ha => foldl_pres (fun a : EState => a.stable = b) _ (fun a s ha => fast_enterState_stable c ts' a s b ha) l a ha
  split <;> exact h3 _ _ _ (h2 _ _ (h1 _ _ hb))

theorem large_enterState_pristine (c : Chart) (ts : List Nat) (e : EState) (s : Nat) (b : Bool) (h : e.pristine = b) :
    (Large.enterState c ts e s).pristine = b := by
  unfold Large.enterState
  simp only
  repeat' split
  all_goals exact h

theorem large_microstep_pristine (c : Chart) (e : EState) (t xs ts : List Nat) (o : List (Nat × Nat)) :
    (Large.microstep c e t xs ts o).pristine = e.pristine := by
  unfold Large.microstep
  simp only
  generalize hb : e.pristine = b
  have h1 : ∀ (l : List Nat) (a : EState), a.pristine = b → (l.foldl (fun e s =>
      { e with config := e.config.filter (· != s), configPF := pfErase c s e.configPF,
               x := (execBlocks c e.config (st c s).onexit (e.x.emit (.bx ((st c s).id)))).emit (.ax ((st c s).id)) }) a).pristine = b := by
    intro l a ha
    refine foldl_pres (fun a : EState => a.pristine = b) _ ?_ l a ha
    intro a s ha
    exact ha
  have h2 : ∀ (l : List Nat) (a : EState), a.pristine = b → (l.foldl (fun e ti =>
      if (tr c ti).isHistory || (tr c ti).isInitial then e
      else { e with x := takeTrans c e.config ti e.x }) a).pristine = b := by
    intro l a ha
    refine foldl_pres (fun a : EState => a.pristine = b) _ (fun a ti ha => ?_) l a ha
    split
    · exact ha
    · exact ha
  have h3 : ∀ (l : List Nat) (ts' : List Nat) (a : EState), a.pristine = b → (l.foldl (Large.enterState c ts') a).pristine = b :=
    fun l ts' a ha => foldl_pres (fun a : EState => a.pristine = b) _ (fun a s ha => large_enterState_pristine c ts' a s b ha) l a ha
  split <;> exact h3 _ _ _ (h2 _ _ (h1 _ _ hb))

theorem fast_enterState_pristine (c : Chart) (ts : List Nat) (e : EState) (s : Nat) (b : Bool) (h : e.pristine = b) :
    (Fast.enterState c ts e s).pristine = b := by
  unfold Fast.enterState
  simp only
  repeat' split
  all_goals exact h

theorem fast_microstep_pristine (c : Chart) (e : EState) (t xs ts : List Nat) (o : List (Nat × Nat)) :
    (Fast.microstep c e t xs ts o).pristine = e.pristine := by
  unfold Fast.microstep
  simp only
  generalize hb : e.pristine = b
  have h1 : ∀ (l : List Nat) (a : EState), a.pristine = b → (l.foldl (fun e s =>
      { e with config := e.config.filter (· != s),
               x := (execBlocks c e.config (st c s).onexit (e.x.emit (.bx ((st c s).id)))).emit (.ax ((st c s).id)) }) a).pristine = b := by
    intro l a ha
    refine foldl_pres (fun a : EState => a.pristine = b) _ ?_ l a ha
    intro a s ha
    exact ha
  have h2 : ∀ (l : List Nat) (a : EState), a.pristine = b → (l.foldl (fun e ti =>
      if (tr c ti).isHistory || (tr c ti).isInitial then e
      else { e with x := takeTrans c e.config ti e.x }) a).pristine = b := by
    intro l a ha
    refine foldl_pres (fun a : EState => a.pristine = b) _ (fun a ti ha => ?_) l a ha
    split
    · exact ha
    · exact ha
  have h3 : ∀ (l : List Nat) (ts' : List Nat) (a : EState), a.pristine = b → (l.foldl (Fast.enterState c ts') a).pristine = b :=
    fun l ts' a ha => foldl_pres (fun a : EState => a.pristine = b) _ (fun a s ha => fast_enterState_pristine c ts' a s b ha) l a ha
  split <;> exact h3 _ _ _ (h2 _ _ (h1 _ _ hb))

theorem large_selectAndStep_stable (c : Chart) (e : EState) (ev : Option String) :
    (Large.selectAndStep c e ev).1.stable = false := by
  unfold Large.selectAndStep
  simp only
  split
  · rfl
  · rw [large_microstep_stable]

theorem fast_selectAndStep_stable (c : Chart) (e : EState) (ev : Option String) :
    (Fast.selectAndStep c e ev).1.stable = false := by
  unfold Fast.selectAndStep
  simp only
  split
  · rfl
  · rw [fast_microstep_stable]

theorem large_selectAndStep_ret (c : Chart) (e : EState) (ev : Option String) :
    (Large.selectAndStep c e ev).2 = .microstepped := by
  unfold Large.selectAndStep
  simp only
  split <;> rfl

theorem fast_selectAndStep_ret (c : Chart) (e : EState) (ev : Option String) :
    (Fast.selectAndStep c e ev).2 = .microstepped := by
  unfold Fast.selectAndStep
  simp only
  split <;> rfl

end UscxmlVerif.Proofs.Flags
