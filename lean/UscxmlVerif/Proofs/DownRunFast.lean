import UscxmlVerif.Proofs.DownFast
/-!
# Downward completeness as an invariant of the run - both engines
-/
namespace UscxmlVerif.Proofs.DownRunFast
open UscxmlVerif UscxmlVerif.Model UscxmlVerif.Model.Large UscxmlVerif.Model.Api UscxmlVerif.Proofs.Struct UscxmlVerif.Proofs.ExitClosed
  UscxmlVerif.Proofs.EntryClosed UscxmlVerif.Proofs.CfgInv UscxmlVerif.Proofs.Select UscxmlVerif.Proofs.Down
  UscxmlVerif.Proofs.Interval UscxmlVerif.Proofs.Parents UscxmlVerif.Proofs.ParentsFast UscxmlVerif.Proofs.DownExit
  UscxmlVerif.Proofs.SortedIns UscxmlVerif.Proofs.DownRun UscxmlVerif.Proofs.DownFast

theorem fast_selectLoop_tin (c : Chart) (config : List Nat) (ev : Option String) :
    ∀ (l : List Nat) (sel : Sel) (confl : List Nat), TIn c sel → TIn c (Fast.selectLoop c config ev l sel confl) := by
  intro l
  induction l with
  | nil => intro sel confl h; exact h
  | cons ti rest ih =>
    intro sel confl h
    have hadd : ∀ sel' : Sel, sel'.transSet = ins ti sel.transSet → sel'.targetSet = insAll (Large.tr c ti).targets sel.targetSet → TIn c sel' := by
      intro sel' h1 h2
      refine ⟨by rw [h2]; exact asc_insAll _ _ h.1, ?_⟩
      intro i hi g hg
      rw [h1] at hi
      rw [h2]
      rcases (mem_ins ti _ i).mp hi with h3 | h3
      · rw [h3] at hg
        exact (mem_insAll _ _ g).mpr (Or.inl hg)
      · exact (mem_insAll _ _ g).mpr (Or.inr (h.2 i h3 g hg))
    have hsame : ∀ sel' : Sel, sel'.transSet = sel.transSet → sel'.targetSet = sel.targetSet → TIn c sel' := by
      intro sel' h1 h2
      exact ⟨by rw [h2]; exact h.1, by rw [h1, h2]; exact h.2⟩
    unfold Fast.selectLoop
    simp only
    repeat' split
    all_goals first
      | exact ih _ _ h
      | exact ih _ _ (hsame _ rfl rfl)
      | exact ih _ _ (hadd _ rfl rfl)

theorem fast_selectAndStep_dc (c : Chart) (hcoh : Coherent c = true) (hi : IntervalOK c = true) (hk : EOK c) (hd : DOK c)
    (hp : SelPlainF c = true) (e : EState) (ev : Option String) (h : DC c e) : DC c (Fast.selectAndStep c e ev).1 := by
  have hc := coh_of_coherent hcoh
  refine ⟨fast_selectAndStep_pc c hcoh hi hk hp e ev h.1, ?_⟩
  have hsel := fast_selectLoop_inv c hk e.config ev (List.range c.trans.size) { x := e.x } [] (selPlainF_spec hp)
    ⟨(by intro s; simp), (by intro i hi; cases hi), (by intro g hg; cases hg)⟩
  have htin := fast_selectLoop_tin c e.config ev (List.range c.trans.size) { x := e.x } [] ⟨List.Pairwise.nil, (by intro i hi; cases hi)⟩
  have hx := exit_respects c hcoh hi hd e.config
    (((Fast.selectLoop c e.config ev (List.range c.trans.size) { x := e.x } []).exitSet.filter (fun s => mem s e.config)).filter (fun s => mem s e.config))
    (Fast.selectLoop c e.config ev (List.range c.trans.size) { x := e.x } []).transSet
    (Fast.selectLoop c e.config ev (List.range c.trans.size) { x := e.x } []).targetSet (configOk_of_pc hk h.1)
    (by
      intro s
      simp only [List.mem_filter, mem, List.contains_iff_mem, and_self_right]
      rw [hsel.1 s]
      constructor
      · rintro ⟨⟨t, ht, _, h0, h1, h2⟩, hs⟩
        exact ⟨t, ht, hs, h0, h1, h2⟩
      · rintro ⟨t, ht, hs, h0, h1, h2⟩
        exact ⟨⟨t, ht, h.1.2.1 s hs, h0, h1, h2⟩, hs⟩)
    hsel.2.1 htin.2
  unfold Fast.selectAndStep
  simp only
  split
  · exact h.2
  · exact fast_microstep_down c hc hk hd _ _ _ _ _ hsel.2.2 htin.1 h.1.2.2 h.1.1 h.2 hx

theorem fast_selectAndStep_down (c : Chart) (hcoh : Coherent c = true) (hi : IntervalOK c = true) (hk : EOK c) (hd : DOK c)
    (hp : SelPlainF c = true) (e : EState) (ev : Option String) (h : DC c e) : DownClosed c (Fast.selectAndStep c e ev).1.config :=
  (fast_selectAndStep_dc c hcoh hi hk hd hp e ev h).2

theorem fast_step_dc (c : Chart) (hcoh : Coherent c = true) (hi : IntervalOK c = true) (hk : EOK c) (hd : DOK c)
    (hp : SelPlainF c = true) (e : EState) (h : DC c e) : DC c (Fast.step c e).1 := by
  have hc := coh_of_coherent hcoh
  refine ⟨fast_step_pc c hcoh hi hk hp e h.1, ?_⟩
  have hnil : ExitRespects c e.config (Large.st c 0).completion (([] : List Nat).filter (fun s => mem s e.config)) := by
    intro ch hch; cases hch
  unfold Fast.step
  simp only
  repeat' split
  all_goals first
    | exact h.2
    | exact fast_microstep_down c hc hk hd _ _ _ _ _ (hk.complLt 0) hd.rootComplAsc h.1.2.2 h.1.1 h.2 hnil
    | exact fast_selectAndStep_down c hcoh hi hk hd hp _ _ h

section run
variable (c : Chart) (hcoh : Coherent c = true) (hi : IntervalOK c = true) (hk : EOK c) (hd : DOK c)
  (hp : SelPlain c = true) (hpf : SelPlainF c = true)
include hcoh hi hk hd hp hpf

theorem engineStep_dc (eng : Engine) (e : EState) (h : DC c e) : DC c (engineStep eng c e).1 := by
  cases eng
  · exact large_step_dc c hcoh hi hk hd hp e h
  · exact fast_step_dc c hcoh hi hk hd hpf e h

theorem stepObserved_dc (eng : Engine) (a : Api) (h : DC c a.e) : DC c (stepObserved eng c a).1.e := by
  unfold stepObserved stepOnce
  simp only
  split
  · exact h
  · exact engineStep_dc c hcoh hi hk hd hp hpf eng a.e h

theorem quiesce_dc (eng : Engine) (fuel : Nat) (a : Api) (h : DC c a.e) : DC c (quiesce eng c fuel a).e := by
  induction fuel generalizing a with
  | zero => exact h
  | succ n ih =>
    unfold quiesce
    simp only
    split
    · exact stepObserved_dc c hcoh hi hk hd hp hpf eng a h
    · exact ih _ (stepObserved_dc c hcoh hi hk hd hp hpf eng a h)

theorem apply_dc (eng : Engine) (s : Session) (op : Op) (h : DC c s.a.e) : DC c (apply eng c s op).a.e := by
  cases op with
  | step => exact stepObserved_dc c hcoh hi hk hd hp hpf eng s.a h
  | quiesce => exact quiesce_dc c hcoh hi hk hd hp hpf eng cap s.a h
  | receive ev => exact h
  | cancel => exact h
  | getState => exact h
  | inject ev => exact h
  | reset => exact dc_fresh c
  | destroy => exact dc_fresh c

theorem run_dc (eng : Engine) (ops : List Op) : DC c (run eng c ops).a.e := by
  unfold run
  exact foldl_pres (fun s : Session => DC c s.a.e) (apply eng c) (fun s op hs => apply_dc c hcoh hi hk hd hp hpf eng s op hs) ops {} (dc_fresh c)

end run

end UscxmlVerif.Proofs.DownRunFast
