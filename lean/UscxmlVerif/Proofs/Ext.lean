import UscxmlVerif.Model.Large
import UscxmlVerif.Model.Fast
/-!
# Executing content and taking micro-steps only *extends* queues and observations

`Ext x x'`: the internal queue, the external queue and the observation log of `x'` are those of
`x` with something added at the end (queues) resp. in front (observations, newest first). Every
function of the content executor and both micro-steppers' `microstep` / selection satisfy it.
-/
namespace UscxmlVerif.Proofs.Ext
open UscxmlVerif UscxmlVerif.Model UscxmlVerif.Model.Large

def Ext (x x' : XS) : Prop :=
  (∃ a, x'.iq = x.iq ++ a) ∧ (∃ b, x'.eq = x.eq ++ b) ∧ (∃ o, x'.obs = o ++ x.obs)

theorem Ext.refl (x : XS) : Ext x x := ⟨⟨[], by simp⟩, ⟨[], by simp⟩, ⟨[], by simp⟩⟩

theorem Ext.trans {a b c : XS} (h1 : Ext a b) (h2 : Ext b c) : Ext a c := by
  obtain ⟨⟨i1, hi1⟩, ⟨e1, he1⟩, ⟨o1, ho1⟩⟩ := h1
  obtain ⟨⟨i2, hi2⟩, ⟨e2, he2⟩, ⟨o2, ho2⟩⟩ := h2
  exact ⟨⟨i1 ++ i2, by rw [hi2, hi1, List.append_assoc]⟩, ⟨e1 ++ e2, by rw [he2, he1, List.append_assoc]⟩,
    ⟨o2 ++ o1, by rw [ho2, ho1, List.append_assoc]⟩⟩

theorem ext_emit (x : XS) (o : Tok) : Ext x (x.emit o) := ⟨⟨[], by simp [XS.emit]⟩, ⟨[], by simp [XS.emit]⟩, ⟨[o], by simp [XS.emit]⟩⟩
theorem ext_raise (x : XS) (e : String) : Ext x (x.raise e) := ⟨⟨[e], by simp [XS.raise]⟩, ⟨[], by simp [XS.raise]⟩, ⟨[], by simp [XS.raise]⟩⟩
theorem ext_sendExt (x : XS) (e : String) : Ext x (x.sendExt e) := ⟨⟨[], by simp [XS.sendExt]⟩, ⟨[e], by simp [XS.sendExt]⟩, ⟨[], by simp [XS.sendExt]⟩⟩
theorem ext_vars (x : XS) (v : List Int) : Ext x { x with vars := v } := ⟨⟨[], by simp⟩, ⟨[], by simp⟩, ⟨[], by simp⟩⟩

theorem ext_evalCond (c : Chart) (cfg : List Nat) (x : XS) (cond : Cond) : Ext x (evalCond c cfg x cond).1 := by
  cases cond <;> simp only [evalCond] <;> first | exact Ext.refl x | exact ext_raise x _

theorem execIf_step (c : Chart) (cfg : List Nat) (e : Exec) (rest : List Exec) (b : Bool) (x : XS)
    (hdef : execIf c cfg (e :: rest) b x =
      if b then (if (exec c cfg e x).2 then execIf c cfg rest b (exec c cfg e x).1 else ((exec c cfg e x).1, false))
      else execIf c cfg rest b x)
    (he : Ext x (exec c cfg e x).1)
    (hrest : ∀ (b : Bool) (x : XS), Ext x (execIf c cfg rest b x).1) :
    Ext x (execIf c cfg (e :: rest) b x).1 := by
  rw [hdef]
  cases b with
  | false => simp only [Bool.false_eq_true, ↓reduceIte]; exact hrest false x
  | true =>
    simp only [↓reduceIte]
    cases hok : (exec c cfg e x).2 with
    | true => simp only [↓reduceIte]; exact Ext.trans he (hrest true _)
    | false => simp only [Bool.false_eq_true, ↓reduceIte]; exact he

mutual
theorem ext_exec (c : Chart) (cfg : List Nat) : ∀ (e : Exec) (x : XS), Ext x (exec c cfg e x).1
  | .raise uv name, x => by
    simp only [exec]
    exact Ext.trans (ext_emit x _) (Ext.trans (ext_raise _ _) (ext_emit _ _))
  | .log uv label, x => by
    simp only [exec]
    exact Ext.trans (ext_emit x _) (Ext.trans (ext_emit _ _) (ext_emit _ _))
  | .send uv name target, x => by
    simp only [exec]
    refine Ext.trans ?_ (ext_emit _ _)
    split
    · exact Ext.trans (ext_emit x _) (ext_raise _ _)
    · exact Ext.trans (ext_emit x _) (ext_sendExt _ _)
  | .fail uv comm, x => by
    simp only [exec]
    exact Ext.trans (ext_emit x _) (Ext.trans (ext_raise _ _) (ext_emit _ _))
  | .assign uv v k, x => by
    simp only [exec]
    exact Ext.trans (ext_emit x _) (Ext.trans (ext_vars _ _) (ext_emit _ _))
  | .incr uv v, x => by
    simp only [exec]
    exact Ext.trans (ext_emit x _) (Ext.trans (ext_vars _ _) (ext_emit _ _))
  | .ite uv cond children, x => by
    simp only [exec]
    exact Ext.trans (ext_emit x _) (Ext.trans (ext_evalCond c cfg _ cond)
      (Ext.trans (ext_execIf c cfg children _ _) (ext_emit _ _)))
  | .elseif _, x => by simp only [exec]; exact Ext.refl x
  | .else_, x => by simp only [exec]; exact Ext.refl x

theorem ext_execIf (c : Chart) (cfg : List Nat) : ∀ (es : List Exec) (b : Bool) (x : XS), Ext x (execIf c cfg es b x).1
  | [], b, x => by simp only [execIf]; exact Ext.refl x
  | .elseif cond :: rest, b, x => by
    simp only [execIf]
    cases b with
    | true => exact Ext.refl x
    | false =>
      simp only [Bool.false_eq_true, ↓reduceIte]
      exact Ext.trans (ext_evalCond c cfg x cond) (ext_execIf c cfg rest _ _)
  | .else_ :: rest, b, x => by
    simp only [execIf]
    cases b with
    | true => exact Ext.refl x
    | false => simp only [Bool.false_eq_true, ↓reduceIte]; exact ext_execIf c cfg rest true x
  | .raise uv name :: rest, b, x =>
    execIf_step c cfg (.raise uv name) rest b x (by simp [execIf]) (ext_exec c cfg (.raise uv name) x) (fun b x => ext_execIf c cfg rest b x)
  | .log uv l :: rest, b, x =>
    execIf_step c cfg (.log uv l) rest b x (by simp [execIf]) (ext_exec c cfg (.log uv l) x) (fun b x => ext_execIf c cfg rest b x)
  | .send uv n t :: rest, b, x =>
    execIf_step c cfg (.send uv n t) rest b x (by simp [execIf]) (ext_exec c cfg (.send uv n t) x) (fun b x => ext_execIf c cfg rest b x)
  | .fail uv k :: rest, b, x =>
    execIf_step c cfg (.fail uv k) rest b x (by simp [execIf]) (ext_exec c cfg (.fail uv k) x) (fun b x => ext_execIf c cfg rest b x)
  | .assign uv v k :: rest, b, x =>
    execIf_step c cfg (.assign uv v k) rest b x (by simp [execIf]) (ext_exec c cfg (.assign uv v k) x) (fun b x => ext_execIf c cfg rest b x)
  | .incr uv v :: rest, b, x =>
    execIf_step c cfg (.incr uv v) rest b x (by simp [execIf]) (ext_exec c cfg (.incr uv v) x) (fun b x => ext_execIf c cfg rest b x)
  | .ite uv cd ch :: rest, b, x =>
    execIf_step c cfg (.ite uv cd ch) rest b x (by simp [execIf]) (ext_exec c cfg (.ite uv cd ch) x) (fun b x => ext_execIf c cfg rest b x)
end

theorem ext_execBlock (c : Chart) (cfg : List Nat) (es : List Exec) (x : XS) : Ext x (execBlock c cfg es x) := by
  induction es generalizing x with
  | nil => exact Ext.refl x
  | cons e es ih =>
    simp only [execBlock]
    have he := ext_exec c cfg e x
    cases (exec c cfg e x).2 with
    | true => simp only [↓reduceIte]; exact Ext.trans he (ih _)
    | false => simp only [Bool.false_eq_true, ↓reduceIte]; exact he

theorem ext_foldl {α : Type} (f : XS → α → XS) (h : ∀ x a, Ext x (f x a)) (l : List α) (x : XS) : Ext x (l.foldl f x) := by
  induction l generalizing x with
  | nil => exact Ext.refl x
  | cons a l ih => exact Ext.trans (h x a) (ih _)

theorem ext_execBlocks (c : Chart) (cfg : List Nat) (bs : List (List Exec)) (x : XS) : Ext x (execBlocks c cfg bs x) :=
  ext_foldl _ (fun x b => ext_execBlock c cfg b x) bs x

theorem ext_takeTrans (c : Chart) (cfg : List Nat) (ti : Nat) (x : XS) : Ext x (takeTrans c cfg ti x) := by
  simp only [takeTrans]
  refine Ext.trans ?_ (ext_emit _ _)
  split
  · exact Ext.trans (ext_emit x _) (ext_execBlock c cfg _ _)
  · exact ext_emit x _

/-- the same for engine states: the executor state of `e'` extends that of `e` -/
def ExtE (e e' : EState) : Prop := Ext e.x e'.x

theorem extE_foldl {α : Type} (f : EState → α → EState) (h : ∀ e a, ExtE e (f e a)) (l : List α) (e : EState) :
    ExtE e (l.foldl f e) := by
  induction l generalizing e with
  | nil => exact Ext.refl _
  | cons a l ih => exact Ext.trans (h e a) (ih _)

theorem ext_childFold (c : Chart) (ts : List Nat) (config : List Nat) (chs : List Nat) (x : XS) :
    Ext x (chs.foldl (fun x ch =>
      if (st c ch).typ.isPseudo then
        (st c ch).trans.foldl (fun x ti =>
          if ((tr c ti).isHistory || (tr c ti).isInitial) && mem ti ts then takeTrans c config ti x else x) x
      else x) x) := by
  apply ext_foldl
  intro x ch
  split
  · apply ext_foldl
    intro x ti
    split
    · exact ext_takeTrans _ _ _ _
    · exact Ext.refl _
  · exact Ext.refl _

theorem ext_transFold (c : Chart) (config : List Nat) (s : Nat) (ts : List Nat) (x : XS) :
    Ext x (ts.foldl (fun x ti =>
      if ((tr c ti).isHistory || (tr c ti).isInitial) && (st c (tr c ti).source).parent == some s then
        takeTrans c config ti x else x) x) := by
  apply ext_foldl
  intro x ti
  split
  · exact ext_takeTrans _ _ _ _
  · exact Ext.refl _

macro "ext_peel" : tactic => `(tactic| first
  | exact Ext.refl _
  | refine Ext.trans ?_ (ext_emit _ _)
  | refine Ext.trans ?_ (ext_raise _ _)
  | refine Ext.trans ?_ (ext_sendExt _ _)
  | refine Ext.trans ?_ (ext_execBlocks _ _ _ _)
  | refine Ext.trans ?_ (ext_execBlock _ _ _ _)
  | refine Ext.trans ?_ (ext_takeTrans _ _ _ _)
  | refine Ext.trans ?_ (ext_childFold _ _ _ _ _)
  | refine Ext.trans ?_ (ext_transFold _ _ _ _ _))

theorem large_enterState_ext (c : Chart) (ts : List Nat) (e : EState) (s : Nat) :
    ExtE e (Large.enterState c ts e s) := by
  unfold Large.enterState ExtE
  simp only
  repeat' split
  all_goals (repeat ext_peel)

theorem fast_enterState_ext (c : Chart) (ts : List Nat) (e : EState) (s : Nat) :
    ExtE e (Fast.enterState c ts e s) := by
  unfold Fast.enterState ExtE
  simp only
  repeat' split
  all_goals (repeat ext_peel)

theorem large_microstep_ext (c : Chart) (e : EState) (t x ts : List Nat) (o : List (Nat × Nat)) :
    ExtE e (Large.microstep c e t x ts o) := by
  unfold Large.microstep
  simp only
  have h3 : ∀ (l : List Nat) (ts' : List Nat) (b : EState), ExtE b (l.foldl (Large.enterState c ts') b) :=
    fun l ts' b => extE_foldl _ (fun e a => large_enterState_ext c ts' e a) l b
  have h2 : ∀ (l : List Nat) (b : EState), ExtE b (l.foldl (fun e ti =>
      if (tr c ti).isHistory || (tr c ti).isInitial then e
      else { e with x := takeTrans c e.config ti e.x }) b) := by
    intro l b
    apply extE_foldl
    intro e ti
    unfold ExtE
    split
    · exact Ext.refl _
    · exact ext_takeTrans _ _ _ _
  have h1 : ∀ (l : List Nat) (b : EState), ExtE b (l.foldl (fun e s =>
      { e with config := e.config.filter (· != s), configPF := pfErase c s e.configPF,
               x := (execBlocks c e.config (st c s).onexit (e.x.emit (.bx ((st c s).id)))).emit (.ax ((st c s).id)) }) b) := by
    intro l b
    apply extE_foldl
    intro e s
    unfold ExtE
    simp only
    repeat ext_peel
  unfold ExtE at *
  split <;> simp only <;>
    first
      | exact Ext.trans (Ext.trans (h1 _ _) (Ext.trans (h2 _ _) (h3 _ _ _))) (ext_emit _ _)
      | exact Ext.trans (Ext.trans (Ext.trans (h1 _ _) (Ext.trans (h2 _ _) (h3 _ _ _))) (ext_emit _ _)) (ext_emit _ _)

theorem fast_microstep_ext (c : Chart) (e : EState) (t x ts : List Nat) (o : List (Nat × Nat)) :
    ExtE e (Fast.microstep c e t x ts o) := by
  unfold Fast.microstep
  simp only
  have h3 : ∀ (l : List Nat) (ts' : List Nat) (b : EState), ExtE b (l.foldl (Fast.enterState c ts') b) :=
    fun l ts' b => extE_foldl _ (fun e a => fast_enterState_ext c ts' e a) l b
  have h2 : ∀ (l : List Nat) (b : EState), ExtE b (l.foldl (fun e ti =>
      if (tr c ti).isHistory || (tr c ti).isInitial then e
      else { e with x := takeTrans c e.config ti e.x }) b) := by
    intro l b
    apply extE_foldl
    intro e ti
    unfold ExtE
    split
    · exact Ext.refl _
    · exact ext_takeTrans _ _ _ _
  have h1 : ∀ (l : List Nat) (b : EState), ExtE b (l.foldl (fun e s =>
      { e with config := e.config.filter (· != s),
               x := (execBlocks c e.config (st c s).onexit (e.x.emit (.bx ((st c s).id)))).emit (.ax ((st c s).id)) }) b) := by
    intro l b
    apply extE_foldl
    intro e s
    unfold ExtE
    simp only
    repeat ext_peel
  unfold ExtE at *
  split <;> simp only <;>
    first
      | exact Ext.trans (Ext.trans (h1 _ _) (Ext.trans (h2 _ _) (h3 _ _ _))) (ext_emit _ _)
      | exact Ext.trans (Ext.trans (Ext.trans (h1 _ _) (Ext.trans (h2 _ _) (h3 _ _ _))) (ext_emit _ _)) (ext_emit _ _)

/-- selection only evaluates conditions: it may add `error.execution` to the internal queue -/
theorem large_selectInState_ext (c : Chart) (config : List Nat) (ev : Option String) (s : Nat) :
    ∀ (ts : List Nat) (sel : Sel), Ext sel.x (Large.selectInState c config ev s ts sel).x
  | [], sel => by simp only [Large.selectInState]; exact Ext.refl _
  | ti :: rest, sel => by
    simp only [Large.selectInState]
    have ih := fun sel' => large_selectInState_ext c config ev s rest sel'
    have hc := ext_evalCond c config sel.x (tr c ti).cond
    repeat' split
    all_goals first
      | exact ih _
      | exact Ext.trans hc (ih _)
      | exact hc

theorem large_selectLoop_ext (c : Chart) (config : List Nat) (ev : Option String) :
    ∀ (ss : List Nat) (sel : Sel), Ext sel.x (Large.selectLoop c config ev ss sel).x
  | [], sel => by simp only [Large.selectLoop]; exact Ext.refl _
  | s :: rest, sel => by
    simp only [Large.selectLoop]
    split
    · exact large_selectLoop_ext c config ev rest sel
    · exact Ext.trans (large_selectInState_ext c config ev s _ sel) (large_selectLoop_ext c config ev rest _)

theorem fast_selectLoop_ext (c : Chart) (config : List Nat) (ev : Option String) :
    ∀ (ts : List Nat) (sel : Sel) (confl : List Nat), Ext sel.x (Fast.selectLoop c config ev ts sel confl).x
  | [], sel, confl => by simp only [Fast.selectLoop]; exact Ext.refl _
  | ti :: rest, sel, confl => by
    simp only [Fast.selectLoop]
    have ih := fun sel' confl' => fast_selectLoop_ext c config ev rest sel' confl'
    have hc := ext_evalCond c config sel.x (tr c ti).cond
    repeat' split
    all_goals first
      | exact ih _ _
      | exact Ext.trans hc (ih _ _)

theorem large_selectAndStep_ext (c : Chart) (e : EState) (ev : Option String) :
    ExtE e (Large.selectAndStep c e ev).1 := by
  unfold Large.selectAndStep ExtE
  simp only
  have hs := large_selectLoop_ext c e.config ev e.configPF { x := e.x }
  split
  · exact hs
  · refine Ext.trans ?_ (large_microstep_ext c _ _ _ _ _)
    exact Ext.trans hs (ext_emit _ _)

theorem fast_selectAndStep_ext (c : Chart) (e : EState) (ev : Option String) :
    ExtE e (Fast.selectAndStep c e ev).1 := by
  unfold Fast.selectAndStep ExtE
  simp only
  have hs := fast_selectLoop_ext c e.config ev (List.range c.trans.size) { x := e.x } []
  split
  · exact hs
  · refine Ext.trans ?_ (fast_microstep_ext c _ _ _ _ _)
    exact Ext.trans hs (ext_emit _ _)

end UscxmlVerif.Proofs.Ext
