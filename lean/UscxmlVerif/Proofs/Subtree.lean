import UscxmlVerif.Proofs.Flatten
import UscxmlVerif.Proofs.Interval
/-!
# Pre-order numbering: the subtree of a node is the interval after it

Every entry of a pre-order node list is the root of a contiguous block that is itself the
pre-order list of that node (numbered from its own position).
-/
namespace UscxmlVerif.Proofs.Subtree
open UscxmlVerif UscxmlVerif.Proofs.Flatten

theorem take_append_left' {α} (a b : List α) (k : Nat) (h : k ≤ a.length) : (a ++ b).take k = a.take k := by
  rw [List.take_append_of_le_length h]

theorem length_le_of_take_length {α} (l : List α) (k : Nat) (h : (l.take k).length = k) : k ≤ l.length := by
  rw [List.length_take] at h
  omega

mutual
theorem preorder_sub : ∀ (d : Doc) (p : Option Nat) (n j : Nat) (sub : Doc) (q : Option Nat),
    (d.preorder p n)[j]? = some (sub, q) → ((d.preorder p n).drop j).take sub.size = sub.preorder q (n + j)
  | .node k i a e x t cs, p, n, j, sub, q => by
    intro h
    cases j with
    | zero =>
      have hd : (Doc.node k i a e x t cs).preorder p n = (Doc.node k i a e x t cs, p) :: Doc.preorderList cs (some n) (n + 1) := by
        unfold Doc.preorder; rfl
      rw [hd] at h
      simp only [List.getElem?_cons_zero, Option.some.injEq, Prod.mk.injEq] at h
      obtain ⟨h1, h2⟩ := h
      subst h1; subst h2
      simp only [List.drop_zero, Nat.add_zero]
      apply List.take_of_length_le
      rw [preorder_length]
      exact Nat.le_refl _
    | succ j' =>
      have hd : (Doc.node k i a e x t cs).preorder p n = (Doc.node k i a e x t cs, p) :: Doc.preorderList cs (some n) (n + 1) := by
        unfold Doc.preorder; rfl
      rw [hd] at h ⊢
      simp only [List.getElem?_cons_succ] at h
      simp only [List.drop_succ_cons]
      have := preorderList_sub cs (some n) (n + 1) j' sub q h
      rw [this]
      congr 1
      omega
theorem preorderList_sub : ∀ (ds : List Doc) (p : Option Nat) (n j : Nat) (sub : Doc) (q : Option Nat),
    (Doc.preorderList ds p n)[j]? = some (sub, q) → ((Doc.preorderList ds p n).drop j).take sub.size = sub.preorder q (n + j)
  | [], _, _, _, _, _ => by intro h; simp [Doc.preorderList] at h
  | d :: ds, p, n, j, sub, q => by
    intro h
    have hd : Doc.preorderList (d :: ds) p n = d.preorder p n ++ Doc.preorderList ds p (n + d.size) := by
      rw [Doc.preorderList]
    rw [hd] at h ⊢
    have hlen := preorder_length d p n
    by_cases hj : j < d.size
    · rw [List.getElem?_append_left (by omega)] at h
      have ih := preorder_sub d p n j sub q h
      have hle : sub.size ≤ ((d.preorder p n).drop j).length := by
        apply length_le_of_take_length
        rw [ih, preorder_length]
      rw [List.drop_append_of_le_length (by omega), take_append_left' _ _ _ hle]
      exact ih
    · rw [List.getElem?_append_right (by omega), hlen] at h
      have ih := preorderList_sub ds p (n + d.size) (j - d.size) sub q h
      have hdrop : (d.preorder p n ++ Doc.preorderList ds p (n + d.size)).drop j = (Doc.preorderList ds p (n + d.size)).drop (j - d.size) := by
        rw [List.drop_append, List.drop_of_length_le (by omega), hlen]
        rfl
      rw [hdrop, ih]
      congr 1
      omega
end


open UscxmlVerif.Proofs.Struct

/-! ## ancestors in a coherent chart: more fuel changes nothing -/

theorem anc_fuel_succ (c : Chart) (h : Coh c) : ∀ (f s : Nat), s ≤ f → s < c.states.size →
    T.ancestors c (f + 1) s = T.ancestors c f s := by
  intro f
  induction f with
  | zero =>
    intro s hs _
    have : s = 0 := by omega
    subst this
    rw [anc_root_nil c h, anc_root_nil c h]
  | succ f ih =>
    intro s hs hlt
    by_cases hs0 : s = 0
    · subst hs0; rw [anc_root_nil c h, anc_root_nil c h]
    · obtain ⟨p, hp, hps, _⟩ := h.parent s hs0 hlt
      have e1 : T.ancestors c (f + 1 + 1) s = p :: T.ancestors c (f + 1) p := by
        rw [Model.Tables.ancestors]; rw [hp]
      have e2 : T.ancestors c (f + 1) s = p :: T.ancestors c f p := by
        rw [Model.Tables.ancestors]; rw [hp]
      rw [e1, e2, ih p (by omega) (by omega)]

theorem anc_fuel_ge (c : Chart) (h : Coh c) (s : Nat) (hlt : s < c.states.size) : ∀ (k : Nat),
    T.ancestors c (s + k) s = T.ancestors c s s := by
  intro k
  induction k with
  | zero => rfl
  | succ k ih =>
    have : s + (k + 1) = (s + k) + 1 := by omega
    rw [this, anc_fuel_succ c h (s + k) s (by omega) hlt, ih]

/-- the ancestor list of a state is its parent followed by the parent's ancestor list -/
theorem ancs_cons (c : Chart) (h : Coh c) (s : Nat) (hs : s ≠ 0) (hlt : s < c.states.size) :
    ∃ p, (T.st c s).parent = some p ∧ p < s ∧ T.ancs c s = p :: T.ancs c p := by
  obtain ⟨p, hp, hps, _⟩ := h.parent s hs hlt
  refine ⟨p, hp, hps, ?_⟩
  unfold Model.Tables.ancs
  have hn : c.states.size = (c.states.size - 1) + 1 := by omega
  have e1 : T.ancestors c c.states.size s = p :: T.ancestors c (c.states.size - 1) p := by
    rw [hn, Model.Tables.ancestors, hp]
    simp
  rw [e1]
  congr 1
  -- both fuels suffice for `p`
  have a1 := anc_fuel_ge c h p (by omega) (c.states.size - 1 - p)
  have a2 := anc_fuel_ge c h p (by omega) (c.states.size - p)
  have f1 : p + (c.states.size - 1 - p) = c.states.size - 1 := by omega
  have f2 : p + (c.states.size - p) = c.states.size := by omega
  rw [f1] at a1
  rw [f2] at a2
  rw [a1, a2]


/-! ## blocks -/

theorem getElem?_block {α} (L : List α) (j k t : Nat) (ht : t < k) : ((L.drop j).take k)[t]? = L[j + t]? := by
  rw [List.getElem?_take_of_lt ht, List.getElem?_drop]

/-- a node inside the block of `j` has its own block inside it -/
theorem block_nest (d : Doc) (j p : Nat) (sub pd : Doc) (q pq : Option Nat)
    (hj : (d.preorder none 0)[j]? = some (sub, q)) (hp : (d.preorder none 0)[p]? = some (pd, pq))
    (h1 : j < p) (h2 : p < j + sub.size) : p + pd.size ≤ j + sub.size := by
  have hb := preorder_sub d none 0 j sub q hj
  simp only [Nat.zero_add] at hb
  have hpt : (sub.preorder q j)[p - j]? = some (pd, pq) := by
    rw [← hb, getElem?_block _ _ _ _ (by omega)]
    have : j + (p - j) = p := by omega
    rw [this]; exact hp
  have hb2 := preorder_sub sub q j (p - j) pd pq hpt
  have hlen : pd.size ≤ ((sub.preorder q j).drop (p - j)).length := by
    apply length_le_of_take_length
    rw [hb2, preorder_length]
  rw [List.length_drop, preorder_length] at hlen
  omega

/-- the parent of a node inside the block of `j` is `j` or lies inside the block as well -/
theorem block_parent (d : Doc) (j s : Nat) (sub sd : Doc) (q sq : Option Nat)
    (hj : (d.preorder none 0)[j]? = some (sub, q)) (hs : (d.preorder none 0)[s]? = some (sd, sq))
    (h1 : j < s) (h2 : s < j + sub.size) : ∃ pi, sq = some pi ∧ j ≤ pi ∧ pi < s := by
  have hb := preorder_sub d none 0 j sub q hj
  simp only [Nat.zero_add] at hb
  have hst : (sub.preorder q j)[s - j]? = some (sd, sq) := by
    rw [← hb, getElem?_block _ _ _ _ (by omega)]
    have : j + (s - j) = s := by omega
    rw [this]; exact hs
  rcases preorder_parent sub q j (s - j) sd sq hst with ⟨h0, _⟩ | ⟨_, pi, hq, ha, hbnd, _⟩
  · omega
  · exact ⟨pi, hq, ha, by omega⟩

/-! ## descendants are the interval after a node -/

theorem desc_interval (d0 : Doc) (late : Bool) (hwf : WFDoc d0 = true) (hroot : d0.kind = .scxml)
    (j : Nat) (sub : Doc) (q : Option Nat) (hj : (d0.resort.preorder none 0)[j]? = some (sub, q)) :
    ∀ (s : Nat), s < (d0.resort.preorder none 0).length →
      (T.isDescendant (flatten d0 late) s j = true ↔ j < s ∧ s < j + sub.size) := by
  have hcoh : Coh (flatten d0 late) := coh_of_coherent (coherent_flatten d0 late hwf hroot)
  have hwf' := wf_resort d0 hwf
  have hlen := flatten_size d0 late
  intro s
  induction s using Nat.strongRecOn with
  | _ s ih =>
    intro hs
    by_cases hs0 : s = 0
    · subst hs0
      unfold Model.Tables.isDescendant Model.Tables.ancs
      rw [anc_root_nil _ hcoh]
      simp
    · obtain ⟨p, hp, hps, hcons⟩ := ancs_cons (flatten d0 late) hcoh s hs0 (by rw [hlen]; exact hs)
      have hsg : (d0.resort.preorder none 0)[s]? = some ((d0.resort.preorder none 0)[s].1, (d0.resort.preorder none 0)[s].2) := by simp [hs]
      obtain ⟨_, hpar, _, _⟩ := st_flatten d0 late s _ _ hsg
      rw [hp] at hpar
      have hsq : (d0.resort.preorder none 0)[s]? = some ((d0.resort.preorder none 0)[s].1, some p) := by rw [hsg, ← hpar]
      have hplt : p < (d0.resort.preorder none 0).length := by omega
      have hpg : (d0.resort.preorder none 0)[p]? = some ((d0.resort.preorder none 0)[p].1, (d0.resort.preorder none 0)[p].2) := by simp [hplt]
      -- what the numbering says about `s` and its parent
      have hfact := nodes_facts d0.resort hwf' s _ _ hsq
      have hbound : s < p + ((d0.resort.preorder none 0)[p].1).size := by
        rcases hfact with ⟨h, _⟩ | ⟨_, _, pi, pd, pq, hq, _, hpd, _, _, _, hb⟩
        · exact absurd h hs0
        · simp only [Option.some.injEq] at hq
          subst hq
          rw [hpg] at hpd
          simp only [Option.some.injEq, Prod.mk.injEq] at hpd
          rw [hpd.1]; exact hb
      unfold Model.Tables.isDescendant
      rw [hcons]
      simp only [List.contains_cons, Bool.or_eq_true, beq_iff_eq]
      constructor
      · rintro (h | h)
        · -- `j` is the parent
          subst h
          rw [hpg] at hj
          simp only [Option.some.injEq, Prod.mk.injEq] at hj
          rw [← hj.1]
          exact ⟨hps, hbound⟩
        · have hd : T.isDescendant (flatten d0 late) p j = true := by
            unfold Model.Tables.isDescendant; exact h
          have hi := (ih p hps hplt).mp hd
          have hn := block_nest d0.resort j p sub _ q _ hj hpg hi.1 hi.2
          exact ⟨by omega, by omega⟩
      · rintro ⟨h1, h2⟩
        obtain ⟨pi, hq, ha, hb⟩ := block_parent d0.resort j s sub _ q _ hj hsq h1 h2
        simp only [Option.some.injEq] at hq
        subst hq
        by_cases hjp : j = p
        · exact Or.inl hjp
        · right
          have hd := (ih p hps hplt).mpr ⟨by omega, by omega⟩
          unfold Model.Tables.isDescendant at hd
          exact hd


/-! ## where the children of a node stand -/

/-- offset of the `m`-th child's block among its siblings' blocks -/
def off (ds : List Doc) (m : Nat) : Nat := Doc.sizeList (ds.take m)

theorem sizeList_append (a b : List Doc) : Doc.sizeList (a ++ b) = Doc.sizeList a + Doc.sizeList b := by
  induction a with
  | nil => simp [Doc.sizeList]
  | cons x xs ih => simp only [List.cons_append, Doc.sizeList, ih]; omega

theorem off_succ (ds : List Doc) (m : Nat) (hm : m < ds.length) : off ds (m + 1) = off ds m + (ds[m]).size := by
  unfold off
  rw [List.take_succ_eq_append_getElem hm, sizeList_append]
  simp [Doc.sizeList]

theorem off_le (ds : List Doc) (m : Nat) : off ds m ≤ Doc.sizeList ds := by
  unfold off
  conv => rhs; rw [← List.take_append_drop m ds]
  rw [sizeList_append]
  omega

theorem off_length (ds : List Doc) : off ds ds.length = Doc.sizeList ds := by
  unfold off; rw [List.take_length]

/-- the `m`-th child of a node numbered `p` starts at offset `off ds m` and carries the parent number `p` -/
theorem child_at : ∀ (ds : List Doc) (par : Option Nat) (n m : Nat) (hm : m < ds.length),
    (Doc.preorderList ds par n)[off ds m]? = some (ds[m], par) := by
  intro ds
  induction ds with
  | nil => intro par n m hm; simp at hm
  | cons d ds ih =>
    intro par n m hm
    rw [Doc.preorderList]
    cases m with
    | zero =>
      simp only [off, List.take_zero, Doc.sizeList, List.getElem_cons_zero]
      rw [List.getElem?_append_left (by rw [preorder_length]; cases d; unfold Doc.size; omega)]
      cases d with
      | node k i a e x t cs => unfold Doc.preorder; simp
    | succ m' =>
      have hm' : m' < ds.length := by simpa using hm
      have ho : off (d :: ds) (m' + 1) = d.size + off ds m' := by
        simp only [off, List.take_succ_cons, Doc.sizeList]
      rw [ho, List.getElem?_append_right (by rw [preorder_length]; omega), preorder_length]
      have : d.size + off ds m' - d.size = off ds m' := by omega
      rw [this]
      simpa using ih par (n + d.size) m' hm'

/-- conversely, an entry that carries the siblings' parent number `p` (a number below the block) is the start of a child's block -/
theorem child_of_parent : ∀ (ds : List Doc) (p n t : Nat) (sub : Doc), p < n →
    (Doc.preorderList ds (some p) n)[t]? = some (sub, some p) → ∃ m, ∃ hm : m < ds.length, t = off ds m ∧ sub = ds[m] := by
  intro ds
  induction ds with
  | nil => intro p n t sub _ h; simp [Doc.preorderList] at h
  | cons d ds ih =>
    intro p n t sub hpn h
    rw [Doc.preorderList] at h
    by_cases ht : t < d.size
    · rw [List.getElem?_append_left (by rw [preorder_length]; exact ht)] at h
      rcases preorder_parent d (some p) n t sub (some p) h with ⟨h0, hs, _⟩ | ⟨_, pi, hq, ha, _⟩
      · exact ⟨0, by simp, by simp [off, Doc.sizeList, h0], by simp [hs]⟩
      · simp only [Option.some.injEq] at hq
        omega
    · rw [List.getElem?_append_right (by rw [preorder_length]; omega), preorder_length] at h
      obtain ⟨m, hm, hto, hsub⟩ := ih p (n + d.size) (t - d.size) sub (by omega) h
      refine ⟨m + 1, by simpa using hm, ?_, by simpa using hsub⟩
      have ho : off (d :: ds) (m + 1) = d.size + off ds m := by
        simp only [off, List.take_succ_cons, Doc.sizeList]
      rw [ho]; omega


/-! ## `resortStates`: pseudo-states first -/

/-- once a proper state has been seen, only proper states follow -/
def tailProper : List Doc → Bool
  | [] => true
  | x :: xs => if x.kind.isProper then xs.all (fun y => y.kind.isProper) else tailProper xs

theorem tailProper_append (a b : List Doc) (ha : ∀ x ∈ a, x.kind.isProper = false) (hb : ∀ y ∈ b, y.kind.isProper = true) :
    tailProper (a ++ b) = true := by
  induction a with
  | nil =>
    cases b with
    | nil => rfl
    | cons y ys =>
      simp only [List.nil_append, tailProper]
      rw [hb y List.mem_cons_self]
      simp only [↓reduceIte, List.all_eq_true]
      intro z hz; exact hb z (List.mem_cons_of_mem _ hz)
  | cons x xs ih =>
    simp only [List.cons_append, tailProper]
    rw [ha x List.mem_cons_self]
    simp only [Bool.false_eq_true, ↓reduceIte]
    exact ih (fun z hz => ha z (List.mem_cons_of_mem _ hz))

theorem tailProper_next : ∀ (l : List Doc) (m : Nat) (hm : m + 1 < l.length), tailProper l = true →
    (l[m]'(by omega)).kind.isProper = true → (l[m + 1]).kind.isProper = true := by
  intro l
  induction l with
  | nil => intro m hm; simp at hm
  | cons x xs ih =>
    intro m hm ht hp
    unfold tailProper at ht
    cases m with
    | zero =>
      simp only [List.getElem_cons_zero] at hp
      rw [hp] at ht
      simp only [↓reduceIte, List.all_eq_true] at ht
      simp only [List.getElem_cons_succ]
      exact ht _ (List.getElem_mem _)
    | succ m' =>
      simp only [List.getElem_cons_succ] at hp ⊢
      by_cases hx : x.kind.isProper = true
      · rw [hx] at ht
        simp only [↓reduceIte, List.all_eq_true] at ht
        exact ht _ (List.getElem_mem _)
      · have hx' : x.kind.isProper = false := by simpa using hx
        rw [hx'] at ht
        simp only [Bool.false_eq_true, ↓reduceIte] at ht
        exact ih m' (by simpa using hm) ht hp

theorem tailProper_resortChildren (cs : List Doc) : tailProper (resortChildren cs) = true := by
  unfold resortChildren
  simp only [List.filter_append]
  rw [← List.append_assoc]
  apply tailProper_append
  · intro x hx
    simp only [List.mem_append, List.mem_reverse, List.mem_filter] at hx
    cases hk : x.kind <;> simp_all [Kind.isHistory, Kind.isProper]
  · intro y hy
    simp only [List.mem_filter] at hy
    cases hk : y.kind <;> simp_all [Kind.isHistory, Kind.isProper]

mutual
/-- in every node of the tree the pseudo-state children come first -/
def KS : Doc → Bool
  | .node _ _ _ _ _ _ cs => tailProper cs && KSl cs
def KSl : List Doc → Bool
  | [] => true
  | c :: cs => KS c && KSl cs
end

theorem KSl_mem : ∀ (cs : List Doc) (x : Doc), KSl cs = true → x ∈ cs → KS x = true := by
  intro cs
  induction cs with
  | nil => intro x _ hx; cases hx
  | cons c cs ih =>
    intro x h hx
    unfold KSl at h
    simp only [Bool.and_eq_true] at h
    rcases List.mem_cons.mp hx with hx | hx
    · subst hx; exact h.1
    · exact ih x h.2 hx

theorem KSl_of_forall : ∀ (cs : List Doc), (∀ x ∈ cs, KS x = true) → KSl cs = true := by
  intro cs
  induction cs with
  | nil => intro _; rfl
  | cons c cs ih =>
    intro h
    unfold KSl
    simp only [Bool.and_eq_true]
    exact ⟨h c List.mem_cons_self, ih (fun x hx => h x (List.mem_cons_of_mem _ hx))⟩

mutual
theorem ks_resort : ∀ (d : Doc), KS d.resort = true
  | .node k i a e x t cs => by
    unfold Doc.resort KS
    simp only [Bool.and_eq_true]
    refine ⟨tailProper_resortChildren _, ?_⟩
    apply KSl_of_forall
    intro y hy
    exact ks_resortList cs y (mem_resortChildren _ y hy)
theorem ks_resortList : ∀ (cs : List Doc), ∀ x ∈ Doc.resortList cs, KS x = true
  | [] => by intro x hx; simp [Doc.resortList] at hx
  | c :: cs => by
    intro x hx
    unfold Doc.resortList at hx
    rcases List.mem_cons.mp hx with hx | hx
    · rw [hx]; exact ks_resort c
    · exact ks_resortList cs x hx
end

theorem ks_children (d : Doc) (h : KS d = true) : tailProper d.children = true ∧ KSl d.children = true := by
  cases d with
  | node k i a e x t cs =>
    unfold KS at h
    simp only [Bool.and_eq_true] at h
    exact h

mutual
theorem preorder_ks : ∀ (d : Doc) (p : Option Nat) (n : Nat), KS d = true → ∀ x ∈ d.preorder p n, KS x.1 = true
  | .node k i a e x t cs, p, n => by
    intro h y hy
    unfold Doc.preorder at hy
    rcases List.mem_cons.mp hy with hy | hy
    · rw [hy]; exact h
    · exact preorderList_ks cs (some n) (n + 1) (ks_children _ h).2 y hy
theorem preorderList_ks : ∀ (ds : List Doc) (p : Option Nat) (n : Nat), KSl ds = true → ∀ x ∈ Doc.preorderList ds p n, KS x.1 = true
  | [], _, _ => by intro _ y hy; simp [Doc.preorderList] at hy
  | d :: ds, p, n => by
    intro h y hy
    rw [Doc.preorderList] at hy
    unfold KSl at h
    simp only [Bool.and_eq_true] at h
    rcases List.mem_append.mp hy with hy | hy
    · exact preorder_ks d p n h.1 y hy
    · exact preorderList_ks ds p (n + d.size) h.2 y hy
end


/-! ## the children of a node of the flat chart -/

theorem off_mono (ds : List Doc) : ∀ (m k : Nat), m + k ≤ ds.length → off ds m ≤ off ds (m + k) := by
  intro m k
  induction k with
  | zero => intro _; exact Nat.le_refl _
  | succ k ih =>
    intro h
    have := off_succ ds (m + k) (by omega)
    have h2 := ih (by omega)
    have e : m + (k + 1) = m + k + 1 := by omega
    rw [e, this]; omega

theorem size_pos (d : Doc) : 0 < d.size := by
  cases d; unfold Doc.size; omega

theorem head_filter_range_some (n : Nat) (P : Nat → Bool) (k0 : Nat) (hlt : k0 < n) (hP : P k0 = true)
    (hmin : ∀ k, k < k0 → P k = false) : ((List.range n).filter P).head? = some k0 := by
  induction n with
  | zero => omega
  | succ n ih =>
    rw [List.range_succ, List.filter_append]
    by_cases hk : k0 < n
    · rw [List.head?_append, ih hk]
      rfl
    · have : k0 = n := by omega
      subst this
      have hnil : (List.range k0).filter P = [] := by
        apply List.filter_eq_nil_iff.mpr
        intro k hk'
        rw [hmin k (List.mem_range.mp hk')]
        simp
      rw [hnil]
      simp [hP]

theorem head_filter_range_none (n : Nat) (P : Nat → Bool) (h : ∀ k, k < n → P k = false) : ((List.range n).filter P).head? = none := by
  have : (List.range n).filter P = [] := by
    apply List.filter_eq_nil_iff.mpr
    intro k hk
    rw [h k (List.mem_range.mp hk)]
    simp
  rw [this]; rfl

/-- the entries below a node `p`: its children stand at `p + 1 + off cs m` -/
theorem kids_at (d : Doc) (p : Nat) (pd : Doc) (pq : Option Nat) (hp : (d.preorder none 0)[p]? = some (pd, pq))
    (m : Nat) (hm : m < pd.children.length) :
    (d.preorder none 0)[p + 1 + off pd.children m]? = some (pd.children[m], some p) := by
  have hb := preorder_sub d none 0 p pd pq hp
  simp only [Nat.zero_add] at hb
  cases pd with
  | node k i a e x t cs =>
    simp only [Doc.children] at hm ⊢
    have hoff : off cs m < Doc.sizeList cs := by
      have h1 := off_succ cs m hm
      have h2 := off_le cs (m + 1)
      have := size_pos cs[m]
      omega
    have hsz : (Doc.node k i a e x t cs).size = 1 + Doc.sizeList cs := by unfold Doc.size; rfl
    have e1 : ((Doc.node k i a e x t cs).preorder pq p)[1 + off cs m]? = (d.preorder none 0)[p + (1 + off cs m)]? := by
      rw [← hb, getElem?_block _ _ _ _ (by rw [hsz]; omega)]
    have e2 : ((Doc.node k i a e x t cs).preorder pq p)[1 + off cs m]? = (Doc.preorderList cs (some p) (p + 1))[off cs m]? := by
      rw [Doc.preorder]
      have : 1 + off cs m = off cs m + 1 := by omega
      rw [this, List.getElem?_cons_succ]
    have e3 : p + 1 + off cs m = p + (1 + off cs m) := by omega
    rw [e3, ← e1, e2]
    exact child_at cs (some p) (p + 1) m hm

theorem kid_is_at (d : Doc) (hwf : WFDoc d = true) (p k : Nat) (pd sub : Doc) (pq : Option Nat)
    (hp : (d.preorder none 0)[p]? = some (pd, pq)) (hk : (d.preorder none 0)[k]? = some (sub, some p)) :
    ∃ m, ∃ hm : m < pd.children.length, k = p + 1 + off pd.children m ∧ sub = pd.children[m] := by
  -- `k` lies in the block of `p`
  have hin : p < k ∧ k < p + pd.size := by
    rcases nodes_facts d hwf k sub (some p) hk with ⟨_, _, hq⟩ | ⟨_, _, pi, pd', pq', hq, hlt, hpd, _, _, _, hb⟩
    · cases hq
    · simp only [Option.some.injEq] at hq
      subst hq
      rw [hp] at hpd
      simp only [Option.some.injEq, Prod.mk.injEq] at hpd
      rw [hpd.1]
      exact ⟨hlt, hb⟩
  have hb := preorder_sub d none 0 p pd pq hp
  simp only [Nat.zero_add] at hb
  cases pd with
  | node kk i a e x t cs =>
    simp only [Doc.children]
    have hsz : (Doc.node kk i a e x t cs).size = 1 + Doc.sizeList cs := by unfold Doc.size; rfl
    have e1 : ((Doc.node kk i a e x t cs).preorder pq p)[k - p]? = (d.preorder none 0)[p + (k - p)]? := by
      rw [← hb, getElem?_block _ _ _ _ (by omega)]
    have e0 : p + (k - p) = k := by omega
    rw [e0, hk] at e1
    rw [Doc.preorder] at e1
    have : k - p = (k - p - 1) + 1 := by omega
    rw [this, List.getElem?_cons_succ] at e1
    obtain ⟨m, hm, hto, hsub⟩ := child_of_parent cs p (p + 1) (k - p - 1) sub (by omega) e1
    exact ⟨m, hm, by omega, hsub⟩


/-! ## the next proper sibling -/

theorem block_le (d : Doc) (p : Nat) (pd : Doc) (pq : Option Nat) (hp : (d.preorder none 0)[p]? = some (pd, pq)) :
    p + pd.size ≤ (d.preorder none 0).length := by
  have hb := preorder_sub d none 0 p pd pq hp
  have hlen : pd.size ≤ ((d.preorder none 0).drop p).length := by
    apply length_le_of_take_length
    rw [hb, preorder_length]
  rw [List.length_drop] at hlen
  have := (List.getElem?_eq_some_iff.mp hp).1
  omega

/-- the filter `nextStateAfter` applies to the children of the parent `p` of a proper state `j`: it finds the state right after
`j`'s block, unless `j` is the last child -/
theorem next_sibling (d0 : Doc) (late : Bool) (hwf : WFDoc d0 = true) (j p : Nat) (sub pd : Doc) (pq : Option Nat)
    (hj : (d0.resort.preorder none 0)[j]? = some (sub, some p)) (hp : (d0.resort.preorder none 0)[p]? = some (pd, pq))
    (hprop : sub.kind.isProper = true) :
    (((T.st (flatten d0 late) p).children.filter (fun k => decide (k > j) && (T.st (flatten d0 late) k).kind.isProper)).head? = some (j + sub.size)
        ∧ j + sub.size < p + pd.size) ∨
    (((T.st (flatten d0 late) p).children.filter (fun k => decide (k > j) && (T.st (flatten d0 late) k).kind.isProper)).head? = none
        ∧ j + sub.size = p + pd.size) := by
  have hwf' := wf_resort d0 hwf
  obtain ⟨m, hm, hjm, hsub⟩ := kid_is_at d0.resort hwf' p j pd sub pq hp hj
  obtain ⟨_, _, hch, _⟩ := st_flatten d0 late p pd pq hp
  have hpj : p < j := by omega
  rw [hch]
  unfold childrenOf
  rw [List.filter_filter]
  have hks : KS pd = true := preorder_ks d0.resort none 0 (ks_resort d0) (pd, pq) (List.mem_of_getElem? hp)
  have hsz : pd.size = 1 + Doc.sizeList pd.children := by cases pd; unfold Doc.size; rfl
  by_cases hlast : m + 1 < pd.children.length
  · -- the next child starts right after the block of `j`
    left
    have hk0 := kids_at d0.resort p pd pq hp (m + 1) hlast
    have hoff := off_succ pd.children m hm
    have hk0e : p + 1 + off pd.children (m + 1) = j + sub.size := by rw [hoff, hsub]; omega
    rw [hk0e] at hk0
    have hk0lt : j + sub.size < (d0.resort.preorder none 0).length := (List.getElem?_eq_some_iff.mp hk0).1
    refine ⟨?_, ?_⟩
    · apply head_filter_range_some _ _ _ hk0lt
      · obtain ⟨hkk, _, _, _⟩ := st_flatten d0 late (j + sub.size) _ _ hk0
        have hpr : (pd.children[m + 1]).kind.isProper = true :=
          tailProper_next pd.children m hlast (ks_children pd hks).1 (by rw [← hsub]; exact hprop)
        have := size_pos sub
        simp [hk0, hkk, hpr]
        omega
      · intro k hk
        by_cases hkj : k ≤ j
        · have : decide (k > j) = false := by simp; omega
          simp [this]
        · -- inside the block of `j`: the parent is `j` or lies in the block, never `p`
          cases hg : (d0.resort.preorder none 0)[k]? with
          | none => simp
          | some x =>
            obtain ⟨xd, xq⟩ := x
            obtain ⟨pi, hq, ha, _⟩ := block_parent d0.resort j k sub xd (some p) xq hj hg (by omega) (by omega)
            have : xq ≠ some p := by rw [hq]; intro h; simp only [Option.some.injEq] at h; omega
            simp [this]
    · have := off_le pd.children (m + 1 + 1)
      have h2 := off_succ pd.children (m + 1) hlast
      have := size_pos (pd.children[m + 1])
      omega
  · -- `j` is the last child
    right
    have hmlast : m + 1 = pd.children.length := by omega
    refine ⟨?_, ?_⟩
    · apply head_filter_range_none
      intro k _
      cases hg : (d0.resort.preorder none 0)[k]? with
      | none => simp
      | some x =>
        obtain ⟨xd, xq⟩ := x
        by_cases hxq : xq = some p
        · subst hxq
          obtain ⟨m', hm', hkm, _⟩ := kid_is_at d0.resort hwf' p k pd xd pq hp hg
          have hmono := off_mono pd.children m' (m - m') (by omega)
          have e : m' + (m - m') = m := by omega
          rw [e] at hmono
          have : decide (k > j) = false := by simp; omega
          simp [this]
        · simp [hxq]
    · have hoff := off_succ pd.children m hm
      rw [hmlast, off_length] at hoff
      rw [hsz, hsub]; omega


open UscxmlVerif.Model UscxmlVerif.Model.Large UscxmlVerif.Proofs.Interval

/-- `nextStateAfter` of a proper state: the number right after its block, if there is one -/
theorem nextStateAfter_flatten (d0 : Doc) (late : Bool) (hwf : WFDoc d0 = true) :
    ∀ (j fuel : Nat), j < fuel → ∀ (sub : Doc) (q : Option Nat), (d0.resort.preorder none 0)[j]? = some (sub, q) →
      sub.kind.isProper = true →
      nextStateAfter (flatten d0 late) fuel j =
        if j + sub.size < (d0.resort.preorder none 0).length then some (j + sub.size) else none := by
  have hwf' := wf_resort d0 hwf
  intro j
  induction j using Nat.strongRecOn with
  | _ j ih =>
    intro fuel hf sub q hj hprop
    cases fuel with
    | zero => omega
    | succ f =>
      rw [nextStateAfter]
      obtain ⟨_, hpar, _, _⟩ := st_flatten d0 late j sub q hj
      have hst : Large.st (flatten d0 late) j = T.st (flatten d0 late) j := rfl
      rw [hst, hpar]
      rcases nodes_facts d0.resort hwf' j sub q hj with ⟨h0, hs, hq⟩ | ⟨hpos, _, p, pd, pq, hq, hpj, hpd, _, hpk, _, _⟩
      · -- the root: no parent, and its block is the whole list
        subst hq
        simp only
        have : ¬ (j + sub.size < (d0.resort.preorder none 0).length) := by
          rw [hs, preorder_length]; omega
        rw [if_neg this]
      · subst hq
        simp only
        have hpprop : pd.kind.isProper = true := by
          unfold parentKind at hpk
          cases hk : pd.kind <;> simp_all [Kind.isProper]
        have hble := block_le d0.resort p pd pq hpd
        rcases next_sibling d0 late hwf j p sub pd pq hj hpd hprop with ⟨hh, hlt⟩ | ⟨hh, heq⟩
        · have hst' : ∀ k, Large.st (flatten d0 late) k = T.st (flatten d0 late) k := fun _ => rfl
          simp only [hst'] at hh ⊢
          rw [hh]
          simp only
          rw [if_pos (by omega)]
        · have hst' : ∀ k, Large.st (flatten d0 late) k = T.st (flatten d0 late) k := fun _ => rfl
          simp only [hst'] at hh ⊢
          rw [hh]
          simp only
          rw [ih p hpj f (by omega) pd pq hpd hpprop, heq]

/-- **`flatten` of a well-formed document is numbered in pre-order**: the hypothesis `IntervalOK` of the conflict-freeness theorems -/
theorem intervalOK_flatten (d0 : Doc) (late : Bool) (hwf : WFDoc d0 = true) (hroot : d0.kind = .scxml) :
    IntervalOK (flatten d0 late) = true := by
  have hlen := flatten_size d0 late
  unfold IntervalOK
  rw [List.all_eq_true]
  intro d hd
  rw [List.mem_range, hlen] at hd
  have hdg : (d0.resort.preorder none 0)[d]? = some ((d0.resort.preorder none 0)[d].1, (d0.resort.preorder none 0)[d].2) := by simp [hd]
  obtain ⟨hk, _, _, _⟩ := st_flatten d0 late d _ _ hdg
  have hst : Large.st (flatten d0 late) d = T.st (flatten d0 late) d := rfl
  by_cases hprop : (Large.st (flatten d0 late) d).kind.isProper = true
  · rw [hprop]
    simp only [Bool.not_true, Bool.false_or, List.all_eq_true, List.mem_range, beq_iff_eq]
    intro s hs
    rw [hlen] at hs
    have hprop' : ((d0.resort.preorder none 0)[d].1).kind.isProper = true := by rw [← hk, ← hst]; exact hprop
    have hns := nextStateAfter_flatten d0 late hwf d (flatten d0 late).states.size (by rw [hlen]; exact hd) _ _ hdg hprop'
    have hdi := desc_interval d0 late hwf hroot d _ _ hdg s hs
    have hble := block_le d0.resort d _ _ hdg
    have hszpos := size_pos ((d0.resort.preorder none 0)[d].1)
    rw [hasAnc_eq]
    unfold ival
    rw [hns]
    rw [Bool.eq_iff_iff, hdi]
    by_cases hlt : d + ((d0.resort.preorder none 0)[d].1).size < (d0.resort.preorder none 0).length
    · rw [if_pos hlt]
      simp only [Bool.and_eq_true, decide_eq_true_eq]
      omega
    · rw [if_neg hlt]
      simp only [Bool.and_eq_true, decide_eq_true_eq, hlen]
      omega
  · have : (Large.st (flatten d0 late) d).kind.isProper = false := by simpa using hprop
    rw [this]; rfl

end UscxmlVerif.Proofs.Subtree
