import UscxmlVerif.Proofs.Xor
/-!
# The targets of a conflict-free selection, with their ancestors and the states that stay, satisfy `XorU`
-/
namespace UscxmlVerif.Proofs.XorSel
open UscxmlVerif UscxmlVerif.Model UscxmlVerif.Model.Large UscxmlVerif.Proofs.Struct UscxmlVerif.Proofs.ExitClosed
  UscxmlVerif.Proofs.EntryClosed UscxmlVerif.Proofs.CfgInv UscxmlVerif.Proofs.Select UscxmlVerif.Proofs.Down
  UscxmlVerif.Proofs.Interval UscxmlVerif.Proofs.ExitSet UscxmlVerif.Proofs.Parents UscxmlVerif.Proofs.DownExit
  UscxmlVerif.Proofs.Xor

/-- a compound state (in the predicates' sense) has a child in the chart -/
theorem compound_has_child (c : Chart) (hk : EOK c) (d : Nat) (h : T.isCompound c d = true) :
    ∃ x, x < c.states.size ∧ d ∈ Large.ancs c x := by
  unfold Model.Tables.isCompound at h
  simp only [Bool.and_eq_true, List.any_eq_true] at h
  obtain ⟨_, x, hx, _⟩ := h
  have e : T.st c d = Large.st c d := rfl
  rw [e] at hx
  exact ⟨x, hk.childLt d x hx, by
    have hp := hk.children d x hx
    -- the parent heads the ancestor list
    by_cases hlt : x < c.states.size
    · cases hn : c.states.size with
      | zero => omega
      | succ m =>
        have e2 : Large.ancs c x = Large.ancestors c c.states.size x := rfl
        rw [e2, hn]
        unfold Large.ancestors
        rw [hp]
        exact List.mem_cons_self
    · exact absurd (hk.childLt d x hx) hlt⟩

/-- everything the proofs need to know about the domain of a plain transition with a target -/
theorem domain_facts (c : Chart) (h : Coh c) (hk : EOK c) (hd : DOK c) (t : Tr) (p : PlainTrans c t) (g : Nat) (hg : g ∈ t.targets) :
    ∃ d, T.transitionDomain c t = some d ∧ d ∈ Large.ancs c g ∧ (d = t.source ∨ d ∈ Large.ancs c t.source) ∧
      (T.st c d).kind ≠ .parallel ∧ ∃ x, x < c.states.size ∧ d ∈ Large.ancs c x := by
  have hs0 := src_ne_root c h t p
  have hsrc : T.sourceState c t = t.source := by
    unfold Model.Tables.sourceState
    rcases p.srcKind with hk' | hk' <;> rw [hk'] <;> rfl
  have hne : t.targets.isEmpty = false := by
    cases ht : t.targets with
    | nil => rw [ht] at hg; cases hg
    | cons a as => rfl
  have hdesc : ∀ d, T.isDescendant c g d = true → d ∈ Large.ancs c g := by
    intro d hdg
    unfold Model.Tables.isDescendant at hdg
    rw [ancs_eq]
    exact List.contains_iff_mem.mp hdg
  unfold Model.Tables.transitionDomain
  rw [hne]
  simp only [Bool.false_eq_true, if_false]
  rw [hsrc]
  split
  · rename_i hcond
    simp only [Bool.and_eq_true, List.all_eq_true] at hcond
    have hcomp := hcond.1.2
    refine ⟨t.source, rfl, hdesc _ (hcond.2 g hg), Or.inl rfl, ?_, compound_has_child c hk _ hcomp⟩
    unfold Model.Tables.isCompound at hcomp
    simp only [Bool.and_eq_true, bne_iff_ne, ne_eq] at hcomp
    exact hcomp.1.2
  · unfold Model.Tables.findLCCA
    simp only
    rw [properAncestors_all c h t.source hs0 p.srcRange]
    split
    · rename_i a hf
      have hpred := List.find?_some hf
      have hmem := List.mem_of_find?_eq_some hf
      simp only [Bool.and_eq_true, List.all_eq_true, List.mem_cons, forall_eq_or_imp] at hpred
      refine ⟨a, rfl, hdesc _ (hpred.2.2 g hg), Or.inr (by rw [ancs_eq]; exact hmem), ?_, compound_has_child c hk _ hpred.1⟩
      have := hpred.1
      unfold Model.Tables.isCompound at this
      simp only [Bool.and_eq_true, bne_iff_ne, ne_eq] at this
      exact this.1.2
    · obtain ⟨l, hl, _⟩ := ancs_shape c h t.source hs0 p.srcRange
      rw [hl]
      simp only [List.getLast?_append, List.getLast?_singleton, Option.some_or]
      refine ⟨0, rfl, hdesc _ (desc_root c h g (p.tgt g hg).1 (p.tgt g hg).2.1), Or.inr (by rw [ancs_eq, hl]; simp), ?_, ?_⟩
      · rw [h.rootKind]; intro hh; cases hh
      · -- the root is a compound state: it has a child
        have hrc := hd.rootCompound
        have ht := h.typ 0 (by have := p.srcRange; omega)
        have e0 : Large.st c 0 = T.st c 0 := rfl
        rw [e0] at hrc
        rw [hrc] at ht
        simp only [beq_self_eq_true] at ht
        have hany : (T.st c 0).children.any (T.isProper c) = true := by
          have := ht.symm
          simp only [Bool.and_eq_true] at this
          exact this.2
        rw [List.any_eq_true] at hany
        obtain ⟨x, hx, _⟩ := hany
        have hx' : x ∈ (Large.st c 0).children := hx
        have hp := hk.children 0 x hx'
        exact ⟨x, hk.childLt 0 x hx', parent_mem_ancs c h x 0 hp⟩

theorem ancs_trans (c : Chart) (hc : Coh c) (s d : Nat) (h : d ∈ Large.ancs c s) : ∀ a ∈ Large.ancs c d, a ∈ Large.ancs c s :=
  closed_ancs c hc (Large.ancs c s) (ancs_closed c hc s s (Nat.le_refl _)) d d (Nat.le_refl _) h

/-- where a member of the chain to `g` lies relative to a state `d` above `g` -/
theorem chain_split (c : Chart) (hc : Coh c) (g d y : Nat) (hd : d ∈ Large.ancs c g) (hy : y ∈ chain c g) :
    d ∈ Large.ancs c y ∨ y = d ∨ y ∈ Large.ancs c d := by
  rcases List.mem_cons.mp hy with h | h
  · rw [h]; exact Or.inl hd
  · exact ancs_split c hc g g (Nat.le_refl _) d hd y h

/-- the ancestor list of a state with a parent -/
theorem ancs_of_parent (c : Chart) (hc : Coh c) (a q : Nat) (hp : (Large.st c a).parent = some q) :
    Large.ancs c a = q :: Large.ancs c q := by
  by_cases halt : a < c.states.size
  · by_cases ha0 : a = 0
    · rw [ha0] at hp
      have : Large.st c 0 = T.st c 0 := rfl
      rw [this, hc.rootParent] at hp; cases hp
    · obtain ⟨p, hp', _, hcons⟩ := Proofs.Subtree.ancs_cons c hc a ha0 halt
      have e1 : Large.st c a = T.st c a := rfl
      rw [e1, hp'] at hp
      simp only [Option.some.injEq] at hp
      subst hp
      rw [ancs_eq, hcons, ← ancs_eq]
  · rw [st_oor c a halt] at hp; cases hp

/-- no state is its own ancestor -/
theorem not_self_anc (c : Chart) (hc : Coh c) (a : Nat) : a ∉ Large.ancs c a := by
  intro h
  by_cases halt : a < c.states.size
  · have := ancs_lt c hc a a (Nat.le_refl _) halt a h; omega
  · have e : Large.ancs c a = Large.ancestors c c.states.size a := rfl
    rw [e] at h
    cases hn : c.states.size with
    | zero => rw [hn] at h; cases h
    | succ m =>
      rw [hn] at h
      unfold Large.ancestors at h
      rw [st_oor c a halt] at h
      cases h

/-- what selection guarantees, as far as this file needs it -/
structure SelFacts (c : Chart) (config t xs transSet : List Nat) : Prop where
  exit : ∀ s, s ∈ xs ↔ ∃ ti ∈ transSet, s ∈ config ∧ (exitSet c (Large.tr c ti)).1 ≠ 0 ∧
    (exitSet c (Large.tr c ti)).1 ≤ s ∧ s ≤ (exitSet c (Large.tr c ti)).2
  plain : ∀ i ∈ transSet, Properties.C05.plainTrans c (T.tr c i) = true
  free : ∀ i ∈ transSet, ∀ j ∈ transSet, i ≠ j → overlaps (exitSet c (Large.tr c i)) (exitSet c (Large.tr c j)) = false
  tfrom : ∀ g ∈ t, ∃ ti ∈ transSet, g ∈ (Large.tr c ti).targets
  src : ∀ ti ∈ transSet, (Large.tr c ti).source ∈ config

/-- the facts about one selected transition and one of its targets -/
theorem sel_domain (c : Chart) (hcoh : Coherent c = true) (hi : IntervalOK c = true) (hk : EOK c) (hd : DOK c)
    (config t xs transSet : List Nat) (hcfg : ConfigOk c config) (hpc : ParentClosed c config) (hs : SelFacts c config t xs transSet)
    (ti : Nat) (hti : ti ∈ transSet) (g : Nat) (hg : g ∈ (Large.tr c ti).targets) :
    ∃ d, d < c.states.size ∧ d ∈ Large.ancs c g ∧ d ∈ config ∧
      exitSet c (Large.tr c ti) = ival c d ∧
      (∀ x, x < c.states.size → (d ∈ Large.ancs c x ↔ (ival c d).1 ≤ x ∧ x ≤ (ival c d).2)) ∧
      (∀ x ∈ config, d ∈ Large.ancs c x → x ∈ xs) ∧
      (∀ y, (y = d ∨ y ∈ Large.ancs c d) → y ∈ config) ∧
      ∃ x, x < c.states.size ∧ d ∈ Large.ancs c x := by
  have hc := coh_of_coherent hcoh
  have hpl := (Properties.C05.plain_of_plainTrans (hs.plain ti hti)).1
  have htr : Large.tr c ti = T.tr c ti := rfl
  obtain ⟨d, hdd, hdg, hdsrc, _, hchild⟩ := domain_facts c hc hk hd (T.tr c ti) hpl g hg
  obtain ⟨hdlt, hdp⟩ := domain_proper c hc _ hpl d hdd
  have hex : exitSet c (Large.tr c ti) = ival c d := by
    unfold Large.exitSet ival
    rw [htr, large_domain_eq c hc _ hpl, hdd]
    rfl
  have hiv : ∀ x, x < c.states.size → (d ∈ Large.ancs c x ↔ (ival c d).1 ≤ x ∧ x ≤ (ival c d).2) := by
    intro x hx
    rw [← intervalOK_spec hi hdlt hx hdp]
    unfold hasAnc
    exact List.contains_iff_mem.symm
  have hlo : (ival c d).1 ≠ 0 := by
    unfold ival
    split <;> simp
  -- the source is active, and so is everything above it
  have hsrcC : (T.tr c ti).source ∈ config := hs.src ti hti
  have habove : ∀ y, (y = d ∨ y ∈ Large.ancs c d) → y ∈ config := by
    intro y hy
    have hd_cfg : d ∈ config := by
      rcases hdsrc with h1 | h1
      · rw [h1]; exact hsrcC
      · exact closed_ancs c hc config hpc _ _ (Nat.le_refl _) hsrcC d h1
    rcases hy with h1 | h1
    · rw [h1]; exact hd_cfg
    · exact closed_ancs c hc config hpc d d (Nat.le_refl _) hd_cfg y h1
  refine ⟨d, hdlt, hdg, habove d (Or.inl rfl), hex, hiv, ?_, habove, hchild⟩
  intro x hxc hdx
  have hxlt := (hcfg x hxc).1
  have := (hiv x hxlt).mp hdx
  exact (hs.exit x).mpr ⟨ti, hti, hxc, by rw [hex]; exact hlo, by rw [hex]; exact this.1, by rw [hex]; exact this.2⟩

/-- the targets with their ancestors, and the states that stay: no compound state has two different real children among them -/
theorem e0_xor (c : Chart) (hcoh : Coherent c = true) (hi : IntervalOK c = true) (hk : EOK c) (hd : DOK c) (hx : XOK c)
    (e : EState) (t xs transSet : List Nat) (hcfg : ConfigOk c e.config) (hpc : ParentClosed c e.config)
    (hxor : XorU c e.config) (hs : SelFacts c e.config t xs transSet) :
    XorU c (t.foldl (fun en g => insAll (Large.ancs c g) en) t ++ stayOf e xs) := by
  have hc := coh_of_coherent hcoh
  have hmemE := mem_foldl_insAll (fun g => Large.ancs c g) t t
  -- provenance of a member of the initial entry set
  have prov : ∀ y, y ∈ t.foldl (fun en g => insAll (Large.ancs c g) en) t →
      ∃ ti ∈ transSet, ∃ g ∈ (Large.tr c ti).targets, y ∈ chain c g := by
    intro y hy
    rcases (hmemE y).mp hy with h | ⟨g, hg, hyg⟩
    · obtain ⟨ti, hti, hgt⟩ := hs.tfrom y h
      exact ⟨ti, hti, y, hgt, List.mem_cons_self⟩
    · obtain ⟨ti, hti, hgt⟩ := hs.tfrom g hg
      exact ⟨ti, hti, g, hgt, List.mem_cons_of_mem _ hyg⟩
  -- a member of the entry set that is not below its transition's domain is active
  -- one from the entry set, one that stays
  have L1 : ∀ a b q, a ∈ stayOf e xs → b ∈ t.foldl (fun en g => insAll (Large.ancs c g) en) t →
      (Large.st c a).parent = some q → (Large.st c b).parent = some q → (Large.st c q).typ = .compound →
      (Large.st c a).typ.isPseudo = false → (Large.st c b).typ.isPseudo = false → a = b := by
    intro a b q ha hb hpa hpb hq hna hnb
    obtain ⟨hac, hax⟩ := (mem_stayOf e xs a).mp ha
    obtain ⟨ti, hti, g, hg, hbg⟩ := prov b hb
    obtain ⟨d, _, hdg, _, _, _, hexits, habove, _⟩ := sel_domain c hcoh hi hk hd e.config t xs transSet hcfg hpc hs ti hti g hg
    rcases chain_split c hc g d b hdg hbg with h1 | h1
    · -- b below d: then a, a sibling, is below d too and would be exited
      exfalso
      rw [ancs_of_parent c hc b q hpb] at h1
      have : d ∈ Large.ancs c a := by rw [ancs_of_parent c hc a q hpa]; exact h1
      exact hax (hexits a hac this)
    · -- b is d or above d: active, so both are active children of q
      exact hxor a hac b (habove b h1) q hpa hpb hq hna hnb
  intro a ha b hb q hpa hpb hq hna hnb
  rcases List.mem_append.mp ha with ha1 | ha1
  · rcases List.mem_append.mp hb with hb1 | hb1
    · -- both from the entry set
      obtain ⟨t1, ht1, g1, hg1, hag⟩ := prov a ha1
      obtain ⟨t2, ht2, g2, hg2, hbg⟩ := prov b hb1
      obtain ⟨d1, hd1lt, hd1g, _, hex1, hiv1, hexits1, habove1, x1, hx1lt, hx1⟩ :=
        sel_domain c hcoh hi hk hd e.config t xs transSet hcfg hpc hs t1 ht1 g1 hg1
      obtain ⟨d2, hd2lt, hd2g, _, hex2, hiv2, hexits2, habove2, x2, hx2lt, hx2⟩ :=
        sel_domain c hcoh hi hk hd e.config t xs transSet hcfg hpc hs t2 ht2 g2 hg2
      -- nested domains of different transitions contradict conflict-freedom
      have nested : ∀ (ta tb da db xb : Nat), ta ∈ transSet → tb ∈ transSet → ta ≠ tb →
          exitSet c (Large.tr c ta) = ival c da → exitSet c (Large.tr c tb) = ival c db →
          (∀ x, x < c.states.size → (da ∈ Large.ancs c x ↔ (ival c da).1 ≤ x ∧ x ≤ (ival c da).2)) →
          (∀ x, x < c.states.size → (db ∈ Large.ancs c x ↔ (ival c db).1 ≤ x ∧ x ≤ (ival c db).2)) →
          xb < c.states.size → db ∈ Large.ancs c xb → (da = db ∨ da ∈ Large.ancs c db) → False := by
        intro ta tb da db xb hta htb hne hea heb hia hib hxlt hxb hrel
        have hno := hs.free ta hta tb htb hne
        rw [hea, heb] at hno
        have hxa : da ∈ Large.ancs c xb := by
          rcases hrel with h | h
          · rw [h]; exact hxb
          · exact ancs_trans c hc xb db hxb da h
        have i1 := (hia xb hxlt).mp hxa
        have i2 := (hib xb hxlt).mp hxb
        have l1 : (ival c da).1 ≠ 0 := by unfold ival; split <;> simp
        have l2 : (ival c db).1 ≠ 0 := by unfold ival; split <;> simp
        exact no_common_of_not_overlaps _ _ hno l1 l2 xb i1 i2
      rcases chain_split c hc g1 d1 a hd1g hag with h1 | h1
      · rcases chain_split c hc g2 d2 b hd2g hbg with h2 | h2
        · -- both below their domains: the domains are comparable (both above q or q itself)
          rw [ancs_of_parent c hc a q hpa] at h1
          rw [ancs_of_parent c hc b q hpb] at h2
          by_cases htt : t1 = t2
          · subst htt
            exact hx.legalTargets t1 g1 hg1 g2 hg2 a hag b hbg q hpa hpb hq
          · exfalso
            have hcmp : d1 = d2 ∨ d1 ∈ Large.ancs c d2 ∨ d2 ∈ Large.ancs c d1 := by
              rcases List.mem_cons.mp h1 with e1 | e1
              · rcases List.mem_cons.mp h2 with e2 | e2
                · exact Or.inl (by rw [e1, e2])
                · exact Or.inr (Or.inr (by rw [e1]; exact e2))
              · rcases List.mem_cons.mp h2 with e2 | e2
                · exact Or.inr (Or.inl (by rw [e2]; exact e1))
                · rcases ancs_split c hc q q (Nat.le_refl _) d2 e2 d1 e1 with e3 | e3 | e3
                  · exact Or.inr (Or.inr e3)
                  · exact Or.inl e3
                  · exact Or.inr (Or.inl e3)
            rcases hcmp with e1 | e1 | e1
            · exact nested t1 t2 d1 d2 x2 ht1 ht2 htt hex1 hex2 hiv1 hiv2 hx2lt hx2 (Or.inl e1)
            · exact nested t1 t2 d1 d2 x2 ht1 ht2 htt hex1 hex2 hiv1 hiv2 hx2lt hx2 (Or.inr e1)
            · exact nested t2 t1 d2 d1 x1 ht2 ht1 (fun h => htt h.symm) hex2 hex1 hiv2 hiv1 hx1lt hx1 (Or.inr e1)
        · -- a below d1, b at or above d2 (so b is active): symmetric to the case below
          have hbc := habove2 b h2
          by_cases hax : a ∈ e.config
          · exact hxor a hax b hbc q hpa hpb hq hna hnb
          · -- a is not active, b is: then b, a sibling of a below d1 ... b is below d1 as well and exited by t1; it is re-entered for t2
            exfalso
            rw [ancs_of_parent c hc a q hpa] at h1
            have hbd1 : d1 ∈ Large.ancs c b := by rw [ancs_of_parent c hc b q hpb]; exact h1
            -- t1 ≠ t2: b is below d1 but not below d2
            have htt : t1 ≠ t2 := by
              intro htt
              subst htt
              have hdd : d1 = d2 := by
                have e1 := hex1; rw [hex2] at e1
                -- both are the domain of the same transition
                have : (ival c d2).1 = (ival c d1).1 := by rw [e1]
                unfold ival at this
                split at this <;> split at this <;> simp at this <;> omega
              rw [hdd] at hbd1
              rcases h2 with h3 | h3
              · rw [h3] at hbd1; exact not_self_anc c hc d2 hbd1
              · have := ancs_trans c hc d2 b h3 d2 hbd1
                exact not_self_anc c hc d2 this
            -- d2 is b or below b, b is below d1: d1 is above d2
            have hrel : d1 ∈ Large.ancs c d2 := by
              rcases h2 with h3 | h3
              · rw [← h3]; exact hbd1
              · exact ancs_trans c hc d2 b h3 d1 hbd1
            exact nested t1 t2 d1 d2 x2 ht1 ht2 htt hex1 hex2 hiv1 hiv2 hx2lt hx2 (Or.inr hrel)
      · have hac := habove1 a h1
        rcases chain_split c hc g2 d2 b hd2g hbg with h2 | h2
        · by_cases hbx : b ∈ e.config
          · exact hxor a hac b hbx q hpa hpb hq hna hnb
          · exfalso
            rw [ancs_of_parent c hc b q hpb] at h2
            have had2 : d2 ∈ Large.ancs c a := by rw [ancs_of_parent c hc a q hpa]; exact h2
            have htt : t2 ≠ t1 := by
              intro htt
              subst htt
              have hdd : d2 = d1 := by
                have e1 := hex2; rw [hex1] at e1
                have : (ival c d1).1 = (ival c d2).1 := by rw [e1]
                unfold ival at this
                split at this <;> split at this <;> simp at this <;> omega
              rw [hdd] at had2
              rcases h1 with h3 | h3
              · rw [h3] at had2; exact not_self_anc c hc d1 had2
              · have := ancs_trans c hc d1 a h3 d1 had2
                exact not_self_anc c hc d1 this
            have hrel : d2 ∈ Large.ancs c d1 := by
              rcases h1 with h3 | h3
              · rw [← h3]; exact had2
              · exact ancs_trans c hc d1 a h3 d2 had2
            exact nested t2 t1 d2 d1 x1 ht2 ht1 htt hex2 hex1 hiv2 hiv1 hx1lt hx1 (Or.inr hrel)
        · exact hxor a hac b (habove2 b h2) q hpa hpb hq hna hnb
    · exact (L1 b a q hb1 ha1 hpb hpa hq hnb hna).symm
  · rcases List.mem_append.mp hb with hb1 | hb1
    · exact L1 a b q ha1 hb1 hpa hpb hq hna hnb
    · exact hxor a ((mem_stayOf e xs a).mp ha1).1 b ((mem_stayOf e xs b).mp hb1).1 q hpa hpb hq hna hnb

end UscxmlVerif.Proofs.XorSel
