import UscxmlVerif.Model.Fast
import UscxmlVerif.Proofs.CfgInv
/-!
# The set of transitions an engine selects is conflict-free

Appendix D's `removeConflictingTransitions` leaves no two transitions whose exit sets intersect.
Both engines decide conflicts on exit-set *intervals* (`overlaps`). Here: whatever the chart, the
configuration, the event and the conditions, no two distinct transitions in the selected set have
overlapping exit intervals - LargeMicroStep checks each candidate against the set selected so far,
FastMicroStep against the accumulated pre-computed conflict sets.
-/
namespace UscxmlVerif.Proofs.Select
open UscxmlVerif UscxmlVerif.Model UscxmlVerif.Model.Large UscxmlVerif.Proofs.CfgInv

theorem overlaps_symm (a b : Nat × Nat) : overlaps a b = overlaps b a := by
  unfold overlaps
  cases (a.1 != 0) <;> cases (b.1 != 0) <;>
    cases (decide (a.1 ≤ b.1) && decide (a.2 ≥ b.1)) <;> cases (decide (b.1 ≤ a.1) && decide (b.2 ≥ a.1)) <;> rfl

abbrev E (c : Chart) (i : Nat) : Nat × Nat := exitSet c (tr c i)

/-- no two distinct selected transitions overlap; nothing is selected before `found` is set -/
def Free (c : Chart) (found : Bool) (ts : List Nat) : Prop :=
  (found = false → ts = []) ∧ ∀ i ∈ ts, ∀ j ∈ ts, i ≠ j → overlaps (E c i) (E c j) = false

theorem free_add (c : Chart) (found : Bool) (ts : List Nat) (ti : Nat) (h : Free c found ts)
    (hno : ¬ (found && ts.any (fun e => overlaps (exitSet c (tr c ti)) (exitSet c (tr c e)))) = true) : Free c true (ins ti ts) := by
  refine ⟨(fun hf => by cases hf), ?_⟩
  have hnew : ∀ j ∈ ts, overlaps (E c ti) (E c j) = false := by
    intro j hj
    cases hfound : found with
    | false => rw [h.1 hfound] at hj; cases hj
    | true =>
      rw [hfound, Bool.true_and] at hno
      cases hov : overlaps (E c ti) (E c j) with
      | false => rfl
      | true => exact absurd (List.any_eq_true.mpr ⟨j, hj, hov⟩) hno
  intro i hi j hj hne
  rcases (mem_ins ti ts i).mp hi with hi | hi <;> rcases (mem_ins ti ts j).mp hj with hj | hj
  · rw [hi, hj] at hne; exact absurd rfl hne
  · rw [hi]; exact hnew j hj
  · rw [hj, overlaps_symm]; exact hnew i hi
  · exact h.2 i hi j hj hne

/-! ## LargeMicroStep -/

theorem large_selectInState_free (c : Chart) (config : List Nat) (ev : Option String) (s : Nat) :
    ∀ (l : List Nat) (sel : Sel), Free c sel.found sel.transSet →
      Free c (selectInState c config ev s l sel).found (selectInState c config ev s l sel).transSet := by
  intro l
  induction l with
  | nil => intro sel h; exact h
  | cons ti rest ih =>
    intro sel h
    unfold selectInState
    simp only
    repeat' split
    all_goals first
      | exact ih _ h
      | exact h
      | exact free_add c sel.found sel.transSet ti h (by assumption)

theorem large_selectLoop_free (c : Chart) (config : List Nat) (ev : Option String) :
    ∀ (l : List Nat) (sel : Sel), Free c sel.found sel.transSet →
      Free c (Large.selectLoop c config ev l sel).found (Large.selectLoop c config ev l sel).transSet := by
  intro l
  induction l with
  | nil => intro sel h; exact h
  | cons s rest ih =>
    intro sel h
    unfold Large.selectLoop
    split
    · exact ih sel h
    · exact ih _ (large_selectInState_free c config ev s _ sel h)

/-- **LargeMicroStep selects a conflict-free set** -/
theorem large_selection_conflict_free (c : Chart) (config : List Nat) (ev : Option String) (pf : List Nat) (x : XS) :
    ∀ i ∈ (Large.selectLoop c config ev pf { x := x }).transSet, ∀ j ∈ (Large.selectLoop c config ev pf { x := x }).transSet,
      i ≠ j → overlaps (E c i) (E c j) = false :=
  (large_selectLoop_free c config ev pf { x := x } ⟨fun _ => rfl, fun i hi => by cases hi⟩).2

/-! ## FastMicroStep -/

theorem mem_insAll (l : List Nat) : ∀ (s : List Nat) (x : Nat), x ∈ insAll l s ↔ x ∈ l ∨ x ∈ s := by
  induction l with
  | nil => intro s x; simp [insAll]
  | cons a as ih =>
    intro s x
    have : insAll (a :: as) s = insAll as (ins a s) := rfl
    rw [this, ih, mem_ins]
    simp only [List.mem_cons]
    constructor
    · rintro (h | h | h)
      · exact Or.inl (Or.inr h)
      · exact Or.inl (Or.inl h)
      · exact Or.inr h
    · rintro ((h | h) | h)
      · exact Or.inr (Or.inl h)
      · exact Or.inl h
      · exact Or.inr (Or.inr h)

/-- the accumulated conflict set covers everything that overlaps a selected transition -/
def Covered (c : Chart) (ts confl : List Nat) : Prop :=
  ∀ j ∈ ts, ∀ k, k < c.trans.size → k ≠ j → overlaps (E c j) (E c k) = true → k ∈ confl

theorem fast_accept (c : Chart) (sel : Sel) (confl : List Nat) (ti : Nat) (hti : ti < c.trans.size)
    (h : Free c sel.found sel.transSet) (hc : Covered c sel.transSet confl) (hnot : ¬ mem ti confl = true)
    (hnew : ti ∉ sel.transSet) :
    Free c true (ins ti sel.transSet) ∧
      Covered c (ins ti sel.transSet) (insAll ((List.range c.trans.size).filter (Fast.conflicts c ti)) confl) := by
  have hnc : ti ∉ confl := by
    intro hm
    apply hnot
    unfold mem
    simpa using hm
  constructor
  · apply free_add c sel.found sel.transSet ti h
    intro hany
    rw [Bool.and_eq_true] at hany
    obtain ⟨j, hj, hov⟩ := List.any_eq_true.mp hany.2
    have hji : ti ≠ j := fun e => hnew (e ▸ hj)
    rw [overlaps_symm] at hov
    exact hnc (hc j hj ti hti hji hov)
  · intro j hj k hk hne hov
    rw [mem_insAll]
    rcases (mem_ins ti sel.transSet j).mp hj with hj | hj
    · left
      rw [List.mem_filter, List.mem_range]
      refine ⟨hk, ?_⟩
      unfold Fast.conflicts
      rw [hj] at hne hov
      simp only [Bool.and_eq_true, bne_iff_ne, ne_eq]
      exact ⟨fun h => hne h.symm, hov⟩
    · right
      exact hc j hj k hk hne hov

theorem fast_selectLoop_free (c : Chart) (config : List Nat) (ev : Option String) :
    ∀ (l : List Nat) (sel : Sel) (confl : List Nat), (∀ k ∈ l, k < c.trans.size) → l.Nodup →
      Free c sel.found sel.transSet → Covered c sel.transSet confl → (∀ j ∈ sel.transSet, j ∉ l) →
      Free c (Fast.selectLoop c config ev l sel confl).found (Fast.selectLoop c config ev l sel confl).transSet := by
  intro l
  induction l with
  | nil => intro sel confl _ _ h _ _; exact h
  | cons ti rest ih =>
    intro sel confl hl hnd h hc hdisj
    have hrest : ∀ k ∈ rest, k < c.trans.size := fun k hk => hl k (List.mem_cons_of_mem _ hk)
    have hti : ti < c.trans.size := hl ti List.mem_cons_self
    have hnd' : rest.Nodup := (List.nodup_cons.mp hnd).2
    have htirest : ti ∉ rest := (List.nodup_cons.mp hnd).1
    have hdisj' : ∀ j ∈ sel.transSet, j ∉ rest := fun j hj hm => hdisj j hj (List.mem_cons_of_mem _ hm)
    have hnew : ti ∉ sel.transSet := fun hm => hdisj ti hm List.mem_cons_self
    unfold Fast.selectLoop
    simp only
    repeat' split
    all_goals first
      | exact ih _ _ hrest hnd' h hc hdisj'
      | (have hacc := fast_accept c sel confl ti hti h hc (by assumption) hnew
         refine ih _ _ hrest hnd' hacc.1 hacc.2 ?_
         intro j hj hm
         rcases (mem_ins ti sel.transSet j).mp hj with hj | hj
         · rw [hj] at hm; exact htirest hm
         · exact hdisj' j hj hm)

/-- **FastMicroStep selects a conflict-free set** -/
theorem fast_selection_conflict_free (c : Chart) (config : List Nat) (ev : Option String) (x : XS) :
    ∀ i ∈ (Fast.selectLoop c config ev (List.range c.trans.size) { x := x } []).transSet,
      ∀ j ∈ (Fast.selectLoop c config ev (List.range c.trans.size) { x := x } []).transSet,
      i ≠ j → overlaps (E c i) (E c j) = false :=
  (fast_selectLoop_free c config ev (List.range c.trans.size) { x := x } [] (fun k hk => List.mem_range.mp hk)
    List.nodup_range ⟨fun _ => rfl, fun i hi => by cases hi⟩ (fun j hj => by cases hj) (fun j hj => by cases hj)).2

end UscxmlVerif.Proofs.Select
