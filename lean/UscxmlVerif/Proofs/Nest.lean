import UscxmlVerif.Spec.Nesting
import UscxmlVerif.Model.Api
import UscxmlVerif.Proofs.Flags
/-!
# The notifications of the engine models are well nested

`Nest stk stk' x x'`: the observations added between `x` and `x'`, read in chronological order,
drive the nesting automaton of `Spec.Nesting` from stack `stk` to stack `stk'`.
-/
namespace UscxmlVerif.Proofs.Nest
open UscxmlVerif UscxmlVerif.Model UscxmlVerif.Model.Large UscxmlVerif.Spec.Nesting UscxmlVerif.Proofs.Flags

theorem runT_append (s : List Frame) (a b : List Tok) :
    runT s (a ++ b) = (runT s a).bind (fun s' => runT s' b) := by
  induction a generalizing s with
  | nil => simp [runT]
  | cons t ts ih =>
    simp only [List.cons_append, runT]
    cases stepTok s t with
    | none => rfl
    | some s1 => simpa using ih s1

def Nest (stk stk' : List Frame) (x x' : XS) : Prop :=
  ∃ seg, x'.obs.reverse = x.obs.reverse ++ seg ∧ runT stk seg = some stk'

theorem Nest.refl (stk : List Frame) (x : XS) : Nest stk stk x x := ⟨[], by simp, rfl⟩

theorem Nest.trans {a b c : List Frame} {x y z : XS} (h1 : Nest a b x y) (h2 : Nest b c y z) : Nest a c x z := by
  obtain ⟨s1, e1, r1⟩ := h1
  obtain ⟨s2, e2, r2⟩ := h2
  exact ⟨s1 ++ s2, by rw [e2, e1, List.append_assoc], by rw [runT_append, r1]; exact r2⟩

theorem nest_emit (stk stk' : List Frame) (x : XS) (t : Tok) (h : stepTok stk t = some stk') :
    Nest stk stk' x (x.emit t) :=
  ⟨[t], by simp [XS.emit], by simp [runT, h]⟩

/-- changes that leave the observations alone -/
theorem nest_same (stk : List Frame) (x x' : XS) (h : x'.obs = x.obs) : Nest stk stk x x' :=
  ⟨[], by simp [h], rfl⟩

theorem nest_raise (stk : List Frame) (x : XS) (e : String) : Nest stk stk x (x.raise e) := nest_same stk _ _ rfl
theorem nest_sendExt (stk : List Frame) (x : XS) (e : String) : Nest stk stk x (x.sendExt e) := nest_same stk _ _ rfl

/-- stacks on which executable content may be reported -/
def CC : List Frame → Prop
  | .exitS _ :: _ | .enterS _ :: _ | .trans _ :: _ | .content _ :: _ | .completion :: _ => True
  | _ => False

theorem step_bc {stk : List Frame} (h : CC stk) (uv : Nat) : stepTok stk (.bc uv) = some (.content uv :: stk) := by
  cases stk with
  | nil => cases h
  | cons f rest => cases f <;> first | rfl | cases h

theorem step_ac (stk : List Frame) (uv : Nat) : stepTok (.content uv :: stk) (.ac uv) = some stk := by
  simp [stepTok]

theorem step_log (stk : List Frame) (l : String) : stepTok stk (.log l) = some stk := rfl

theorem cc_content (uv : Nat) (stk : List Frame) : CC (.content uv :: stk) := trivial

theorem nest_evalCond (stk : List Frame) (c : Chart) (cfg : List Nat) (x : XS) (cond : Cond) :
    Nest stk stk x (evalCond c cfg x cond).1 := by
  cases cond <;> simp only [evalCond] <;> first | exact Nest.refl stk x | exact nest_raise stk x _

/-- an element that only brackets a change which emits nothing -/
theorem nest_bracket {stk : List Frame} (h : CC stk) (uv : Nat) (x : XS) (f : XS → XS)
    (hf : ∀ y, Nest (.content uv :: stk) (.content uv :: stk) y (f y)) :
    Nest stk stk x ((f (x.emit (.bc uv))).emit (.ac uv)) :=
  Nest.trans (nest_emit _ _ x _ (step_bc h uv)) (Nest.trans (hf _) (nest_emit _ _ _ _ (step_ac stk uv)))

theorem execIf_step (c : Chart) (cfg : List Nat) (stk : List Frame) (e : Exec) (rest : List Exec) (b : Bool) (x : XS)
    (hdef : execIf c cfg (e :: rest) b x =
      if b then (if (exec c cfg e x).2 then execIf c cfg rest b (exec c cfg e x).1 else ((exec c cfg e x).1, false))
      else execIf c cfg rest b x)
    (he : Nest stk stk x (exec c cfg e x).1)
    (hrest : ∀ (b : Bool) (x : XS), Nest stk stk x (execIf c cfg rest b x).1) :
    Nest stk stk x (execIf c cfg (e :: rest) b x).1 := by
  rw [hdef]
  cases b with
  | false => simp only [Bool.false_eq_true, ↓reduceIte]; exact hrest false x
  | true =>
    simp only [↓reduceIte]
    cases hok : (exec c cfg e x).2 with
    | true => simp only [↓reduceIte]; exact Nest.trans he (hrest true _)
    | false => simp only [Bool.false_eq_true, ↓reduceIte]; exact he

mutual
theorem nest_exec (c : Chart) (cfg : List Nat) : ∀ (e : Exec) (stk : List Frame), CC stk → ∀ (x : XS),
    Nest stk stk x (exec c cfg e x).1
  | .raise uv name, stk, h, x => by
    simp only [exec]
    exact nest_bracket h uv x (fun y => y.raise name) (fun y => nest_raise _ y name)
  | .log uv label, stk, h, x => by
    simp only [exec]
    exact nest_bracket h uv x (fun y => y.emit (.log label)) (fun y => nest_emit _ _ y _ (step_log _ label))
  | .send uv name target, stk, h, x => by
    simp only [exec]
    refine Nest.trans ?_ (nest_emit _ _ _ _ (step_ac stk uv))
    split
    · exact Nest.trans (nest_emit _ _ x _ (step_bc h uv)) (nest_raise _ _ _)
    · exact Nest.trans (nest_emit _ _ x _ (step_bc h uv)) (nest_sendExt _ _ _)
  | .fail uv comm, stk, h, x => by
    simp only [exec]
    exact nest_bracket h uv x (fun y => y.raise (if comm then "error.communication" else "error.execution")) (fun y => nest_raise _ y _)
  | .assign uv v k, stk, h, x => by
    simp only [exec]
    exact nest_bracket h uv x (fun y => { y with vars := y.vars.set v k }) (fun y => nest_same _ y _ rfl)
  | .incr uv v, stk, h, x => by
    simp only [exec]
    exact nest_bracket h uv x (fun y => { y with vars := y.vars.set v (y.vars.getD v 0 + 1) }) (fun y => nest_same _ y _ rfl)
  | .ite uv cond children, stk, h, x => by
    simp only [exec]
    refine Nest.trans (nest_emit _ _ x _ (step_bc h uv)) (Nest.trans ?_ (nest_emit _ _ _ _ (step_ac stk uv)))
    exact Nest.trans (nest_evalCond _ c cfg _ cond) (nest_execIf c cfg children _ (cc_content uv stk) _ _)
  | .elseif _, stk, _, x => by simp only [exec]; exact Nest.refl stk x
  | .else_, stk, _, x => by simp only [exec]; exact Nest.refl stk x

theorem nest_execIf (c : Chart) (cfg : List Nat) : ∀ (es : List Exec) (stk : List Frame), CC stk → ∀ (b : Bool) (x : XS),
    Nest stk stk x (execIf c cfg es b x).1
  | [], stk, _, b, x => by simp only [execIf]; exact Nest.refl stk x
  | .elseif cond :: rest, stk, h, b, x => by
    simp only [execIf]
    cases b with
    | true => exact Nest.refl stk x
    | false =>
      simp only [Bool.false_eq_true, ↓reduceIte]
      exact Nest.trans (nest_evalCond stk c cfg x cond) (nest_execIf c cfg rest stk h _ _)
  | .else_ :: rest, stk, h, b, x => by
    simp only [execIf]
    cases b with
    | true => exact Nest.refl stk x
    | false => simp only [Bool.false_eq_true, ↓reduceIte]; exact nest_execIf c cfg rest stk h true x
  | .raise uv name :: rest, stk, h, b, x =>
    execIf_step c cfg stk (.raise uv name) rest b x (by simp [execIf]) (nest_exec c cfg (.raise uv name) stk h x) (fun b x => nest_execIf c cfg rest stk h b x)
  | .log uv l :: rest, stk, h, b, x =>
    execIf_step c cfg stk (.log uv l) rest b x (by simp [execIf]) (nest_exec c cfg (.log uv l) stk h x) (fun b x => nest_execIf c cfg rest stk h b x)
  | .send uv n t :: rest, stk, h, b, x =>
    execIf_step c cfg stk (.send uv n t) rest b x (by simp [execIf]) (nest_exec c cfg (.send uv n t) stk h x) (fun b x => nest_execIf c cfg rest stk h b x)
  | .fail uv k :: rest, stk, h, b, x =>
    execIf_step c cfg stk (.fail uv k) rest b x (by simp [execIf]) (nest_exec c cfg (.fail uv k) stk h x) (fun b x => nest_execIf c cfg rest stk h b x)
  | .assign uv v k :: rest, stk, h, b, x =>
    execIf_step c cfg stk (.assign uv v k) rest b x (by simp [execIf]) (nest_exec c cfg (.assign uv v k) stk h x) (fun b x => nest_execIf c cfg rest stk h b x)
  | .incr uv v :: rest, stk, h, b, x =>
    execIf_step c cfg stk (.incr uv v) rest b x (by simp [execIf]) (nest_exec c cfg (.incr uv v) stk h x) (fun b x => nest_execIf c cfg rest stk h b x)
  | .ite uv cd ch :: rest, stk, h, b, x =>
    execIf_step c cfg stk (.ite uv cd ch) rest b x (by simp [execIf]) (nest_exec c cfg (.ite uv cd ch) stk h x) (fun b x => nest_execIf c cfg rest stk h b x)
end

theorem nest_execBlock (c : Chart) (cfg : List Nat) (stk : List Frame) (h : CC stk) (es : List Exec) (x : XS) :
    Nest stk stk x (execBlock c cfg es x) := by
  induction es generalizing x with
  | nil => exact Nest.refl stk x
  | cons e es ih =>
    simp only [execBlock]
    have he := nest_exec c cfg e stk h x
    cases (exec c cfg e x).2 with
    | true => simp only [↓reduceIte]; exact Nest.trans he (ih _)
    | false => simp only [Bool.false_eq_true, ↓reduceIte]; exact he

theorem nest_foldl {α : Type} (stk : List Frame) (f : XS → α → XS) (h : ∀ x a, Nest stk stk x (f x a)) (l : List α) (x : XS) :
    Nest stk stk x (l.foldl f x) := by
  induction l generalizing x with
  | nil => exact Nest.refl stk x
  | cons a l ih => exact Nest.trans (h x a) (ih _)

theorem nest_execBlocks (c : Chart) (cfg : List Nat) (stk : List Frame) (h : CC stk) (bs : List (List Exec)) (x : XS) :
    Nest stk stk x (execBlocks c cfg bs x) :=
  nest_foldl stk _ (fun x b => nest_execBlock c cfg stk h b x) bs x

/-! ## micro-step level -/

/-- from any phase of a micro-step bracket to some phase of it -/
def NestM (x x' : XS) : Prop := ∀ p, ∃ q, Nest [.micro p] [.micro q] x x'

theorem NestM.refl (x : XS) : NestM x x := fun p => ⟨p, Nest.refl _ x⟩

theorem NestM.trans {x y z : XS} (h1 : NestM x y) (h2 : NestM y z) : NestM x z := by
  intro p
  obtain ⟨q, hq⟩ := h1 p
  obtain ⟨r, hr⟩ := h2 q
  exact ⟨r, Nest.trans hq hr⟩

theorem NestM.of_same {x x' : XS} (h : x'.obs = x.obs) : NestM x x' := fun p => ⟨p, nest_same _ _ _ h⟩

theorem nestM_foldl {α : Type} (f : XS → α → XS) (h : ∀ x a, NestM x (f x a)) (l : List α) (x : XS) :
    NestM x (l.foldl f x) := by
  induction l generalizing x with
  | nil => exact NestM.refl x
  | cons a l ih => exact NestM.trans (h x a) (ih _)

theorem step_bt (p : Nat) (v : String) : ∃ q, stepTok [.micro p] (.bt v) = some [.trans v, .micro q] := by
  by_cases h : p ≤ 1
  · exact ⟨1, by simp [stepTok, h]⟩
  · exact ⟨p, by simp [stepTok, h]⟩

theorem nestM_takeTrans (c : Chart) (cfg : List Nat) (ti : Nat) (x : XS) : NestM x (takeTrans c cfg ti x) := by
  intro p
  obtain ⟨q, hbt⟩ := step_bt p (tname c ti)
  refine ⟨q, ?_⟩
  simp only [takeTrans]
  have hat : stepTok [.trans (tname c ti), .micro q] (.at (tname c ti)) = some [.micro q] := by
    simp [stepTok]
  refine Nest.trans (nest_emit _ _ x _ hbt) (Nest.trans ?_ (nest_emit _ _ _ _ hat))
  by_cases hc : (tr c ti).hasContent = true
  · rw [if_pos hc]
    exact nest_execBlock c cfg [.trans (tname c ti), .micro q] trivial _ _
  · rw [if_neg hc]
    exact Nest.refl _ _

/-- entering a state: `be`, the onentry blocks, `ae`, then the initial / history transitions below it -/
theorem nestM_enterX (c : Chart) (cfg : List Nat) (id : String) (blocks : List (List Exec)) (x : XS) :
    ∀ p, Nest [.micro p] [.micro 2] x ((execBlocks c cfg blocks (x.emit (.be id))).emit (.ae id)) := by
  intro p
  have hbe : stepTok [.micro p] (.be id) = some [.enterS id, .micro 2] := rfl
  have hae : stepTok [.enterS id, .micro 2] (.ae id) = some [.micro 2] := by simp [stepTok]
  exact Nest.trans (nest_emit _ _ x _ hbe) (Nest.trans (nest_execBlocks c cfg [.enterS id, .micro 2] trivial blocks _) (nest_emit _ _ _ _ hae))

theorem nestM_childFold (c : Chart) (ts : List Nat) (config : List Nat) (chs : List Nat) (x : XS) :
    NestM x (chs.foldl (fun x ch =>
      if (st c ch).typ.isPseudo then
        (st c ch).trans.foldl (fun x ti =>
          if ((tr c ti).isHistory || (tr c ti).isInitial) && mem ti ts then takeTrans c config ti x else x) x
      else x) x) := by
  apply nestM_foldl
  intro x ch
  split
  · apply nestM_foldl
    intro x ti
    split
    · exact nestM_takeTrans _ _ _ _
    · exact NestM.refl _
  · exact NestM.refl _

theorem nestM_transFold (c : Chart) (config : List Nat) (s : Nat) (ts : List Nat) (x : XS) :
    NestM x (ts.foldl (fun x ti =>
      if ((tr c ti).isHistory || (tr c ti).isInitial) && (st c (tr c ti).source).parent == some s then
        takeTrans c config ti x else x) x) := by
  apply nestM_foldl
  intro x ti
  split
  · exact nestM_takeTrans _ _ _ _
  · exact NestM.refl _

/-- the same for engine states -/
def NestME (e e' : EState) : Prop := NestM e.x e'.x

theorem nestME_foldl {α : Type} (f : EState → α → EState) (h : ∀ e a, NestME e (f e a)) (l : List α) (e : EState) :
    NestME e (l.foldl f e) := by
  induction l generalizing e with
  | nil => exact NestM.refl _
  | cons a l ih => exact NestM.trans (h e a) (ih _)

theorem large_enterState_nest (c : Chart) (ts : List Nat) (e : EState) (s : Nat) :
    NestME e (Large.enterState c ts e s) := by
  unfold Large.enterState NestME
  simp only
  split
  · exact NestM.refl _
  · have hx : NestM e.x ((st c s).children.foldl (fun x ch =>
        if (st c ch).typ.isPseudo then
          (st c ch).trans.foldl (fun x ti =>
            if ((tr c ti).isHistory || (tr c ti).isInitial) && mem ti ts then takeTrans c (ins s e.config) ti x else x) x
        else x) ((execBlocks c (ins s e.config) (st c s).onentry (e.x.emit (.be ((st c s).id)))).emit (.ae ((st c s).id)))) := by
      refine NestM.trans (fun p => ⟨2, nestM_enterX c _ _ _ e.x p⟩) (nestM_childFold _ _ _ _ _)
    repeat' split
    all_goals first
      | exact hx
      | exact NestM.trans hx (NestM.of_same rfl)
      | exact NestM.trans hx (NestM.trans (NestM.of_same rfl) (NestM.of_same rfl))

theorem fast_enterState_nest (c : Chart) (ts : List Nat) (e : EState) (s : Nat) :
    NestME e (Fast.enterState c ts e s) := by
  unfold Fast.enterState NestME
  simp only
  split
  · exact NestM.refl _
  · split
    · exact NestM.refl _
    · have hx : NestM e.x (ts.foldl (fun x ti =>
          if ((tr c ti).isHistory || (tr c ti).isInitial) && (st c (tr c ti).source).parent == some s then
            takeTrans c (ins s e.config) ti x else x)
          ((execBlocks c (ins s e.config) (st c s).onentry (e.x.emit (.be ((st c s).id)))).emit (.ae ((st c s).id)))) := by
        refine NestM.trans (fun p => ⟨2, nestM_enterX c _ _ _ e.x p⟩) (nestM_transFold _ _ _ _ _)
      repeat' split
      all_goals first
        | exact hx
        | exact NestM.trans hx (NestM.of_same rfl)
        | exact NestM.trans hx (NestM.trans (NestM.of_same rfl) (NestM.of_same rfl))

/-- exiting a state inside the exit phase of a micro-step -/
theorem nest_exitX (c : Chart) (cfg : List Nat) (id : String) (blocks : List (List Exec)) (x : XS) :
    Nest [.micro 0] [.micro 0] x ((execBlocks c cfg blocks (x.emit (.bx id))).emit (.ax id)) := by
  have hbx : stepTok [.micro 0] (.bx id) = some [.exitS id, .micro 0] := rfl
  have hax : stepTok [.exitS id, .micro 0] (.ax id) = some [.micro 0] := by simp [stepTok]
  exact Nest.trans (nest_emit _ _ x _ hbx) (Nest.trans (nest_execBlocks c cfg [.exitS id, .micro 0] trivial blocks _) (nest_emit _ _ _ _ hax))

theorem nestE_foldl {α : Type} (stk : List Frame) (f : EState → α → EState) (h : ∀ e a, Nest stk stk e.x (f e a).x)
    (l : List α) (e : EState) : Nest stk stk e.x (l.foldl f e).x := by
  induction l generalizing e with
  | nil => exact Nest.refl stk _
  | cons a l ih => exact Nest.trans (h e a) (ih _)

/-- the end of a micro-step: `am`, possibly the cycle warning -/
theorem nest_am (q : Nat) (x : XS) : Nest [.micro q] [] x (x.emit .am) := nest_emit _ _ x _ rfl
theorem nest_issue (x : XS) : Nest [] [] x (x.emit .issue) := nest_emit _ _ x _ rfl

theorem large_microstep_nest (c : Chart) (e : EState) (t xs ts : List Nat) (o : List (Nat × Nat)) :
    Nest [.micro 0] [] e.x (Large.microstep c e t xs ts o).x := by
  unfold Large.microstep
  simp only
  have h1 : ∀ (l : List Nat) (b : EState), Nest [.micro 0] [.micro 0] b.x (l.foldl (fun e s =>
      { e with config := e.config.filter (· != s), configPF := pfErase c s e.configPF,
               x := (execBlocks c e.config (st c s).onexit (e.x.emit (.bx ((st c s).id)))).emit (.ax ((st c s).id)) }) b).x := by
    intro l b
    apply nestE_foldl
    intro e s
    exact nest_exitX c _ _ _ _
  have h2 : ∀ (l : List Nat) (b : EState), NestME b (l.foldl (fun e ti =>
      if (tr c ti).isHistory || (tr c ti).isInitial then e
      else { e with x := takeTrans c e.config ti e.x }) b) := by
    intro l b
    apply nestME_foldl
    intro e ti
    unfold NestME
    split
    · exact NestM.refl _
    · exact nestM_takeTrans _ _ _ _
  have h3 : ∀ (l : List Nat) (ts' : List Nat) (b : EState), NestME b (l.foldl (Large.enterState c ts') b) :=
    fun l ts' b => nestME_foldl _ (fun e a => large_enterState_nest c ts' e a) l b
  -- chain: exits at phase 0, transitions and entries at some phase, then `am`
  have chain : ∀ (e1 e2 e3 : EState), Nest [.micro 0] [.micro 0] e.x e1.x → NestME e1 e2 → NestME e2 e3 →
      ∃ q, Nest [.micro 0] [.micro q] e.x e3.x := by
    intro e1 e2 e3 a b c'
    obtain ⟨q1, hq1⟩ := b 0
    obtain ⟨q2, hq2⟩ := c' q1
    exact ⟨q2, Nest.trans a (Nest.trans hq1 hq2)⟩
  split
  · obtain ⟨q, hq⟩ := chain _ _ _ (h1 _ _) (h2 _ _) (h3 _ _ _)
    exact Nest.trans hq (Nest.trans (nest_am q _) (nest_issue _))
  · obtain ⟨q, hq⟩ := chain _ _ _ (h1 _ _) (h2 _ _) (h3 _ _ _)
    exact Nest.trans hq (nest_am q _)

theorem fast_microstep_nest (c : Chart) (e : EState) (t xs ts : List Nat) (o : List (Nat × Nat)) :
    Nest [.micro 0] [] e.x (Fast.microstep c e t xs ts o).x := by
  unfold Fast.microstep
  simp only
  have h1 : ∀ (l : List Nat) (b : EState), Nest [.micro 0] [.micro 0] b.x (l.foldl (fun e s =>
      { e with config := e.config.filter (· != s),
               x := (execBlocks c e.config (st c s).onexit (e.x.emit (.bx ((st c s).id)))).emit (.ax ((st c s).id)) }) b).x := by
    intro l b
    apply nestE_foldl
    intro e s
    exact nest_exitX c _ _ _ _
  have h2 : ∀ (l : List Nat) (b : EState), NestME b (l.foldl (fun e ti =>
      if (tr c ti).isHistory || (tr c ti).isInitial then e
      else { e with x := takeTrans c e.config ti e.x }) b) := by
    intro l b
    apply nestME_foldl
    intro e ti
    unfold NestME
    split
    · exact NestM.refl _
    · exact nestM_takeTrans _ _ _ _
  have h3 : ∀ (l : List Nat) (ts' : List Nat) (b : EState), NestME b (l.foldl (Fast.enterState c ts') b) :=
    fun l ts' b => nestME_foldl _ (fun e a => fast_enterState_nest c ts' e a) l b
  have chain : ∀ (e1 e2 e3 : EState), Nest [.micro 0] [.micro 0] e.x e1.x → NestME e1 e2 → NestME e2 e3 →
      ∃ q, Nest [.micro 0] [.micro q] e.x e3.x := by
    intro e1 e2 e3 a b c'
    obtain ⟨q1, hq1⟩ := b 0
    obtain ⟨q2, hq2⟩ := c' q1
    exact ⟨q2, Nest.trans a (Nest.trans hq1 hq2)⟩
  split
  · obtain ⟨q, hq⟩ := chain _ _ _ (h1 _ _) (h2 _ _) (h3 _ _ _)
    exact Nest.trans hq (Nest.trans (nest_am q _) (nest_issue _))
  · obtain ⟨q, hq⟩ := chain _ _ _ (h1 _ _) (h2 _ _) (h3 _ _ _)
    exact Nest.trans hq (nest_am q _)

/-! ## selection reports nothing -/

theorem evalCond_obs (c : Chart) (cfg : List Nat) (x : XS) (cond : Cond) : (evalCond c cfg x cond).1.obs = x.obs := by
  cases cond <;> rfl

theorem large_selectInState_obs (c : Chart) (config : List Nat) (ev : Option String) (s : Nat) :
    ∀ (ts : List Nat) (sel : Sel), (Large.selectInState c config ev s ts sel).x.obs = sel.x.obs
  | [], sel => by simp only [Large.selectInState]
  | ti :: rest, sel => by
    simp only [Large.selectInState]
    have ih := fun sel' => large_selectInState_obs c config ev s rest sel'
    have hc := evalCond_obs c config sel.x (tr c ti).cond
    repeat' split
    all_goals first
      | exact ih _
      | (rw [ih]; exact hc)
      | exact hc

theorem large_selectLoop_obs (c : Chart) (config : List Nat) (ev : Option String) :
    ∀ (ss : List Nat) (sel : Sel), (Large.selectLoop c config ev ss sel).x.obs = sel.x.obs
  | [], sel => by simp only [Large.selectLoop]
  | s :: rest, sel => by
    simp only [Large.selectLoop]
    split
    · exact large_selectLoop_obs c config ev rest sel
    · rw [large_selectLoop_obs c config ev rest _, large_selectInState_obs]

theorem fast_selectLoop_obs (c : Chart) (config : List Nat) (ev : Option String) :
    ∀ (ts : List Nat) (sel : Sel) (confl : List Nat), (Fast.selectLoop c config ev ts sel confl).x.obs = sel.x.obs
  | [], sel, confl => by simp only [Fast.selectLoop]
  | ti :: rest, sel, confl => by
    simp only [Fast.selectLoop]
    have ih := fun sel' confl' => fast_selectLoop_obs c config ev rest sel' confl'
    have hc := evalCond_obs c config sel.x (tr c ti).cond
    repeat' split
    all_goals first
      | exact ih _ _
      | (rw [ih]; exact hc)

theorem large_selectAndStep_nest (c : Chart) (e : EState) (ev : Option String) :
    Nest [] [] e.x (Large.selectAndStep c e ev).1.x := by
  unfold Large.selectAndStep
  simp only
  have hs := large_selectLoop_obs c e.config ev e.configPF { x := e.x }
  split
  · exact nest_same [] _ _ hs
  · refine Nest.trans (nest_same [] _ _ hs) (Nest.trans (nest_emit [] [.micro 0] _ .bm rfl) ?_)
    exact large_microstep_nest c _ _ _ _ _

theorem fast_selectAndStep_nest (c : Chart) (e : EState) (ev : Option String) :
    Nest [] [] e.x (Fast.selectAndStep c e ev).1.x := by
  unfold Fast.selectAndStep
  simp only
  have hs := fast_selectLoop_obs c e.config ev (List.range c.trans.size) { x := e.x } []
  split
  · exact nest_same [] _ _ hs
  · refine Nest.trans (nest_same [] _ _ hs) (Nest.trans (nest_emit [] [.micro 0] _ .bm rfl) ?_)
    exact fast_microstep_nest c _ _ _ _ _

/-- the bottom of the stack between steps: empty - and then the engine still owes the stable-configuration notice of the
macrostep it is in (or has not started) - or the mark that the notice was the last thing that happened, which the engine's
flags must agree with: it will not issue another one before an event or a micro-step, and it reports IDLE only then -/
def Base (e : EState) (stk : List Frame) : Prop :=
  (e.pristine = true → e.stable = false) ∧
  ((stk = [] ∧ e.stable = false) ∨ (stk = [.stable] ∧ e.spontaneous = false ∧ (e.stable = true ∨ e.pristine = true)))

theorem base_bm {e : EState} {stk : List Frame} (h : Base e stk) : stepTok stk .bm = some [.micro 0] := by
  rcases h.2 with ⟨h, _⟩ | ⟨h, _, _⟩ <;> subst h <;> rfl

theorem base_bpe {e : EState} {stk : List Frame} (h : Base e stk) (ev : String) : stepTok stk (.bpe ev) = some [] := by
  rcases h.2 with ⟨h, _⟩ | ⟨h, _, _⟩ <;> subst h <;> rfl

/-- the finalising step: `bcomp`, the exit handlers, `acomp` -/
theorem nest_completion (c : Chart) (cfg : List Nat) (l : List Nat) (x : XS) {e : EState} {stk : List Frame} (h : Base e stk) :
    Nest stk stk x ((l.foldl (fun x s => execBlocks c cfg (st c s).onexit x) (x.emit .bcomp)).emit .acomp) := by
  have h1 : stepTok stk .bcomp = some (.completion :: stk) := by rcases h.2 with ⟨h, _⟩ | ⟨h, _, _⟩ <;> subst h <;> rfl
  refine Nest.trans (nest_emit stk (.completion :: stk) x .bcomp h1) (Nest.trans ?_ (nest_emit (.completion :: stk) stk _ .acomp rfl))
  exact nest_foldl (.completion :: stk) _ (fun x s => nest_execBlocks c cfg (.completion :: stk) trivial _ x) l _

/-- a change of the engine state: the notifications it adds take the automaton from one resting stack to another, and
the flags keep describing the stack -/
def StepNest (e e' : EState) : Prop :=
  ∀ stk, Base e stk → ∃ stk', Base e' stk' ∧ Nest stk stk' e.x e'.x

/-- one call of the engine's step function: as `StepNest`, and IDLE is returned only on the mark of a
stable-configuration notice -/
def StepNestR (e : EState) (r : EState × Ret) : Prop :=
  ∀ stk, Base e stk → ∃ stk', Base r.1 stk' ∧ Nest stk stk' e.x r.1.x ∧ (r.2 = .idle → stk' = [.stable])

theorem large_step_nest (c : Chart) (e : EState) : StepNestR e (Large.step c e) := by
  intro stk hb
  unfold Large.step
  by_cases hf : e.finished = true
  · rw [if_pos hf]; exact ⟨stk, hb, Nest.refl stk _, fun h => by cases h⟩
  · rw [if_neg hf]
    by_cases ht : e.topLevelFinal = true
    · rw [if_pos ht]; exact ⟨stk, hb, nest_completion c _ _ _ hb, fun h => by cases h⟩
    · rw [if_neg ht]
      by_cases hp : e.pristine = true
      · rw [if_pos hp]
        have hst : e.stable = false := hb.1 hp
        refine ⟨[], ⟨fun _ => ?_, Or.inl ⟨rfl, ?_⟩⟩, Nest.trans (nest_emit stk [.micro 0] e.x .bm (base_bm hb)) (large_microstep_nest c _ _ _ _ _), fun h => by cases h⟩
        · rw [large_microstep_stable]; exact hst
        · rw [large_microstep_stable]; exact hst
      · rw [if_neg hp]
        by_cases hs : e.spontaneous = true
        · rw [if_pos hs]
          have h0 : stk = [] := by
            rcases hb.2 with ⟨h, _⟩ | ⟨_, h, _⟩
            · exact h
            · rw [hs] at h; cases h
          subst h0
          refine ⟨[], ⟨fun _ => large_selectAndStep_stable c e none, Or.inl ⟨rfl, large_selectAndStep_stable c e none⟩⟩, large_selectAndStep_nest c e none, fun h => ?_⟩
          rw [large_selectAndStep_ret] at h; cases h
        · rw [if_neg hs]
          split
          · rename_i ev rest _
            refine ⟨[], ⟨fun _ => large_selectAndStep_stable c _ _, Or.inl ⟨rfl, large_selectAndStep_stable c _ _⟩⟩, Nest.trans ?_ (large_selectAndStep_nest c _ (some ev)), fun h => ?_⟩
            · exact nest_emit stk [] _ (.bpe ev) (base_bpe hb ev)
            · rw [large_selectAndStep_ret] at h; cases h
          · simp only
            split
            · rename_i hst
              have h0 : stk = [] := by
                rcases hb.2 with ⟨h, _⟩ | ⟨_, _, h | h⟩
                · exact h
                · rw [h] at hst; cases hst
                · exact absurd h hp
              subst h0
              refine ⟨[.stable], ⟨fun h => absurd h hp, Or.inr ⟨rfl, ?_, Or.inl rfl⟩⟩, nest_emit [] [.stable] _ .st rfl, fun h => by cases h⟩
              simpa using hs
            · rename_i hst
              have hst' : e.stable = true := by simpa using hst
              have htop : stk = [.stable] := by
                rcases hb.2 with ⟨_, h⟩ | ⟨h, _, _⟩
                · rw [h] at hst'; cases hst'
                · exact h
              split
              · split
                · split
                  · exact ⟨stk, hb, Nest.refl stk _, fun h => by cases h⟩
                  · exact ⟨stk, hb, Nest.refl stk _, fun _ => htop⟩
                · rename_i ev rest _ _
                  refine ⟨[], ⟨fun _ => large_selectAndStep_stable c _ _, Or.inl ⟨rfl, large_selectAndStep_stable c _ _⟩⟩, Nest.trans ?_ (large_selectAndStep_nest c _ (some ev)), fun h => ?_⟩
                  · exact nest_emit stk [] _ (.bpe ev) (base_bpe hb ev)
                  · rw [large_selectAndStep_ret] at h; cases h
              · split
                · exact ⟨stk, hb, Nest.refl stk _, fun h => by cases h⟩
                · exact ⟨stk, hb, Nest.refl stk _, fun _ => htop⟩

theorem fast_step_nest (c : Chart) (e : EState) : StepNestR e (Fast.step c e) := by
  intro stk hb
  unfold Fast.step
  by_cases hf : e.finished = true
  · rw [if_pos hf]; exact ⟨stk, hb, Nest.refl stk _, fun h => by cases h⟩
  · rw [if_neg hf]
    by_cases ht : e.topLevelFinal = true
    · rw [if_pos ht]; exact ⟨stk, hb, nest_completion c _ _ _ hb, fun h => by cases h⟩
    · rw [if_neg ht]
      by_cases hp : e.pristine = true
      · rw [if_pos hp]
        have hst : e.stable = false := hb.1 hp
        refine ⟨[], ⟨fun _ => ?_, Or.inl ⟨rfl, ?_⟩⟩, Nest.trans (nest_emit stk [.micro 0] e.x .bm (base_bm hb)) (fast_microstep_nest c _ _ _ _ _), fun h => by cases h⟩
        · rw [fast_microstep_stable]; exact hst
        · rw [fast_microstep_stable]; exact hst
      · rw [if_neg hp]
        by_cases hs : e.spontaneous = true
        · rw [if_pos hs]
          have h0 : stk = [] := by
            rcases hb.2 with ⟨h, _⟩ | ⟨_, h, _⟩
            · exact h
            · rw [hs] at h; cases h
          subst h0
          refine ⟨[], ⟨fun _ => fast_selectAndStep_stable c e none, Or.inl ⟨rfl, fast_selectAndStep_stable c e none⟩⟩, fast_selectAndStep_nest c e none, fun h => ?_⟩
          rw [fast_selectAndStep_ret] at h; cases h
        · rw [if_neg hs]
          split
          · rename_i ev rest _
            refine ⟨[], ⟨fun _ => fast_selectAndStep_stable c _ _, Or.inl ⟨rfl, fast_selectAndStep_stable c _ _⟩⟩, Nest.trans ?_ (fast_selectAndStep_nest c _ (some ev)), fun h => ?_⟩
            · exact nest_emit stk [] _ (.bpe ev) (base_bpe hb ev)
            · rw [fast_selectAndStep_ret] at h; cases h
          · simp only
            split
            · rename_i hst
              have h0 : stk = [] := by
                rcases hb.2 with ⟨h, _⟩ | ⟨_, _, h | h⟩
                · exact h
                · rw [h] at hst; cases hst
                · exact absurd h hp
              subst h0
              refine ⟨[.stable], ⟨fun h => absurd h hp, Or.inr ⟨rfl, ?_, Or.inl rfl⟩⟩, nest_emit [] [.stable] _ .st rfl, fun h => by cases h⟩
              simpa using hs
            · rename_i hst
              have hst' : e.stable = true := by simpa using hst
              have htop : stk = [.stable] := by
                rcases hb.2 with ⟨_, h⟩ | ⟨h, _, _⟩
                · rw [h] at hst'; cases hst'
                · exact h
              split
              · split
                · split
                  · exact ⟨stk, hb, Nest.refl stk _, fun h => by cases h⟩
                  · exact ⟨stk, hb, Nest.refl stk _, fun _ => htop⟩
                · rename_i ev rest _ _
                  refine ⟨[], ⟨fun _ => fast_selectAndStep_stable c _ _, Or.inl ⟨rfl, fast_selectAndStep_stable c _ _⟩⟩, Nest.trans ?_ (fast_selectAndStep_nest c _ (some ev)), fun h => ?_⟩
                  · exact nest_emit stk [] _ (.bpe ev) (base_bpe hb ev)
                  · rw [fast_selectAndStep_ret] at h; cases h
              · split
                · exact ⟨stk, hb, Nest.refl stk _, fun h => by cases h⟩
                · exact ⟨stk, hb, Nest.refl stk _, fun _ => htop⟩

end UscxmlVerif.Proofs.Nest
