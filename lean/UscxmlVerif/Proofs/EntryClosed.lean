import UscxmlVerif.Proofs.ExitClosed
import UscxmlVerif.Proofs.Select
/-!
# Entering never orphans a state (history-free charts)

The entry set LargeMicroStep establishes is closed under parents: it starts as the targets with all
their ancestors, and every visit of the descendant loop adds states together with their parents
(children of a parallel, the default completion of a compound state with the ancestors of deep
initial targets, the targets of an `<initial>` transition with their ancestors). What is entered is
the part of this set that is not active, in document order; so a parent-closed configuration stays
parent-closed. History states are excluded: with nested histories the code restores a recorded
configuration that is not parent-closed (finding `hist-shared`).
-/
namespace UscxmlVerif.Proofs.EntryClosed
open UscxmlVerif UscxmlVerif.Model UscxmlVerif.Model.Large UscxmlVerif.Proofs.Struct UscxmlVerif.Proofs.ExitClosed
  UscxmlVerif.Proofs.CfgInv UscxmlVerif.Proofs.Select

/-- what the entry half relies on, decidable: no history states; the completion of a parallel and every `children`
list name children; pseudo-states are history / initial elements -/
def EntryOk (c : Chart) : Bool :=
  (List.range c.states.size).all (fun s =>
    !(Large.st c s).typ.isHistory &&
    ((Large.st c s).typ != .parallel || (Large.st c s).completion.all (fun k => (Large.st c k).parent == some s)) &&
    (Large.st c s).children.all (fun k => (Large.st c k).parent == some s) &&
    (!(Large.st c s).typ.isPseudo || !parentKind (Large.st c s).kind) &&
    (Large.st c s).completion.all (· < c.states.size) && (Large.st c s).children.all (· < c.states.size) &&
    (s == 0 || (Large.st c s).typ.isPseudo || (Large.st c s).kind == .state || (Large.st c s).kind == .parallel || (Large.st c s).kind == .final)) &&
  (List.range c.trans.size).all (fun i => (Large.tr c i).targets.all (· < c.states.size))

structure EOK (c : Chart) : Prop where
  noHist : ∀ s, (Large.st c s).typ.isHistory = false
  parCompl : ∀ s, (Large.st c s).typ = .parallel → ∀ k ∈ (Large.st c s).completion, (Large.st c k).parent = some s
  children : ∀ s, ∀ k ∈ (Large.st c s).children, (Large.st c k).parent = some s
  pseudo : ∀ s, (Large.st c s).typ.isPseudo = true → parentKind (Large.st c s).kind = false
  complLt : ∀ s, ∀ k ∈ (Large.st c s).completion, k < c.states.size
  childLt : ∀ s, ∀ k ∈ (Large.st c s).children, k < c.states.size
  kinds : ∀ s, s < c.states.size → s ≠ 0 → (Large.st c s).typ.isPseudo = false →
    (Large.st c s).kind = .state ∨ (Large.st c s).kind = .parallel ∨ (Large.st c s).kind = .final
  targetLt : ∀ i, ∀ g ∈ (Large.tr c i).targets, g < c.states.size

theorem st_oor (c : Chart) (s : Nat) (h : ¬ s < c.states.size) : Large.st c s = default := by
  unfold Large.st
  rw [Array.getElem?_eq_none (by omega)]
  rfl

theorem tr_oor (c : Chart) (i : Nat) (h : ¬ i < c.trans.size) : Large.tr c i = default := by
  unfold Large.tr
  rw [Array.getElem?_eq_none (by omega)]
  rfl

theorem eok_of_entryOk {c : Chart} (h : EntryOk c = true) : EOK c := by
  unfold EntryOk at h
  simp only [List.all_eq_true, List.mem_range, Bool.and_eq_true, Bool.or_eq_true, Bool.not_eq_eq_eq_not, Bool.not_true,
    bne_iff_ne, ne_eq, beq_iff_eq, decide_eq_true_eq] at h
  obtain ⟨h, htr⟩ := h
  have hd : (default : St).typ = .atomic := rfl
  have hc : (default : St).children = [] := rfl
  have hcm : (default : St).completion = [] := rfl
  refine ⟨?_, ?_, ?_, ?_, ?_, ?_, ?_, ?_⟩
  · intro s
    by_cases hs : s < c.states.size
    · exact (h s hs).1.1.1.1.1.1
    · rw [st_oor c s hs, hd]; rfl
  · intro s hp k hk
    by_cases hs : s < c.states.size
    · rcases (h s hs).1.1.1.1.1.2 with h1 | h1
      · exact absurd hp h1
      · exact h1 k hk
    · rw [st_oor c s hs, hd] at hp; cases hp
  · intro s k hk
    by_cases hs : s < c.states.size
    · exact (h s hs).1.1.1.1.2 k hk
    · rw [st_oor c s hs, hc] at hk; cases hk
  · intro s hp
    by_cases hs : s < c.states.size
    · rcases (h s hs).1.1.1.2 with h1 | h1
      · rw [hp] at h1; cases h1
      · exact h1
    · rw [st_oor c s hs, hd] at hp; cases hp
  · intro s k hk
    by_cases hs : s < c.states.size
    · exact (h s hs).1.1.2 k hk
    · rw [st_oor c s hs, hcm] at hk; cases hk
  · intro s k hk
    by_cases hs : s < c.states.size
    · exact (h s hs).1.2 k hk
    · rw [st_oor c s hs, hc] at hk; cases hk
  · intro s hs h0 hp
    rcases (h s hs).2 with (((h1 | h1) | h1) | h1) | h1
    · exact absurd h1 h0
    · rw [hp] at h1; cases h1
    · exact Or.inl h1
    · exact Or.inr (Or.inl h1)
    · exact Or.inr (Or.inr h1)
  · intro i g hg
    by_cases hi : i < c.trans.size
    · exact htr i hi g hg
    · rw [tr_oor c i hi] at hg
      have : (default : Tr).targets = [] := rfl
      rw [this] at hg; cases hg

theorem ancs_eq (c : Chart) (s : Nat) : Large.ancs c s = T.ancs c s := by
  unfold Large.ancs Model.Tables.ancs
  exact Proofs.Interval.large_anc_eq c _ s

/-- every member of the list has its parent in the list -/
def Closed (c : Chart) (l : List Nat) : Prop := ∀ s ∈ l, ∀ p, (Large.st c s).parent = some p → p ∈ l

/-- the parent of a state heads its ancestor list; the ancestor list is closed -/
theorem parent_mem_ancs (c : Chart) (hc : Coh c) (s p : Nat) (hp : (Large.st c s).parent = some p) : p ∈ Large.ancs c s := by
  by_cases hs : s < c.states.size
  · by_cases h0 : s = 0
    · subst h0
      have : Large.st c 0 = T.st c 0 := rfl
      rw [this, hc.rootParent] at hp; cases hp
    · obtain ⟨q, hq, _, hcons⟩ := Proofs.Subtree.ancs_cons c hc s h0 hs
      have e1 : Large.st c s = T.st c s := rfl
      rw [e1, hq] at hp
      simp only [Option.some.injEq] at hp
      subst hp
      have e2 : Large.ancs c s = T.ancs c s := ancs_eq c s
      rw [e2, hcons]
      exact List.mem_cons_self
  · rw [st_oor c s hs] at hp; cases hp

theorem ancs_closed (c : Chart) (hc : Coh c) : ∀ (n g : Nat), g ≤ n → Closed c (Large.ancs c g) := by
  intro n
  induction n with
  | zero =>
    intro g hg s hs p hp
    have : g = 0 := by omega
    subst this
    have e : Large.ancs c 0 = T.ancestors c c.states.size 0 := ancs_eq c 0
    rw [e, anc_root_nil c hc] at hs
    cases hs
  | succ n ih =>
    intro g hg s hs p hp
    by_cases hlt : g < c.states.size
    · by_cases h0 : g = 0
      · subst h0
        have e : Large.ancs c 0 = T.ancestors c c.states.size 0 := ancs_eq c 0
        rw [e, anc_root_nil c hc] at hs
        cases hs
      · obtain ⟨q, hq, hqg, hcons⟩ := Proofs.Subtree.ancs_cons c hc g h0 hlt
        have e2 : Large.ancs c g = T.ancs c g := ancs_eq c g
        rw [e2, hcons] at hs ⊢
        rcases List.mem_cons.mp hs with h | h
        · subst h
          exact List.mem_cons_of_mem _ (ancs_eq c s ▸ parent_mem_ancs c hc s p hp)
        · exact List.mem_cons_of_mem _ (ancs_eq c q ▸ ih q (by omega) s (by rw [ancs_eq]; exact h) p hp)
    · -- out of range: no parent, no ancestors
      have e : Large.ancs c g = Large.ancestors c c.states.size g := rfl
      rw [e] at hs
      cases hn : c.states.size with
      | zero => rw [hn] at hs; cases hs
      | succ m =>
        rw [hn] at hs
        unfold Large.ancestors at hs
        rw [st_oor c g hlt] at hs
        cases hs

theorem closed_insAll_ancs (c : Chart) (hc : Coh c) (g : Nat) (l : List Nat) (h : Closed c l) : Closed c (insAll (Large.ancs c g) l) := by
  intro s hs p hp
  rw [mem_insAll] at hs ⊢
  rcases hs with h1 | h1
  · exact Or.inl (ancs_closed c hc g g (Nat.le_refl _) s h1 p hp)
  · exact Or.inr (h s h1 p hp)

/-- a state added together with its ancestor list -/
theorem closed_add_with_ancs (c : Chart) (hc : Coh c) (g : Nat) (l : List Nat) (h : Closed c l) :
    Closed c (insAll (Large.ancs c g) (ins g l)) := by
  intro s hs p hp
  rw [mem_insAll, mem_ins] at hs
  rw [mem_insAll, mem_ins]
  rcases hs with h1 | h1 | h1
  · exact Or.inl (ancs_closed c hc g g (Nat.le_refl _) s h1 p hp)
  · subst h1
    exact Or.inl (parent_mem_ancs c hc s p hp)
  · exact Or.inr (Or.inr (h s h1 p hp))

def InRange (c : Chart) (l : List Nat) : Prop := ∀ s ∈ l, s < c.states.size

/-- the invariant of the entry set: closed under parents, and made of states of the chart -/
def Inv (c : Chart) (l : List Nat) : Prop := Closed c l ∧ InRange c l

theorem ancs_lt (c : Chart) (hc : Coh c) : ∀ (n g : Nat), g ≤ n → g < c.states.size → ∀ x ∈ Large.ancs c g, x < g := by
  intro n
  induction n with
  | zero =>
    intro g hg _ x hx
    have : g = 0 := by omega
    subst this
    have e : Large.ancs c 0 = T.ancestors c c.states.size 0 := ancs_eq c 0
    rw [e, anc_root_nil c hc] at hx
    cases hx
  | succ n ih =>
    intro g hg hlt x hx
    by_cases h0 : g = 0
    · subst h0
      have e : Large.ancs c 0 = T.ancestors c c.states.size 0 := ancs_eq c 0
      rw [e, anc_root_nil c hc] at hx
      cases hx
    · obtain ⟨q, hq, hqg, hcons⟩ := Proofs.Subtree.ancs_cons c hc g h0 hlt
      rw [ancs_eq, hcons] at hx
      rcases List.mem_cons.mp hx with h | h
      · omega
      · have := ih q (by omega) (by omega) x (by rw [ancs_eq]; exact h)
        omega

theorem ancs_inRange (c : Chart) (hc : Coh c) (g : Nat) (hg : g < c.states.size) : InRange c (Large.ancs c g) := by
  intro x hx
  have := ancs_lt c hc g g (Nat.le_refl _) hg x hx
  omega

theorem inv_insAll_ancs (c : Chart) (hc : Coh c) (g : Nat) (hg : g < c.states.size) (l : List Nat) (h : Inv c l) :
    Inv c (insAll (Large.ancs c g) l) := by
  refine ⟨closed_insAll_ancs c hc g l h.1, ?_⟩
  intro x hx
  rw [mem_insAll] at hx
  rcases hx with h1 | h1
  · exact ancs_inRange c hc g hg x h1
  · exact h.2 x h1

theorem inv_add_with_ancs (c : Chart) (hc : Coh c) (g : Nat) (hg : g < c.states.size) (l : List Nat) (h : Inv c l) :
    Inv c (insAll (Large.ancs c g) (ins g l)) := by
  refine ⟨closed_add_with_ancs c hc g l h.1, ?_⟩
  intro x hx
  rw [mem_insAll, mem_ins] at hx
  rcases hx with h1 | h1 | h1
  · exact ancs_inRange c hc g hg x h1
  · rw [h1]; exact hg
  · exact h.2 x h1

/-- a fold that adds a list for some of the elements -/
theorem mem_foldl_cond (q : Nat → Bool) (f : Nat → List Nat) (l : List Nat) : ∀ (init : List Nat) (x : Nat),
    x ∈ l.foldl (fun en k => if q k then en else insAll (f k) en) init ↔ x ∈ init ∨ ∃ k ∈ l, q k = false ∧ x ∈ f k := by
  induction l with
  | nil => intro init x; simp
  | cons a as ih =>
    intro init x
    rw [List.foldl_cons, ih]
    cases hq : q a with
    | true =>
      simp only [if_true, Bool.true_eq_false, false_and, List.mem_cons, exists_eq_or_imp, hq]
      simp
    | false =>
      simp only [Bool.false_eq_true, if_false, mem_insAll, List.mem_cons, exists_eq_or_imp, hq, true_and]
      constructor
      · rintro ((h | h) | h)
        · exact Or.inr (Or.inl h)
        · exact Or.inl h
        · exact Or.inr (Or.inr h)
      · rintro (h | h | h)
        · exact Or.inl (Or.inr h)
        · exact Or.inl (Or.inl h)
        · exact Or.inr h

/-- one visit of the descendant loop keeps the invariant -/
theorem descVisit_inv (c : Chart) (hc : Coh c) (hk : EOK c) (e : EState) (exitS : List Nat) (s : Nat) (entry ts : List Nat)
    (hs : s ∈ entry) (h : Inv c entry) : Inv c (descVisit c e exitS s entry ts).1 := by
  unfold descVisit
  simp only
  split
  · exact h
  · exact h
  · -- parallel: its children
    rename_i hp
    refine ⟨?_, ?_⟩
    · intro x hx p hxp
      rw [mem_insAll] at hx ⊢
      rcases hx with h1 | h1
      · have := hk.parCompl s hp x h1
        rw [this] at hxp
        simp only [Option.some.injEq] at hxp
        subst hxp
        exact Or.inr hs
      · exact Or.inr (h.1 x h1 p hxp)
    · intro x hx
      rw [mem_insAll] at hx
      rcases hx with h1 | h1
      · exact hk.complLt s x h1
      · exact h.2 x h1
  · rename_i hp
    have := hk.noHist s
    rw [hp] at this; cases this
  · rename_i hp
    have := hk.noHist s
    rw [hp] at this; cases this
  · -- initial: the targets with their ancestors
    have : ∀ (l : List Nat) (acc : List Nat × List Nat), Inv c acc.1 →
        Inv c (l.foldl (fun (acc : List Nat × List Nat) ti =>
          ((Large.tr c ti).targets.foldl (fun en g => insAll (Large.ancs c g) (ins g en)) acc.1, ins ti acc.2)) acc).1 := by
      intro l acc hacc
      refine foldl_pres (fun acc : List Nat × List Nat => Inv c acc.1) _ ?_ l acc hacc
      intro acc ti hacc
      simp only
      have hin : ∀ g ∈ (Large.tr c ti).targets, g < c.states.size := hk.targetLt ti
      generalize (Large.tr c ti).targets = tg at hin
      induction tg generalizing acc with
      | nil => exact hacc
      | cons g gs ih =>
        rw [List.foldl_cons]
        have hacc' : Inv c (insAll (Large.ancs c g) (ins g acc.1), acc.2).1 :=
          inv_add_with_ancs c hc g (hin g List.mem_cons_self) acc.1 hacc
        exact ih (insAll (Large.ancs c g) (ins g acc.1), acc.2) hacc' (fun g' hg' => hin g' (List.mem_cons_of_mem _ hg'))
    exact this _ (entry, ts) h
  · -- compound: default completion, with the ancestors of deep targets
    split
    · exact h
    · have hmem := mem_foldl_cond (fun k => (Large.st c s).children.contains k) (fun k => Large.ancs c k) (Large.st c s).completion
        (insAll (Large.st c s).completion entry)
      refine ⟨?_, ?_⟩
      · intro x hx p hxp
        rw [hmem] at hx ⊢
        rcases hx with hx | ⟨k, hkc, hq, hxk⟩
        · rw [mem_insAll] at hx
          rcases hx with hx | hx
          · -- x is in the completion: a child (its parent is s) or a deeper state (added with its ancestors)
            cases hq : (Large.st c s).children.contains x with
            | true =>
              have hch : x ∈ (Large.st c s).children := by simpa using hq
              have := hk.children s x hch
              rw [this] at hxp
              simp only [Option.some.injEq] at hxp
              subst hxp
              exact Or.inl (by rw [mem_insAll]; exact Or.inr hs)
            | false =>
              exact Or.inr ⟨x, hx, hq, parent_mem_ancs c hc x p hxp⟩
          · exact Or.inl (by rw [mem_insAll]; exact Or.inr (h.1 x hx p hxp))
        · exact Or.inr ⟨k, hkc, hq, ancs_closed c hc k k (Nat.le_refl _) x hxk p hxp⟩
      · intro x hx
        rw [hmem] at hx
        rcases hx with hx | ⟨k, hkc, _, hxk⟩
        · rw [mem_insAll] at hx
          rcases hx with hx | hx
          · exact hk.complLt s x hx
          · exact h.2 x hx
        · exact ancs_inRange c hc k (hk.complLt s k hkc) x hxk

theorem descLoop_inv (c : Chart) (hc : Coh c) (hk : EOK c) (e : EState) (exitS : List Nat) :
    ∀ (fuel i : Nat) (entry ts : List Nat), Inv c entry → Inv c (descLoop c e exitS fuel i entry ts).1 := by
  intro fuel
  induction fuel with
  | zero => intro i entry ts h; exact h
  | succ f ih =>
    intro i entry ts h
    unfold descLoop
    split
    · exact h
    · rename_i s hs
      exact ih (i + 1) _ _ (descVisit_inv c hc hk e exitS s entry ts (List.mem_of_getElem? hs) h)

theorem mem_foldl_insAll (f : Nat → List Nat) (l : List Nat) : ∀ (init : List Nat) (x : Nat),
    x ∈ l.foldl (fun en g => insAll (f g) en) init ↔ x ∈ init ∨ ∃ g ∈ l, x ∈ f g := by
  induction l with
  | nil => intro init x; simp
  | cons a as ih =>
    intro init x
    rw [List.foldl_cons, ih, mem_insAll]
    simp only [List.mem_cons, exists_eq_or_imp]
    constructor
    · rintro ((h | h) | h)
      · exact Or.inr (Or.inl h)
      · exact Or.inl h
      · exact Or.inr (Or.inr h)
    · rintro (h | h | h)
      · exact Or.inl (Or.inr h)
      · exact Or.inl (Or.inl h)
      · exact Or.inr h

/-- the entry set before the descendant loop: the targets with all their ancestors -/
theorem entry0_inv (c : Chart) (hc : Coh c) (t : List Nat) (ht : ∀ g ∈ t, g < c.states.size) :
    Inv c (t.foldl (fun en g => insAll (Large.ancs c g) en) t) := by
  have hmem := mem_foldl_insAll (fun g => Large.ancs c g) t t
  refine ⟨?_, ?_⟩
  · intro x hx p hp
    rw [hmem] at hx ⊢
    rcases hx with hx | ⟨g, hg, hxg⟩
    · exact Or.inr ⟨x, hx, parent_mem_ancs c hc x p hp⟩
    · exact Or.inr ⟨g, hg, ancs_closed c hc g g (Nat.le_refl _) x hxg p hp⟩
  · intro x hx
    rw [hmem] at hx
    rcases hx with hx | ⟨g, hg, hxg⟩
    · exact ht x hx
    · exact ancs_inRange c hc g (ht g hg) x hxg

/-! ## the configuration after a micro-step -/

theorem exitFold_config (c : Chart) (l : List Nat) : ∀ (e : EState) (x : Nat),
    x ∈ (l.foldl (fun e s =>
      { e with config := e.config.filter (· != s), configPF := pfErase c s e.configPF,
               x := (execBlocks c e.config (st c s).onexit (e.x.emit (.bx ((st c s).id)))).emit (.ax ((st c s).id)) }) e).config
      ↔ x ∈ e.config ∧ x ∉ l := by
  induction l with
  | nil => intro e x; simp
  | cons a as ih =>
    intro e x
    rw [List.foldl_cons, ih]
    simp only [List.mem_filter, bne_iff_ne, ne_eq, List.mem_cons, not_or]
    constructor
    · rintro ⟨⟨h1, h2⟩, h3⟩; exact ⟨h1, h2, h3⟩
    · rintro ⟨h1, h2, h3⟩; exact ⟨⟨h1, h2⟩, h3⟩

theorem transFold_config (c : Chart) (l : List Nat) (e : EState) :
    (l.foldl (fun e ti =>
      if (tr c ti).isHistory || (tr c ti).isInitial then e
      else { e with x := takeTrans c e.config ti e.x }) e).config = e.config := by
  generalize hb : e.config = b
  refine foldl_pres (fun a : EState => a.config = b) _ (fun a ti ha => ?_) l e hb
  split
  · exact ha
  · exact ha

theorem enterState_config (c : Chart) (ts : List Nat) (e : EState) (s : Nat) :
    (Large.enterState c ts e s).config = if (st c s).typ.isPseudo then e.config else ins s e.config := by
  unfold Large.enterState
  simp only
  split
  · rfl
  · repeat' split
    all_goals rfl

theorem enterFold_config (c : Chart) (ts : List Nat) (l : List Nat) : ∀ (e : EState) (x : Nat),
    x ∈ (l.foldl (Large.enterState c ts) e).config ↔ x ∈ e.config ∨ (x ∈ l ∧ (st c x).typ.isPseudo = false) := by
  induction l with
  | nil => intro e x; simp
  | cons a as ih =>
    intro e x
    rw [List.foldl_cons, ih, enterState_config]
    cases hp : (st c a).typ.isPseudo with
    | true =>
      simp only [if_true, List.mem_cons]
      constructor
      · rintro (h | ⟨h1, h2⟩)
        · exact Or.inl h
        · exact Or.inr ⟨Or.inr h1, h2⟩
      · rintro (h | ⟨h1 | h1, h2⟩)
        · exact Or.inl h
        · rw [h1, hp] at h2; cases h2
        · exact Or.inr ⟨h1, h2⟩
    | false =>
      simp only [Bool.false_eq_true, if_false, mem_ins, List.mem_cons]
      constructor
      · rintro ((h | h) | ⟨h1, h2⟩)
        · exact Or.inr ⟨Or.inl h, by rw [h]; exact hp⟩
        · exact Or.inl h
        · exact Or.inr ⟨Or.inr h1, h2⟩
      · rintro (h | ⟨h1 | h1, h2⟩)
        · exact Or.inl (Or.inr h)
        · exact Or.inl (Or.inl h1)
        · exact Or.inr ⟨h1, h2⟩

/-- what a micro-step does to the configuration, as a set: the exit set leaves, the non-pseudo states of some parent-closed
set `E` of states of the chart join -/
theorem large_microstep_config (c : Chart) (hc : Coh c) (hk : EOK c) (e : EState) (t xs ts : List Nat) (o : List (Nat × Nat))
    (ht : ∀ g ∈ t, g < c.states.size) :
    ∃ E, Inv c E ∧ ∀ x, x ∈ (Large.microstep c e t xs ts o).config ↔
      (x ∈ e.config ∧ x ∉ xs) ∨ (x ∈ E ∧ (st c x).typ.isPseudo = false) := by
  unfold Large.microstep
  simp only
  have hE := descLoop_inv c hc hk e xs (2 * c.states.size + 2) 0 _ ts (entry0_inv c hc t ht)
  refine ⟨_, hE, ?_⟩
  intro x
  have key : ∀ e3 : EState, x ∈ e3.config ↔ x ∈
      (if e3.microConfigs.contains e3.config then { e3 with x := e3.x.emit .issue } else e3).config := by
    intro e3; split <;> exact Iff.rfl
  split
  all_goals (
    simp only [enterFold_config, transFold_config, exitFold_config, List.mem_reverse, List.mem_filter, mem,
      Bool.not_eq_eq_eq_not, Bool.not_true]
    constructor
    · rintro (h | ⟨⟨h1, _⟩, h2⟩)
      · exact Or.inl h
      · exact Or.inr ⟨h1, h2⟩
    · rintro (h | ⟨h1, h2⟩)
      · exact Or.inl h
      · by_cases hx : x ∈ e.config ∧ x ∉ xs
        · exact Or.inl hx
        · refine Or.inr ⟨⟨h1, ?_⟩, h2⟩
          cases hcn : List.contains _ x with
          | false => rfl
          | true =>
            exfalso
            apply hx
            have hm := List.contains_iff_mem.mp hcn
            have h' := (exitFold_config c xs.reverse e x).mp hm
            exact ⟨h'.1, fun h => h'.2 (List.mem_reverse.mpr h)⟩)

end UscxmlVerif.Proofs.EntryClosed
