import UscxmlVerif.Proofs.XorSel
import UscxmlVerif.Proofs.Flags
/-!
# "At most one active child" as an invariant of the run (LargeMicroStep)
-/
namespace UscxmlVerif.Proofs.XorRun
open UscxmlVerif UscxmlVerif.Model UscxmlVerif.Model.Large UscxmlVerif.Model.Api UscxmlVerif.Proofs.Struct UscxmlVerif.Proofs.ExitClosed UscxmlVerif.Proofs.Flags
  UscxmlVerif.Proofs.EntryClosed UscxmlVerif.Proofs.CfgInv UscxmlVerif.Proofs.Select UscxmlVerif.Proofs.Down
  UscxmlVerif.Proofs.Interval UscxmlVerif.Proofs.ExitSet UscxmlVerif.Proofs.Parents UscxmlVerif.Proofs.DownExit
  UscxmlVerif.Proofs.Xor UscxmlVerif.Proofs.XorSel UscxmlVerif.Proofs.DownRun

/-! ## `_configurationPostFix` holds active states only -/

def PFSub (e : EState) : Prop := ∀ s ∈ e.configPF, s ∈ e.config

theorem mem_pfInsert (c : Chart) (s : Nat) : ∀ (l : List Nat) (x : Nat), x ∈ pfInsert c s l → x = s ∨ x ∈ l
  | [], x, h => by simpa [pfInsert] using h
  | b :: bs, x, h => by
    unfold pfInsert at h
    split at h
    · rcases List.mem_cons.mp h with h1 | h1
      · exact Or.inl h1
      · exact Or.inr h1
    · split at h
      · exact Or.inr h
      · rcases List.mem_cons.mp h with h1 | h1
        · exact Or.inr (by rw [h1]; exact List.mem_cons_self)
        · rcases mem_pfInsert c s bs x h1 with h2 | h2
          · exact Or.inl h2
          · exact Or.inr (List.mem_cons_of_mem _ h2)

theorem large_enterState_pf (c : Chart) (ts : List Nat) (e : EState) (s : Nat) (h : PFSub e) : PFSub (Large.enterState c ts e s) := by
  unfold Large.enterState
  simp only
  split
  · exact h
  · have key : ∀ x ∈ pfInsert c s e.configPF, x ∈ ins s e.config := by
      intro x hx
      rcases mem_pfInsert c s _ x hx with h1 | h1
      · exact (mem_ins s _ x).mpr (Or.inl h1)
      · exact (mem_ins s _ x).mpr (Or.inr (h x h1))
    repeat' split
    all_goals exact key

theorem large_microstep_pf (c : Chart) (e : EState) (t xs ts : List Nat) (o : List (Nat × Nat)) (h : PFSub e) :
    PFSub (Large.microstep c e t xs ts o) := by
  unfold Large.microstep
  simp only
  have h1 : ∀ (l : List Nat) (b : EState), PFSub b → PFSub (l.foldl (fun e s =>
      { e with config := e.config.filter (· != s), configPF := pfErase c s e.configPF,
               x := (execBlocks c e.config (st c s).onexit (e.x.emit (.bx ((st c s).id)))).emit (.ax ((st c s).id)) }) b) := by
    intro l b hb
    refine foldl_pres PFSub _ ?_ l b hb
    intro a s ha x hx
    unfold pfErase at hx
    simp only [List.mem_filter, bne_iff_ne, ne_eq] at hx ⊢
    refine ⟨ha x hx.1, ?_⟩
    intro hxs
    rw [hxs] at hx
    exact hx.2 rfl
  have h2 : ∀ (l : List Nat) (b : EState), PFSub b → PFSub (l.foldl (fun e ti =>
      if (tr c ti).isHistory || (tr c ti).isInitial then e
      else { e with x := takeTrans c e.config ti e.x }) b) := by
    intro l b hb
    refine foldl_pres PFSub _ (fun a ti ha => ?_) l b hb
    split
    · exact ha
    · exact ha
  have h3 : ∀ (l : List Nat) (ts' : List Nat) (b : EState), PFSub b → PFSub (l.foldl (Large.enterState c ts') b) :=
    fun l ts' b hb => foldl_pres PFSub _ (fun a s ha => large_enterState_pf c ts' a s ha) l b hb
  split <;> exact h3 _ _ _ (h2 _ _ (h1 _ _ h))

/-! ## what selection also keeps: targets come from selected transitions, sources are active -/

def TSrc (c : Chart) (config : List Nat) (sel : Sel) : Prop :=
  (∀ g ∈ sel.targetSet, ∃ ti ∈ sel.transSet, g ∈ (Large.tr c ti).targets) ∧
  ∀ ti ∈ sel.transSet, (Large.tr c ti).source ∈ config

theorem large_selectInState_tsrc (c : Chart) (config : List Nat) (ev : Option String) (s : Nat) (hs : s ∈ config) :
    ∀ (l : List Nat) (sel : Sel), (∀ ti ∈ l, (Large.tr c ti).source = s) → TSrc c config sel →
      TSrc c config (selectInState c config ev s l sel) := by
  intro l
  induction l with
  | nil => intro sel _ h; exact h
  | cons ti rest ih =>
    intro sel hl h
    have hrest := fun t ht => hl t (List.mem_cons_of_mem _ ht)
    have hti := hl ti List.mem_cons_self
    unfold selectInState
    simp only
    repeat' split
    all_goals first
      | exact ih _ hrest h
      | exact h
      | (refine ⟨?_, ?_⟩
         · intro g hg
           rcases (mem_insAll _ _ g).mp hg with h1 | h1
           · exact ⟨ti, (mem_ins ti _ ti).mpr (Or.inl rfl), h1⟩
           · obtain ⟨tj, htj, hgj⟩ := h.1 g h1
             exact ⟨tj, (mem_ins ti _ tj).mpr (Or.inr htj), hgj⟩
         · intro tj htj
           rcases (mem_ins ti _ tj).mp htj with h1 | h1
           · rw [h1, hti]; exact hs
           · exact h.2 tj h1)

theorem large_selectLoop_tsrc (c : Chart) (config : List Nat) (ev : Option String)
    (hsrc : ∀ s, ∀ ti ∈ (Large.st c s).trans, (Large.tr c ti).source = s) :
    ∀ (l : List Nat) (sel : Sel), (∀ s ∈ l, s ∈ config) → TSrc c config sel → TSrc c config (Large.selectLoop c config ev l sel) := by
  intro l
  induction l with
  | nil => intro sel _ h; exact h
  | cons s rest ih =>
    intro sel hl h
    have hrest := fun t ht => hl t (List.mem_cons_of_mem _ ht)
    unfold Large.selectLoop
    split
    · exact ih sel hrest h
    · exact ih _ hrest (large_selectInState_tsrc c config ev s (hl s List.mem_cons_self) _ sel (hsrc s) h)

/-- the invariant of the run -/
def XC (c : Chart) (e : EState) : Prop := DC c e ∧ XorU c e.config ∧ PFSub e

theorem xorU_subset {c : Chart} {U V : List Nat} (h : XorU c U) (hs : ∀ x ∈ V, x ∈ U) : XorU c V :=
  fun a ha b hb q hpa hpb hq hna hnb => h a (hs a ha) b (hs b hb) q hpa hpb hq hna hnb

/-- a micro-step keeps "at most one active child" -/
theorem large_microstep_xor (c : Chart) (hcoh : Coherent c = true) (hi : IntervalOK c = true) (hk : EOK c) (hd : DOK c) (hx : XOK c)
    (e : EState) (t xs ts transSet : List Nat) (o : List (Nat × Nat)) (ht : ∀ g ∈ t, g < c.states.size)
    (h : DC c e) (hxor : XorU c e.config) (hs : SelFacts c e.config t xs transSet)
    (hstay : ParentClosed c (e.config.filter (fun s => !xs.contains s))) :
    XorU c (Large.microstep c e t xs ts o).config := by
  have hc := coh_of_coherent hcoh
  have h0 := e0_xor c hcoh hi hk hd hx e t xs transSet (configOk_of_pc hk h.1) h.1.1 hxor hs
  have hstayR : ∀ x ∈ stayOf e xs, x < c.states.size := fun x hx' => h.1.2.1 x ((mem_stayOf e xs x).mp hx').1
  have hfin := descLoop_xor c hc hk hd hx e xs hstay hstayR (2 * c.states.size + 2) 0 _ ts (entry0_inv c hc t ht) h0
  refine xorU_subset hfin ?_
  intro x hx'
  rw [microstep_config_entry] at hx'
  rcases hx' with ⟨h1, h2⟩ | ⟨h1, _⟩
  · exact List.mem_append.mpr (Or.inr ((mem_stayOf e xs x).mpr ⟨h1, h2⟩))
  · exact List.mem_append.mpr (Or.inl h1)

/-- the first micro-step: the default completion of the root, from the empty configuration -/
theorem large_first_xor (c : Chart) (hc : Coh c) (hk : EOK c) (hd : DOK c) (hx : XOK c) (e : EState) (ts : List Nat) (o : List (Nat × Nat))
    (hempty : e.config = []) : XorU c (Large.microstep c e (Large.st c 0).completion [] ts o).config := by
  have hstayNil : stayOf e [] = [] := by unfold stayOf; rw [hempty]; rfl
  have hmemE := mem_foldl_insAll (fun g => Large.ancs c g) (Large.st c 0).completion (Large.st c 0).completion
  have h0 : XorU c ((Large.st c 0).completion.foldl (fun en g => insAll (Large.ancs c g) en) (Large.st c 0).completion ++ stayOf e []) := by
    rw [hstayNil, List.append_nil]
    intro a ha b hb q hpa hpb hq _ _
    have prov : ∀ y, y ∈ (Large.st c 0).completion.foldl (fun en g => insAll (Large.ancs c g) en) (Large.st c 0).completion →
        ∃ k ∈ (Large.st c 0).completion, y ∈ chain c k := by
      intro y hy
      rcases (hmemE y).mp hy with h | ⟨g, hg, hyg⟩
      · exact ⟨y, h, List.mem_cons_self⟩
      · exact ⟨g, hg, List.mem_cons_of_mem _ hyg⟩
    obtain ⟨k1, hk1, h1⟩ := prov a ha
    obtain ⟨k2, hk2, h2⟩ := prov b hb
    exact hx.legalCompl 0 k1 hk1 k2 hk2 a h1 b h2 q hpa hpb hq
  have hstayC : Closed c (stayOf e []) := by rw [hstayNil]; intro x hx'; cases hx'
  have hstayR : ∀ x ∈ stayOf e [], x < c.states.size := by rw [hstayNil]; intro x hx'; cases hx'
  have hfin := descLoop_xor c hc hk hd hx e [] hstayC hstayR (2 * c.states.size + 2) 0 _ ts
    (entry0_inv c hc (Large.st c 0).completion (hk.complLt 0)) h0
  refine xorU_subset hfin ?_
  intro x hx'
  rw [microstep_config_entry] at hx'
  rcases hx' with ⟨h1, h2⟩ | ⟨h1, _⟩
  · exact List.mem_append.mpr (Or.inr ((mem_stayOf e [] x).mpr ⟨h1, h2⟩))
  · exact List.mem_append.mpr (Or.inl h1)

/-- the invariant of the run: the earlier ones, "at most one active child", the post-fix list inside the configuration, and
nothing active before the first step -/
def XInv (c : Chart) (e : EState) : Prop :=
  DC c e ∧ XorU c e.config ∧ PFSub e ∧ (e.pristine = true → e.config = [])

theorem large_selectAndStep_xinv (c : Chart) (hcoh : Coherent c = true) (hi : IntervalOK c = true) (hk : EOK c) (hd : DOK c) (hx : XOK c)
    (hp : SelPlain c = true) (e : EState) (ev : Option String) (h : XInv c e) (hnp : e.pristine = false) :
    XInv c (Large.selectAndStep c e ev).1 := by
  have hdc := large_selectAndStep_dc c hcoh hi hk hd hp e ev h.1
  have hsel := large_selectLoop_inv c hk hp e.config ev e.configPF { x := e.x } ⟨(by intro i hi; cases hi), (by intro g hg; cases hg)⟩
  have hexit := large_selectLoop_exit c e.config ev e.configPF { x := e.x } (by intro s; simp)
  have hfree := large_selection_conflict_free c e.config ev e.configPF e.x
  have htsrc := large_selectLoop_tsrc c e.config ev hx.transSrc e.configPF { x := e.x } h.2.2.1
    ⟨(by intro g hg; cases hg), (by intro ti hti; cases hti)⟩
  have hstay := exit_keeps_parents c hcoh hi e.config ev e.configPF e.x (configOk_of_pc hk h.1.1) h.1.1.1 hsel.1
  have hfacts : SelFacts c e.config (Large.selectLoop c e.config ev e.configPF { x := e.x }).targetSet
      (Large.selectLoop c e.config ev e.configPF { x := e.x }).exitSet (Large.selectLoop c e.config ev e.configPF { x := e.x }).transSet :=
    ⟨hexit, hsel.1, hfree, htsrc.1, htsrc.2⟩
  refine ⟨hdc, ?_, ?_, ?_⟩
  · unfold Large.selectAndStep
    simp only
    split
    · exact h.2.1
    · exact large_microstep_xor c hcoh hi hk hd hx _ _ _ _ _ _ hsel.2 h.1 h.2.1 hfacts hstay
  · unfold Large.selectAndStep
    simp only
    split
    · exact h.2.2.1
    · exact large_microstep_pf c _ _ _ _ _ h.2.2.1
  · intro hpr
    exfalso
    -- selection leaves the pristine flag alone
    have : (Large.selectAndStep c e ev).1.pristine = e.pristine := by
      unfold Large.selectAndStep
      simp only
      split
      · rfl
      · exact large_microstep_pristine c _ _ _ _ _
    rw [this, hnp] at hpr
    cases hpr

theorem large_selectAndStep_xor (c : Chart) (hcoh : Coherent c = true) (hi : IntervalOK c = true) (hk : EOK c) (hd : DOK c) (hx : XOK c)
    (hp : SelPlain c = true) (e : EState) (ev : Option String) (h : XInv c e) (hnp : e.pristine = false) :
    XorU c (Large.selectAndStep c e ev).1.config ∧ PFSub (Large.selectAndStep c e ev).1 ∧
      ((Large.selectAndStep c e ev).1.pristine = true → (Large.selectAndStep c e ev).1.config = []) :=
  (large_selectAndStep_xinv c hcoh hi hk hd hx hp e ev h hnp).2

theorem large_step_xinv (c : Chart) (hcoh : Coherent c = true) (hi : IntervalOK c = true) (hk : EOK c) (hd : DOK c) (hx : XOK c)
    (hp : SelPlain c = true) (e : EState) (h : XInv c e) : XInv c (Large.step c e).1 := by
  have hc := coh_of_coherent hcoh
  refine ⟨large_step_dc c hcoh hi hk hd hp e h.1, ?_⟩
  unfold Large.step
  by_cases hf : e.finished = true
  · rw [if_pos hf]; exact h.2
  · rw [if_neg hf]
    by_cases ht : e.topLevelFinal = true
    · rw [if_pos ht]; exact h.2
    · rw [if_neg ht]
      by_cases hpr : e.pristine = true
      · rw [if_pos hpr]
        have hempty := h.2.2.2 hpr
        refine ⟨large_first_xor c hc hk hd hx _ _ _ hempty, large_microstep_pf c _ _ _ _ _ h.2.2.1, ?_⟩
        intro hpp
        rw [large_microstep_pristine] at hpp
        cases hpp
      · rw [if_neg hpr]
        have hnp : e.pristine = false := by simpa using hpr
        by_cases hs : e.spontaneous = true
        · rw [if_pos hs]
          exact large_selectAndStep_xor c hcoh hi hk hd hx hp e none h hnp
        · rw [if_neg hs]
          split
          · exact large_selectAndStep_xor c hcoh hi hk hd hx hp _ _ h hnp
          · simp only
            split
            · exact ⟨h.2.1, h.2.2.1, fun hpp => by rw [hnp] at hpp; cases hpp⟩
            · split
              · split
                · split
                  · exact ⟨h.2.1, h.2.2.1, fun hpp => by rw [hnp] at hpp; cases hpp⟩
                  · exact ⟨h.2.1, h.2.2.1, fun hpp => by rw [hnp] at hpp; cases hpp⟩
                · exact large_selectAndStep_xor c hcoh hi hk hd hx hp _ _ h hnp
              · split
                · exact ⟨h.2.1, h.2.2.1, fun hpp => by rw [hnp] at hpp; cases hpp⟩
                · exact ⟨h.2.1, h.2.2.1, fun hpp => by rw [hnp] at hpp; cases hpp⟩

theorem xinv_fresh (c : Chart) : XInv c ({} : Api).e :=
  ⟨dc_fresh c, (fun a ha => by cases ha), (fun s hs => by cases hs), fun _ => rfl⟩

section run
variable (c : Chart) (hcoh : Coherent c = true) (hi : IntervalOK c = true) (hk : EOK c) (hd : DOK c) (hx : XOK c) (hp : SelPlain c = true)
include hcoh hi hk hd hx hp

theorem stepObserved_xinv (a : Api) (h : XInv c a.e) : XInv c (stepObserved .large c a).1.e := by
  unfold stepObserved stepOnce
  simp only
  split
  · exact h
  · exact large_step_xinv c hcoh hi hk hd hx hp a.e h

theorem quiesce_xinv (fuel : Nat) (a : Api) (h : XInv c a.e) : XInv c (quiesce .large c fuel a).e := by
  induction fuel generalizing a with
  | zero => exact h
  | succ n ih =>
    unfold quiesce
    simp only
    split
    · exact stepObserved_xinv c hcoh hi hk hd hx hp a h
    · exact ih _ (stepObserved_xinv c hcoh hi hk hd hx hp a h)

theorem apply_xinv (s : Session) (op : Op) (h : XInv c s.a.e) : XInv c (apply .large c s op).a.e := by
  cases op with
  | step => exact stepObserved_xinv c hcoh hi hk hd hx hp s.a h
  | quiesce => exact quiesce_xinv c hcoh hi hk hd hx hp cap s.a h
  | receive ev => exact h
  | cancel => exact h
  | getState => exact h
  | inject ev => exact h
  | reset => exact xinv_fresh c
  | destroy => exact xinv_fresh c

theorem run_xinv (ops : List Op) : XInv c (run .large c ops).a.e := by
  unfold run
  exact foldl_pres (fun s : Session => XInv c s.a.e) (apply .large c) (fun s op hs => apply_xinv c hcoh hi hk hd hx hp s op hs) ops {} (xinv_fresh c)

end run

end UscxmlVerif.Proofs.XorRun
