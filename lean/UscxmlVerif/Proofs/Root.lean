import UscxmlVerif.Proofs.Select
/-!
# The root is never exited

The exit interval of a transition starts after its domain (`d + 1`), so the root (number 0) is
in no exit set; exiting removes only members of the exit set and entering removes nothing.
Holds for every chart.
-/
namespace UscxmlVerif.Proofs.Root
open UscxmlVerif UscxmlVerif.Model UscxmlVerif.Model.Large UscxmlVerif.Proofs.CfgInv UscxmlVerif.Proofs.Select

def NZ (l : List Nat) : Prop := ∀ s ∈ l, s ≠ 0

theorem nz_insAll_filter (es : Nat × Nat) (h0 : es.1 ≠ 0) (l acc : List Nat) (h : NZ acc) :
    NZ (insAll (l.filter (fun s => decide (es.1 ≤ s) && decide (s ≤ es.2))) acc) := by
  intro s hs
  rcases (mem_insAll _ _ s).mp hs with hs | hs
  · simp only [List.mem_filter, Bool.and_eq_true, decide_eq_true_eq] at hs
    omega
  · exact h s hs

theorem large_selectInState_nz (c : Chart) (config : List Nat) (ev : Option String) (s : Nat) :
    ∀ (l : List Nat) (sel : Sel), NZ sel.exitSet → NZ (selectInState c config ev s l sel).exitSet := by
  intro l
  induction l with
  | nil => intro sel h; exact h
  | cons ti rest ih =>
    intro sel h
    unfold selectInState
    simp only
    repeat' split
    all_goals first
      | exact ih _ h
      | exact h
      | exact nz_insAll_filter _ (by simpa using (by assumption : ((exitSet c (tr c ti)).1 != 0) = true)) _ _ h

theorem large_selectLoop_nz (c : Chart) (config : List Nat) (ev : Option String) :
    ∀ (l : List Nat) (sel : Sel), NZ sel.exitSet → NZ (Large.selectLoop c config ev l sel).exitSet := by
  intro l
  induction l with
  | nil => intro sel h; exact h
  | cons s rest ih =>
    intro sel h
    unfold Large.selectLoop
    split
    · exact ih sel h
    · exact ih _ (large_selectInState_nz c config ev s _ sel h)

theorem fast_selectLoop_nz (c : Chart) (config : List Nat) (ev : Option String) :
    ∀ (l : List Nat) (sel : Sel) (confl : List Nat), NZ sel.exitSet → NZ (Fast.selectLoop c config ev l sel confl).exitSet := by
  intro l
  induction l with
  | nil => intro sel confl h; exact h
  | cons ti rest ih =>
    intro sel confl h
    unfold Fast.selectLoop
    simp only
    repeat' split
    all_goals first
      | exact ih _ _ h
      | exact ih _ _ (nz_insAll_filter _ (by simpa using (by assumption : ((exitSet c (tr c ti)).1 != 0) = true)) _ _ h)

/-! ## the micro-step -/

def HasRoot (e : EState) : Prop := 0 ∈ e.config

theorem large_enterState_root (c : Chart) (ts : List Nat) (e : EState) (s : Nat) (h : HasRoot e) :
    HasRoot (Large.enterState c ts e s) := by
  unfold Large.enterState HasRoot
  simp only
  split
  · exact h
  · have hok : 0 ∈ ins s e.config := (mem_ins s e.config 0).mpr (Or.inr h)
    repeat' split
    all_goals exact hok

theorem fast_enterState_root (c : Chart) (ts : List Nat) (e : EState) (s : Nat) (h : HasRoot e) :
    HasRoot (Fast.enterState c ts e s) := by
  unfold Fast.enterState HasRoot
  simp only
  split
  · exact h
  · split
    · exact h
    · have hok : 0 ∈ ins s e.config := (mem_ins s e.config 0).mpr (Or.inr h)
      repeat' split
      all_goals exact hok

theorem foldl_pres_mem {α β} (P : α → Prop) (f : α → β → α) (l : List β) (h : ∀ a b, b ∈ l → P a → P (f a b)) (a : α) (ha : P a) :
    P (l.foldl f a) := by
  induction l generalizing a with
  | nil => exact ha
  | cons b bs ih => exact ih (fun a' b' hb' => h a' b' (List.mem_cons_of_mem _ hb')) _ (h a b List.mem_cons_self ha)

theorem large_microstep_root (c : Chart) (e : EState) (t xs ts : List Nat) (o : List (Nat × Nat)) (h : HasRoot e) (hx : NZ xs) :
    HasRoot (Large.microstep c e t xs ts o) := by
  unfold Large.microstep
  simp only
  have h1 : ∀ (b : EState), HasRoot b → HasRoot (xs.reverse.foldl (fun e s =>
      { e with config := e.config.filter (· != s), configPF := pfErase c s e.configPF,
               x := (execBlocks c e.config (st c s).onexit (e.x.emit (.bx ((st c s).id)))).emit (.ax ((st c s).id)) }) b) := by
    intro b hb
    refine foldl_pres_mem HasRoot _ xs.reverse ?_ b hb
    intro a s hs ha
    have hs0 : s ≠ 0 := hx s (List.mem_reverse.mp hs)
    unfold HasRoot
    simp only [List.mem_filter, bne_iff_ne, ne_eq]
    exact ⟨ha, fun h => hs0 h.symm⟩
  have h2 : ∀ (l : List Nat) (b : EState), HasRoot b → HasRoot (l.foldl (fun e ti =>
      if (tr c ti).isHistory || (tr c ti).isInitial then e
      else { e with x := takeTrans c e.config ti e.x }) b) := by
    intro l b hb
    refine foldl_pres HasRoot _ (fun a ti ha => ?_) l b hb
    split
    · exact ha
    · exact ha
  have h3 : ∀ (l : List Nat) (ts' : List Nat) (b : EState), HasRoot b → HasRoot (l.foldl (Large.enterState c ts') b) :=
    fun l ts' b hb => foldl_pres HasRoot _ (fun a s ha => large_enterState_root c ts' a s ha) l b hb
  split <;> exact h3 _ _ _ (h2 _ _ (h1 _ h))

theorem fast_microstep_root (c : Chart) (e : EState) (t xs ts : List Nat) (o : List (Nat × Nat)) (h : HasRoot e) (hx : NZ xs) :
    HasRoot (Fast.microstep c e t xs ts o) := by
  unfold Fast.microstep
  simp only
  have hx' : NZ (xs.filter (fun s => mem s e.config)) := fun s hs => hx s (List.mem_filter.mp hs).1
  have h1 : ∀ (l : List Nat), NZ l → ∀ (b : EState), HasRoot b → HasRoot (l.reverse.foldl (fun e s =>
      { e with config := e.config.filter (· != s),
               x := (execBlocks c e.config (st c s).onexit (e.x.emit (.bx ((st c s).id)))).emit (.ax ((st c s).id)) }) b) := by
    intro l hl b hb
    refine foldl_pres_mem HasRoot _ l.reverse ?_ b hb
    intro a s hs ha
    have hs0 : s ≠ 0 := hl s (List.mem_reverse.mp hs)
    unfold HasRoot
    simp only [List.mem_filter, bne_iff_ne, ne_eq]
    exact ⟨ha, fun h => hs0 h.symm⟩
  have h2 : ∀ (l : List Nat) (b : EState), HasRoot b → HasRoot (l.foldl (fun e ti =>
      if (tr c ti).isHistory || (tr c ti).isInitial then e
      else { e with x := takeTrans c e.config ti e.x }) b) := by
    intro l b hb
    refine foldl_pres HasRoot _ (fun a ti ha => ?_) l b hb
    split
    · exact ha
    · exact ha
  have h3 : ∀ (l : List Nat) (ts' : List Nat) (b : EState), HasRoot b → HasRoot (l.foldl (Fast.enterState c ts') b) :=
    fun l ts' b hb => foldl_pres HasRoot _ (fun a s ha => fast_enterState_root c ts' a s ha) l b hb
  split <;> exact h3 _ _ _ (h2 _ _ (h1 _ hx' _ h))

theorem large_step_root (c : Chart) (e : EState) (h : HasRoot e) : HasRoot (Large.step c e).1 := by
  have hsel : ∀ (e' : EState) (ev : Option String), HasRoot e' → HasRoot (Large.selectAndStep c e' ev).1 := by
    intro e' ev he'
    unfold Large.selectAndStep
    simp only
    split
    · exact he'
    · exact large_microstep_root c _ _ _ _ _ he' (large_selectLoop_nz c _ _ _ _ (fun s hs => by cases hs))
  unfold Large.step
  simp only
  repeat' split
  all_goals first
    | exact h
    | exact large_microstep_root c _ _ _ _ _ h (fun s hs => by cases hs)
    | exact hsel _ _ h

theorem fast_step_root (c : Chart) (e : EState) (h : HasRoot e) : HasRoot (Fast.step c e).1 := by
  have hsel : ∀ (e' : EState) (ev : Option String), HasRoot e' → HasRoot (Fast.selectAndStep c e' ev).1 := by
    intro e' ev he'
    unfold Fast.selectAndStep
    simp only
    split
    · exact he'
    · refine fast_microstep_root c _ _ _ _ _ he' ?_
      intro s hs
      exact fast_selectLoop_nz c _ _ _ _ _ (fun s hs => by cases hs) s (List.mem_filter.mp hs).1
  unfold Fast.step
  simp only
  repeat' split
  all_goals first
    | exact h
    | exact fast_microstep_root c _ _ _ _ _ h (fun s hs => by cases hs)
    | exact hsel _ _ h

end UscxmlVerif.Proofs.Root
