import UscxmlVerif.Proofs.EntryClosed
import UscxmlVerif.Properties.C05
/-!
# Every active state's parent is active (LargeMicroStep, history-free charts)

The inductive invariant of the run: the configuration is parent-closed and made of states of the
chart. Selection picks plain transitions with targets of the chart (`SelInv`); exiting keeps the
invariant (`ExitClosed`), entering keeps it (`EntryClosed`).
-/
namespace UscxmlVerif.Proofs.Parents
open UscxmlVerif UscxmlVerif.Model UscxmlVerif.Model.Large UscxmlVerif.Model.Api UscxmlVerif.Proofs.Struct UscxmlVerif.Proofs.ExitClosed
  UscxmlVerif.Proofs.EntryClosed UscxmlVerif.Proofs.CfgInv UscxmlVerif.Proofs.Select

/-- decidable: the transitions selection can pick (those of real states, not of `<initial>` / `<history>` elements) are plain -/
def SelPlain (c : Chart) : Bool :=
  (List.range c.states.size).all (fun s => (Large.st c s).trans.all (fun ti =>
    (Large.tr c ti).isHistory || (Large.tr c ti).isInitial || Properties.C05.plainTrans c (T.tr c ti)))

theorem selPlain_spec {c : Chart} (h : SelPlain c = true) (s : Nat) : ∀ ti ∈ (Large.st c s).trans,
    ((Large.tr c ti).isHistory || (Large.tr c ti).isInitial) = true ∨ Properties.C05.plainTrans c (T.tr c ti) = true := by
  intro ti hti
  by_cases hs : s < c.states.size
  · unfold SelPlain at h
    simp only [List.all_eq_true, List.mem_range, Bool.or_eq_true] at h
    rcases h s hs ti hti with (h1 | h1) | h1
    · exact Or.inl (by simp [h1])
    · exact Or.inl (by simp [h1])
    · exact Or.inr h1
  · rw [st_oor c s hs] at hti
    have : (default : St).trans = [] := rfl
    rw [this] at hti; cases hti

/-- what selection keeps true of its result: selected transitions are plain, targets are states of the chart -/
def SelInv (c : Chart) (sel : Sel) : Prop :=
  (∀ i ∈ sel.transSet, Properties.C05.plainTrans c (T.tr c i) = true) ∧ (∀ g ∈ sel.targetSet, g < c.states.size)

theorem large_selectInState_inv (c : Chart) (hk : EOK c) (config : List Nat) (ev : Option String) (s : Nat) :
    ∀ (l : List Nat) (sel : Sel),
      (∀ ti ∈ l, ((Large.tr c ti).isHistory || (Large.tr c ti).isInitial) = true ∨ Properties.C05.plainTrans c (T.tr c ti) = true) →
      SelInv c sel → SelInv c (selectInState c config ev s l sel) := by
  intro l
  induction l with
  | nil => intro sel _ h; exact h
  | cons ti rest ih =>
    intro sel hl h
    have hrest := fun t ht => hl t (List.mem_cons_of_mem _ ht)
    have hti := hl ti List.mem_cons_self
    unfold selectInState
    simp only
    split
    · exact ih _ hrest h
    · rename_i hnot
      have hplain : Properties.C05.plainTrans c (T.tr c ti) = true := by
        rcases hti with h1 | h1
        · exact absurd h1 hnot
        · exact h1
      repeat' split
      all_goals first
        | exact ih _ hrest h
        | exact h
        | (refine ⟨?_, ?_⟩
           · intro i hi
             rcases (mem_ins ti _ i).mp hi with h1 | h1
             · rw [h1]; exact hplain
             · exact h.1 i h1
           · intro g hg
             rcases (mem_insAll _ _ g).mp hg with h1 | h1
             · exact hk.targetLt ti g h1
             · exact h.2 g h1)

theorem large_selectLoop_inv (c : Chart) (hk : EOK c) (hp : SelPlain c = true) (config : List Nat) (ev : Option String) :
    ∀ (l : List Nat) (sel : Sel), SelInv c sel → SelInv c (Large.selectLoop c config ev l sel) := by
  intro l
  induction l with
  | nil => intro sel h; exact h
  | cons s rest ih =>
    intro sel h
    unfold Large.selectLoop
    split
    · exact ih sel h
    · exact ih _ (large_selectInState_inv c hk config ev s _ sel (selPlain_spec hp s) h)

/-- the invariant of the run -/
def PC (c : Chart) (e : EState) : Prop :=
  ParentClosed c e.config ∧ (∀ k ∈ e.config, k < c.states.size) ∧ EOk c e

theorem configOk_of_pc {c : Chart} (hk : EOK c) {e : EState} (h : PC c e) : ConfigOk c e.config := by
  intro k hkc
  refine ⟨h.2.1 k hkc, ?_⟩
  by_cases h0 : k = 0
  · exact Or.inl h0
  · exact Or.inr (hk.kinds k (h.2.1 k hkc) h0 (h.2.2.2 k hkc))

theorem large_microstep_pc (c : Chart) (hc : Coh c) (hk : EOK c) (e : EState) (t xs ts : List Nat) (o : List (Nat × Nat))
    (ht : ∀ g ∈ t, g < c.states.size) (hr : ∀ k ∈ e.config, k < c.states.size) (hok : EOk c e)
    (h1 : ParentClosed c (e.config.filter (fun s => !xs.contains s))) : PC c (Large.microstep c e t xs ts o) := by
  obtain ⟨E, hE, hmem⟩ := large_microstep_config c hc hk e t xs ts o ht
  refine ⟨?_, ?_, large_microstep_ok c e t xs ts o hok⟩
  · intro x hx p hp
    rw [hmem] at hx ⊢
    rcases hx with ⟨hxc, hxx⟩ | ⟨hxE, hxps⟩
    · have hxf : x ∈ e.config.filter (fun s => !xs.contains s) := by
        simp only [List.mem_filter, Bool.not_eq_eq_eq_not, Bool.not_true]
        exact ⟨hxc, by simpa using hxx⟩
      have := h1 x hxf p hp
      simp only [List.mem_filter, Bool.not_eq_eq_eq_not, Bool.not_true] at this
      exact Or.inl ⟨this.1, by simpa using this.2⟩
    · have hpE := hE.1 x hxE p hp
      refine Or.inr ⟨hpE, ?_⟩
      -- a parent is a real state
      have hxlt := hE.2 x hxE
      have hx0 : x ≠ 0 := by
        intro h0
        subst h0
        have : Large.st c 0 = T.st c 0 := rfl
        rw [this, hc.rootParent] at hp; cases hp
      obtain ⟨p', hp', _, hkind⟩ := hc.parent x hx0 hxlt
      have e1 : Large.st c x = T.st c x := rfl
      rw [e1, hp'] at hp
      simp only [Option.some.injEq] at hp
      subst hp
      cases hps : (Large.st c p').typ.isPseudo with
      | false => rfl
      | true =>
        have := hk.pseudo p' hps
        have e2 : Large.st c p' = T.st c p' := rfl
        rw [e2, hkind] at this; cases this
  · intro x hx
    rw [hmem] at hx
    rcases hx with ⟨hxc, _⟩ | ⟨hxE, _⟩
    · exact hr x hxc
    · exact hE.2 x hxE

theorem large_selectAndStep_pc (c : Chart) (hcoh : Coherent c = true) (hi : Proofs.Interval.IntervalOK c = true) (hk : EOK c)
    (hp : SelPlain c = true) (e : EState) (ev : Option String) (h : PC c e) : PC c (Large.selectAndStep c e ev).1 := by
  have hc := coh_of_coherent hcoh
  have hsel := large_selectLoop_inv c hk hp e.config ev e.configPF { x := e.x } ⟨(by intro i hi; cases hi), (by intro g hg; cases hg)⟩
  have hx := exit_keeps_parents c hcoh hi e.config ev e.configPF e.x (configOk_of_pc hk h) h.1 hsel.1
  unfold Large.selectAndStep
  simp only
  split
  · exact h
  · exact large_microstep_pc c hc hk _ _ _ _ _ hsel.2 h.2.1 h.2.2 hx

theorem large_step_pc (c : Chart) (hcoh : Coherent c = true) (hi : Proofs.Interval.IntervalOK c = true) (hk : EOK c)
    (hp : SelPlain c = true) (e : EState) (h : PC c e) : PC c (Large.step c e).1 := by
  have hc := coh_of_coherent hcoh
  have hnil : ParentClosed c (e.config.filter (fun s => !([] : List Nat).contains s)) := by
    intro x hx p hpx
    simp only [List.contains_nil, Bool.not_false, List.mem_filter, and_true] at hx ⊢
    exact h.1 x hx p hpx
  unfold Large.step
  simp only
  repeat' split
  all_goals first
    | exact h
    | exact large_microstep_pc c hc hk _ _ _ _ _ (hk.complLt 0) h.2.1 h.2.2 hnil
    | exact large_selectAndStep_pc c hcoh hi hk hp _ _ h

/-! ## every sequence of API operations -/

theorem pc_fresh (c : Chart) : PC c ({} : Api).e :=
  ⟨(fun x hx => by cases hx), (fun x hx => by cases hx), List.Pairwise.nil, (fun x hx => by cases hx)⟩



end UscxmlVerif.Proofs.Parents
