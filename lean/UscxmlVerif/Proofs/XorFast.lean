import UscxmlVerif.Proofs.XorRun
/-!
# "At most one active child" for FastMicroStep (charts without `<history>` and `<initial>` elements)
-/
namespace UscxmlVerif.Proofs.XorFast
open UscxmlVerif UscxmlVerif.Model UscxmlVerif.Model.Large UscxmlVerif.Model.Api UscxmlVerif.Proofs.Struct UscxmlVerif.Proofs.ExitClosed
  UscxmlVerif.Proofs.EntryClosed UscxmlVerif.Proofs.CfgInv UscxmlVerif.Proofs.Select UscxmlVerif.Proofs.Down
  UscxmlVerif.Proofs.Interval UscxmlVerif.Proofs.Parents UscxmlVerif.Proofs.ParentsFast UscxmlVerif.Proofs.DownExit
  UscxmlVerif.Proofs.Xor UscxmlVerif.Proofs.XorSel UscxmlVerif.Proofs.DownRun UscxmlVerif.Proofs.DownFast UscxmlVerif.Proofs.XorRun

/-- a visit of FastMicroStep's descendant loop keeps the invariant; `t` are the targets of the selection (they stay in the entry
set), `xs` the exit set cut down to the active states -/
theorem fast_descVisit_xor (c : Chart) (hcoh : Coherent c = true) (hi : IntervalOK c = true) (hk : EOK c) (hd : DOK c) (hx : XOK c)
    (e : EState) (t xs transSet : List Nat) (s : Nat) (entry ts : List Nat)
    (hcfg : ConfigOk c e.config) (hpc : ParentClosed c e.config) (hsel : SelFacts c e.config t xs transSet)
    (hs : s ∈ entry) (hinv : Inv c entry) (htin : ∀ ti ∈ transSet, ∀ g ∈ (Large.tr c ti).targets, g ∈ entry)
    (h : XorU c (entry ++ stayOf e xs)) : XorU c ((Fast.descVisit c e xs s entry ts).1 ++ stayOf e xs) := by
  have hc := coh_of_coherent hcoh
  have hanc : ∀ a ∈ Large.ancs c s, a ∈ entry := closed_ancs c hc entry hinv.1 s s (Nat.le_refl _) hs
  have hstayR : ∀ x ∈ stayOf e xs, x < c.states.size := fun x hx' => (hcfg x ((mem_stayOf e xs x).mp hx').1).1
  unfold Fast.descVisit
  simp only
  split
  · exact h
  · exact h
  · -- parallel
    rename_i ht
    intro a ha b hb q hpa hpb hq hna hnb
    have hold : ∀ x, x ∈ insAll (Large.st c s).completion entry ++ stayOf e xs →
        x ∈ entry ++ stayOf e xs ∨ (Large.st c x).parent = some s := by
      intro x hx'
      rcases List.mem_append.mp hx' with h1 | h1
      · rcases (mem_insAll _ _ x).mp h1 with h2 | h2
        · exact Or.inr (hk.parCompl s ht x h2)
        · exact Or.inl (List.mem_append.mpr (Or.inl h2))
      · exact Or.inl (List.mem_append.mpr (Or.inr h1))
    rcases hold a ha with h1 | h1
    · rcases hold b hb with h2 | h2
      · exact h a h1 b h2 q hpa hpb hq hna hnb
      · rw [h2] at hpb
        simp only [Option.some.injEq] at hpb
        rw [← hpb, ht] at hq; cases hq
    · rw [h1] at hpa
      simp only [Option.some.injEq] at hpa
      rw [← hpa, ht] at hq; cases hq
  · rename_i ht
    have := hk.noHist s
    rw [ht] at this; cases this
  · rename_i ht
    have := hk.noHist s
    rw [ht] at this; cases this
  · rename_i ht
    exact absurd ht (hx.noInit s)
  · -- compound
    rename_i ht
    split
    · rename_i hcond
      simp only [Bool.and_eq_true, Bool.not_eq_eq_eq_not, Bool.not_true, Bool.or_eq_true] at hcond
      obtain ⟨hnoE, hrest⟩ := hcond
      -- nothing below s is in the entry set
      have hbelowE : ∀ x ∈ entry, s ∉ Large.ancs c x := by
        intro x hxE hsx
        exact inter_false hnoE x hxE ((mem_descendants c s x).mpr ⟨hinv.2 x hxE, hsx⟩)
      -- nothing below s stays
      have hbelowS : ∀ x ∈ stayOf e xs, s ∉ Large.ancs c x := by
        intro x hxS hsx
        obtain ⟨hxc, hxx⟩ := (mem_stayOf e xs x).mp hxS
        rcases hrest with h1 | h1
        · exact inter_false h1 x hxc ((mem_descendants c s x).mpr ⟨hstayR x hxS, hsx⟩)
        · -- a state z below s is exited by a selected transition with domain d: s lies below d, and so does x
          obtain ⟨z, hz, hzd⟩ := inter_true h1
          obtain ⟨_, hsz⟩ := (mem_descendants c s z).mp hzd
          obtain ⟨ti, hti, hzc, h0, hz1, hz2⟩ := (hsel.exit z).mp hz
          -- a target of ti exists (its exit interval is not empty)
          have hpl := (Properties.C05.plain_of_plainTrans (hsel.plain ti hti)).1
          have htr : Large.tr c ti = T.tr c ti := rfl
          have hne : (T.tr c ti).targets ≠ [] := by
            intro hnil
            have : exitSet c (Large.tr c ti) = (0, 0) := by
              unfold Large.exitSet
              rw [htr, large_domain_eq c hc _ hpl]
              unfold Model.Tables.transitionDomain
              rw [hnil]
              rfl
            rw [this] at h0
            exact h0 rfl
          cases htg : (T.tr c ti).targets with
          | nil => exact hne htg
          | cons g rest =>
            have hg : g ∈ (Large.tr c ti).targets := by rw [htr, htg]; exact List.mem_cons_self
            obtain ⟨d, hdlt, hdg, _, hex, hiv, hexits, _, _⟩ := sel_domain c hcoh hi hk hd e.config t xs transSet hcfg hpc hsel ti hti g hg
            have hzlt := (hcfg z hzc).1
            have hdz : d ∈ Large.ancs c z := (hiv z hzlt).mpr (by rw [← hex]; exact ⟨hz1, hz2⟩)
            -- d and s are both above z
            rcases ancs_split c hc z z (Nat.le_refl _) d hdz s hsz with h2 | h2 | h2
            · -- s below d: x is below d too and active, so it is exited
              exact hxx (hexits x hxc (ancs_trans c hc x s hsx d h2))
            · -- s = d: the target g lies below s and is in the entry set
              rw [h2] at hbelowE
              exact hbelowE g (htin ti hti g hg) hdg
            · -- s above d: again g is below s
              exact hbelowE g (htin ti hti g hg) (ancs_trans c hc g d hdg s h2)
      have hbelow : ∀ x ∈ entry ++ stayOf e xs, s ∉ Large.ancs c x := by
        intro x hx' hsx
        rcases List.mem_append.mp hx' with h1 | h1
        · exact hbelowE x h1 hsx
        · exact hbelowS x h1 hsx
      -- what is new lies below s, on the chain to a member of the completion
      have hmemE := mem_foldl_insAll (fun k => Large.ancs c k) (Large.st c s).completion (insAll (Large.st c s).completion entry)
      have hnew : ∀ x, x ∈ (Large.st c s).completion.foldl (fun en k => insAll (Large.ancs c k) en) (insAll (Large.st c s).completion entry) ++ stayOf e xs →
          x ∈ entry ++ stayOf e xs ∨ (s ∈ Large.ancs c x ∧ ∃ k ∈ (Large.st c s).completion, x ∈ chain c k) := by
        intro x hx'
        rcases List.mem_append.mp hx' with h1 | h1
        · rcases (hmemE x).mp h1 with h2 | ⟨k, hkc, hxk⟩
          · rcases (mem_insAll _ _ x).mp h2 with h3 | h3
            · exact Or.inr ⟨(hd.complGt s x h3).2, x, h3, List.mem_cons_self⟩
            · exact Or.inl (List.mem_append.mpr (Or.inl h3))
          · rcases ancs_split c hc k k (Nat.le_refl _) s (hd.complGt s k hkc).2 x hxk with h3 | h3 | h3
            · exact Or.inr ⟨h3, k, hkc, List.mem_cons_of_mem _ hxk⟩
            · exact Or.inl (List.mem_append.mpr (Or.inl (by rw [h3]; exact hs)))
            · exact Or.inl (List.mem_append.mpr (Or.inl (hanc x h3)))
        · exact Or.inl (List.mem_append.mpr (Or.inr h1))
      intro a ha b hb q hpa hpb hq hna hnb
      -- a new child of q and an old one cannot coexist: q is s or below s, so the old one would lie below s
      have clash : ∀ x y, s ∈ Large.ancs c x → (Large.st c x).parent = some q → y ∈ entry ++ stayOf e xs →
          (Large.st c y).parent = some q → False := by
        intro x y hsx hpx hyU hpy
        rw [ancs_of_parent c hc x q hpx] at hsx
        have : s ∈ Large.ancs c y := by rw [ancs_of_parent c hc y q hpy]; exact hsx
        exact hbelow y hyU this
      rcases hnew a ha with h1 | ⟨hsa, k1, hk1, hak1⟩
      · rcases hnew b hb with h2 | ⟨hsb, k2, hk2, hbk2⟩
        · exact h a h1 b h2 q hpa hpb hq hna hnb
        · exact absurd (clash b a hsb hpb h1 hpa) id
      · rcases hnew b hb with h2 | ⟨hsb, k2, hk2, hbk2⟩
        · exact absurd (clash a b hsa hpa h2 hpb) id
        · exact hx.legalCompl s k1 hk1 k2 hk2 a hak1 b hbk2 q hpa hpb hq
    · exact h

theorem fast_descVisit_keeps (c : Chart) (_hc : Coh c) (hk : EOK c) (hx : XOK c) (e : EState) (xs : List Nat) (s : Nat) (entry ts : List Nat) :
    ∀ y ∈ entry, y ∈ (Fast.descVisit c e xs s entry ts).1 := by
  intro y hy
  unfold Fast.descVisit
  simp only
  split
  · exact hy
  · exact hy
  · exact (mem_insAll _ _ y).mpr (Or.inr hy)
  · rename_i ht
    have := hk.noHist s
    rw [ht] at this; cases this
  · rename_i ht
    have := hk.noHist s
    rw [ht] at this; cases this
  · rename_i ht
    exact absurd ht (hx.noInit s)
  · split
    · exact (mem_foldl_insAll (fun k => Large.ancs c k) _ _ y).mpr (Or.inl ((mem_insAll _ _ y).mpr (Or.inr hy)))
    · exact hy

theorem fast_descLoop_xor (c : Chart) (hcoh : Coherent c = true) (hi : IntervalOK c = true) (hk : EOK c) (hd : DOK c) (hx : XOK c)
    (e : EState) (t xs transSet : List Nat) (hcfg : ConfigOk c e.config) (hpc : ParentClosed c e.config)
    (hsel : SelFacts c e.config t xs transSet) :
    ∀ (fuel : Nat) (oi : Option Nat) (entry ts : List Nat), Inv c entry → (∀ i, oi = some i → i ∈ entry) →
      (∀ ti ∈ transSet, ∀ g ∈ (Large.tr c ti).targets, g ∈ entry) → XorU c (entry ++ stayOf e xs) →
      XorU c ((Fast.descLoop c e xs fuel oi entry ts).1 ++ stayOf e xs) := by
  have hc := coh_of_coherent hcoh
  intro fuel
  induction fuel with
  | zero => intro oi entry ts _ _ _ h; unfold Fast.descLoop; exact h
  | succ f ih =>
    intro oi entry ts hinv hoi htin h
    cases oi with
    | none => unfold Fast.descLoop; exact h
    | some i =>
      unfold Fast.descLoop
      simp only
      have hie := hoi i rfl
      refine ih _ _ _ (fast_descVisit_inv c hc hk e xs i entry ts hie hinv) ?_ ?_
        (fast_descVisit_xor c hcoh hi hk hd hx e t xs transSet i entry ts hcfg hpc hsel hie hinv htin h)
      · intro j hj
        exact (List.mem_filter.mp (List.mem_of_mem_head? hj)).1
      · intro ti hti g hg
        exact fast_descVisit_keeps c hc hk hx e xs i entry ts g (htin ti hti g hg)

/-- a micro-step of FastMicroStep keeps "at most one active child"; `xs` is the exit set already cut down to the active states -/
theorem fast_microstep_xor (c : Chart) (hcoh : Coherent c = true) (hi : IntervalOK c = true) (hk : EOK c) (hd : DOK c) (hx : XOK c)
    (e : EState) (t xs ts transSet : List Nat) (o : List (Nat × Nat)) (ht : ∀ g ∈ t, g < c.states.size)
    (h : DC c e) (hxor : XorU c e.config) (hs : SelFacts c e.config t xs transSet)
    (htt : ∀ ti ∈ transSet, ∀ g ∈ (Large.tr c ti).targets, g ∈ t)
    (hact : ∀ x ∈ xs, x ∈ e.config) :
    XorU c (Fast.microstep c e t xs ts o).config := by
  have hc := coh_of_coherent hcoh
  have hcfg := configOk_of_pc hk h.1
  have h0 := e0_xor c hcoh hi hk hd hx e t xs transSet hcfg h.1.1 hxor hs
  -- cutting the exit set down to the active states again changes nothing
  have hfilt : xs.filter (fun s => mem s e.config) = xs := by
    apply List.filter_eq_self.mpr
    intro x hx'
    simpa [mem] using hact x hx'
  have hmemE := mem_foldl_insAll (fun g => Large.ancs c g) t t
  have hfin := fast_descLoop_xor c hcoh hi hk hd hx e t xs transSet hcfg h.1.1 hs (2 * c.states.size + 2)
    (t.foldl (fun en g => insAll (Large.ancs c g) en) t).head? _ ts (entry0_inv c hc t ht)
    (fun i hi' => List.mem_of_mem_head? hi') (fun ti hti g hg => (hmemE g).mpr (Or.inl (htt ti hti g hg))) h0
  refine xorU_subset hfin ?_
  intro x hx'
  rw [fast_microstep_config_entry] at hx'
  unfold entryOfF at hx'
  rw [hfilt] at hx'
  rcases hx' with ⟨h1, h2⟩ | ⟨h1, _⟩
  · exact List.mem_append.mpr (Or.inr ((mem_stayOf e xs x).mpr ⟨h1, h2⟩))
  · exact List.mem_append.mpr (Or.inl h1)

/-! ## selection -/

theorem fast_selectLoop_tsrc (c : Chart) (config : List Nat) (ev : Option String) :
    ∀ (l : List Nat) (sel : Sel) (confl : List Nat), TSrc c config sel → TSrc c config (Fast.selectLoop c config ev l sel confl) := by
  intro l
  induction l with
  | nil => intro sel confl h; exact h
  | cons ti rest ih =>
    intro sel confl h
    unfold Fast.selectLoop
    simp only
    split
    · exact ih _ _ h
    · split
      · exact ih _ _ h
      · rename_i hsrc
        have hsrc' : (Large.tr c ti).source ∈ config := by
          have : mem (Large.tr c ti).source config = true := by simpa using hsrc
          exact List.contains_iff_mem.mp this
        have hadd : ∀ sel' : Sel, sel'.transSet = ins ti sel.transSet → sel'.targetSet = insAll (Large.tr c ti).targets sel.targetSet →
            TSrc c config sel' := by
          intro sel' h1 h2
          refine ⟨?_, ?_⟩
          · intro g hg
            rw [h2] at hg
            rw [h1]
            rcases (mem_insAll _ _ g).mp hg with h3 | h3
            · exact ⟨ti, (mem_ins ti _ ti).mpr (Or.inl rfl), h3⟩
            · obtain ⟨tj, htj, hgj⟩ := h.1 g h3
              exact ⟨tj, (mem_ins ti _ tj).mpr (Or.inr htj), hgj⟩
          · intro tj htj
            rw [h1] at htj
            rcases (mem_ins ti _ tj).mp htj with h3 | h3
            · rw [h3]; exact hsrc'
            · exact h.2 tj h3
        have hsame : ∀ sel' : Sel, sel'.transSet = sel.transSet → sel'.targetSet = sel.targetSet → TSrc c config sel' := by
          intro sel' h1 h2
          exact ⟨by rw [h1, h2]; exact h.1, by rw [h1]; exact h.2⟩
        repeat' split
        all_goals first
          | exact ih _ _ h
          | exact ih _ _ (hsame _ rfl rfl)
          | exact ih _ _ (hadd _ rfl rfl)

/-- the invariant of the run for FastMicroStep -/
def XInvF (c : Chart) (e : EState) : Prop :=
  DC c e ∧ XorU c e.config ∧ (e.pristine = true → e.config = [])

theorem fast_selectAndStep_xinv (c : Chart) (hcoh : Coherent c = true) (hi : IntervalOK c = true) (hk : EOK c) (hd : DOK c) (hx : XOK c)
    (hp : SelPlainF c = true) (e : EState) (ev : Option String) (h : XInvF c e) (hnp : e.pristine = false) :
    XorU c (Fast.selectAndStep c e ev).1.config ∧ ((Fast.selectAndStep c e ev).1.pristine = true → (Fast.selectAndStep c e ev).1.config = []) := by
  have hsel := fast_selectLoop_inv c hk e.config ev (List.range c.trans.size) { x := e.x } [] (selPlainF_spec hp)
    ⟨(by intro s; simp), (by intro i hi; cases hi), (by intro g hg; cases hg)⟩
  have htin := DownRunFast.fast_selectLoop_tin c e.config ev (List.range c.trans.size) { x := e.x } [] ⟨List.Pairwise.nil, (by intro i hi; cases hi)⟩
  have hfree := fast_selection_conflict_free c e.config ev e.x
  have htsrc := fast_selectLoop_tsrc c e.config ev (List.range c.trans.size) { x := e.x } []
    ⟨(by intro g hg; cases hg), (by intro ti hti; cases hti)⟩
  have hfacts : SelFacts c e.config (Fast.selectLoop c e.config ev (List.range c.trans.size) { x := e.x } []).targetSet
      ((Fast.selectLoop c e.config ev (List.range c.trans.size) { x := e.x } []).exitSet.filter (fun s => mem s e.config))
      (Fast.selectLoop c e.config ev (List.range c.trans.size) { x := e.x } []).transSet := by
    refine ⟨?_, hsel.2.1, hfree, htsrc.1, htsrc.2⟩
    intro s
    simp only [List.mem_filter, mem, List.contains_iff_mem]
    rw [hsel.1 s]
    constructor
    · rintro ⟨⟨t, ht, _, h0, h1, h2⟩, hs⟩
      exact ⟨t, ht, hs, h0, h1, h2⟩
    · rintro ⟨t, ht, hs, h0, h1, h2⟩
      exact ⟨⟨t, ht, h.1.1.2.1 s hs, h0, h1, h2⟩, hs⟩
  refine ⟨?_, ?_⟩
  · unfold Fast.selectAndStep
    simp only
    split
    · exact h.2.1
    · exact fast_microstep_xor c hcoh hi hk hd hx _ _ _ _ _ _ hsel.2.2 h.1 h.2.1 hfacts htin.2
        (fun x hx' => List.contains_iff_mem.mp (by simpa [mem] using (List.mem_filter.mp hx').2))
  · intro hpr
    exfalso
    have : (Fast.selectAndStep c e ev).1.pristine = e.pristine := by
      unfold Fast.selectAndStep
      simp only
      split
      · rfl
      · exact Flags.fast_microstep_pristine c _ _ _ _ _
    rw [this, hnp] at hpr
    cases hpr

theorem fast_first_xor (c : Chart) (hcoh : Coherent c = true) (hi : IntervalOK c = true) (hk : EOK c) (hd : DOK c) (hx : XOK c)
    (e : EState) (ts : List Nat) (o : List (Nat × Nat)) (hempty : e.config = []) :
    XorU c (Fast.microstep c e (Large.st c 0).completion [] ts o).config := by
  have hc := coh_of_coherent hcoh
  have hstayNil : stayOf e [] = [] := by unfold stayOf; rw [hempty]; rfl
  have hmemE := mem_foldl_insAll (fun g => Large.ancs c g) (Large.st c 0).completion (Large.st c 0).completion
  have h0 : XorU c ((Large.st c 0).completion.foldl (fun en g => insAll (Large.ancs c g) en) (Large.st c 0).completion ++ stayOf e []) := by
    rw [hstayNil, List.append_nil]
    intro a ha b hb q hpa hpb hq _ _
    have prov : ∀ y, y ∈ (Large.st c 0).completion.foldl (fun en g => insAll (Large.ancs c g) en) (Large.st c 0).completion →
        ∃ k ∈ (Large.st c 0).completion, y ∈ chain c k := by
      intro y hy
      rcases (hmemE y).mp hy with h | ⟨g, hg, hyg⟩
      · exact ⟨y, h, List.mem_cons_self⟩
      · exact ⟨g, hg, List.mem_cons_of_mem _ hyg⟩
    obtain ⟨k1, hk1, h1⟩ := prov a ha
    obtain ⟨k2, hk2, h2⟩ := prov b hb
    exact hx.legalCompl 0 k1 hk1 k2 hk2 a h1 b h2 q hpa hpb hq
  have hcfg : ConfigOk c e.config := by rw [hempty]; intro k hk'; cases hk'
  have hpc : ParentClosed c e.config := by rw [hempty]; intro k hk'; cases hk'
  have hfacts : SelFacts c e.config [] [] [] :=
    ⟨(by intro s; simp), (by intro i hi'; cases hi'), (by intro i hi'; cases hi'), (by intro g hg; cases hg), (by intro ti hti; cases hti)⟩
  have hfin := fast_descLoop_xor c hcoh hi hk hd hx e [] [] [] hcfg hpc hfacts (2 * c.states.size + 2)
    ((Large.st c 0).completion.foldl (fun en g => insAll (Large.ancs c g) en) (Large.st c 0).completion).head? _ ts
    (entry0_inv c hc (Large.st c 0).completion (hk.complLt 0)) (fun i hi' => List.mem_of_mem_head? hi')
    (by intro ti hti; cases hti) h0
  refine xorU_subset hfin ?_
  intro x hx'
  rw [fast_microstep_config_entry] at hx'
  unfold entryOfF at hx'
  simp only [List.filter_nil] at hx'
  rcases hx' with ⟨h1, h2⟩ | ⟨h1, _⟩
  · exact List.mem_append.mpr (Or.inr ((mem_stayOf e [] x).mpr ⟨h1, h2⟩))
  · exact List.mem_append.mpr (Or.inl h1)

theorem fast_step_xinv (c : Chart) (hcoh : Coherent c = true) (hi : IntervalOK c = true) (hk : EOK c) (hd : DOK c) (hx : XOK c)
    (hp : SelPlainF c = true) (e : EState) (h : XInvF c e) : XInvF c (Fast.step c e).1 := by
  refine ⟨DownRunFast.fast_step_dc c hcoh hi hk hd hp e h.1, ?_⟩
  unfold Fast.step
  by_cases hf : e.finished = true
  · rw [if_pos hf]; exact h.2
  · rw [if_neg hf]
    by_cases ht : e.topLevelFinal = true
    · rw [if_pos ht]; exact h.2
    · rw [if_neg ht]
      by_cases hpr : e.pristine = true
      · rw [if_pos hpr]
        have hempty := h.2.2 hpr
        refine ⟨fast_first_xor c hcoh hi hk hd hx _ _ _ hempty, ?_⟩
        intro hpp
        rw [Flags.fast_microstep_pristine] at hpp
        cases hpp
      · rw [if_neg hpr]
        have hnp : e.pristine = false := by simpa using hpr
        by_cases hs : e.spontaneous = true
        · rw [if_pos hs]
          exact fast_selectAndStep_xinv c hcoh hi hk hd hx hp e none h hnp
        · rw [if_neg hs]
          split
          · exact fast_selectAndStep_xinv c hcoh hi hk hd hx hp _ _ h hnp
          · simp only
            split
            · exact ⟨h.2.1, fun hpp => by rw [hnp] at hpp; cases hpp⟩
            · split
              · split
                · split
                  · exact ⟨h.2.1, fun hpp => by rw [hnp] at hpp; cases hpp⟩
                  · exact ⟨h.2.1, fun hpp => by rw [hnp] at hpp; cases hpp⟩
                · exact fast_selectAndStep_xinv c hcoh hi hk hd hx hp _ _ h hnp
              · split
                · exact ⟨h.2.1, fun hpp => by rw [hnp] at hpp; cases hpp⟩
                · exact ⟨h.2.1, fun hpp => by rw [hnp] at hpp; cases hpp⟩

/-! ## both engines -/

theorem xinvF_of_xinv {c : Chart} {e : EState} (h : XInv c e) : XInvF c e := ⟨h.1, h.2.1, h.2.2.2⟩

/-- the common part of the two invariants -/
def LegalInv (c : Chart) (e : EState) : Prop := DC c e ∧ XorU c e.config

section run
variable (c : Chart) (hcoh : Coherent c = true) (hi : IntervalOK c = true) (hk : EOK c) (hd : DOK c) (hx : XOK c)
  (hp : SelPlain c = true) (hpf : SelPlainF c = true)
include hcoh hi hk hd hx hp hpf

theorem stepObservedF_xinv (a : Api) (h : XInvF c a.e) : XInvF c (stepObserved .fast c a).1.e := by
  unfold stepObserved stepOnce
  simp only
  split
  · exact h
  · exact fast_step_xinv c hcoh hi hk hd hx hpf a.e h

theorem quiesceF_xinv (fuel : Nat) (a : Api) (h : XInvF c a.e) : XInvF c (quiesce .fast c fuel a).e := by
  induction fuel generalizing a with
  | zero => exact h
  | succ n ih =>
    unfold quiesce
    simp only
    split
    · exact stepObservedF_xinv c hcoh hi hk hd hx hp hpf a h
    · exact ih _ (stepObservedF_xinv c hcoh hi hk hd hx hp hpf a h)

theorem applyF_xinv (s : Session) (op : Op) (h : XInvF c s.a.e) : XInvF c (apply .fast c s op).a.e := by
  cases op with
  | step => exact stepObservedF_xinv c hcoh hi hk hd hx hp hpf s.a h
  | quiesce => exact quiesceF_xinv c hcoh hi hk hd hx hp hpf cap s.a h
  | receive ev => exact h
  | cancel => exact h
  | getState => exact h
  | inject ev => exact h
  | reset => exact xinvF_of_xinv (xinv_fresh c)
  | destroy => exact xinvF_of_xinv (xinv_fresh c)

theorem runF_xinv (ops : List Op) : XInvF c (run .fast c ops).a.e := by
  unfold run
  exact foldl_pres (fun s : Session => XInvF c s.a.e) (apply .fast c) (fun s op hs => applyF_xinv c hcoh hi hk hd hx hp hpf s op hs)
    ops {} (xinvF_of_xinv (xinv_fresh c))

/-- both engines, every sequence of API operations -/
theorem run_legalInv (eng : Engine) (ops : List Op) : LegalInv c (run eng c ops).a.e := by
  cases eng
  · have := run_xinv c hcoh hi hk hd hx hp ops
    exact ⟨this.1, this.2.1⟩
  · have := runF_xinv c hcoh hi hk hd hx hp hpf ops
    exact ⟨this.1, this.2.1⟩

end run

end UscxmlVerif.Proofs.XorFast
