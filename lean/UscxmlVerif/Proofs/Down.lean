import UscxmlVerif.Proofs.ParentsFast
import UscxmlVerif.Proofs.SortedIns
/-!
# Entering completes what it enters (LargeMicroStep, history-free charts)

The descendant loop visits every member of the (growing, ascending) entry set exactly once: what a visit
inserts is present already or follows the visited state in document order, so the visited prefix of the
list never moves (`Proofs/SortedIns.lean`). After the loop every parallel state of the entry set has all its
children in it, and every compound state has a child in it or keeps an active one.
-/
namespace UscxmlVerif.Proofs.Down
open UscxmlVerif UscxmlVerif.Model UscxmlVerif.Model.Large UscxmlVerif.Proofs.Struct UscxmlVerif.Proofs.ExitClosed
  UscxmlVerif.Proofs.EntryClosed UscxmlVerif.Proofs.CfgInv UscxmlVerif.Proofs.Select UscxmlVerif.Proofs.SortedIns

/-! ## ancestor chains -/

/-- along the chain from `k` up through `s`: every ancestor of `k` lies below `s`, is `s`, or is an ancestor of `s` -/
theorem ancs_split (c : Chart) (hc : Coh c) : ∀ (n k : Nat), k ≤ n → ∀ s, s ∈ Large.ancs c k →
    ∀ y ∈ Large.ancs c k, s ∈ Large.ancs c y ∨ y = s ∨ y ∈ Large.ancs c s := by
  intro n
  induction n with
  | zero =>
    intro k hk s hs
    have : k = 0 := by omega
    subst this
    have e : Large.ancs c 0 = T.ancestors c c.states.size 0 := ancs_eq c 0
    rw [e, anc_root_nil c hc] at hs
    cases hs
  | succ n ih =>
    intro k hk s hs y hy
    by_cases hlt : k < c.states.size
    · by_cases h0 : k = 0
      · subst h0
        have e : Large.ancs c 0 = T.ancestors c c.states.size 0 := ancs_eq c 0
        rw [e, anc_root_nil c hc] at hs
        cases hs
      · obtain ⟨p, _, hpk, hcons⟩ := Proofs.Subtree.ancs_cons c hc k h0 hlt
        rw [ancs_eq, hcons] at hs hy
        by_cases hps : p = s
        · subst hps
          rcases List.mem_cons.mp hy with h | h
          · exact Or.inr (Or.inl h)
          · exact Or.inr (Or.inr (by rw [ancs_eq]; exact h))
        · have hs' : s ∈ Large.ancs c p := by
            rcases List.mem_cons.mp hs with h | h
            · exact absurd h.symm hps
            · rw [ancs_eq]; exact h
          rcases List.mem_cons.mp hy with h | h
          · subst h; exact Or.inl hs'
          · exact ih p (by omega) s hs' y (by rw [ancs_eq]; exact h)
    · have e : Large.ancs c k = Large.ancestors c c.states.size k := rfl
      rw [e] at hs
      cases hn : c.states.size with
      | zero => rw [hn] at hs; cases hs
      | succ m =>
        rw [hn] at hs
        unfold Large.ancestors at hs
        rw [st_oor c k hlt] at hs
        cases hs

/-- the step below `s` on the chain from `g`: a child of `s` that is `g` or one of its ancestors -/
theorem child_on_chain (c : Chart) (hc : Coh c) : ∀ (n g : Nat), g ≤ n → ∀ s, s ∈ Large.ancs c g →
    ∃ ch, (Large.st c ch).parent = some s ∧ ch < c.states.size ∧ (ch = g ∨ ch ∈ Large.ancs c g) := by
  intro n
  induction n with
  | zero =>
    intro g hg s hs
    have : g = 0 := by omega
    subst this
    have e : Large.ancs c 0 = T.ancestors c c.states.size 0 := ancs_eq c 0
    rw [e, anc_root_nil c hc] at hs
    cases hs
  | succ n ih =>
    intro g hg s hs
    by_cases hlt : g < c.states.size
    · by_cases h0 : g = 0
      · subst h0
        have e : Large.ancs c 0 = T.ancestors c c.states.size 0 := ancs_eq c 0
        rw [e, anc_root_nil c hc] at hs
        cases hs
      · obtain ⟨p, hp, hpg, hcons⟩ := Proofs.Subtree.ancs_cons c hc g h0 hlt
        rw [ancs_eq, hcons] at hs
        by_cases hps : p = s
        · subst hps
          exact ⟨g, hp, hlt, Or.inl rfl⟩
        · have hs' : s ∈ Large.ancs c p := by
            rcases List.mem_cons.mp hs with h | h
            · exact absurd h.symm hps
            · rw [ancs_eq]; exact h
          obtain ⟨ch, h1, h2, h3⟩ := ih p (by omega) s hs'
          refine ⟨ch, h1, h2, Or.inr ?_⟩
          rw [ancs_eq, hcons]
          rcases h3 with h3 | h3
          · rw [h3]; exact List.mem_cons_self
          · exact List.mem_cons_of_mem _ (by rw [← ancs_eq]; exact h3)
    · have e : Large.ancs c g = Large.ancestors c c.states.size g := rfl
      rw [e] at hs
      cases hn : c.states.size with
      | zero => rw [hn] at hs; cases hs
      | succ m =>
        rw [hn] at hs
        unfold Large.ancestors at hs
        rw [st_oor c g hlt] at hs
        cases hs

/-- a parent-closed list holds every ancestor of its members -/
theorem closed_ancs (c : Chart) (hc : Coh c) (l : List Nat) (h : Closed c l) : ∀ (n x : Nat), x ≤ n → x ∈ l →
    ∀ a ∈ Large.ancs c x, a ∈ l := by
  intro n
  induction n with
  | zero =>
    intro x hx _ a ha
    have : x = 0 := by omega
    subst this
    have e : Large.ancs c 0 = T.ancestors c c.states.size 0 := ancs_eq c 0
    rw [e, anc_root_nil c hc] at ha
    cases ha
  | succ n ih =>
    intro x hx hxl a ha
    by_cases hlt : x < c.states.size
    · by_cases h0 : x = 0
      · subst h0
        have e : Large.ancs c 0 = T.ancestors c c.states.size 0 := ancs_eq c 0
        rw [e, anc_root_nil c hc] at ha
        cases ha
      · obtain ⟨p, hp, hpx, hcons⟩ := Proofs.Subtree.ancs_cons c hc x h0 hlt
        rw [ancs_eq, hcons] at ha
        have hpl : p ∈ l := h x hxl p hp
        rcases List.mem_cons.mp ha with h1 | h1
        · rw [h1]; exact hpl
        · exact ih p (by omega) hpl a (by rw [ancs_eq]; exact h1)
    · have e : Large.ancs c x = Large.ancestors c c.states.size x := rfl
      rw [e] at ha
      cases hn : c.states.size with
      | zero => rw [hn] at ha; cases ha
      | succ m =>
        rw [hn] at ha
        unfold Large.ancestors at ha
        rw [st_oor c x hlt] at ha
        cases ha

/-! ## generic folds of sorted insertions -/

theorem foldl_cond_prefix (f : Nat → List Nat) (q : Nat → Bool) (x i : Nat) : ∀ (ks l : List Nat), Asc l → l[i]? = some x →
    (∀ k ∈ ks, q k = false → ∀ y ∈ f k, Safe x l y) →
    Asc (ks.foldl (fun en k => if q k then en else insAll (f k) en) l) ∧
    (∀ j, j ≤ i → (ks.foldl (fun en k => if q k then en else insAll (f k) en) l)[j]? = l[j]?) ∧
    (∀ y ∈ l, y ∈ ks.foldl (fun en k => if q k then en else insAll (f k) en) l)
  | [], l, ha, _, _ => ⟨ha, fun _ _ => rfl, fun _ h => h⟩
  | k :: ks, l, ha, hx, hs => by
    rw [List.foldl_cons]
    cases hq : q k with
    | true =>
      simp only [if_true]
      exact foldl_cond_prefix f q x i ks l ha hx (fun k' hk' => hs k' (List.mem_cons_of_mem _ hk'))
    | false =>
      simp only [Bool.false_eq_true, if_false]
      have hsk := hs k List.mem_cons_self hq
      have hp := insAll_safe_prefix (f k) l i x ha hx hsk
      have ha' := asc_insAll (f k) l ha
      have hx' : (insAll (f k) l)[i]? = some x := by rw [hp i (Nat.le_refl _)]; exact hx
      have hsub : ∀ y ∈ l, y ∈ insAll (f k) l := fun y hy => (mem_insAll _ _ y).mpr (Or.inr hy)
      have hs' : ∀ k' ∈ ks, q k' = false → ∀ y ∈ f k', Safe x (insAll (f k) l) y := by
        intro k' hk' hq' y hy
        rcases hs k' (List.mem_cons_of_mem _ hk') hq' y hy with h | h
        · exact Or.inl (hsub y h)
        · exact Or.inr h
      obtain ⟨r1, r2, r3⟩ := foldl_cond_prefix f q x i ks _ ha' hx' hs'
      exact ⟨r1, fun j hj => by rw [r2 j hj]; exact hp j hj, fun y hy => r3 y (hsub y hy)⟩

theorem foldl_targets_prefix (c : Chart) (x i : Nat) : ∀ (gs l : List Nat), Asc l → l[i]? = some x →
    (∀ g ∈ gs, Safe x l g ∧ ∀ y ∈ Large.ancs c g, Safe x l y) →
    Asc (gs.foldl (fun en g => insAll (Large.ancs c g) (ins g en)) l) ∧
    (∀ j, j ≤ i → (gs.foldl (fun en g => insAll (Large.ancs c g) (ins g en)) l)[j]? = l[j]?) ∧
    (∀ y ∈ l, y ∈ gs.foldl (fun en g => insAll (Large.ancs c g) (ins g en)) l)
  | [], l, ha, _, _ => ⟨ha, fun _ _ => rfl, fun _ h => h⟩
  | g :: gs, l, ha, hx, hs => by
    rw [List.foldl_cons]
    obtain ⟨hg, hga⟩ := hs g List.mem_cons_self
    have hp1 := ins_safe_prefix l i x g ha hx hg
    have ha1 := asc_ins g l ha
    have hx1 : (ins g l)[i]? = some x := by rw [hp1 i (Nat.le_refl _)]; exact hx
    have hsub1 : ∀ y ∈ l, y ∈ ins g l := fun y hy => (mem_ins g l y).mpr (Or.inr hy)
    have hga1 : ∀ y ∈ Large.ancs c g, Safe x (ins g l) y := by
      intro y hy
      rcases hga y hy with h | h
      · exact Or.inl (hsub1 y h)
      · exact Or.inr h
    have hp2 := insAll_safe_prefix (Large.ancs c g) (ins g l) i x ha1 hx1 hga1
    have ha2 := asc_insAll (Large.ancs c g) (ins g l) ha1
    have hx2 : (insAll (Large.ancs c g) (ins g l))[i]? = some x := by rw [hp2 i (Nat.le_refl _)]; exact hx1
    have hsub2 : ∀ y ∈ l, y ∈ insAll (Large.ancs c g) (ins g l) := fun y hy => (mem_insAll _ _ y).mpr (Or.inr (hsub1 y hy))
    have hs' : ∀ g' ∈ gs, Safe x (insAll (Large.ancs c g) (ins g l)) g' ∧ ∀ y ∈ Large.ancs c g', Safe x (insAll (Large.ancs c g) (ins g l)) y := by
      intro g' hg'
      obtain ⟨h1, h2⟩ := hs g' (List.mem_cons_of_mem _ hg')
      refine ⟨?_, ?_⟩
      · rcases h1 with h | h
        · exact Or.inl (hsub2 g' h)
        · exact Or.inr h
      · intro y hy
        rcases h2 y hy with h | h
        · exact Or.inl (hsub2 y h)
        · exact Or.inr h
    obtain ⟨r1, r2, r3⟩ := foldl_targets_prefix c x i gs _ ha2 hx2 hs'
    exact ⟨r1, fun j hj => by rw [r2 j hj, hp2 j hj]; exact hp1 j hj, fun y hy => r3 y (hsub2 y hy)⟩

/-- everything a fold of target insertions adds: the targets and their ancestors -/
theorem mem_foldl_targets (c : Chart) : ∀ (gs l : List Nat) (g : Nat), g ∈ gs →
    g ∈ gs.foldl (fun en g => insAll (Large.ancs c g) (ins g en)) l ∧
    ∀ a ∈ Large.ancs c g, a ∈ gs.foldl (fun en g => insAll (Large.ancs c g) (ins g en)) l
  | g0 :: gs, l, g, hg => by
    rw [List.foldl_cons]
    have hmono : ∀ (gs' l' : List Nat) (y : Nat), y ∈ l' → y ∈ gs'.foldl (fun en g => insAll (Large.ancs c g) (ins g en)) l' := by
      intro gs'
      induction gs' with
      | nil => intro l' y hy; exact hy
      | cons a as ih =>
        intro l' y hy
        rw [List.foldl_cons]
        exact ih _ y ((mem_insAll _ _ y).mpr (Or.inr ((mem_ins a l' y).mpr (Or.inr hy))))
    rcases List.mem_cons.mp hg with h | h
    · subst h
      refine ⟨hmono gs _ g ((mem_insAll _ _ g).mpr (Or.inr ((mem_ins g l g).mpr (Or.inl rfl)))), ?_⟩
      intro a ha
      exact hmono gs _ a ((mem_insAll _ _ a).mpr (Or.inl ha))
    · exact mem_foldl_targets c gs _ g h

/-! ## what the completion half relies on (decidable below) -/

structure DOK (c : Chart) : Prop where
  complGt : ∀ s, ∀ k ∈ (Large.st c s).completion, s < k ∧ s ∈ Large.ancs c k
  initT : ∀ s, (Large.st c s).typ = .initial → ∀ ti ∈ (Large.st c s).trans, ∀ g ∈ (Large.tr c ti).targets,
    s < g ∧ (Large.st c g).typ.isPseudo = false ∧ ∀ p, (Large.st c s).parent = some p → p ∈ Large.ancs c g
  initFirst : ∀ s p, (Large.st c s).typ = .initial → (Large.st c s).parent = some p → ∀ y, p ∈ Large.ancs c y → y ≠ s → s < y
  initHas : ∀ s, (Large.st c s).typ = .initial → ∃ ti ∈ (Large.st c s).trans, ∃ g, g ∈ (Large.tr c ti).targets
  childrenAll : ∀ ch s, ch < c.states.size → (Large.st c ch).parent = some s → ch ∈ (Large.st c s).children
  parAll : ∀ s, (Large.st c s).typ = .parallel → ∀ ch ∈ (Large.st c s).children, (Large.st c ch).typ.isPseudo = false →
    ch ∈ (Large.st c s).completion
  compNonempty : ∀ s, (Large.st c s).typ = .compound → (Large.st c s).completion ≠ []
  parProper : ∀ s, (Large.st c s).typ = .parallel → ∀ k ∈ (Large.st c s).completion, (Large.st c k).typ.isPseudo = false
  rootComplAsc : Asc (Large.st c 0).completion
  parKind : ∀ s, (Large.st c s).typ = .parallel → (Large.st c s).kind = .parallel
  rootCompound : (Large.st c 0).typ = .compound

/-- what a visit establishes for the visited state, relative to the entry set `E` -/
def Post (c : Chart) (e : EState) (exitS : List Nat) (E : List Nat) (s : Nat) : Prop :=
  ((Large.st c s).typ = .parallel → ∀ k ∈ (Large.st c s).completion, k ∈ E) ∧
  ((Large.st c s).typ = .compound → ∃ ch ∈ (Large.st c s).children, ch ∈ E ∨ (ch ∉ exitS ∧ ch ∈ e.config)) ∧
  ((Large.st c s).typ = .initial → ∀ ti ∈ (Large.st c s).trans, ∀ g ∈ (Large.tr c ti).targets,
    g ∈ E ∧ ∀ a ∈ Large.ancs c g, a ∈ E)

theorem post_mono (c : Chart) (e : EState) (exitS : List Nat) (E E' : List Nat) (h : ∀ y ∈ E, y ∈ E') (s : Nat)
    (hp : Post c e exitS E s) : Post c e exitS E' s := by
  refine ⟨fun ht k hk => h k (hp.1 ht k hk), fun ht => ?_, fun ht ti hti g hg => ?_⟩
  · obtain ⟨ch, hch, hor⟩ := hp.2.1 ht
    refine ⟨ch, hch, ?_⟩
    rcases hor with h1 | h1
    · exact Or.inl (h ch h1)
    · exact Or.inr h1
  · obtain ⟨h1, h2⟩ := hp.2.2 ht ti hti g hg
    exact ⟨h g h1, fun a ha => h a (h2 a ha)⟩

/-- one visit: the list stays ascending, the prefix up to the visited index does not move, nothing is lost, and the visited
state is served -/
theorem descVisit_step (c : Chart) (hc : Coh c) (hk : EOK c) (hd : DOK c) (e : EState) (exitS : List Nat) (s i : Nat)
    (entry ts : List Nat) (hs : entry[i]? = some s) (hinv : Inv c entry) (hasc : Asc entry) :
    Asc (descVisit c e exitS s entry ts).1 ∧
    (∀ j, j ≤ i → (descVisit c e exitS s entry ts).1[j]? = entry[j]?) ∧
    (∀ y ∈ entry, y ∈ (descVisit c e exitS s entry ts).1) ∧
    Post c e exitS (descVisit c e exitS s entry ts).1 s := by
  have hsm : s ∈ entry := List.mem_of_getElem? hs
  have hanc : ∀ a ∈ Large.ancs c s, a ∈ entry := closed_ancs c hc entry hinv.1 s s (Nat.le_refl _) hsm
  unfold descVisit
  simp only
  split
  · -- final
    rename_i ht
    exact ⟨hasc, fun _ _ => rfl, fun _ h => h, by unfold Post; rw [ht]; simp⟩
  · rename_i ht
    exact ⟨hasc, fun _ _ => rfl, fun _ h => h, by unfold Post; rw [ht]; simp⟩
  · -- parallel
    rename_i ht
    have hsafe : ∀ y ∈ (Large.st c s).completion, Safe s entry y := fun y hy => Or.inr (hd.complGt s y hy).1
    refine ⟨asc_insAll _ _ hasc, insAll_safe_prefix _ entry i s hasc hs hsafe, fun y hy => (mem_insAll _ _ y).mpr (Or.inr hy), ?_⟩
    unfold Post
    rw [ht]
    exact ⟨fun _ k hk' => (mem_insAll _ _ k).mpr (Or.inl hk'), (fun h => by cases h), (fun h => by cases h)⟩
  · rename_i ht
    have := hk.noHist s
    rw [ht] at this; cases this
  · rename_i ht
    have := hk.noHist s
    rw [ht] at this; cases this
  · -- initial
    rename_i ht
    have hgs : ∀ ti ∈ (Large.st c s).trans, ∀ g ∈ (Large.tr c ti).targets, ∀ l, (∀ y ∈ entry, y ∈ l) →
        Safe s l g ∧ ∀ y ∈ Large.ancs c g, Safe s l y := by
      intro ti hti g hg l hl
      obtain ⟨hsg, _, hpg⟩ := hd.initT s ht ti hti g hg
      refine ⟨Or.inr hsg, ?_⟩
      intro y hy
      -- the parent of the initial element
      cases hp : (Large.st c s).parent with
      | none =>
        -- an element without parent: only the root; then `s` has no ancestors and `g`'s ancestors are handled by order
        by_cases hys : y = s
        · exact Or.inl (hl y (by rw [hys]; exact hsm))
        · -- y is an ancestor of g; without a parent of s nothing ties them: fall back on order via the chain
          have hylt : y < g := by
            by_cases hglt : g < c.states.size
            · exact ancs_lt c hc g g (Nat.le_refl _) hglt y hy
            · have e0 : Large.ancs c g = Large.ancestors c c.states.size g := rfl
              rw [e0] at hy
              cases hn : c.states.size with
              | zero => rw [hn] at hy; cases hy
              | succ m =>
                rw [hn] at hy
                unfold Large.ancestors at hy
                rw [st_oor c g hglt] at hy
                cases hy
          -- s is pseudo, so in range and not the root: it has a parent in a coherent chart
          have hslt : s < c.states.size := hinv.2 s hsm
          have hs0 : s ≠ 0 := by
            intro h0
            have : Large.st c 0 = T.st c 0 := rfl
            have hk0 := hk.pseudo 0 (by rw [← h0, ht]; rfl)
            rw [this, hc.rootKind] at hk0
            cases hk0
          obtain ⟨p', hp', _, _⟩ := hc.parent s hs0 hslt
          have e1 : Large.st c s = T.st c s := rfl
          rw [e1, hp'] at hp
          cases hp
      | some p =>
        have hpg' := hpg p hp
        have hpe : p ∈ entry := hinv.1 s hsm p hp
        rcases ancs_split c hc g g (Nat.le_refl _) p hpg' y hy with h1 | h1 | h1
        · by_cases hys : y = s
          · exact Or.inl (hl y (by rw [hys]; exact hsm))
          · exact Or.inr (hd.initFirst s p ht hp y h1 hys)
        · exact Or.inl (hl y (by rw [h1]; exact hpe))
        · exact Or.inl (hl y (closed_ancs c hc entry hinv.1 p p (Nat.le_refl _) hpe y h1))
    -- the fold over the transitions of the initial element
    have key : ∀ (tis : List Nat), (∀ ti ∈ tis, ti ∈ (Large.st c s).trans) → ∀ (acc : List Nat × List Nat),
        Asc acc.1 → acc.1[i]? = some s → (∀ y ∈ entry, y ∈ acc.1) →
        let r := tis.foldl (fun (acc : List Nat × List Nat) ti =>
          ((Large.tr c ti).targets.foldl (fun en g => insAll (Large.ancs c g) (ins g en)) acc.1, ins ti acc.2)) acc
        Asc r.1 ∧ (∀ j, j ≤ i → r.1[j]? = acc.1[j]?) ∧ (∀ y ∈ acc.1, y ∈ r.1) ∧
          (∀ ti ∈ tis, ∀ g ∈ (Large.tr c ti).targets, g ∈ r.1 ∧ ∀ a ∈ Large.ancs c g, a ∈ r.1) := by
      intro tis
      induction tis with
      | nil => intro _ acc ha _ _; exact ⟨ha, fun _ _ => rfl, fun _ h => h, fun ti hti => by cases hti⟩
      | cons ti tis ih =>
        intro hmem acc ha hx hsup
        simp only [List.foldl_cons]
        have hti := hmem ti List.mem_cons_self
        obtain ⟨a1, a2, a3⟩ := foldl_targets_prefix c s i (Large.tr c ti).targets acc.1 ha hx
          (fun g hg => hgs ti hti g hg acc.1 hsup)
        have hx1 : ((Large.tr c ti).targets.foldl (fun en g => insAll (Large.ancs c g) (ins g en)) acc.1)[i]? = some s := by
          rw [a2 i (Nat.le_refl _)]; exact hx
        obtain ⟨b1, b2, b3, b4⟩ := ih (fun t ht' => hmem t (List.mem_cons_of_mem _ ht'))
          ((Large.tr c ti).targets.foldl (fun en g => insAll (Large.ancs c g) (ins g en)) acc.1, ins ti acc.2) a1 hx1
          (fun y hy => a3 y (hsup y hy))
        refine ⟨b1, fun j hj => by rw [b2 j hj]; exact a2 j hj, fun y hy => b3 y (a3 y hy), ?_⟩
        intro t ht' g hg
        rcases List.mem_cons.mp ht' with h | h
        · subst h
          obtain ⟨m1, m2⟩ := mem_foldl_targets c (Large.tr c t).targets acc.1 g hg
          exact ⟨b3 g m1, fun a ha' => b3 a (m2 a ha')⟩
        · exact b4 t h g hg
    obtain ⟨r1, r2, r3, r4⟩ := key (Large.st c s).trans (fun _ h => h) (entry, ts) hasc hs (fun _ h => h)
    refine ⟨r1, r2, r3, ?_⟩
    unfold Post
    rw [ht]
    exact ⟨(fun h => by cases h), (fun h => by cases h), fun _ => r4⟩
  · -- compound
    rename_i ht
    split
    · rename_i hany
      refine ⟨hasc, fun _ _ => rfl, fun _ h => h, ?_⟩
      unfold Post
      rw [ht]
      refine ⟨(fun h => by cases h), fun _ => ?_, (fun h => by cases h)⟩
      rw [List.any_eq_true] at hany
      obtain ⟨ch, hch, hcond⟩ := hany
      refine ⟨ch, hch, ?_⟩
      simp only [Bool.or_eq_true, Bool.and_eq_true, Bool.not_eq_eq_eq_not, Bool.not_true, mem] at hcond
      rcases hcond with h1 | ⟨h1, h2⟩
      · exact Or.inl (List.contains_iff_mem.mp h1)
      · refine Or.inr ⟨?_, List.contains_iff_mem.mp h2⟩
        intro hx
        have := List.contains_iff_mem.mpr hx
        rw [this] at h1; cases h1
    · -- the default completion is added
      have hsafe1 : ∀ y ∈ (Large.st c s).completion, Safe s entry y := fun y hy => Or.inr (hd.complGt s y hy).1
      have p1 := insAll_safe_prefix (Large.st c s).completion entry i s hasc hs hsafe1
      have a1 := asc_insAll (Large.st c s).completion entry hasc
      have x1 : (insAll (Large.st c s).completion entry)[i]? = some s := by rw [p1 i (Nat.le_refl _)]; exact hs
      have sub1 : ∀ y ∈ entry, y ∈ insAll (Large.st c s).completion entry := fun y hy => (mem_insAll _ _ y).mpr (Or.inr hy)
      have hsafe2 : ∀ k ∈ (Large.st c s).completion, (Large.st c s).children.contains k = false →
          ∀ y ∈ Large.ancs c k, Safe s (insAll (Large.st c s).completion entry) y := by
        intro k hkc _ y hy
        rcases ancs_split c hc k k (Nat.le_refl _) s (hd.complGt s k hkc).2 y hy with h1 | h1 | h1
        · by_cases hylt : y < c.states.size
          · exact Or.inr (ancs_lt c hc y y (Nat.le_refl _) hylt s h1)
          · exfalso
            have e0 : Large.ancs c y = Large.ancestors c c.states.size y := rfl
            rw [e0] at h1
            cases hn : c.states.size with
            | zero => rw [hn] at h1; cases h1
            | succ m =>
              rw [hn] at h1
              unfold Large.ancestors at h1
              rw [st_oor c y hylt] at h1
              cases h1
        · exact Or.inl (sub1 y (by rw [h1]; exact hsm))
        · exact Or.inl (sub1 y (hanc y h1))
      obtain ⟨r1, r2, r3⟩ := foldl_cond_prefix (fun k => Large.ancs c k) (fun k => (Large.st c s).children.contains k) s i
        (Large.st c s).completion (insAll (Large.st c s).completion entry) a1 x1 hsafe2
      refine ⟨r1, fun j hj => by rw [r2 j hj]; exact p1 j hj, fun y hy => r3 y (sub1 y hy), ?_⟩
      unfold Post
      rw [ht]
      refine ⟨(fun h => by cases h), fun _ => ?_, (fun h => by cases h)⟩
      -- some member of the completion, or the step below `s` on the way to it
      have hne := hd.compNonempty s ht
      cases hcm : (Large.st c s).completion with
      | nil => exact absurd hcm hne
      | cons k rest =>
        have hkc : k ∈ (Large.st c s).completion := by rw [hcm]; exact List.mem_cons_self
        have hkE : k ∈ insAll (Large.st c s).completion entry := (mem_insAll _ _ k).mpr (Or.inl hkc)
        cases hq : (Large.st c s).children.contains k with
        | true =>
          exact ⟨k, List.contains_iff_mem.mp hq, Or.inl (by rw [← hcm]; exact r3 k hkE)⟩
        | false =>
          obtain ⟨ch, hpar, hchlt, hor⟩ := child_on_chain c hc k k (Nat.le_refl _) s (hd.complGt s k hkc).2
          refine ⟨ch, hd.childrenAll ch s hchlt hpar, Or.inl ?_⟩
          rw [← hcm]
          rcases hor with h1 | h1
          · rw [h1]; exact r3 k hkE
          · exact (mem_foldl_cond _ _ _ _ ch).mpr (Or.inr ⟨k, hkc, hq, h1⟩)

/-! ## the loop visits every member -/

theorem asc_length_le (n : Nat) : ∀ (l : List Nat) (m : Nat), m ≤ n → Asc l → (∀ x ∈ l, m ≤ x ∧ x < n) → l.length + m ≤ n
  | [], m, hm, _, _ => by simpa using hm
  | a :: l, m, _, ha, hb => by
    unfold Asc at ha
    rw [List.pairwise_cons] at ha
    obtain ⟨h1, h2⟩ := hb a List.mem_cons_self
    have := asc_length_le n l (a + 1) (by omega) ha.2 (fun x hx => ⟨by have := ha.1 x hx; omega, (hb x (List.mem_cons_of_mem _ hx)).2⟩)
    simp only [List.length_cons]
    omega

theorem descLoop_post (c : Chart) (hc : Coh c) (hk : EOK c) (hd : DOK c) (e : EState) (exitS : List Nat) :
    ∀ (fuel i : Nat) (entry ts : List Nat), Inv c entry → Asc entry → c.states.size + 1 ≤ fuel + i →
      (∀ j, j < i → ∀ y, entry[j]? = some y → Post c e exitS entry y) →
      Inv c (descLoop c e exitS fuel i entry ts).1 ∧ Asc (descLoop c e exitS fuel i entry ts).1 ∧
      (∀ y ∈ entry, y ∈ (descLoop c e exitS fuel i entry ts).1) ∧
      ∀ y ∈ (descLoop c e exitS fuel i entry ts).1, Post c e exitS (descLoop c e exitS fuel i entry ts).1 y := by
  intro fuel
  induction fuel with
  | zero =>
    intro i entry ts hinv hasc hf hvis
    unfold descLoop
    refine ⟨hinv, hasc, fun _ h => h, ?_⟩
    intro y hy
    have hy' : y ∈ entry := hy
    obtain ⟨j, hj, hjy⟩ := List.mem_iff_getElem.mp hy'
    have hlen := asc_length_le c.states.size entry 0 (Nat.zero_le _) hasc (fun x hx => ⟨Nat.zero_le _, hinv.2 x hx⟩)
    exact hvis j (by omega) y (by rw [List.getElem?_eq_getElem hj, hjy])
  | succ f ih =>
    intro i entry ts hinv hasc hf hvis
    unfold descLoop
    split
    · rename_i hnone
      refine ⟨hinv, hasc, fun _ h => h, ?_⟩
      intro y hy
      have hy' : y ∈ entry := hy
      obtain ⟨j, hj, hjy⟩ := List.mem_iff_getElem.mp hy'
      have hi : entry.length ≤ i := List.getElem?_eq_none_iff.mp hnone
      exact hvis j (by omega) y (by rw [List.getElem?_eq_getElem hj, hjy])
    · rename_i s hs
      obtain ⟨a1, a2, a3, a4⟩ := descVisit_step c hc hk hd e exitS s i entry ts hs hinv hasc
      have hinv' := descVisit_inv c hc hk e exitS s entry ts (List.mem_of_getElem? hs) hinv
      have hvis' : ∀ j, j < i + 1 → ∀ y, (descVisit c e exitS s entry ts).1[j]? = some y →
          Post c e exitS (descVisit c e exitS s entry ts).1 y := by
        intro j hj y hy
        rw [a2 j (by omega)] at hy
        by_cases hji : j < i
        · exact post_mono c e exitS entry _ a3 y (hvis j hji y hy)
        · have : j = i := by omega
          subst this
          rw [hs] at hy
          simp only [Option.some.injEq] at hy
          subst hy
          exact a4
      obtain ⟨r1, r2, r3, r4⟩ := ih (i + 1) _ (descVisit c e exitS s entry ts).2 hinv' a1 (by omega) hvis'
      exact ⟨r1, r2, fun y hy => r3 y (a3 y hy), r4⟩

/-! ## the configuration after a micro-step is complete downwards -/

/-- the entry set of a micro-step, as the engine computes it -/
def entryOf (c : Chart) (e : EState) (t xs ts : List Nat) : List Nat :=
  (descLoop c e xs (2 * c.states.size + 2) 0 (t.foldl (fun en g => insAll (Large.ancs c g) en) t) ts).1

theorem microstep_config_entry (c : Chart) (e : EState) (t xs ts : List Nat) (o : List (Nat × Nat)) (x : Nat) :
    x ∈ (Large.microstep c e t xs ts o).config ↔
      (x ∈ e.config ∧ x ∉ xs) ∨ (x ∈ entryOf c e t xs ts ∧ (st c x).typ.isPseudo = false) := by
  unfold Large.microstep entryOf
  simp only
  split
  all_goals (
    simp only [enterFold_config, transFold_config, exitFold_config, List.mem_reverse, List.mem_filter, mem,
      Bool.not_eq_eq_eq_not, Bool.not_true]
    constructor
    · rintro (h | ⟨⟨h1, _⟩, h2⟩)
      · exact Or.inl h
      · exact Or.inr ⟨h1, h2⟩
    · rintro (h | ⟨h1, h2⟩)
      · exact Or.inl h
      · by_cases hx : x ∈ e.config ∧ x ∉ xs
        · exact Or.inl hx
        · refine Or.inr ⟨⟨h1, ?_⟩, h2⟩
          cases hcn : List.contains _ x with
          | false => rfl
          | true =>
            exfalso
            apply hx
            have hm := List.contains_iff_mem.mp hcn
            have h' := (exitFold_config c xs.reverse e x).mp hm
            exact ⟨h'.1, fun h => h'.2 (List.mem_reverse.mpr h)⟩)

theorem asc_foldl_ancs (c : Chart) : ∀ (gs l : List Nat), Asc l → Asc (gs.foldl (fun en g => insAll (Large.ancs c g) en) l)
  | [], l, h => h
  | g :: gs, l, h => by
    rw [List.foldl_cons]
    exact asc_foldl_ancs c gs _ (asc_insAll _ _ h)

/-- the entry set: parent-closed, inside the chart, holding the targets with their ancestors, every member served -/
theorem entryOf_facts (c : Chart) (hc : Coh c) (hk : EOK c) (hd : DOK c) (e : EState) (t xs ts : List Nat)
    (ht : ∀ g ∈ t, g < c.states.size) (hta : Asc t) :
    Inv c (entryOf c e t xs ts) ∧ (∀ g ∈ t, g ∈ entryOf c e t xs ts ∧ ∀ a ∈ Large.ancs c g, a ∈ entryOf c e t xs ts) ∧
    ∀ y ∈ entryOf c e t xs ts, Post c e xs (entryOf c e t xs ts) y := by
  have h0 := entry0_inv c hc t ht
  have ha0 := asc_foldl_ancs c t t hta
  obtain ⟨r1, _, r3, r4⟩ := descLoop_post c hc hk hd e xs (2 * c.states.size + 2) 0 _ ts h0 ha0 (by omega)
    (fun j hj => by omega)
  refine ⟨r1, ?_, r4⟩
  intro g hg
  have hmem := mem_foldl_insAll (fun g => Large.ancs c g) t t
  exact ⟨r3 g ((hmem g).mpr (Or.inl hg)), fun a ha => r3 a ((hmem a).mpr (Or.inr ⟨g, hg, ha⟩))⟩

/-- ancestors are never pseudo-states -/
theorem ancs_not_pseudo (c : Chart) (hc : Coh c) (hk : EOK c) : ∀ (n g : Nat), g ≤ n → ∀ a ∈ Large.ancs c g,
    (Large.st c a).typ.isPseudo = false := by
  intro n
  induction n with
  | zero =>
    intro g hg a ha
    have : g = 0 := by omega
    subst this
    have e : Large.ancs c 0 = T.ancestors c c.states.size 0 := ancs_eq c 0
    rw [e, anc_root_nil c hc] at ha
    cases ha
  | succ n ih =>
    intro g hg a ha
    by_cases hlt : g < c.states.size
    · by_cases h0 : g = 0
      · subst h0
        have e : Large.ancs c 0 = T.ancestors c c.states.size 0 := ancs_eq c 0
        rw [e, anc_root_nil c hc] at ha
        cases ha
      · obtain ⟨p, hp, hpg, hcons⟩ := Proofs.Subtree.ancs_cons c hc g h0 hlt
        rw [ancs_eq, hcons] at ha
        rcases List.mem_cons.mp ha with h | h
        · subst h
          have e1 : Large.st c g = T.st c g := rfl
          exact Proofs.ParentsFast.parent_not_pseudo c hc hk g a hlt (by rw [e1]; exact hp)
        · exact ih p (by omega) a (by rw [ancs_eq]; exact h)
    · have e : Large.ancs c g = Large.ancestors c c.states.size g := rfl
      rw [e] at ha
      cases hn : c.states.size with
      | zero => rw [hn] at ha; cases ha
      | succ m =>
        rw [hn] at ha
        unfold Large.ancestors at ha
        rw [st_oor c g hlt] at ha
        cases ha

/-- every active parallel state has all its children active, every active compound state an active child -/
def DownClosed (c : Chart) (cfg : List Nat) : Prop :=
  ∀ s ∈ cfg,
    ((Large.st c s).typ = .parallel → ∀ k ∈ (Large.st c s).completion, k ∈ cfg) ∧
    ((Large.st c s).typ = .compound → ∃ ch ∈ (Large.st c s).children, (Large.st c ch).typ.isPseudo = false ∧ ch ∈ cfg)

/-- what exiting must respect: a state that stays although a child of it is exited is a compound state above a target -/
def ExitRespects (c : Chart) (cfg t xs : List Nat) : Prop :=
  ∀ ch ∈ xs, ∀ s, (Large.st c ch).parent = some s → s ∈ cfg → s ∉ xs →
    (Large.st c s).typ ≠ .parallel ∧ ∃ g ∈ t, s ∈ Large.ancs c g

/-- **entering completes**: after a micro-step every active parallel state has all its children active and every active compound
state has an active child - provided this held before, the configuration was parent-closed and made of real states, and the
exit set respects the structure (`ExitRespects`, which selection guarantees) -/
theorem large_microstep_down (c : Chart) (hc : Coh c) (hk : EOK c) (hd : DOK c) (e : EState) (t xs ts : List Nat)
    (o : List (Nat × Nat)) (ht : ∀ g ∈ t, g < c.states.size) (hta : Asc t)
    (hok : EOk c e) (hdown : DownClosed c e.config) (hx : ExitRespects c e.config t xs) :
    DownClosed c (Large.microstep c e t xs ts o).config := by
  obtain ⟨hinv, htg, hpost⟩ := entryOf_facts c hc hk hd e t xs ts ht hta
  have hmem := microstep_config_entry c e t xs ts o
  intro s hs
  rw [hmem] at hs
  by_cases hsE : s ∈ entryOf c e t xs ts
  · -- served by the entry loop
    have hp := hpost s hsE
    refine ⟨fun htp k hkc => ?_, fun htc => ?_⟩
    · rw [hmem]
      exact Or.inr ⟨hp.1 htp k hkc, hd.parProper s htp k hkc⟩
    · obtain ⟨ch, hch, hor⟩ := hp.2.1 htc
      rcases hor with h1 | ⟨h1, h2⟩
      · cases hps : (Large.st c ch).typ.isPseudo with
        | false => exact ⟨ch, hch, hps, by rw [hmem]; exact Or.inr ⟨h1, hps⟩⟩
        | true =>
          -- an <initial> element: its transition's target, or the step towards it, is the child
          have hti : (Large.st c ch).typ = .initial := by
            have hnh := hk.noHist ch
            have key : ∀ ty : Typ, ty.isPseudo = true → ty.isHistory = false → ty = .initial := by
              intro ty; cases ty <;> simp [Typ.isPseudo, Typ.isHistory]
            exact key _ hps hnh
          obtain ⟨ti, htim, g, hg⟩ := hd.initHas ch hti
          obtain ⟨hgE, haE⟩ := (hpost ch h1).2.2 hti ti htim g hg
          obtain ⟨_, hgp, hpar⟩ := hd.initT ch hti ti htim g hg
          have hsg : s ∈ Large.ancs c g := hpar s (hk.children s ch hch)
          obtain ⟨ch', hp', hlt', hor'⟩ := child_on_chain c hc g g (Nat.le_refl _) s hsg
          have hch'E : ch' ∈ entryOf c e t xs ts := by
            rcases hor' with h | h
            · rw [h]; exact hgE
            · exact haE ch' h
          have hch'p : (Large.st c ch').typ.isPseudo = false := by
            rcases hor' with h | h
            · rw [h]; exact hgp
            · exact ancs_not_pseudo c hc hk g g (Nat.le_refl _) ch' h
          exact ⟨ch', hd.childrenAll ch' s hlt' hp', hch'p, by rw [hmem]; exact Or.inr ⟨hch'E, hch'p⟩⟩
      · exact ⟨ch, hch, hok.2 ch h2, by rw [hmem]; exact Or.inl ⟨h2, h1⟩⟩
  · -- not in the entry set: it was active and stays
    have hsc : s ∈ e.config ∧ s ∉ xs := by
      rcases hs with h | ⟨h, _⟩
      · exact h
      · exact absurd h hsE
    obtain ⟨hdp, hdc⟩ := hdown s hsc.1
    refine ⟨fun htp k hkc => ?_, fun htc => ?_⟩
    · rw [hmem]
      by_cases hkx : k ∈ xs
      · exact absurd htp (hx k hkx s (hk.parCompl s htp k hkc) hsc.1 hsc.2).1
      · exact Or.inl ⟨hdp htp k hkc, hkx⟩
    · obtain ⟨ch, hch, hps, hcc⟩ := hdc htc
      by_cases hcx : ch ∈ xs
      · exfalso
        obtain ⟨_, g, hg, hsg⟩ := hx ch hcx s (hk.children s ch hch) hsc.1 hsc.2
        exact hsE ((htg g hg).2 s hsg)
      · exact ⟨ch, hch, hps, by rw [hmem]; exact Or.inl ⟨hcc, hcx⟩⟩

end UscxmlVerif.Proofs.Down
