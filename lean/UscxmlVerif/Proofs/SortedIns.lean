import UscxmlVerif.Proofs.Select
/-!
# Sorted insertion leaves the visited prefix alone

`ins` inserts into a strictly ascending list. While the entry loops of the engines walk such a list by
index, everything they insert is either present already or greater than the element being visited - so
the elements up to the current index stay where they are.
-/
namespace UscxmlVerif.Proofs.SortedIns
open UscxmlVerif UscxmlVerif.Model UscxmlVerif.Model.Large UscxmlVerif.Proofs.CfgInv UscxmlVerif.Proofs.Select

theorem ins_of_mem : ∀ (l : List Nat) (y : Nat), Asc l → y ∈ l → ins y l = l
  | [], y, _, h => by cases h
  | b :: bs, y, ha, h => by
    unfold Asc at ha
    rw [List.pairwise_cons] at ha
    unfold ins
    rcases List.mem_cons.mp h with h | h
    · subst h
      simp
    · have hb := ha.1 y h
      have h1 : ¬ y < b := by omega
      have h2 : (y == b) = false := by simp; omega
      rw [if_neg h1, h2]
      simp only [Bool.false_eq_true, if_false]
      rw [ins_of_mem bs y ha.2 h]

theorem ins_prefix : ∀ (l : List Nat) (i x y : Nat), Asc l → l[i]? = some x → x < y → ∀ j, j ≤ i → (ins y l)[j]? = l[j]?
  | [], i, x, y, _, hx, _, _, _ => by simp at hx
  | b :: bs, i, x, y, ha, hx, hxy, j, hj => by
    unfold Asc at ha
    rw [List.pairwise_cons] at ha
    have hbx : b ≤ x := by
      cases i with
      | zero => simp at hx; omega
      | succ i' =>
        simp only [List.getElem?_cons_succ] at hx
        have := ha.1 x (List.mem_of_getElem? hx)
        omega
    have h1 : ¬ y < b := by omega
    have h2 : (y == b) = false := by simp; omega
    unfold ins
    rw [if_neg h1, h2]
    simp only [Bool.false_eq_true, if_false]
    cases j with
    | zero => simp
    | succ j' =>
      cases i with
      | zero => omega
      | succ i' =>
        simp only [List.getElem?_cons_succ] at hx ⊢
        exact ins_prefix bs i' x y ha.2 hx hxy j' (by omega)

/-- what may be inserted while `x` is being visited -/
def Safe (x : Nat) (l : List Nat) (y : Nat) : Prop := y ∈ l ∨ x < y

theorem ins_safe_prefix (l : List Nat) (i x y : Nat) (ha : Asc l) (hx : l[i]? = some x) (hy : Safe x l y) :
    ∀ j, j ≤ i → (ins y l)[j]? = l[j]? := by
  rcases hy with hy | hy
  · intro j _; rw [ins_of_mem l y ha hy]
  · exact ins_prefix l i x y ha hx hy

theorem asc_insAll : ∀ (ys l : List Nat), Asc l → Asc (insAll ys l)
  | [], l, h => h
  | y :: ys, l, h => by
    have : insAll (y :: ys) l = insAll ys (ins y l) := rfl
    rw [this]
    exact asc_insAll ys _ (asc_ins y l h)

theorem insAll_safe_prefix : ∀ (ys l : List Nat) (i x : Nat), Asc l → l[i]? = some x → (∀ y ∈ ys, Safe x l y) →
    ∀ j, j ≤ i → (insAll ys l)[j]? = l[j]?
  | [], l, i, x, _, _, _, j, _ => rfl
  | y :: ys, l, i, x, ha, hx, hs, j, hj => by
    have e : insAll (y :: ys) l = insAll ys (ins y l) := rfl
    rw [e]
    have hp := ins_safe_prefix l i x y ha hx (hs y List.mem_cons_self)
    have hx' : (ins y l)[i]? = some x := by rw [hp i (Nat.le_refl _)]; exact hx
    have hs' : ∀ y' ∈ ys, Safe x (ins y l) y' := by
      intro y' hy'
      rcases hs y' (List.mem_cons_of_mem _ hy') with h | h
      · exact Or.inl ((mem_ins y l y').mpr (Or.inr h))
      · exact Or.inr h
    rw [insAll_safe_prefix ys (ins y l) i x (asc_ins y l ha) hx' hs' j hj]
    exact hp j hj

end UscxmlVerif.Proofs.SortedIns
