import UscxmlVerif.Model.NameMatch
import UscxmlVerif.Spec.Descriptor
/-! Helper lemmas for C12: the index scanner of `nameMatch` equals a structural scan, which
equals "some white-space separated token matches". -/
namespace UscxmlVerif.Proofs.NameMatch
open UscxmlVerif UscxmlVerif.Model.NameMatch

/-- structural form of the scanner: `rest` still to read, `cur` = current descriptor reversed -/
def scan (n : Bytes) : Bytes → Bytes → Bool
  | [], _ => false
  | b :: rest, cur =>
    if isSpace b then (tryDesc cur.reverse n || scan n rest [])
    else if rest.isEmpty then tryDesc (b :: cur).reverse n
    else scan n rest (b :: cur)

theorem at0_lt (s : Bytes) (i : Nat) (h : i < s.length) : at0 s i = s[i] := by
  simp [at0, List.getD, List.getElem?_eq_getElem h]

theorem at0_ge (s : Bytes) (i : Nat) (h : s.length ≤ i) : at0 s i = 0 := by
  simp [at0, List.getD, List.getElem?_eq_none h]

theorem isSpace_zero : isSpace 0 = false := by decide

/-- `skipWs` advances over exactly the white space following position `i` -/
theorem skipWs_spec (s : Bytes) : ∀ fuel i, (s.drop (i + 1)).length ≤ fuel →
    skipWs s fuel i = i + ((s.drop (i + 1)).takeWhile isSpace).length := by
  intro fuel
  induction fuel with
  | zero =>
    intro i h
    have : s.drop (i + 1) = [] := List.eq_nil_of_length_eq_zero (Nat.le_zero.mp h)
    simp [skipWs, this]
  | succ f ih =>
    intro i h
    unfold skipWs
    by_cases hlt : i + 1 < s.length
    · have hd : s.drop (i + 1) = s[i + 1] :: s.drop (i + 1 + 1) := by
        rw [List.drop_eq_getElem_cons hlt]
      rw [at0_lt s (i + 1) hlt, hd]
      by_cases hs : isSpace s[i + 1] = true
      · simp only [hs, if_true, List.takeWhile_cons_of_pos, List.length_cons]
        rw [ih (i + 1)]
        · omega
        · rw [hd] at h; simp at h ⊢; omega
      · rw [List.takeWhile_cons_of_neg hs]; simp [hs]
    · have : s.drop (i + 1) = [] := List.drop_eq_nil_of_le (by omega)
      rw [at0_ge s (i + 1) (by omega), this]
      simp [isSpace_zero]

theorem extract_self (s : Bytes) (a : Nat) : extract s a a = [] := by simp [extract]

theorem extract_succ (s : Bytes) (a i : Nat) (ha : a ≤ i) (hi : i < s.length) :
    extract s a (i + 1) = extract s a i ++ [s[i]] := by
  unfold extract
  have h1 : i + 1 - a = (i - a) + 1 := by omega
  rw [h1, List.take_add_one]
  congr 1
  have : (s.drop a)[i - a]? = some s[i] := by
    rw [List.getElem?_drop]
    have : a + (i - a) = i := by omega
    rw [this, List.getElem?_eq_getElem hi]
  rw [this]; rfl

theorem scan_dropWhile (n : Bytes) : ∀ l : Bytes, scan n (l.dropWhile isSpace) [] = scan n l [] := by
  intro l
  induction l with
  | nil => rfl
  | cons b t ih =>
    by_cases hb : isSpace b = true
    · rw [List.dropWhile_cons_of_pos hb, ih]
      simp [scan, hb, tryDesc]
    · rw [List.dropWhile_cons_of_neg hb]

theorem drop_add_takeWhile (p : UInt8 → Bool) (l : Bytes) :
    l.drop (l.takeWhile p).length = l.dropWhile p := by
  induction l with
  | nil => rfl
  | cons b t ih =>
    by_cases hb : p b = true
    · simp [hb, ih]
    · simp [hb]

/-- the index loop is the structural scan -/
theorem loop_eq_scan (ds n : Bytes) : ∀ fuel i start, start ≤ i → i ≤ ds.length →
    ds.length + 1 ≤ fuel + i →
    loop ds n fuel i start = scan n (ds.drop i) (extract ds start i).reverse := by
  intro fuel
  induction fuel with
  | zero =>
    intro i start _ hi hf
    omega
  | succ f ih =>
    intro i start hs hi hf
    unfold loop
    by_cases hlt : i < ds.length
    · have hd : ds.drop i = ds[i] :: ds.drop (i + 1) := by rw [List.drop_eq_getElem_cons hlt]
      rw [if_pos hlt, at0_lt ds i hlt, hd]
      unfold scan
      by_cases hsp : isSpace ds[i] = true
      · simp only [hsp, if_true, List.reverse_reverse]
        have hdesc : (if start < i then extract ds start i else []) = extract ds start i := by
          by_cases h : start < i
          · simp [h]
          · have : start = i := by omega
            simp [this, extract_self]
        rw [hdesc]
        cases htd : tryDesc (extract ds start i) n with
        | true => simp
        | false =>
          simp only [Bool.false_or, Bool.false_eq_true, if_false]
          have hsk := skipWs_spec ds ds.length i (by simp)
          rw [hsk]
          have hle : i + ((ds.drop (i + 1)).takeWhile isSpace).length + 1 ≤ ds.length := by
            have := (List.takeWhile_sublist isSpace (l := ds.drop (i + 1))).length_le
            simp at this; omega
          rw [ih _ _ (Nat.le_refl _) hle (by omega), extract_self]
          have : ds.drop (i + ((ds.drop (i + 1)).takeWhile isSpace).length + 1)
              = (ds.drop (i + 1)).dropWhile isSpace := by
            rw [← drop_add_takeWhile isSpace (ds.drop (i + 1)), List.drop_drop]
            congr 1; omega
          rw [this]
          simpa using scan_dropWhile n (ds.drop (i + 1))
      · simp only [hsp, Bool.false_eq_true, if_false]
        have hex : extract ds start (i + 1) = ((ds[i]) :: (extract ds start i).reverse).reverse := by
          rw [extract_succ ds start i hs hlt]; simp
        by_cases hlast : i + 1 = ds.length
        · have hnil : ds.drop (i + 1) = [] := List.drop_eq_nil_of_le (by omega)
          have hbeq : (i + 1 == ds.length) = true := by simp [hlast]
          simp only [hbeq, if_true, hnil, List.isEmpty_nil]
          rw [hex]
          cases tryDesc (ds[i] :: (extract ds start i).reverse).reverse n with
          | true => simp
          | false =>
            simp only [Bool.false_eq_true, if_false]
            cases f with
            | zero => rfl
            | succ f' => unfold loop; simp [hlast]
        · have hne : (ds.drop (i + 1)).isEmpty = false := by
            simp; omega
          have hbeq : (i + 1 == ds.length) = false := by simp [hlast]
          simp only [hbeq, Bool.false_eq_true, if_false, hne]
          rw [ih (i + 1) start (by omega) (by omega) (by omega), hex]
          simp
    · have : ds.drop i = [] := List.drop_eq_nil_of_le (by omega)
      simp [hlt, this, scan]

theorem isSpace_eq : Spec.Descriptor.isSpace = isSpace := rfl

/-- the structural scan tries exactly the white-space separated pieces -/
theorem scan_eq_any (n : Bytes) : ∀ (l cur : Bytes), l ≠ [] →
    scan n l cur = (Spec.Descriptor.splitDrop isSpace l cur).any (tryDesc · n) := by
  intro l
  induction l with
  | nil => intro cur h; exact absurd rfl h
  | cons b t ih =>
    intro cur _
    unfold scan Spec.Descriptor.splitDrop
    by_cases hb : isSpace b = true
    · simp only [hb, if_true]
      cases t with
      | nil =>
        cases cur with
        | nil => simp [scan, Spec.Descriptor.splitDrop, tryDesc]
        | cons c cs => simp [scan, Spec.Descriptor.splitDrop]
      | cons c cs =>
        rw [ih [] (by simp)]
        cases cur with
        | nil => simp [tryDesc]
        | cons c' cs' => simp
    · simp only [hb, Bool.false_eq_true, if_false]
      cases t with
      | nil => simp [Spec.Descriptor.splitDrop]
      | cons c cs => simp only [List.isEmpty_cons, Bool.false_eq_true, if_false]; exact ih _ (by simp)

/-- **the scanner, for all byte strings**: `nameMatch` tries the whole string and then each
white-space separated descriptor with `matchOne` -/
theorem nameMatch_eq_tokens (ds n : Bytes) :
    nameMatch ds n = (!ds.isEmpty && !n.isEmpty &&
      (ds == n || (Spec.Descriptor.descriptors ds).any (tryDesc · n))) := by
  unfold nameMatch
  cases hds : ds with
  | nil => simp
  | cons b t =>
    rw [← hds]
    have hne : ds ≠ [] := by simp [hds]
    have he : ds.isEmpty = false := by simp [hds]
    cases hn : n.isEmpty with
    | true => simp
    | false =>
      simp only [he, Bool.false_or, Bool.false_eq_true, if_false, Bool.not_false, Bool.true_and]
      by_cases heq : (ds == n) = true
      · simp [heq]
      · simp only [heq, Bool.false_eq_true, if_false, Bool.false_or]
        rw [loop_eq_scan ds n _ 0 0 (Nat.le_refl _) (Nat.zero_le _) (by omega)]
        simp only [List.drop_zero, extract_self, List.reverse_nil]
        rw [scan_eq_any n ds [] hne, Spec.Descriptor.descriptors, isSpace_eq]

end UscxmlVerif.Proofs.NameMatch

namespace UscxmlVerif.Proofs.NameMatch
open UscxmlVerif UscxmlVerif.Model.NameMatch UscxmlVerif.Spec.Descriptor

theorem tokens_ne_nil : ∀ s : Bytes, tokens s ≠ [] := by
  intro s
  cases s with
  | nil => simp [tokens]
  | cons b bs =>
    unfold tokens
    split
    · simp
    · cases tokens bs <;> simp [consHead]

/-- token-wise prefix = equal, or string prefix followed by a dot -/
theorem tokens_isPrefixOf : ∀ a n : Bytes,
    (tokens a).isPrefixOf (tokens n) = (a == n || (a ++ [46]).isPrefixOf n) := by
  intro a
  induction a with
  | nil =>
    intro n
    cases n with
    | nil => simp [tokens]
    | cons y n' =>
      by_cases hy : y = 46
      · subst hy; simp [tokens, List.isPrefixOf]
      · have : tokens (y :: n') = consHead y (tokens n') := by simp [tokens, hy]
        rw [this]
        cases htn : tokens n' with
        | nil => exact absurd htn (tokens_ne_nil n')
        | cons t ts =>
          have h46 : ((46 : UInt8) == y) = false := by
            simp; exact fun h => hy h.symm
          simp [tokens, consHead, List.isPrefixOf, h46]
  | cons x a' ih =>
    intro n
    by_cases hx : x = 46
    · subst hx
      have hta : tokens (46 :: a') = [] :: tokens a' := by simp [tokens]
      rw [hta]
      cases n with
      | nil =>
        cases hta' : tokens a' with
        | nil => exact absurd hta' (tokens_ne_nil a')
        | cons t ts => simp [tokens, List.isPrefixOf]
      | cons y n' =>
        by_cases hy : y = 46
        · subst hy
          have : tokens (46 :: n') = [] :: tokens n' := by simp [tokens]
          rw [this]
          simp [List.isPrefixOf, ih n']
        · have : tokens (y :: n') = consHead y (tokens n') := by simp [tokens, hy]
          rw [this]
          cases htn : tokens n' with
          | nil => exact absurd htn (tokens_ne_nil n')
          | cons t ts =>
            have h46 : ((46 : UInt8) == y) = false := by
              simp; exact fun h => hy h.symm
            simp [consHead, List.isPrefixOf, h46]
    · have hta : tokens (x :: a') = consHead x (tokens a') := by simp [tokens, hx]
      rw [hta]
      cases hta' : tokens a' with
      | nil => exact absurd hta' (tokens_ne_nil a')
      | cons t ts =>
        cases n with
        | nil => simp [tokens, consHead, List.isPrefixOf]
        | cons y n' =>
          by_cases hy : y = 46
          · subst hy
            have : tokens (46 :: n') = [] :: tokens n' := by simp [tokens]
            rw [this]
            simp [consHead, List.isPrefixOf, hx]
          · have : tokens (y :: n') = consHead y (tokens n') := by simp [tokens, hy]
            rw [this]
            cases htn : tokens n' with
            | nil => exact absurd htn (tokens_ne_nil n')
            | cons t' ts' =>
              have ih' := ih n'
              rw [hta', htn] at ih'
              simp only [List.isPrefixOf] at ih'
              simp only [consHead, List.isPrefixOf, List.cons_append]
              by_cases hxy : x = y
              · subst hxy
                simp only [List.cons_beq_cons, beq_self_eq_true, Bool.true_and] 
                exact ih'
              · have : (x == y) = false := by simp [hxy]
                simp [this]

end UscxmlVerif.Proofs.NameMatch

namespace UscxmlVerif.Proofs.NameMatch
open UscxmlVerif UscxmlVerif.Model.NameMatch UscxmlVerif.Spec.Descriptor

theorem tokens_append_dot : ∀ a b : Bytes, tokens (a ++ 46 :: b) = tokens a ++ tokens b := by
  intro a b
  induction a with
  | nil => simp [tokens]
  | cons x a' ih =>
    by_cases hx : x = 46
    · subst hx; simp [tokens, ih]
    · simp only [List.cons_append, tokens, beq_iff_eq, hx, if_false, ih]
      cases hta : tokens a' with
      | nil => exact absurd hta (tokens_ne_nil a')
      | cons t ts => simp [consHead]

/-- every byte other than `.` sits in some token -/
theorem mem_tokens_of_mem : ∀ (s : Bytes) (b : UInt8), b ∈ s → b ≠ 46 → ∃ t ∈ tokens s, b ∈ t := by
  intro s
  induction s with
  | nil => intro b h; simp at h
  | cons x s' ih =>
    intro b hb hne
    by_cases hx : x = 46
    · subst hx
      have : b ∈ s' := by
        cases List.mem_cons.mp hb with
        | inl h => exact absurd h hne
        | inr h => exact h
      obtain ⟨t, ht, hbt⟩ := ih b this hne
      exact ⟨t, by simp [tokens, ht], hbt⟩
    · have hts : tokens (x :: s') = consHead x (tokens s') := by simp [tokens, hx]
      rw [hts]
      cases hta : tokens s' with
      | nil => exact absurd hta (tokens_ne_nil s')
      | cons t ts =>
        cases List.mem_cons.mp hb with
        | inl h => exact ⟨x :: t, by simp [consHead], by simp [h]⟩
        | inr h =>
          obtain ⟨t2, ht2, hbt2⟩ := ih b h hne
          rw [hta] at ht2
          cases List.mem_cons.mp ht2 with
          | inl h2 => exact ⟨x :: t, by simp [consHead], by simp [← h2, hbt2]⟩
          | inr h2 => exact ⟨t2, by simp [consHead, h2], hbt2⟩

theorem wfName_no (n : Bytes) (h : wfName n = true) (b : UInt8) (hb : b ∈ n) :
    Spec.Descriptor.isSpace b = false ∧ b ≠ 42 ∧ b ≠ 0 := by
  by_cases h46 : b = 46
  · subst h46; decide
  · obtain ⟨t, ht, hbt⟩ := mem_tokens_of_mem n b hb h46
    unfold wfName at h
    have := List.all_eq_true.mp h t ht
    unfold wfToken at this
    simp only [Bool.and_eq_true] at this
    have := List.all_eq_true.mp this.2 b hbt
    simp at this
    exact ⟨this.1.1.1, this.1.1.2, this.2⟩

theorem wfName_ne_nil (n : Bytes) (h : wfName n = true) : n ≠ [] := by
  intro hn; subst hn
  simp [wfName, tokens, wfToken] at h

theorem snoc_cases (l : Bytes) : l = [] ∨ ∃ r x, l = r ++ [x] := by
  cases List.eq_nil_or_concat l with
  | inl h => exact Or.inl h
  | inr h => obtain ⟨r, x, h⟩ := h; exact Or.inr ⟨r, x, by simpa using h⟩

theorem wfName_last_ne_dot (n : Bytes) (h : wfName n = true) : n.getLast? ≠ some 46 := by
  intro hl
  cases snoc_cases n with
  | inl hn => exact wfName_ne_nil n h hn
  | inr hx =>
    obtain ⟨a, x, rfl⟩ := hx
    simp at hl
    subst hl
    have : tokens (a ++ [46]) = tokens a ++ [[]] := by
      simpa [tokens] using tokens_append_dot a []
    unfold wfName at h
    rw [this] at h
    simp [wfToken] at h

theorem wfName_last_ne_star (n : Bytes) (h : wfName n = true) : n.getLast? ≠ some 42 := by
  intro hl
  have hmem : (42 : UInt8) ∈ n := List.mem_of_getLast? hl
  exact (wfName_no n h 42 hmem).2.1 rfl

theorem stripSuffix_snoc_dot (r : Bytes) : stripSuffix (r ++ [46]) = r := by
  simp [stripSuffix]

theorem stripSuffix_snoc_dotstar (r : Bytes) : stripSuffix (r ++ [46, 42]) = r := by
  simp [stripSuffix]

theorem stripSuffix_other (d : Bytes) (h1 : d.getLast? ≠ some 46) (h2 : d.getLast? ≠ some 42) :
    stripSuffix d = d := by
  cases snoc_cases d with
  | inl hn => subst hn; rfl
  | inr hx =>
    obtain ⟨r, x, rfl⟩ := hx
    simp at h1 h2
    unfold stripSuffix
    simp only [List.reverse_append, List.reverse_cons, List.reverse_nil, List.nil_append, List.cons_append]
    split
    · rename_i heq; simp at heq; exact absurd heq.1 h2
    · rename_i heq; simp at heq; exact absurd heq.1 h1
    · rfl

theorem stripSuffix_of_wfName (n : Bytes) (h : wfName n = true) : stripSuffix n = n :=
  stripSuffix_other n (wfName_last_ne_dot n h) (wfName_last_ne_star n h)

/-- what the two `stripLast` calls of the code do to a well-formed descriptor -/
theorem strip_eq_stripSuffix (d : Bytes) (hw : wfName (stripSuffix d) = true) :
    stripLast 46 (stripLast 42 d) = stripSuffix d := by
  cases snoc_cases d with
  | inl hn => subst hn; rfl
  | inr hx =>
    obtain ⟨r, x, rfl⟩ := hx
    by_cases hx42 : x = 42
    · subst hx42
      cases snoc_cases r with
      | inl hr =>
        subst hr
        exfalso
        have := wfName_no _ hw 42 (by simp [stripSuffix])
        exact this.2.1 rfl
      | inr hy =>
        obtain ⟨r', y, rfl⟩ := hy
        by_cases hy46 : y = 46
        · subst hy46
          have e : r' ++ [46] ++ [42] = r' ++ [46, 42] := by simp
          rw [e, stripSuffix_snoc_dotstar] at *
          simp [stripLast]
        · exfalso
          have hs : stripSuffix (r' ++ [y] ++ [42]) = r' ++ [y] ++ [42] := by
            unfold stripSuffix
            simp only [List.reverse_append, List.reverse_cons, List.reverse_nil, List.nil_append, List.cons_append]
            split
            · rename_i heq; simp at heq; exact absurd heq.1 hy46
            · rename_i heq; simp at heq
            · rfl
          rw [hs] at hw
          exact (wfName_no _ hw 42 (by simp)).2.1 rfl
    · by_cases hx46 : x = 46
      · subst hx46
        rw [stripSuffix_snoc_dot]
        simp [stripLast]
      · have hs : stripSuffix (r ++ [x]) = r ++ [x] := by
          apply stripSuffix_other <;> simp [hx46, hx42]
        rw [hs]
        simp [stripLast, hx42, hx46]

end UscxmlVerif.Proofs.NameMatch

namespace UscxmlVerif.Proofs.NameMatch
open UscxmlVerif UscxmlVerif.Model.NameMatch UscxmlVerif.Spec.Descriptor

theorem isPrefixOf_snoc_dot (a n : Bytes) (hlen : ¬ a.length > n.length) :
    (a ++ [46]).isPrefixOf n = (a.isPrefixOf n && at0 n a.length == 46) := by
  induction a generalizing n with
  | nil =>
    cases n with
    | nil => simp [at0, List.isPrefixOf]
    | cons y n' => simp [at0, List.isPrefixOf]; exact Bool.beq_comm
  | cons x a' ih =>
    cases n with
    | nil => simp at hlen
    | cons y n' =>
      simp only [List.cons_append, List.isPrefixOf, List.length_cons]
      rw [ih n' (by simpa using hlen)]
      simp [at0, Bool.and_assoc]

/-- on a well-formed descriptor the code's test is the Recommendation's -/
theorem matchOne_eq_descMatches (d n : Bytes) (hw : wfDesc d = true) :
    matchOne d n = descMatches d n := by
  unfold wfDesc at hw
  by_cases hstar : d = [42]
  · subst hstar; simp [matchOne, descMatches, stripLast]
  · have hw' : wfName (stripSuffix d) = true := by simpa [hstar] using hw
    have hne := wfName_ne_nil _ hw'
    unfold matchOne descMatches
    simp only [strip_eq_stripSuffix d hw', tokens_isPrefixOf]
    have h1 : (stripSuffix d).isEmpty = false := by
      cases h : stripSuffix d with
      | nil => exact absurd h hne
      | cons _ _ => rfl
    have h2 : (d == [42]) = false := by simpa using hstar
    simp only [h1, h2, Bool.false_eq_true, if_false, Bool.false_or]
    by_cases hlen : (stripSuffix d).length > n.length
    · simp only [hlen, if_true]
      have e1 : (stripSuffix d == n) = false := by
        simp; intro h; rw [h] at hlen; omega
      have e2 : (stripSuffix d ++ [46]).isPrefixOf n = false := by
        cases hp : (stripSuffix d ++ [46]).isPrefixOf n with
        | false => rfl
        | true =>
          have := (List.isPrefixOf_iff_prefix.mp hp).length_le
          simp at this; omega
      simp [e1, e2]
    · simp only [hlen, if_false]
      by_cases heq : (stripSuffix d == n) = true
      · simp [heq]
      · simp only [heq, Bool.false_eq_true, if_false, Bool.false_or]
        exact (isPrefixOf_snoc_dot _ _ hlen).symm

theorem splitDrop_nospace : ∀ (l cur : Bytes), (∀ b ∈ l, Spec.Descriptor.isSpace b = false) →
    splitDrop Spec.Descriptor.isSpace l cur =
      if (cur.reverse ++ l).isEmpty then [] else [cur.reverse ++ l] := by
  intro l
  induction l with
  | nil => intro cur _; cases cur <;> simp [splitDrop]
  | cons b t ih =>
    intro cur h
    have hb := h b (by simp)
    unfold splitDrop
    simp only [hb, Bool.false_eq_true, if_false]
    rw [ih (b :: cur) (fun x hx => h x (by simp [hx]))]
    simp

theorem descriptors_of_wfName (n : Bytes) (h : wfName n = true) : descriptors n = [n] := by
  unfold descriptors
  rw [splitDrop_nospace n [] (fun b hb => (wfName_no n h b hb).1)]
  have := wfName_ne_nil n h
  cases n with
  | nil => exact absurd rfl this
  | cons _ _ => simp

theorem descMatches_self (n : Bytes) (h : wfName n = true) : descMatches n n = true := by
  unfold descMatches
  rw [stripSuffix_of_wfName n h, tokens_isPrefixOf]
  simp

end UscxmlVerif.Proofs.NameMatch
