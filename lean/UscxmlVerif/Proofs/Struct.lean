import UscxmlVerif.Model.Tables
import UscxmlVerif.Spec.W3C
/-!
# The transpilers' structural tables against the Recommendation's definitions

`Model.Tables` mirrors `ChartToC::prepare` / `Predicates.cpp` (the walks the code does);
`Spec.W3C` is Appendix D. Both work on the flat chart. The lemmas here relate the two under the
decidable well-formedness predicate `Coherent` (root is the `<scxml>` element, parents precede
their children and are state / parallel / scxml elements, the engines' classification `typ`
agrees with the element kind and its children) - which the driver evaluates on every chart the
checks generate (`tables` command, field `coherent=`).
-/
namespace UscxmlVerif.Proofs.Struct
open UscxmlVerif

namespace T
export UscxmlVerif.Model.Tables (st tr ancestors ancs isDescendant isProper isCompound properAncestors findLCCA
  transitionDomain sourceState exitSet conflicts)
end T
namespace W
export UscxmlVerif.Spec.W3C (ancestorsOf getProperAncestors isDescendant isCompoundState isSCXMLElement findLCCA
  getTransitionDomain computeExitSet exitSetOf addSet unionSet effTargets getEffectiveTargetStates isHistoryState SState)
end W

/-- element kinds that may have child states -/
def parentKind (k : Kind) : Bool := k == .state || k == .parallel || k == .scxml

/-- decidable well-formedness of a flat chart, as far as the structural tables rely on it -/
def Coherent (c : Chart) : Bool :=
  (T.st c 0).kind == .scxml && (T.st c 0).parent == none &&
  (List.range c.states.size).all (fun s =>
    s == 0 ||
      ((T.st c s).kind != .scxml &&
        match (T.st c s).parent with
        | some p => decide (p < s) && parentKind (T.st c p).kind
        | none => false)) &&
  (List.range c.states.size).all (fun s =>
    ((T.st c s).typ == .compound) ==
      (((T.st c s).kind == .state || (T.st c s).kind == .scxml) && (T.st c s).children.any (T.isProper c))) &&
  (List.range c.states.size).all (fun s => (T.st c s).kind != .final || !(T.st c s).children.any (T.isProper c))

structure Coh (c : Chart) : Prop where
  rootKind : (T.st c 0).kind = .scxml
  rootParent : (T.st c 0).parent = none
  notRoot : ∀ s, s ≠ 0 → s < c.states.size → (T.st c s).kind ≠ .scxml
  parent : ∀ s, s ≠ 0 → s < c.states.size → ∃ p, (T.st c s).parent = some p ∧ p < s ∧ parentKind (T.st c p).kind = true
  typ : ∀ s, s < c.states.size → ((T.st c s).typ == .compound) =
      (((T.st c s).kind == .state || (T.st c s).kind == .scxml) && (T.st c s).children.any (T.isProper c))
  finalLeaf : ∀ s, s < c.states.size → (T.st c s).kind = .final → (T.st c s).children.any (T.isProper c) = false

theorem coh_of_coherent {c : Chart} (h : Coherent c = true) : Coh c := by
  unfold Coherent at h
  simp only [Bool.and_eq_true, List.all_eq_true, List.mem_range, Bool.or_eq_true, beq_iff_eq, bne_iff_ne] at h
  obtain ⟨⟨⟨⟨h1, h2⟩, h3⟩, h4⟩, h5⟩ := h
  refine ⟨h1, h2, ?_, ?_, ?_, ?_⟩
  · intro s hs hlt
    rcases h3 s hlt with h | h
    · exact absurd h hs
    · exact h.1
  · intro s hs hlt
    rcases h3 s hlt with h | h
    · exact absurd h hs
    · have h' := h.2
      split at h'
      · rename_i p hp
        simp only [Bool.and_eq_true, decide_eq_true_eq] at h'
        exact ⟨p, hp, h'.1, h'.2⟩
      · cases h'
  · intro s hlt
    exact h4 s hlt
  · intro s hlt hk
    rcases h5 s hlt with h | h
    · exact absurd hk h
    · simpa using h

/-! ## the two ancestor walks are the same function -/

theorem st_eq (c : Chart) (i : Nat) : Spec.W3C.st c i = T.st c i := rfl
theorem tr_eq (c : Chart) (i : Nat) : Spec.W3C.tr c i = T.tr c i := rfl

theorem anc_eq (c : Chart) (f s : Nat) : W.ancestorsOf c f s = T.ancestors c f s := by
  induction f generalizing s with
  | zero => rfl
  | succ f ih =>
    unfold Spec.W3C.ancestorsOf Model.Tables.ancestors
    rw [st_eq]
    cases (T.st c s).parent with
    | some p => simp only; rw [ih]
    | none => rfl

theorem desc_eq (c : Chart) (s a : Nat) : W.isDescendant c s a = T.isDescendant c s a := by
  unfold Spec.W3C.isDescendant Model.Tables.isDescendant Model.Tables.ancs
  rw [anc_eq]

/-! ## shape of an ancestor chain in a coherent chart -/

theorem anc_root_nil (c : Chart) (h : Coh c) (f : Nat) : T.ancestors c f 0 = [] := by
  cases f with
  | zero => rfl
  | succ f => unfold Model.Tables.ancestors; rw [h.rootParent]

/-- the proper ancestors of a non-root state: inner ancestors (non-root, in range, able to have children), then the root -/
theorem anc_shape (c : Chart) (h : Coh c) : ∀ (f s : Nat), s ≠ 0 → s ≤ f → s < c.states.size →
    ∃ l, T.ancestors c f s = l ++ [0] ∧ ∀ a ∈ l, a ≠ 0 ∧ a < c.states.size ∧ parentKind (T.st c a).kind = true := by
  intro f
  induction f with
  | zero => intro s hs hle _; omega
  | succ f ih =>
    intro s hs hle hlt
    obtain ⟨p, hp, hps, hk⟩ := h.parent s hs hlt
    unfold Model.Tables.ancestors
    rw [hp]
    simp only
    by_cases hp0 : p = 0
    · subst hp0
      exact ⟨[], by rw [anc_root_nil c h]; rfl, by intro a ha; cases ha⟩
    · obtain ⟨l, hl, hall⟩ := ih p hp0 (by omega) (by omega)
      refine ⟨p :: l, by rw [hl]; rfl, ?_⟩
      intro a ha
      rcases List.mem_cons.mp ha with ha | ha
      · subst ha; exact ⟨hp0, by omega, hk⟩
      · exact hall a ha

theorem ancs_shape (c : Chart) (h : Coh c) (s : Nat) (hs : s ≠ 0) (hlt : s < c.states.size) :
    ∃ l, T.ancs c s = l ++ [0] ∧ ∀ a ∈ l, a ≠ 0 ∧ a < c.states.size ∧ parentKind (T.st c a).kind = true :=
  anc_shape c h c.states.size s hs (by omega) hlt

/-- every state but the root lies below the root -/
theorem desc_root (c : Chart) (h : Coh c) (s : Nat) (hs : s ≠ 0) (hlt : s < c.states.size) : T.isDescendant c s 0 = true := by
  obtain ⟨l, hl, _⟩ := ancs_shape c h s hs hlt
  unfold Model.Tables.isDescendant
  rw [hl]
  simp

theorem desc_of_mem_ancs (c : Chart) (s a : Nat) (h : a ∈ T.ancs c s) : T.isDescendant c s a = true := by
  unfold Model.Tables.isDescendant
  simpa using h

theorem takeWhile_all {α} (l : List α) (p : α → Bool) (h : ∀ a ∈ l, p a = true) : l.takeWhile p = l := by
  induction l with
  | nil => rfl
  | cons x xs ih =>
    rw [List.takeWhile_cons, h x (List.mem_cons_self)]
    simp only [↓reduceIte]
    rw [ih (fun a ha => h a (List.mem_cons_of_mem _ ha))]

/-- `getProperAncestors(s, NULL)` of Predicates.cpp stops at the first element that is no state, parallel or scxml
element: in a coherent chart it never stops early -/
theorem properAncestors_all (c : Chart) (h : Coh c) (s : Nat) (hs : s ≠ 0) (hlt : s < c.states.size) :
    T.properAncestors c s = T.ancs c s := by
  obtain ⟨l, hl, hall⟩ := ancs_shape c h s hs hlt
  unfold Model.Tables.properAncestors
  rw [hl]
  apply takeWhile_all
  intro a ha
  have hk : parentKind (T.st c a).kind = true := by
    rcases List.mem_append.mp ha with ha | ha
    · exact (hall a ha).2.2
    · simp only [List.mem_singleton] at ha
      subst ha
      unfold parentKind
      rw [h.rootKind]; rfl
  unfold parentKind at hk
  exact hk

/-- the two notions of "compound" agree away from the root -/
theorem compound_eq (c : Chart) (h : Coh c) (a : Nat) (ha : a ≠ 0) (hlt : a < c.states.size) :
    W.isCompoundState c a = T.isCompound c a := by
  have hk := h.notRoot a ha hlt
  have ht := h.typ a hlt
  unfold Spec.W3C.isCompoundState Model.Tables.isCompound
  rw [st_eq, ht]
  have hp : T.isProper c a = (T.st c a).kind.isProper := rfl
  rw [hp]
  have hfin := h.finalLeaf a hlt
  generalize (T.st c a).children.any (T.isProper c) = b at hfin ⊢
  cases hkind : (T.st c a).kind <;> cases b <;> first | rfl | exact absurd hkind hk | (have := hfin hkind; cases this)

theorem root_scxml (c : Chart) (h : Coh c) : W.isSCXMLElement c 0 = true := by
  unfold Spec.W3C.isSCXMLElement
  rw [st_eq, h.rootKind]; rfl

theorem not_scxml (c : Chart) (h : Coh c) (a : Nat) (ha : a ≠ 0) (hlt : a < c.states.size) : W.isSCXMLElement c a = false := by
  unfold Spec.W3C.isSCXMLElement
  rw [st_eq]
  have := h.notRoot a ha hlt
  cases hk : (T.st c a).kind <;> simp_all

/-! ## findLCCA -/

theorem all_congr' {α} (l : List α) (p q : α → Bool) (h : ∀ a ∈ l, p a = q a) : l.all p = l.all q := by
  induction l with
  | nil => rfl
  | cons x xs ih =>
    simp only [List.all_cons]
    rw [h x (List.mem_cons_self), ih (fun a ha => h a (List.mem_cons_of_mem _ ha))]

theorem find_congr {α} (l : List α) (p q : α → Bool) (h : ∀ a ∈ l, p a = q a) : l.find? p = l.find? q := by
  induction l with
  | nil => rfl
  | cons x xs ih =>
    simp only [List.find?_cons]
    rw [h x (List.mem_cons_self)]
    cases q x
    · exact ih (fun a ha => h a (List.mem_cons_of_mem _ ha))
    · rfl

/-- `findLCCA` of Predicates.cpp is Appendix D's, for a non-root first state and other states that are not the root -/
theorem findLCCA_eq (c : Chart) (h : Coh c) (hd : Nat) (tl : List Nat) (hs : hd ≠ 0) (hlt : hd < c.states.size)
    (htl : ∀ s ∈ tl, s ≠ 0 ∧ s < c.states.size) :
    W.findLCCA c (hd :: tl) = T.findLCCA c (hd :: tl) := by
  obtain ⟨l, hl, hall⟩ := ancs_shape c h hd hs hlt
  unfold Spec.W3C.findLCCA Model.Tables.findLCCA
  simp only
  rw [properAncestors_all c h hd hs hlt]
  unfold Spec.W3C.getProperAncestors
  simp only
  rw [anc_eq]
  change (T.ancs c hd).find? _ = _
  have hmem : ∀ a ∈ T.ancs c hd, T.isDescendant c hd a = true := fun a ha => desc_of_mem_ancs c hd a ha
  rw [hl] at hmem ⊢
  rw [List.find?_append, List.find?_append]
  -- on the inner ancestors the two tests coincide
  have hin : l.find? (fun anc => (W.isCompoundState c anc || W.isSCXMLElement c anc) && tl.all (fun s => W.isDescendant c s anc)) =
      l.find? (fun a => T.isCompound c a && (hd :: tl).all (fun s => T.isDescendant c s a)) := by
    apply find_congr
    intro a ha
    obtain ⟨ha0, halt, _⟩ := hall a ha
    rw [compound_eq c h a ha0 halt, not_scxml c h a ha0 halt, Bool.or_false]
    simp only [List.all_cons, hmem a (List.mem_append_left _ ha), Bool.true_and]
    congr 1
    apply all_congr'
    intro s _
    rw [desc_eq]
  rw [hin]
  cases hf : l.find? (fun a => T.isCompound c a && (hd :: tl).all (fun s => T.isDescendant c s a)) with
  | some a => simp
  | none =>
    have hroot : tl.all (fun s => W.isDescendant c s 0) = true := by
      rw [List.all_eq_true]
      intro s hs'
      rw [desc_eq]
      exact desc_root c h s (htl s hs').1 (htl s hs').2
    simp only [Option.none_or, List.find?_cons, List.find?_nil, root_scxml c h, Bool.or_true, hroot, Bool.and_self]
    cases T.isCompound c 0 && (hd :: tl).all (fun s => T.isDescendant c s 0) <;> simp

/-! ## transition domain -/

/-- a transition of a real state whose targets are real states (no history, in range, not the root) -/
structure PlainTrans (c : Chart) (t : Tr) : Prop where
  srcKind : (T.st c t.source).kind = .state ∨ (T.st c t.source).kind = .parallel
  srcRange : t.source < c.states.size
  tgt : ∀ g ∈ t.targets, g ≠ 0 ∧ g < c.states.size ∧ W.isHistoryState c g = false

theorem src_ne_root (c : Chart) (h : Coh c) (t : Tr) (p : PlainTrans c t) : t.source ≠ 0 := by
  intro h0
  have := p.srcKind
  rw [h0, h.rootKind] at this
  rcases this with h | h <;> cases h

theorem mem_addSet (acc : List Nat) (y x : Nat) : x ∈ W.addSet acc y ↔ x ∈ acc ∨ x = y := by
  unfold Spec.W3C.addSet
  split
  · rename_i hc
    have hy : y ∈ acc := by simpa using hc
    constructor
    · intro h; exact Or.inl h
    · rintro (h | h)
      · exact h
      · rw [h]; exact hy
  · simp

theorem mem_foldl_addSet (l acc : List Nat) (x : Nat) : x ∈ l.foldl W.addSet acc ↔ x ∈ acc ∨ x ∈ l := by
  induction l generalizing acc with
  | nil => simp
  | cons y ys ih =>
    simp only [List.foldl_cons]
    rw [ih, mem_addSet]
    simp only [List.mem_cons]
    constructor
    · rintro ((h | h) | h)
      · exact Or.inl h
      · exact Or.inr (Or.inl h)
      · exact Or.inr (Or.inr h)
    · rintro (h | h | h)
      · exact Or.inl (Or.inl h)
      · exact Or.inl (Or.inr h)
      · exact Or.inr h

theorem foldl_agree {α β} (l : List β) (f g : α → β → α) (h : ∀ acc s, s ∈ l → f acc s = g acc s) (acc : α) :
    l.foldl f acc = l.foldl g acc := by
  induction l generalizing acc with
  | nil => rfl
  | cons y ys ih =>
    simp only [List.foldl_cons]
    rw [h acc y (List.mem_cons_self)]
    exact ih (fun acc s hs => h acc s (List.mem_cons_of_mem _ hs)) _

theorem effTargets_succ (c : Chart) (hist : List (Nat × List Nat)) (fuel : Nat) (tgts : List Nat) :
    W.effTargets c hist (fuel + 1) tgts = tgts.foldl (fun acc s =>
      if W.isHistoryState c s then
        match Spec.W3C.histValue hist s with
        | some v => W.unionSet acc v
        | none =>
          match (Spec.W3C.st c s).trans with
          | ti :: _ => W.unionSet acc (W.effTargets c hist fuel (Spec.W3C.tr c ti).targets)
          | [] => acc
      else W.addSet acc s) [] := rfl

/-- without history targets the effective targets are the targets (as a set) -/
theorem mem_effTargets (c : Chart) (hist : List (Nat × List Nat)) (fuel : Nat) (tgts : List Nat)
    (hnh : ∀ g ∈ tgts, W.isHistoryState c g = false) (x : Nat) :
    x ∈ W.effTargets c hist (fuel + 1) tgts ↔ x ∈ tgts := by
  rw [effTargets_succ, foldl_agree tgts _ W.addSet (fun acc s hs => by simp only [hnh s hs]; rfl), mem_foldl_addSet]
  simp

theorem all_of_mem_iff {l m : List Nat} (h : ∀ x, x ∈ l ↔ x ∈ m) (p : Nat → Bool) : l.all p = m.all p := by
  rw [Bool.eq_iff_iff]
  simp only [List.all_eq_true]
  constructor
  · intro hl x hx; exact hl x ((h x).mpr hx)
  · intro hm x hx; exact hm x ((h x).mp hx)

theorem isEmpty_of_mem_iff {l m : List Nat} (h : ∀ x, x ∈ l ↔ x ∈ m) : l.isEmpty = m.isEmpty := by
  cases l with
  | nil =>
    cases m with
    | nil => rfl
    | cons y ys => exact absurd ((h y).mpr (List.mem_cons_self)) (by simp)
  | cons x xs =>
    cases m with
    | nil => exact absurd ((h x).mp (List.mem_cons_self)) (by simp)
    | cons y ys => rfl

/-- the search for the LCCA depends on the other states only as a set -/
theorem w_findLCCA_congr (c : Chart) (hd : Nat) {l m : List Nat} (h : ∀ x, x ∈ l ↔ x ∈ m) :
    W.findLCCA c (hd :: l) = W.findLCCA c (hd :: m) := by
  unfold Spec.W3C.findLCCA
  simp only
  apply find_congr
  intro a _
  rw [all_of_mem_iff h]

/-- **transition domain**: what `getTransitionDomain` of Predicates.cpp computes (and the transpilers embed through
the exit sets) is Appendix D's transition domain, whether the latter is taken over the raw or the effective targets and
whatever the recorded history is -/
theorem domain_eq (c : Chart) (h : Coh c) (t : Tr) (p : PlainTrans c t) (raw : Bool) (hist : List (Nat × List Nat)) :
    W.getTransitionDomain c raw hist t = T.transitionDomain c t := by
  have hs0 := src_ne_root c h t p
  have hmem : ∀ x, x ∈ (if raw then t.targets else W.getEffectiveTargetStates c hist t) ↔ x ∈ t.targets := by
    intro x
    cases raw with
    | true => simp
    | false =>
      simp only [Bool.false_eq_true, ↓reduceIte]
      unfold Spec.W3C.getEffectiveTargetStates
      exact mem_effTargets c hist _ t.targets (fun g hg => (p.tgt g hg).2.2) x
  unfold Spec.W3C.getTransitionDomain Model.Tables.transitionDomain
  simp only
  rw [isEmpty_of_mem_iff hmem]
  have hsrc : T.sourceState c t = t.source := by
    unfold Model.Tables.sourceState
    rcases p.srcKind with hk | hk <;> rw [hk] <;> rfl
  rw [hsrc]
  by_cases he : t.targets.isEmpty = true
  · rw [if_pos he, if_pos he]
  · rw [if_neg he, if_neg he]
    rw [compound_eq c h t.source hs0 p.srcRange, all_of_mem_iff hmem]
    have hall : (t.targets.all fun s => W.isDescendant c s t.source) = (t.targets.all fun g => T.isDescendant c g t.source) := by
      apply all_congr'
      intro s _
      rw [desc_eq]
    rw [hall]
    split
    · rfl
    · rw [w_findLCCA_congr c t.source hmem]
      exact findLCCA_eq c h t.source t.targets hs0 p.srcRange (fun g hg => ⟨(p.tgt g hg).1, (p.tgt g hg).2.1⟩)

/-! ## exit sets and the conflict relation -/

theorem mem_foldl_filter_addSet (l : List Nat) (p : Nat → Bool) (acc : List Nat) (x : Nat) :
    x ∈ l.foldl (fun acc k => if p k then W.addSet acc k else acc) acc ↔ x ∈ acc ∨ (x ∈ l ∧ p x = true) := by
  induction l generalizing acc with
  | nil => simp
  | cons y ys ih =>
    simp only [List.foldl_cons]
    rw [ih]
    by_cases hy : p y = true
    · rw [if_pos hy, mem_addSet]
      simp only [List.mem_cons]
      constructor
      · rintro ((h | h) | ⟨h1, h2⟩)
        · exact Or.inl h
        · exact Or.inr ⟨Or.inl h, by rw [h]; exact hy⟩
        · exact Or.inr ⟨Or.inr h1, h2⟩
      · rintro (h | ⟨h1 | h1, h2⟩)
        · exact Or.inl (Or.inl h)
        · exact Or.inl (Or.inr h1)
        · exact Or.inr ⟨h1, h2⟩
    · rw [if_neg hy]
      simp only [List.mem_cons]
      constructor
      · rintro (h | ⟨h1, h2⟩)
        · exact Or.inl h
        · exact Or.inr ⟨Or.inr h1, h2⟩
      · rintro (h | ⟨h1 | h1, h2⟩)
        · exact Or.inl h
        · rw [h1] at h2; exact absurd h2 hy
        · exact Or.inr ⟨h1, h2⟩

/-- the states a configuration may hold: the root (both engines keep the `<scxml>` element in `_configuration`) and real
states of the chart -/
def ConfigOk (c : Chart) (cfg : List Nat) : Prop :=
  ∀ k ∈ cfg, k < c.states.size ∧ (k = 0 ∨ (T.st c k).kind = .state ∨ (T.st c k).kind = .parallel ∨ (T.st c k).kind = .final)

/-- **exit set**: in every configuration, the states Appendix D's `computeExitSet` makes a transition leave are the active
ones among the static exit set the transpilers embed -/
theorem exitSet_eq (c : Chart) (h : Coh c) (S : W.SState) (ti : Nat) (p : PlainTrans c (T.tr c ti))
    (htl : (T.tr c ti).targetless = true → (T.tr c ti).targets = []) (hcfg : ConfigOk c S.config) (s : Nat) :
    s ∈ W.exitSetOf c S ti ↔ s ∈ S.config ∧ s ∈ T.exitSet c (T.tr c ti) := by
  unfold Spec.W3C.exitSetOf Spec.W3C.computeExitSet Model.Tables.exitSet
  simp only [List.foldl_cons, List.foldl_nil]
  rw [tr_eq, domain_eq c h _ p]
  by_cases hless : (T.tr c ti).targetless = true
  · have he : (T.tr c ti).targets = [] := htl hless
    rw [if_pos hless, he]
    simp
  · rw [if_neg hless]
    by_cases he : (T.tr c ti).targets.isEmpty = true
    · have hd : T.transitionDomain c (T.tr c ti) = none := by
        unfold Model.Tables.transitionDomain
        rw [if_pos he]
      rw [hd]
      simp [he]
    · have he' : (!(T.tr c ti).targets.isEmpty) = true := by simpa using he
      rw [if_pos he']
      cases hd : T.transitionDomain c (T.tr c ti) with
      | none => simp
      | some d =>
        simp only
        rw [mem_foldl_filter_addSet]
        simp only [List.not_mem_nil, false_or, List.mem_filter, List.mem_range, Bool.and_eq_true, Bool.or_eq_true, beq_iff_eq]
        constructor
        · rintro ⟨h1, h2⟩
          obtain ⟨hlt, hk⟩ := hcfg s h1
          refine ⟨h1, hlt, by rw [← desc_eq]; exact h2, ?_⟩
          rcases hk with hk | hk | hk | hk
          · -- the root is nobody's descendant
            exfalso
            subst hk
            rw [desc_eq] at h2
            unfold Model.Tables.isDescendant Model.Tables.ancs at h2
            rw [anc_root_nil c h] at h2
            cases h2
          · exact Or.inl (Or.inl hk)
          · exact Or.inl (Or.inr hk)
          · exact Or.inr hk
        · rintro ⟨h1, _, h2, _⟩
          exact ⟨h1, by rw [desc_eq]; exact h2⟩

/-- **conflict relation, soundness**: two transitions whose exit sets intersect in some configuration (Appendix D's
notion of conflict) are marked as conflicting in the embedded table -/
theorem conflicts_sound (c : Chart) (h : Coh c) (S : W.SState) (i j : Nat)
    (pi : PlainTrans c (T.tr c i)) (pj : PlainTrans c (T.tr c j))
    (hi : (T.tr c i).targetless = true → (T.tr c i).targets = []) (hj : (T.tr c j).targetless = true → (T.tr c j).targets = [])
    (hcfg : ConfigOk c S.config) (s : Nat) (h1 : s ∈ W.exitSetOf c S i) (h2 : s ∈ W.exitSetOf c S j) :
    T.conflicts c i j = true := by
  have e1 := ((exitSet_eq c h S i pi hi hcfg s).mp h1).2
  have e2 := ((exitSet_eq c h S j pj hj hcfg s).mp h2).2
  unfold Model.Tables.conflicts
  simp only [Bool.or_eq_true, List.any_eq_true, List.contains_iff_mem]
  exact Or.inl (Or.inl (Or.inl ⟨s, e1, e2⟩))

/-- **conflict relation, exactness across regions**: for transitions whose sources are neither equal nor nested the table
holds exactly "some state is in both static exit sets" - and whenever such a state is active, Appendix D's dynamic exit
sets intersect as well -/
theorem conflicts_exact (c : Chart) (i j : Nat)
    (hne : T.sourceState c (T.tr c i) ≠ T.sourceState c (T.tr c j))
    (h1 : T.isDescendant c (T.sourceState c (T.tr c i)) (T.sourceState c (T.tr c j)) = false)
    (h2 : T.isDescendant c (T.sourceState c (T.tr c j)) (T.sourceState c (T.tr c i)) = false) :
    T.conflicts c i j = true ↔ ∃ s, s ∈ T.exitSet c (T.tr c i) ∧ s ∈ T.exitSet c (T.tr c j) := by
  unfold Model.Tables.conflicts
  simp only [h1, h2, Bool.or_false, Bool.or_eq_true, List.any_eq_true, List.contains_iff_mem, beq_iff_eq]
  constructor
  · rintro (h | h)
    · exact h
    · exact absurd h hne
  · intro h; exact Or.inl h

end UscxmlVerif.Proofs.Struct
