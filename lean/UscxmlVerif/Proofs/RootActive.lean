import UscxmlVerif.Proofs.DownRunFast
import UscxmlVerif.Proofs.Root
/-!
# The root is active from the first step on (both engines)
-/
namespace UscxmlVerif.Proofs.RootActive
open UscxmlVerif UscxmlVerif.Model UscxmlVerif.Model.Large UscxmlVerif.Model.Api UscxmlVerif.Proofs.Struct
  UscxmlVerif.Proofs.EntryClosed UscxmlVerif.Proofs.CfgInv UscxmlVerif.Proofs.Select UscxmlVerif.Proofs.Down
  UscxmlVerif.Proofs.DownFast UscxmlVerif.Proofs.Root

/-- the root lies above every other state of the chart -/
theorem root_mem_ancs (c : Chart) (hc : Coh c) (g : Nat) (h0 : g ≠ 0) (hlt : g < c.states.size) : 0 ∈ Large.ancs c g := by
  obtain ⟨l, hl, _⟩ := ancs_shape c hc g h0 hlt
  rw [ancs_eq, hl]
  simp

/-- a member of the root's completion, and the root above it -/
theorem root_target (c : Chart) (hd : DOK c) :
    ∃ g ∈ (Large.st c 0).completion, 0 ∈ Large.ancs c g := by
  have hne := hd.compNonempty 0 hd.rootCompound
  cases hcm : (Large.st c 0).completion with
  | nil => exact absurd hcm hne
  | cons g rest =>
    have hg : g ∈ (Large.st c 0).completion := by rw [hcm]; exact List.mem_cons_self
    exact ⟨g, List.mem_cons_self, (hd.complGt 0 g hg).2⟩

theorem root_not_pseudo (c : Chart) (hd : DOK c) : (Large.st c 0).typ.isPseudo = false := by
  rw [hd.rootCompound]; rfl

/-- the invariant: before the first step, or the root is active -/
def RootInv (e : EState) : Prop := e.pristine = true ∨ 0 ∈ e.config

theorem large_step_rootInv (c : Chart) (hc : Coh c) (hk : EOK c) (hd : DOK c) (e : EState) (h : RootInv e) :
    RootInv (Large.step c e).1 := by
  have hfirst : ∀ e' : EState, 0 ∈ (Large.microstep c e' (Large.st c 0).completion [] [] []).config := by
    intro e'
    rw [microstep_config_entry]
    obtain ⟨g, hg, h0⟩ := root_target c hd
    have hf := (entryOf_facts c hc hk hd e' (Large.st c 0).completion [] [] (hk.complLt 0) hd.rootComplAsc).2.1 g hg
    exact Or.inr ⟨hf.2 0 h0, root_not_pseudo c hd⟩
  unfold Large.step
  by_cases hf : e.finished = true
  · rw [if_pos hf]; exact h
  · rw [if_neg hf]
    by_cases ht : e.topLevelFinal = true
    · rw [if_pos ht]; exact h
    · rw [if_neg ht]
      by_cases hp : e.pristine = true
      · rw [if_pos hp]; exact Or.inr (hfirst _)
      · rw [if_neg hp]
        have hr : 0 ∈ e.config := by
          rcases h with h | h
          · exact absurd h hp
          · exact h
        have := large_step_root c e hr
        unfold Large.step at this
        rw [if_neg hf, if_neg ht, if_neg hp] at this
        exact Or.inr this

theorem fast_step_rootInv (c : Chart) (hc : Coh c) (hk : EOK c) (hd : DOK c) (e : EState) (h : RootInv e) :
    RootInv (Fast.step c e).1 := by
  have hfirst : ∀ e' : EState, 0 ∈ (Fast.microstep c e' (Large.st c 0).completion [] [] []).config := by
    intro e'
    rw [fast_microstep_config_entry]
    obtain ⟨g, hg, h0⟩ := root_target c hd
    obtain ⟨G, htg, _, hrest, _, _⟩ := entryOfF_facts c hc hk hd e' (Large.st c 0).completion [] [] (hk.complLt 0) hd.rootComplAsc
    have h0G := (htg g hg).2 0 h0
    rcases hrest 0 h0G with h1 | h1
    · exact Or.inr ⟨h1, root_not_pseudo c hd⟩
    · rw [root_not_pseudo c hd] at h1; cases h1
  unfold Fast.step
  by_cases hf : e.finished = true
  · rw [if_pos hf]; exact h
  · rw [if_neg hf]
    by_cases ht : e.topLevelFinal = true
    · rw [if_pos ht]; exact h
    · rw [if_neg ht]
      by_cases hp : e.pristine = true
      · rw [if_pos hp]; exact Or.inr (hfirst _)
      · rw [if_neg hp]
        have hr : 0 ∈ e.config := by
          rcases h with h | h
          · exact absurd h hp
          · exact h
        have := fast_step_root c e hr
        unfold Fast.step at this
        rw [if_neg hf, if_neg ht, if_neg hp] at this
        exact Or.inr this

section run
variable (c : Chart) (hc : Coh c) (hk : EOK c) (hd : DOK c)
include hc hk hd

theorem stepObserved_rootInv (eng : Engine) (a : Api) (h : RootInv a.e) : RootInv (stepObserved eng c a).1.e := by
  unfold stepObserved stepOnce
  simp only
  split
  · exact h
  · cases eng
    · exact large_step_rootInv c hc hk hd a.e h
    · exact fast_step_rootInv c hc hk hd a.e h

theorem quiesce_rootInv (eng : Engine) (fuel : Nat) (a : Api) (h : RootInv a.e) : RootInv (quiesce eng c fuel a).e := by
  induction fuel generalizing a with
  | zero => exact h
  | succ n ih =>
    unfold quiesce
    simp only
    split
    · exact stepObserved_rootInv c hc hk hd eng a h
    · exact ih _ (stepObserved_rootInv c hc hk hd eng a h)

theorem apply_rootInv (eng : Engine) (s : Session) (op : Op) (h : RootInv s.a.e) : RootInv (apply eng c s op).a.e := by
  cases op with
  | step => exact stepObserved_rootInv c hc hk hd eng s.a h
  | quiesce => exact quiesce_rootInv c hc hk hd eng cap s.a h
  | receive ev => exact h
  | cancel => exact h
  | getState => exact h
  | inject ev => exact h
  | reset => exact Or.inl rfl
  | destroy => exact Or.inl rfl

theorem run_rootInv (eng : Engine) (ops : List Op) : RootInv (run eng c ops).a.e := by
  unfold run
  exact foldl_pres (fun s : Session => RootInv s.a.e) (apply eng c) (fun s op hs => apply_rootInv c hc hk hd eng s op hs) ops {} (Or.inl rfl)

end run

end UscxmlVerif.Proofs.RootActive
