import UscxmlVerif.Proofs.XorRun
/-!
# The decidable form of `XOK`, and more chart conditions used for the legality theorem
-/
namespace UscxmlVerif.Proofs.XorOk
open UscxmlVerif UscxmlVerif.Model UscxmlVerif.Model.Large UscxmlVerif.Proofs.Struct UscxmlVerif.Proofs.EntryClosed
  UscxmlVerif.Proofs.CfgInv UscxmlVerif.Proofs.Down UscxmlVerif.Proofs.Xor

def compatibleB (c : Chart) (k1 k2 : Nat) : Bool :=
  (chain c k1).all (fun a => (chain c k2).all (fun b =>
    match (Large.st c a).parent, (Large.st c b).parent with
    | some q, some q' => !(q == q' && (Large.st c q).typ == .compound) || a == b
    | _, _ => true))

theorem compatible_of_B {c : Chart} {k1 k2 : Nat} (h : compatibleB c k1 k2 = true) : Compatible c k1 k2 := by
  intro a ha b hb q hpa hpb hq
  unfold compatibleB at h
  rw [List.all_eq_true] at h
  have h1 := h a ha
  rw [List.all_eq_true] at h1
  have h2 := h1 b hb
  rw [hpa, hpb] at h2
  simp only [beq_self_eq_true, Bool.true_and, Bool.or_eq_true, Bool.not_eq_eq_eq_not, Bool.not_true, beq_iff_eq] at h2
  rcases h2 with h3 | h3
  · rw [hq] at h3; simp at h3
  · exact h3

/-- decidable chart conditions of the "at most one child" theorem and of the legality theorem -/
def XorOk (c : Chart) : Bool :=
  (List.range c.states.size).all (fun s =>
    (Large.st c s).typ != .initial &&
    (Large.st c s).trans.all (fun ti => (Large.tr c ti).source == s) &&
    (Large.st c s).completion.all (fun k1 => (Large.st c s).completion.all (fun k2 => compatibleB c k1 k2)) &&
    decide ((Large.st c s).children.Nodup) &&
    (!(Large.st c s).kind.isProper || !(Large.st c s).typ.isPseudo) &&
    ((Large.st c s).typ != .parallel || !(Large.st c s).completion.isEmpty)) &&
  (List.range c.trans.size).all (fun i =>
    (Large.tr c i).targets.all (fun g1 => (Large.tr c i).targets.all (fun g2 => compatibleB c g1 g2)))

/-- the extra facts for the legality theorem -/
structure LOK (c : Chart) : Prop where
  childNodup : ∀ s, (Large.st c s).children.Nodup
  properNotPseudo : ∀ s, (Large.st c s).kind.isProper = true → (Large.st c s).typ.isPseudo = false
  parNonempty : ∀ s, (Large.st c s).typ = .parallel → (Large.st c s).completion ≠ []

theorem xok_of_xorOk {c : Chart} (h : XorOk c = true) : XOK c ∧ LOK c := by
  unfold XorOk at h
  simp only [Bool.and_eq_true, List.all_eq_true, List.mem_range, bne_iff_ne, ne_eq, beq_iff_eq, decide_eq_true_eq,
    Bool.or_eq_true, Bool.not_eq_eq_eq_not, Bool.not_true] at h
  obtain ⟨hst, htr⟩ := h
  have dtyp : (default : St).typ = .atomic := rfl
  have dtrans : (default : St).trans = [] := rfl
  have dcompl : (default : St).completion = [] := rfl
  have dch : (default : St).children = [] := rfl
  have dkind : (default : St).kind = .scxml := rfl
  refine ⟨⟨?_, ?_, ?_, ?_⟩, ⟨?_, ?_, ?_⟩⟩
  · intro s
    by_cases hs : s < c.states.size
    · exact (hst s hs).1.1.1.1.1
    · rw [st_oor c s hs, dtyp]; intro hh; cases hh
  · intro v k1 hk1 k2 hk2
    by_cases hs : v < c.states.size
    · exact compatible_of_B ((hst v hs).1.1.1.2 k1 hk1 k2 hk2)
    · rw [st_oor c v hs, dcompl] at hk1; cases hk1
  · intro i g1 hg1 g2 hg2
    by_cases hi : i < c.trans.size
    · exact compatible_of_B (htr i hi g1 hg1 g2 hg2)
    · rw [tr_oor c i hi] at hg1
      have : (default : Tr).targets = [] := rfl
      rw [this] at hg1; cases hg1
  · intro s ti hti
    by_cases hs : s < c.states.size
    · exact (hst s hs).1.1.1.1.2 ti hti
    · rw [st_oor c s hs, dtrans] at hti; cases hti
  · intro s
    by_cases hs : s < c.states.size
    · exact (hst s hs).1.1.2
    · rw [st_oor c s hs, dch]; exact List.nodup_nil
  · intro s hp
    by_cases hs : s < c.states.size
    · rcases (hst s hs).1.2 with h1 | h1
      · rw [hp] at h1; cases h1
      · exact h1
    · rw [st_oor c s hs, dtyp]; rfl
  · intro s ht
    by_cases hs : s < c.states.size
    · rcases (hst s hs).2 with h1 | h1
      · exact absurd ht h1
      · intro hnil
        rw [hnil] at h1
        simp at h1
    · rw [st_oor c s hs, dtyp] at ht; cases ht

end UscxmlVerif.Proofs.XorOk
