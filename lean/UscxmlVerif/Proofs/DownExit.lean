import UscxmlVerif.Proofs.Down
/-!
# What selection exits respects the structure

A state that stays active although one of its children is exited is the domain of a selected transition:
no parallel state, and an ancestor of that transition's targets (so it is in the entry set).
-/
namespace UscxmlVerif.Proofs.DownExit
open UscxmlVerif UscxmlVerif.Model UscxmlVerif.Model.Large UscxmlVerif.Proofs.Struct UscxmlVerif.Proofs.ExitClosed
  UscxmlVerif.Proofs.EntryClosed UscxmlVerif.Proofs.CfgInv UscxmlVerif.Proofs.Select UscxmlVerif.Proofs.Down
  UscxmlVerif.Proofs.Interval UscxmlVerif.Proofs.ExitSet UscxmlVerif.Proofs.Parents

/-- the transition domain lies above every target and is no parallel state -/
theorem domain_covers (c : Chart) (h : Coh c) (t : Tr) (p : PlainTrans c t) (d : Nat) (hd : T.transitionDomain c t = some d) :
    (∀ g ∈ t.targets, T.isDescendant c g d = true) ∧ (T.st c d).kind ≠ .parallel := by
  have hs0 := src_ne_root c h t p
  have hsrc : T.sourceState c t = t.source := by
    unfold Model.Tables.sourceState
    rcases p.srcKind with hk | hk <;> rw [hk] <;> rfl
  unfold Model.Tables.transitionDomain at hd
  split at hd
  · cases hd
  · simp only at hd
    rw [hsrc] at hd
    split at hd
    · rename_i hcond
      simp only [Option.some.injEq] at hd
      subst hd
      simp only [Bool.and_eq_true, List.all_eq_true] at hcond
      refine ⟨hcond.2, ?_⟩
      have := hcond.1.2
      unfold Model.Tables.isCompound at this
      simp only [Bool.and_eq_true, bne_iff_ne, ne_eq] at this
      exact this.1.2
    · unfold Model.Tables.findLCCA at hd
      simp only at hd
      rw [properAncestors_all c h t.source hs0 p.srcRange] at hd
      split at hd
      · rename_i a hf
        simp only [Option.some.injEq] at hd
        subst hd
        have hpred := List.find?_some hf
        simp only [Bool.and_eq_true, List.all_eq_true, List.mem_cons, forall_eq_or_imp] at hpred
        refine ⟨fun g hg => hpred.2.2 g hg, ?_⟩
        have := hpred.1
        unfold Model.Tables.isCompound at this
        simp only [Bool.and_eq_true, bne_iff_ne, ne_eq] at this
        exact this.1.2
      · obtain ⟨l, hl, _⟩ := ancs_shape c h t.source hs0 p.srcRange
        rw [hl] at hd
        simp only [List.getLast?_append, List.getLast?_singleton, Option.some_or, Option.some.injEq] at hd
        subst hd
        refine ⟨fun g hg => desc_root c h g (p.tgt g hg).1 (p.tgt g hg).2.1, ?_⟩
        rw [h.rootKind]
        intro hh; cases hh

/-- the exit set of a set of plain transitions whose targets are all in `t` respects the structure -/
theorem exit_respects (c : Chart) (hcoh : Coherent c = true) (hi : IntervalOK c = true) (hd : DOK c)
    (config X transSet t : List Nat) (hcfg : ConfigOk c config)
    (hinv : ∀ s, s ∈ X ↔ ∃ ti ∈ transSet, s ∈ config ∧ (exitSet c (Large.tr c ti)).1 ≠ 0 ∧
      (exitSet c (Large.tr c ti)).1 ≤ s ∧ s ≤ (exitSet c (Large.tr c ti)).2)
    (hplain : ∀ i ∈ transSet, Properties.C05.plainTrans c (T.tr c i) = true)
    (htin : ∀ i ∈ transSet, ∀ g ∈ (Large.tr c i).targets, g ∈ t) :
    ExitRespects c config t X := by
  have hc := coh_of_coherent hcoh
  intro ch hch s hp hsc hsx
  obtain ⟨ti, hti, hchc, h0, h1, h2⟩ := (hinv ch).mp hch
  have hpl := (Properties.C05.plain_of_plainTrans (hplain ti hti)).1
  have htr : Large.tr c ti = T.tr c ti := rfl
  -- the domain of the transition
  have hdom : ∃ d, T.transitionDomain c (T.tr c ti) = some d := by
    cases hdd : T.transitionDomain c (T.tr c ti) with
    | none =>
      exfalso
      have : exitSet c (Large.tr c ti) = (0, 0) := by
        unfold Large.exitSet
        rw [htr, large_domain_eq c hc _ hpl, hdd]
      rw [this] at h0
      exact h0 rfl
    | some d => exact ⟨d, rfl⟩
  obtain ⟨d, hdd⟩ := hdom
  obtain ⟨hdlt, hdp⟩ := domain_proper c hc _ hpl d hdd
  have hex : exitSet c (Large.tr c ti) = ival c d := by
    unfold Large.exitSet ival
    rw [htr, large_domain_eq c hc _ hpl, hdd]
    rfl
  rw [hex] at h1 h2
  have hchlt := (hcfg ch hchc).1
  have hslt := (hcfg s hsc).1
  have hchd : hasAnc c ch d = true := (intervalOK_spec hi hdlt hchlt hdp).mpr ⟨h1, h2⟩
  -- ch's ancestors are s and s's ancestors
  have hch0 : ch ≠ 0 := by
    intro h00
    subst h00
    have : Large.st c 0 = T.st c 0 := rfl
    rw [this, hc.rootParent] at hp; cases hp
  obtain ⟨q, hq, _, hcons⟩ := Proofs.Subtree.ancs_cons c hc ch hch0 hchlt
  have e1 : Large.st c ch = T.st c ch := rfl
  rw [e1, hq] at hp
  simp only [Option.some.injEq] at hp
  subst hp
  have hdmem : d ∈ T.ancs c ch := by
    unfold hasAnc at hchd
    rw [ancs_eq] at hchd
    exact List.contains_iff_mem.mp hchd
  rw [hcons] at hdmem
  have hds : d = q := by
    rcases List.mem_cons.mp hdmem with h | h
    · exact h
    · exfalso
      -- then q lies in the exit interval too, and is active: it would be exited
      have hqd : hasAnc c q d = true := by
        unfold hasAnc
        rw [ancs_eq]
        exact List.contains_iff_mem.mpr h
      have := (intervalOK_spec hi hdlt hslt hdp).mp hqd
      apply hsx
      exact (hinv q).mpr ⟨ti, hti, hsc, h0, by rw [hex]; exact this.1, by rw [hex]; exact this.2⟩
  subst hds
  obtain ⟨hcov, hkind⟩ := domain_covers c hc _ hpl d hdd
  refine ⟨?_, ?_⟩
  · intro htp
    have := hd.parKind d htp
    have e2 : Large.st c d = T.st c d := rfl
    rw [e2] at this
    exact hkind this
  · -- a target exists (the domain is defined), and the domain is above it
    have hne : (T.tr c ti).targets ≠ [] := by
      intro hnil
      unfold Model.Tables.transitionDomain at hdd
      rw [hnil] at hdd
      simp at hdd
    cases htg : (T.tr c ti).targets with
    | nil => exact absurd htg hne
    | cons g rest =>
      have hg : g ∈ (T.tr c ti).targets := by rw [htg]; exact List.mem_cons_self
      refine ⟨g, htin ti hti g hg, ?_⟩
      have := hcov g hg
      unfold Model.Tables.isDescendant at this
      rw [ancs_eq]
      exact List.contains_iff_mem.mp this

end UscxmlVerif.Proofs.DownExit
