import UscxmlVerif.Model.Api
/-!
# Invariants of the active configuration that hold for every chart (first part of C02)

`_configuration` of both engines is a set of states in document order: strictly ascending (so
duplicate-free) and free of pseudo-states (history / initial), after every step, for every chart
and every sequence of API operations. These are the clauses of `Spec.Legal.legal` that need no
assumption about the chart; the others (parent closure, one child per compound state, all
children of a parallel, an atomic state) are decided by the correspondence suites.
-/
namespace UscxmlVerif.Proofs.CfgInv
open UscxmlVerif UscxmlVerif.Model UscxmlVerif.Model.Large UscxmlVerif.Model.Api

def Asc (l : List Nat) : Prop := l.Pairwise (· < ·)

def CfgOk (c : Chart) (cfg : List Nat) : Prop := Asc cfg ∧ ∀ s ∈ cfg, (st c s).typ.isPseudo = false

theorem mem_ins (a : Nat) : ∀ (l : List Nat) (x : Nat), x ∈ ins a l ↔ x = a ∨ x ∈ l := by
  intro l
  induction l with
  | nil => intro x; simp [ins]
  | cons b bs ih =>
    intro x
    unfold ins
    split
    · simp
    · split
      · rename_i _ hab
        have : a = b := by simpa using hab
        subst this
        simp
      · simp only [List.mem_cons, ih]
        constructor
        · rintro (h | h | h)
          · exact Or.inr (Or.inl h)
          · exact Or.inl h
          · exact Or.inr (Or.inr h)
        · rintro (h | h | h)
          · exact Or.inr (Or.inl h)
          · exact Or.inl h
          · exact Or.inr (Or.inr h)

theorem asc_ins (a : Nat) : ∀ (l : List Nat), Asc l → Asc (ins a l) := by
  intro l
  induction l with
  | nil => intro _; simp [ins, Asc]
  | cons b bs ih =>
    intro h
    unfold Asc at h
    rw [List.pairwise_cons] at h
    unfold ins
    split
    · rename_i hab
      unfold Asc
      rw [List.pairwise_cons]
      refine ⟨?_, List.pairwise_cons.mpr h⟩
      intro x hx
      rcases List.mem_cons.mp hx with hx | hx
      · omega
      · have := h.1 x hx; omega
    · split
      · exact List.pairwise_cons.mpr h
      · rename_i hlt hne
        have hne' : a ≠ b := by simpa using hne
        unfold Asc
        rw [List.pairwise_cons]
        refine ⟨?_, ih h.2⟩
        intro x hx
        rcases (mem_ins a bs x).mp hx with hx | hx
        · omega
        · exact h.1 x hx

theorem cfgok_ins (c : Chart) (s : Nat) (cfg : List Nat) (h : CfgOk c cfg) (hs : (st c s).typ.isPseudo = false) :
    CfgOk c (ins s cfg) := by
  refine ⟨asc_ins s cfg h.1, ?_⟩
  intro x hx
  rcases (mem_ins s cfg x).mp hx with hx | hx
  · rw [hx]; exact hs
  · exact h.2 x hx

theorem cfgok_filter (c : Chart) (p : Nat → Bool) (cfg : List Nat) (h : CfgOk c cfg) : CfgOk c (cfg.filter p) :=
  ⟨List.Pairwise.filter p h.1, fun x hx => h.2 x (List.mem_filter.mp hx).1⟩

theorem foldl_pres {α β} (P : α → Prop) (f : α → β → α) (h : ∀ a b, P a → P (f a b)) (l : List β) (a : α) (ha : P a) :
    P (l.foldl f a) := by
  induction l generalizing a with
  | nil => exact ha
  | cons b bs ih => exact ih _ (h a b ha)

def EOk (c : Chart) (e : EState) : Prop := CfgOk c e.config

theorem large_enterState_ok (c : Chart) (ts : List Nat) (e : EState) (s : Nat) (h : EOk c e) :
    EOk c (Large.enterState c ts e s) := by
  unfold Large.enterState EOk
  simp only
  split
  · exact h
  · rename_i hp
    have hp' : (st c s).typ.isPseudo = false := by simpa using hp
    have hok := cfgok_ins c s e.config h hp'
    repeat' split
    all_goals exact hok

theorem fast_enterState_ok (c : Chart) (ts : List Nat) (e : EState) (s : Nat) (h : EOk c e) :
    EOk c (Fast.enterState c ts e s) := by
  unfold Fast.enterState EOk
  simp only
  split
  · exact h
  · split
    · exact h
    · rename_i _ hp
      have hp' : (st c s).typ.isPseudo = false := by simpa using hp
      have hok := cfgok_ins c s e.config h hp'
      repeat' split
      all_goals exact hok

theorem large_microstep_ok (c : Chart) (e : EState) (t xs ts : List Nat) (o : List (Nat × Nat)) (h : EOk c e) :
    EOk c (Large.microstep c e t xs ts o) := by
  unfold Large.microstep
  simp only
  have h1 : ∀ (l : List Nat) (b : EState), EOk c b → EOk c (l.foldl (fun e s =>
      { e with config := e.config.filter (· != s), configPF := pfErase c s e.configPF,
               x := (execBlocks c e.config (st c s).onexit (e.x.emit (.bx ((st c s).id)))).emit (.ax ((st c s).id)) }) b) := by
    intro l b hb
    refine foldl_pres (EOk c) _ ?_ l b hb
    intro a s ha
    exact cfgok_filter c _ a.config ha
  have h2 : ∀ (l : List Nat) (b : EState), EOk c b → EOk c (l.foldl (fun e ti =>
      if (tr c ti).isHistory || (tr c ti).isInitial then e
      else { e with x := takeTrans c e.config ti e.x }) b) := by
    intro l b hb
    refine foldl_pres (EOk c) _ (fun a ti ha => ?_) l b hb
    split
    · exact ha
    · exact ha
  have h3 : ∀ (l : List Nat) (ts' : List Nat) (b : EState), EOk c b → EOk c (l.foldl (Large.enterState c ts') b) :=
    fun l ts' b hb => foldl_pres (EOk c) _ (fun a s ha => large_enterState_ok c ts' a s ha) l b hb
  split <;> exact h3 _ _ _ (h2 _ _ (h1 _ _ h))

theorem fast_microstep_ok (c : Chart) (e : EState) (t xs ts : List Nat) (o : List (Nat × Nat)) (h : EOk c e) :
    EOk c (Fast.microstep c e t xs ts o) := by
  unfold Fast.microstep
  simp only
  have h1 : ∀ (l : List Nat) (b : EState), EOk c b → EOk c (l.foldl (fun e s =>
      { e with config := e.config.filter (· != s),
               x := (execBlocks c e.config (st c s).onexit (e.x.emit (.bx ((st c s).id)))).emit (.ax ((st c s).id)) }) b) := by
    intro l b hb
    refine foldl_pres (EOk c) _ ?_ l b hb
    intro a s ha
    exact cfgok_filter c _ a.config ha
  have h2 : ∀ (l : List Nat) (b : EState), EOk c b → EOk c (l.foldl (fun e ti =>
      if (tr c ti).isHistory || (tr c ti).isInitial then e
      else { e with x := takeTrans c e.config ti e.x }) b) := by
    intro l b hb
    refine foldl_pres (EOk c) _ (fun a ti ha => ?_) l b hb
    split
    · exact ha
    · exact ha
  have h3 : ∀ (l : List Nat) (ts' : List Nat) (b : EState), EOk c b → EOk c (l.foldl (Fast.enterState c ts') b) :=
    fun l ts' b hb => foldl_pres (EOk c) _ (fun a s ha => fast_enterState_ok c ts' a s ha) l b hb
  split <;> exact h3 _ _ _ (h2 _ _ (h1 _ _ h))

theorem large_selectAndStep_ok (c : Chart) (e : EState) (ev : Option String) (h : EOk c e) :
    EOk c (Large.selectAndStep c e ev).1 := by
  unfold Large.selectAndStep
  simp only
  split
  · exact h
  · exact large_microstep_ok c _ _ _ _ _ h

theorem fast_selectAndStep_ok (c : Chart) (e : EState) (ev : Option String) (h : EOk c e) :
    EOk c (Fast.selectAndStep c e ev).1 := by
  unfold Fast.selectAndStep
  simp only
  split
  · exact h
  · exact fast_microstep_ok c _ _ _ _ _ h

theorem large_step_ok (c : Chart) (e : EState) (h : EOk c e) : EOk c (Large.step c e).1 := by
  unfold Large.step
  simp only
  repeat' split
  all_goals first
    | exact h
    | exact large_microstep_ok c _ _ _ _ _ h
    | exact large_selectAndStep_ok c _ _ h

theorem fast_step_ok (c : Chart) (e : EState) (h : EOk c e) : EOk c (Fast.step c e).1 := by
  unfold Fast.step
  simp only
  repeat' split
  all_goals first
    | exact h
    | exact fast_microstep_ok c _ _ _ _ _ h
    | exact fast_selectAndStep_ok c _ _ h

theorem engineStep_ok (eng : Engine) (c : Chart) (e : EState) (h : EOk c e) : EOk c (engineStep eng c e).1 := by
  cases eng
  · exact large_step_ok c e h
  · exact fast_step_ok c e h

theorem stepObserved_ok (eng : Engine) (c : Chart) (a : Api) (h : EOk c a.e) : EOk c (stepObserved eng c a).1.e := by
  unfold stepObserved stepOnce
  simp only
  split
  · exact h
  · exact engineStep_ok eng c a.e h

theorem quiesce_ok (eng : Engine) (c : Chart) (fuel : Nat) (a : Api) (h : EOk c a.e) : EOk c (quiesce eng c fuel a).e := by
  induction fuel generalizing a with
  | zero => exact h
  | succ n ih =>
    unfold quiesce
    simp only
    split
    · exact stepObserved_ok eng c a h
    · exact ih _ (stepObserved_ok eng c a h)

theorem apply_ok (eng : Engine) (c : Chart) (s : Session) (op : Op) (h : EOk c s.a.e) : EOk c (apply eng c s op).a.e := by
  have h0 : EOk c ({} : Api).e := ⟨List.Pairwise.nil, fun x hx => by cases hx⟩
  cases op with
  | step => exact stepObserved_ok eng c s.a h
  | quiesce => exact quiesce_ok eng c cap s.a h
  | receive ev => exact h
  | cancel => exact h
  | getState => exact h
  | inject ev => exact h
  | reset => exact h0
  | destroy => exact h0

theorem run_ok (eng : Engine) (c : Chart) (ops : List Op) : EOk c (run eng c ops).a.e := by
  unfold run
  have h0 : EOk c ({} : Session).a.e := ⟨List.Pairwise.nil, fun x hx => by cases hx⟩
  exact foldl_pres (fun s : Session => EOk c s.a.e) (apply eng c) (fun s op hs => apply_ok eng c s op hs) ops {} h0

end UscxmlVerif.Proofs.CfgInv
