import UscxmlVerif.Proofs.Interval
/-!
# The states LargeMicroStep exits in a micro-step are Appendix D's exit set

`Sel.exitSet` accumulates, for every selected transition, the active states inside its exit
interval. As a set this is `computeExitSet` of Appendix D for the selected transitions.
-/
namespace UscxmlVerif.Proofs.ExitSet
open UscxmlVerif UscxmlVerif.Model UscxmlVerif.Model.Large UscxmlVerif.Proofs.Struct UscxmlVerif.Proofs.Select
  UscxmlVerif.Proofs.Interval UscxmlVerif.Proofs.CfgInv

/-- what `sel.exitSet` holds: the active states inside the exit interval of some selected transition -/
def ExitInv (c : Chart) (config : List Nat) (sel : Sel) : Prop :=
  ∀ s, s ∈ sel.exitSet ↔ ∃ t ∈ sel.transSet, s ∈ config ∧ (exitSet c (tr c t)).1 ≠ 0 ∧
    (exitSet c (tr c t)).1 ≤ s ∧ s ≤ (exitSet c (tr c t)).2

theorem exitInv_add (c : Chart) (config : List Nat) (sel : Sel) (ti : Nat) (h : ExitInv c config sel)
    (sel' : Sel) (hts : sel'.transSet = ins ti sel.transSet)
    (hes : sel'.exitSet = if (exitSet c (tr c ti)).1 != 0 then
        insAll (config.filter (fun s => decide ((exitSet c (tr c ti)).1 ≤ s) && decide (s ≤ (exitSet c (tr c ti)).2))) sel.exitSet
      else sel.exitSet) : ExitInv c config sel' := by
  intro s
  rw [hes, hts]
  by_cases h0 : (exitSet c (tr c ti)).1 = 0
  · have : ((exitSet c (tr c ti)).1 != 0) = false := by simp [h0]
    rw [this]
    simp only [Bool.false_eq_true, ↓reduceIte]
    rw [h s]
    constructor
    · rintro ⟨t, ht, hr⟩
      exact ⟨t, (mem_ins ti _ t).mpr (Or.inr ht), hr⟩
    · rintro ⟨t, ht, hr⟩
      rcases (mem_ins ti _ t).mp ht with ht | ht
      · subst ht; exact absurd h0 hr.2.1
      · exact ⟨t, ht, hr⟩
  · have : ((exitSet c (tr c ti)).1 != 0) = true := by simp [h0]
    rw [this]
    simp only [↓reduceIte]
    rw [mem_insAll, h s]
    simp only [List.mem_filter, Bool.and_eq_true, decide_eq_true_eq]
    constructor
    · rintro (⟨hc, h1, h2⟩ | ⟨t, ht, hr⟩)
      · exact ⟨ti, (mem_ins ti _ ti).mpr (Or.inl rfl), hc, h0, h1, h2⟩
      · exact ⟨t, (mem_ins ti _ t).mpr (Or.inr ht), hr⟩
    · rintro ⟨t, ht, hr⟩
      rcases (mem_ins ti _ t).mp ht with ht | ht
      · subst ht; exact Or.inl ⟨hr.1, hr.2.2.1, hr.2.2.2⟩
      · exact Or.inr ⟨t, ht, hr⟩

theorem exitInv_same (c : Chart) (config : List Nat) (sel sel' : Sel) (h : ExitInv c config sel)
    (hts : sel'.transSet = sel.transSet) (hes : sel'.exitSet = sel.exitSet) : ExitInv c config sel' := by
  intro s; rw [hes, hts]; exact h s

theorem large_selectInState_exit (c : Chart) (config : List Nat) (ev : Option String) (s : Nat) :
    ∀ (l : List Nat) (sel : Sel), ExitInv c config sel → ExitInv c config (selectInState c config ev s l sel) := by
  intro l
  induction l with
  | nil => intro sel h; exact h
  | cons ti rest ih =>
    intro sel h
    unfold selectInState
    simp only
    repeat' split
    all_goals first
      | exact ih _ h
      | exact ih _ (exitInv_same c config sel _ h rfl rfl)
      | exact exitInv_same c config sel _ h rfl rfl
      | exact exitInv_add c config sel ti h _ rfl rfl
      | exact exitInv_add c config sel ti h _ rfl (by rw [if_pos (by assumption)])
      | exact exitInv_add c config sel ti h _ rfl (by rw [if_neg (by assumption)])

theorem large_selectLoop_exit (c : Chart) (config : List Nat) (ev : Option String) :
    ∀ (l : List Nat) (sel : Sel), ExitInv c config sel → ExitInv c config (Large.selectLoop c config ev l sel) := by
  intro l
  induction l with
  | nil => intro sel h; exact h
  | cons s rest ih =>
    intro sel h
    unfold Large.selectLoop
    split
    · exact ih sel h
    · exact ih _ (large_selectInState_exit c config ev s _ sel h)


/-! ## Appendix D's `computeExitSet`, as a set -/

theorem w_computeExitSet_mem (c : Chart) (S : Spec.W3C.SState) (ts : List Nat) (x : Nat) :
    x ∈ W.computeExitSet c S ts ↔ ∃ ti ∈ ts, (Spec.W3C.tr c ti).targets.isEmpty = false ∧
      ∃ d, W.getTransitionDomain c S.q.histDomainRaw S.hist (Spec.W3C.tr c ti) = some d ∧ x ∈ S.config ∧ W.isDescendant c x d = true := by
  unfold Spec.W3C.computeExitSet
  suffices hgen : ∀ (acc : List Nat), x ∈ ts.foldl (fun acc ti =>
      if !(Spec.W3C.tr c ti).targets.isEmpty then
        match W.getTransitionDomain c S.q.histDomainRaw S.hist (Spec.W3C.tr c ti) with
        | some d => S.config.foldl (fun acc k => if W.isDescendant c k d then W.addSet acc k else acc) acc
        | none => acc
      else acc) acc ↔ x ∈ acc ∨ ∃ ti ∈ ts, (Spec.W3C.tr c ti).targets.isEmpty = false ∧
        ∃ d, W.getTransitionDomain c S.q.histDomainRaw S.hist (Spec.W3C.tr c ti) = some d ∧ x ∈ S.config ∧ W.isDescendant c x d = true by
    have := hgen []
    simp only [List.not_mem_nil, false_or] at this
    exact this
  induction ts with
  | nil => intro acc; simp
  | cons t rest ih =>
    intro acc
    simp only [List.foldl_cons]
    rw [ih]
    by_cases he : (Spec.W3C.tr c t).targets.isEmpty = true
    · have : (!(Spec.W3C.tr c t).targets.isEmpty) = false := by simp [he]
      rw [this]
      simp only [Bool.false_eq_true, ↓reduceIte, List.mem_cons]
      constructor
      · rintro (h | ⟨ti, hti, hr⟩)
        · exact Or.inl h
        · exact Or.inr ⟨ti, Or.inr hti, hr⟩
      · rintro (h | ⟨ti, hti, hr⟩)
        · exact Or.inl h
        · rcases hti with hti | hti
          · subst hti; rw [he] at hr; cases hr.1
          · exact Or.inr ⟨ti, hti, hr⟩
    · have he' : (Spec.W3C.tr c t).targets.isEmpty = false := by simpa using he
      have : (!(Spec.W3C.tr c t).targets.isEmpty) = true := by simp [he']
      rw [this]
      simp only [↓reduceIte, List.mem_cons]
      cases hd : W.getTransitionDomain c S.q.histDomainRaw S.hist (Spec.W3C.tr c t) with
      | none =>
        simp only
        constructor
        · rintro (h | ⟨ti, hti, hr⟩)
          · exact Or.inl h
          · exact Or.inr ⟨ti, Or.inr hti, hr⟩
        · rintro (h | ⟨ti, hti, hr⟩)
          · exact Or.inl h
          · rcases hti with hti | hti
            · subst hti
              obtain ⟨_, d, hdd, _⟩ := hr
              rw [hd] at hdd; cases hdd
            · exact Or.inr ⟨ti, hti, hr⟩
      | some d =>
        simp only
        rw [mem_foldl_filter_addSet]
        constructor
        · rintro ((h | ⟨h1, h2⟩) | ⟨ti, hti, hr⟩)
          · exact Or.inl h
          · exact Or.inr ⟨t, Or.inl rfl, he', d, hd, h1, h2⟩
          · exact Or.inr ⟨ti, Or.inr hti, hr⟩
        · rintro (h | ⟨ti, hti, hr⟩)
          · exact Or.inl (Or.inl h)
          · rcases hti with hti | hti
            · subst hti
              obtain ⟨_, d', hdd, h1, h2⟩ := hr
              rw [hd] at hdd
              simp only [Option.some.injEq] at hdd
              subst hdd
              exact Or.inl (Or.inr ⟨h1, h2⟩)
            · exact Or.inr ⟨ti, hti, hr⟩

/-- the transition domain of a plain transition is a proper state of the chart -/
theorem domain_proper (c : Chart) (h : Coh c) (t : Tr) (p : PlainTrans c t) (d : Nat) (hd : T.transitionDomain c t = some d) :
    d < c.states.size ∧ (Large.st c d).kind.isProper = true := by
  have hs0 := src_ne_root c h t p
  have hst : ∀ k, Large.st c k = T.st c k := fun _ => rfl
  have hsrc : T.sourceState c t = t.source := by
    unfold Model.Tables.sourceState
    rcases p.srcKind with hk | hk <;> rw [hk] <;> rfl
  have hsrcProper : (Large.st c t.source).kind.isProper = true := by
    rw [hst]; rcases p.srcKind with hk | hk <;> rw [hk] <;> rfl
  obtain ⟨l, hl, hall⟩ := ancs_shape c h t.source hs0 p.srcRange
  have hmemOk : ∀ a ∈ T.ancs c t.source, a < c.states.size ∧ (Large.st c a).kind.isProper = true := by
    intro a ha
    rw [hl] at ha
    rcases List.mem_append.mp ha with ha | ha
    · refine ⟨(hall a ha).2.1, ?_⟩
      have hk := (hall a ha).2.2
      rw [hst]
      unfold parentKind at hk
      cases hkind : (T.st c a).kind <;> simp_all [Kind.isProper]
    · simp only [List.mem_singleton] at ha
      subst ha
      refine ⟨by have := p.srcRange; omega, ?_⟩
      rw [hst, h.rootKind]; rfl
  unfold Model.Tables.transitionDomain at hd
  rw [hsrc] at hd
  simp only at hd
  split at hd
  · cases hd
  · split at hd
    · simp only [Option.some.injEq] at hd
      subst hd
      exact ⟨p.srcRange, hsrcProper⟩
    · unfold Model.Tables.findLCCA at hd
      simp only at hd
      rw [properAncestors_all c h t.source hs0 p.srcRange] at hd
      split at hd
      · rename_i a hfa
        simp only [Option.some.injEq] at hd
        subst hd
        exact hmemOk a (List.mem_of_find?_eq_some hfa)
      · have hlast : d ∈ T.ancs c t.source := List.mem_of_getLast? hd
        exact hmemOk d hlast


/-- for one plain transition: "inside the non-empty exit interval" = "below Appendix D's transition domain" -/
theorem interval_iff_domain (c : Chart) (hc : Coh c) (hi : IntervalOK c = true) (S : Spec.W3C.SState) (t : Tr) (p : PlainTrans c t)
    (x : Nat) (hx : x < c.states.size) :
    ((exitSet c t).1 ≠ 0 ∧ (exitSet c t).1 ≤ x ∧ x ≤ (exitSet c t).2) ↔
      (t.targets.isEmpty = false ∧ ∃ d, W.getTransitionDomain c S.q.histDomainRaw S.hist t = some d ∧ W.isDescendant c x d = true) := by
  rw [domain_eq c hc t p]
  have hdom := large_domain_eq c hc t p
  cases hd : T.transitionDomain c t with
  | none =>
    have : exitSet c t = (0, 0) := by unfold Large.exitSet; rw [hdom, hd]
    rw [this]
    simp
  | some d =>
    have hne : t.targets.isEmpty = false := by
      unfold Model.Tables.transitionDomain at hd
      by_cases he : t.targets.isEmpty = true
      · rw [if_pos he] at hd; cases hd
      · simpa using he
    obtain ⟨hdlt, hdp⟩ := domain_proper c hc t p d hd
    have hex : exitSet c t = ival c d := by
      unfold Large.exitSet ival
      rw [hdom, hd]
      rfl
    rw [hex]
    have hiv := intervalOK_spec hi hdlt hx hdp (s := x)
    have h1 : (ival c d).1 ≠ 0 := by unfold ival; split <;> simp
    constructor
    · rintro ⟨_, h2, h3⟩
      refine ⟨hne, d, rfl, ?_⟩
      rw [desc_eq, ← hasAnc_eq]
      exact hiv.mpr ⟨h2, h3⟩
    · rintro ⟨_, d', hd', hdesc⟩
      simp only [Option.some.injEq] at hd'
      subst hd'
      rw [desc_eq, ← hasAnc_eq] at hdesc
      have := hiv.mp hdesc
      exact ⟨h1, this.1, this.2⟩

/-- **the exit set of a micro-step is Appendix D's**: on a coherent chart numbered in pre-order, with `S.config` the
configuration the engine is in and all selected transitions plain, a state is in the set LargeMicroStep is going to exit
iff it is in `computeExitSet` of the selected transitions -/
theorem large_exit_set_is_w3c (c : Chart) (hc : Coherent c = true) (hi : IntervalOK c = true)
    (config : List Nat) (ev : Option String) (pf : List Nat) (xs : XS) (S : Spec.W3C.SState) (hS : S.config = config)
    (hcfg : ConfigOk c config)
    (hplain : ∀ i ∈ (Large.selectLoop c config ev pf { x := xs }).transSet, Properties.C05.plainTrans c (T.tr c i) = true) (x : Nat) :
    x ∈ (Large.selectLoop c config ev pf { x := xs }).exitSet ↔
      x ∈ W.computeExitSet c S (Large.selectLoop c config ev pf { x := xs }).transSet := by
  have hcoh := coh_of_coherent hc
  have hinv := large_selectLoop_exit c config ev pf { x := xs } (by intro s; simp)
  rw [hinv x, w_computeExitSet_mem, hS]
  constructor
  · rintro ⟨t, ht, hxc, hr⟩
    have hp := (Properties.C05.plain_of_plainTrans (hplain t ht)).1
    have hxlt := (hcfg x hxc).1
    have htr : Large.tr c t = T.tr c t := rfl
    rw [htr] at hr
    obtain ⟨hne, d, hd, hdesc⟩ := (interval_iff_domain c hcoh hi S (T.tr c t) hp x hxlt).mp hr
    exact ⟨t, ht, hne, d, hd, hxc, hdesc⟩
  · rintro ⟨t, ht, hne, d, hd, hxc, hdesc⟩
    have hp := (Properties.C05.plain_of_plainTrans (hplain t ht)).1
    have hxlt := (hcfg x hxc).1
    have := (interval_iff_domain c hcoh hi S (T.tr c t) hp x hxlt).mpr ⟨hne, d, hd, hdesc⟩
    exact ⟨t, ht, hxc, this⟩

end UscxmlVerif.Proofs.ExitSet
