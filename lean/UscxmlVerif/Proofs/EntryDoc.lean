import UscxmlVerif.Proofs.ParentsFast
import UscxmlVerif.Proofs.Flatten
/-!
# `EntryOk` is a theorem for the flat chart of every history-free document

`flatten` numbers the nodes in pre-order; children lists, the completion of a parallel, the kinds and
types it writes and the targets it resolves are in range and consistent by construction.
-/
namespace UscxmlVerif.Proofs.EntryDoc
open UscxmlVerif UscxmlVerif.Model UscxmlVerif.Proofs.Struct UscxmlVerif.Proofs.Flatten UscxmlVerif.Proofs.EntryClosed

/-- decidable: no `<history>` element in the document -/
def NoHistDoc (d : Doc) : Bool := (d.resort.preorder none 0).all (fun x => !x.1.kind.isHistory)

theorem st_flatten_completion (d0 : Doc) (late : Bool) (i : Nat) (nd : Doc) (p : Option Nat)
    (h : (d0.resort.preorder none 0)[i]? = some (nd, p)) :
    (Large.st (flatten d0 late) i).completion = completionOf (d0.resort.preorder none 0) i nd p := by
  have hi : i < (d0.resort.preorder none 0).length := (List.getElem?_eq_some_iff.mp h).1
  have hg : (d0.resort.preorder none 0)[i] = (nd, p) := (List.getElem?_eq_some_iff.mp h).2
  unfold Large.st flatten
  simp [hi, hg]

theorem lookupId_lt (nodes : List (Doc × Option Nat)) (id : String) (j : Nat) (h : lookupId nodes id = some j) : j < nodes.length := by
  unfold lookupId at h
  exact (List.findIdx?_eq_some_iff_getElem.mp h).1

theorem mem_filterMap_lookup (nodes : List (Doc × Option Nat)) (ids : List String) (j : Nat)
    (h : j ∈ ids.filterMap (lookupId nodes)) : j < nodes.length := by
  obtain ⟨id, _, hid⟩ := List.mem_filterMap.mp h
  exact lookupId_lt nodes id j hid

theorem childrenOf_lt {nodes : List (Doc × Option Nat)} {i j : Nat} (h : j ∈ childrenOf nodes i) : j < nodes.length :=
  (mem_childrenOf h).1

theorem completionOf_lt (nodes : List (Doc × Option Nat)) (i : Nat) (nd : Doc) (p : Option Nat) :
    ∀ j ∈ completionOf nodes i nd p, j < nodes.length := by
  intro j hj
  unfold completionOf at hj
  simp only at hj
  split at hj
  · split at hj
    · exact List.mem_range.mp (List.mem_filter.mp hj).1
    · cases hj
  · split at hj
    · exact childrenOf_lt (List.mem_filter.mp hj).1
    · cases hj
  · exact childrenOf_lt (List.mem_filter.mp hj).1
  · split at hj
    · rw [List.mem_eraseDups, List.mem_mergeSort] at hj
      exact mem_filterMap_lookup nodes _ j hj
    · split at hj
      · rename_i j' hf
        rw [List.mem_singleton] at hj
        subst hj
        exact childrenOf_lt (List.mem_of_find?_eq_some hf)
      · split at hj
        · rename_i j' hf
          rw [List.mem_singleton] at hj
          subst hj
          exact childrenOf_lt (List.mem_of_find?_eq_some hf)
        · cases hj

theorem tr_flatten_targets (d0 : Doc) (late : Bool) (i g : Nat) (h : g ∈ (Large.tr (flatten d0 late) i).targets) :
    g < (d0.resort.preorder none 0).length := by
  unfold Large.tr flatten at h
  simp only [List.getElem?_toArray, List.getElem?_map] at h
  revert h
  generalize (List.flatMap _ (d0.resort.postorder 0))[i]? = q
  intro h
  cases q with
  | none =>
    simp only [Option.map_none, Option.getD_none] at h
    have : (default : Tr).targets = [] := rfl
    rw [this] at h; cases h
  | some st =>
    simp only [Option.map_some, Option.getD_some] at h
    exact mem_filterMap_lookup _ _ g h

/-- the type `flatten` writes, by kind of the element -/
theorem typOf_kind (nodes : List (Doc × Option Nat)) (i : Nat) (nd : Doc) :
    (nd.kind = .initial ∧ typOf nodes i nd = .initial) ∨ (nd.kind = .final ∧ typOf nodes i nd = .final) ∨
    (nd.kind = .history ∧ typOf nodes i nd = .histShallow) ∨ (nd.kind = .hdeep ∧ typOf nodes i nd = .histDeep) ∨
    (nd.kind = .parallel ∧ typOf nodes i nd = .parallel) ∨
    ((nd.kind = .scxml ∨ nd.kind = .state) ∧ (typOf nodes i nd = .atomic ∨ typOf nodes i nd = .compound)) := by
  unfold typOf
  cases hk : nd.kind
  case initial => exact Or.inl ⟨rfl, rfl⟩
  case final => exact Or.inr (Or.inl ⟨rfl, rfl⟩)
  case history => exact Or.inr (Or.inr (Or.inl ⟨rfl, rfl⟩))
  case hdeep => exact Or.inr (Or.inr (Or.inr (Or.inl ⟨rfl, rfl⟩)))
  case parallel => exact Or.inr (Or.inr (Or.inr (Or.inr (Or.inl ⟨rfl, rfl⟩))))
  case scxml =>
    refine Or.inr (Or.inr (Or.inr (Or.inr (Or.inr ⟨Or.inl rfl, ?_⟩))))
    simp only []
    split
    · exact Or.inl rfl
    · exact Or.inr rfl
  case state =>
    refine Or.inr (Or.inr (Or.inr (Or.inr (Or.inr ⟨Or.inr rfl, ?_⟩))))
    simp only []
    split
    · exact Or.inl rfl
    · exact Or.inr rfl

theorem entryOk_flatten (d0 : Doc) (late : Bool) (hwf : WFDoc d0 = true) (hroot : d0.kind = .scxml) (hn : NoHistDoc d0 = true) :
    EntryOk (flatten d0 late) = true := by
  have hc := coh_of_coherent (coherent_flatten d0 late hwf hroot)
  have hsz := flatten_size d0 late
  unfold EntryOk
  simp only [Bool.and_eq_true, List.all_eq_true, List.mem_range]
  refine ⟨?_, ?_⟩
  · intro s hs
    have hlt : s < (d0.resort.preorder none 0).length := by rw [← hsz]; exact hs
    have hg : (d0.resort.preorder none 0)[s]? = some ((d0.resort.preorder none 0)[s].1, (d0.resort.preorder none 0)[s].2) := by simp [hlt]
    obtain ⟨hkind, hpar, hch, htyp⟩ := st_flatten d0 late s _ _ hg
    have hcompl := st_flatten_completion d0 late s _ _ hg
    have e : Large.st (flatten d0 late) s = T.st (flatten d0 late) s := rfl
    have hnh : ((d0.resort.preorder none 0)[s].1).kind.isHistory = false := by
      unfold NoHistDoc at hn
      rw [List.all_eq_true] at hn
      have := hn _ (List.getElem_mem hlt)
      simpa using this
    generalize (d0.resort.preorder none 0)[s].1 = nd at *
    -- the parent of every listed child
    have hchild : ∀ k ∈ childrenOf (d0.resort.preorder none 0) s, (Large.st (flatten d0 late) k).parent = some s := by
      intro k hk
      obtain ⟨_, sub, hsub⟩ := mem_childrenOf hk
      exact (st_flatten d0 late k _ _ hsub).2.1
    rw [e, htyp, hkind, hch]
    have e' : (T.st (flatten d0 late) s).completion = completionOf (d0.resort.preorder none 0) s nd (d0.resort.preorder none 0)[s].2 := by
      rw [← e]; exact hcompl
    rw [e']
    have hty := typOf_kind (d0.resort.preorder none 0) s nd
    refine ⟨⟨⟨⟨⟨⟨?_, ?_⟩, ?_⟩, ?_⟩, ?_⟩, ?_⟩, ?_⟩
    · -- no history
      rcases hty with ⟨_, ht⟩ | ⟨_, ht⟩ | ⟨hk, _⟩ | ⟨hk, _⟩ | ⟨_, ht⟩ | ⟨_, ht | ht⟩
      · rw [ht]; rfl
      · rw [ht]; rfl
      · rw [hk] at hnh; cases hnh
      · rw [hk] at hnh; cases hnh
      · rw [ht]; rfl
      · rw [ht]; rfl
      · rw [ht]; rfl
    · -- completion of a parallel
      rcases hty with ⟨_, ht⟩ | ⟨_, ht⟩ | ⟨_, ht⟩ | ⟨_, ht⟩ | ⟨hk, ht⟩ | ⟨_, ht | ht⟩
      case inr.inr.inr.inr.inl =>
        simp only [Bool.or_eq_true, List.all_eq_true, beq_iff_eq]
        refine Or.inr ?_
        intro k hkc
        unfold completionOf at hkc
        rw [hk] at hkc
        simp only at hkc
        exact hchild k (List.mem_filter.mp hkc).1
      all_goals (rw [ht]; simp)
    · simp only [beq_iff_eq]
      exact hchild
    · -- pseudo-states are not parents
      rcases hty with ⟨hk, ht⟩ | ⟨hk, ht⟩ | ⟨hk, ht⟩ | ⟨hk, ht⟩ | ⟨hk, ht⟩ | ⟨hk, ht | ht⟩
      all_goals (rw [ht]; first | (rw [hk]; decide) | simp [Typ.isPseudo])
    · simp only [decide_eq_true_eq]
      intro k hk
      rw [hsz]
      exact completionOf_lt _ s nd _ k hk
    · simp only [decide_eq_true_eq]
      intro k hk
      rw [hsz]
      exact childrenOf_lt hk
    · -- kinds
      by_cases h0 : s = 0
      · simp [h0]
      · have hnr := hc.notRoot s h0 hs
        rw [hkind] at hnr
        rcases hty with ⟨hk, ht⟩ | ⟨hk, ht⟩ | ⟨hk, ht⟩ | ⟨hk, ht⟩ | ⟨hk, ht⟩ | ⟨hk | hk, ht | ht⟩
        all_goals first
          | exact absurd hk hnr
          | (rw [ht, hk]; simp [Typ.isPseudo])
  · intro i _
    simp only [decide_eq_true_eq]
    intro g hg
    rw [hsz]
    exact tr_flatten_targets d0 late i g hg

end UscxmlVerif.Proofs.EntryDoc
