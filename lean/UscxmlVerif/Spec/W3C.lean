import UscxmlVerif.Model.Exec
import UscxmlVerif.Spec.Descriptor
import UscxmlVerif.Model.Tables
/-!
# W3C SCXML 1.0, Appendix D: the algorithm for SCXML interpretation (the oracle for C01)

A functional transcription, procedure by procedure and with the Recommendation's names, over
the flat chart tables (document order = state number). Ordered sets are duplicate-free
lists in insertion order; `entryOrder` is ascending, `exitOrder` descending state number.
Executable content, queues and observations are shared with the engine models (`Model.XS`,
`Model.execBlock`): the Recommendation leaves them to "executeContent". Recursion through
history/initial targets is bounded by fuel = number of states + 1 (every chain of default
transitions in a valid document is shorter).
-/
namespace UscxmlVerif.Spec.W3C
open UscxmlVerif UscxmlVerif.Model

/-- documented deviations of the implementation (known findings), switched off in the
Recommendation's algorithm; `Properties/C01.lean` says which inputs may need them -/
structure Quirks where
  /-- the transition domain is computed from a targeted history pseudo-state itself instead of
  from its effective targets -/
  histDomainRaw : Bool := false
  /-- all history states share one set of remembered states -/
  sharedHistory : Bool := false
  /-- the transpilers' selection (recorded finding `nested-targetless`): every transition is a candidate, in post-fix order,
  and is pre-empted by an already selected one it conflicts with in the static table (intersecting exit sets, or equal /
  nested sources) - instead of one candidate per atomic state and conflicts by exit sets -/
  transpilerSelect : Bool := false
  deriving Repr, Inhabited

structure SState where
  q : Quirks := {}
  shared : List Nat := []                 -- only with `sharedHistory`
  config : List Nat := []
  hist : List (Nat × List Nat) := []      -- historyValue
  running : Bool := true
  x : XS := {}
  deriving Repr, Inhabited

def st (c : Chart) (i : Nat) : St := c.states[i]?.getD default
def tr (c : Chart) (i : Nat) : Tr := c.trans[i]?.getD default

def addSet (l : List Nat) (a : Nat) : List Nat := if l.contains a then l else l ++ [a]
def unionSet (l m : List Nat) : List Nat := m.foldl addSet l

def isAtomicState (c : Chart) (s : Nat) : Bool := (st c s).typ == .atomic || (st c s).typ == .final
def isCompoundState (c : Chart) (s : Nat) : Bool := (st c s).typ == .compound && (st c s).kind != .scxml
def isSCXMLElement (c : Chart) (s : Nat) : Bool := (st c s).kind == .scxml
def isParallelState (c : Chart) (s : Nat) : Bool := (st c s).typ == .parallel
def isHistoryState (c : Chart) (s : Nat) : Bool := (st c s).typ.isHistory
def isFinalState (c : Chart) (s : Nat) : Bool := (st c s).kind == .final

/-- proper ancestors, nearest first -/
def ancestorsOf (c : Chart) : Nat → Nat → List Nat
  | 0, _ => []
  | fuel + 1, s =>
    match (st c s).parent with
    | some p => p :: ancestorsOf c fuel p
    | none => []

/-- `getProperAncestors(state1, state2)` -/
def getProperAncestors (c : Chart) (s1 : Nat) (s2 : Option Nat) : List Nat :=
  let all := ancestorsOf c c.states.size s1
  match s2 with
  | none => all
  | some b => all.takeWhile (· != b)

def isDescendant (c : Chart) (s1 s2 : Nat) : Bool := (ancestorsOf c c.states.size s1).contains s2

/-- child *states* (no pseudo-states) -/
def getChildStates (c : Chart) (s : Nat) : List Nat :=
  (st c s).children.filter (fun k => (st c k).kind.isProper)

/-- the target list of a state's initial transition (`<initial>`, `initial` attribute, or the
first child state in document order) and the `<initial>` transition number if there is one -/
def initialOf (c : Chart) (s : Nat) : List Nat × Option Nat :=
  match (st c s).children.find? (fun k => (st c k).kind == .initial) with
  | some i =>
    match (st c i).trans with
    | ti :: _ => ((tr c ti).targets, some ti)
    | [] => ([], none)
  | none => ((st c s).completion, none)

def histValue (h : List (Nat × List Nat)) (s : Nat) : Option (List Nat) := h.lookup s

/-- `getEffectiveTargetStates` -/
def effTargets (c : Chart) (hist : List (Nat × List Nat)) : Nat → List Nat → List Nat
  | 0, _ => []
  | fuel + 1, tgts =>
    tgts.foldl (fun acc s =>
      if isHistoryState c s then
        match histValue hist s with
        | some v => unionSet acc v
        | none =>
          match (st c s).trans with
          | ti :: _ => unionSet acc (effTargets c hist fuel (tr c ti).targets)
          | [] => acc
      else addSet acc s) []

def getEffectiveTargetStates (c : Chart) (hist : List (Nat × List Nat)) (t : Tr) : List Nat :=
  effTargets c hist (c.states.size + 1) t.targets

/-- `findLCCA` -/
def findLCCA (c : Chart) (l : List Nat) : Option Nat :=
  match l with
  | [] => none
  | hd :: tl =>
    (getProperAncestors c hd none).find? (fun anc =>
      (isCompoundState c anc || isSCXMLElement c anc) && tl.all (fun s => isDescendant c s anc))

/-- `getTransitionDomain` -/
def getTransitionDomain (c : Chart) (raw : Bool) (hist : List (Nat × List Nat)) (t : Tr) : Option Nat :=
  let tstates := if raw then t.targets else getEffectiveTargetStates c hist t
  if tstates.isEmpty then none
  else if t.internal && isCompoundState c t.source && tstates.all (fun s => isDescendant c s t.source) then
    some t.source
  else findLCCA c (t.source :: tstates)

/-- `computeExitSet` -/
def computeExitSet (c : Chart) (s : SState) (ts : List Nat) : List Nat :=
  ts.foldl (fun acc ti =>
    let t := tr c ti
    if !t.targets.isEmpty then
      match getTransitionDomain c s.q.histDomainRaw s.hist t with
      | some d => s.config.foldl (fun acc k => if isDescendant c k d then addSet acc k else acc) acc
      | none => acc
    else acc) []

def exitSetOf (c : Chart) (s : SState) (ti : Nat) : List Nat := computeExitSet c s [ti]

/-- the inner loop of `removeConflictingTransitions`: `none` = `t1` is pre-empted -/
def preemptScan (c : Chart) (s : SState) (t1 : Nat) (e1 : List Nat) : List Nat → List Nat → Option (List Nat)
  | [], toRemove => some toRemove
  | t2 :: rest, toRemove =>
    if e1.any (fun k => (exitSetOf c s t2).contains k) then
      if isDescendant c (tr c t1).source (tr c t2).source then preemptScan c s t1 e1 rest (t2 :: toRemove)
      else none
    else preemptScan c s t1 e1 rest toRemove

/-- `removeConflictingTransitions` -/
def removeConflictingTransitions (c : Chart) (s : SState) (enabled : List Nat) : List Nat :=
  enabled.foldl (fun filtered t1 =>
    match preemptScan c s t1 (exitSetOf c s t1) filtered [] with
    | none => filtered
    | some toRemove => (filtered.filter (fun t => !toRemove.contains t)) ++ [t1]) []

def nameMatch (ev desc : String) : Bool :=
  Spec.Descriptor.listMatches (bytesOfString desc) (bytesOfString ev)

/-- first enabled transition among the transitions of one state, in document order -/
def scanState (c : Chart) (config : List Nat) (ev : Option String) : List Nat → XS → XS × Option Nat
  | [], x => (x, none)
  | ti :: rest, x =>
    let t := tr c ti
    if t.isHistory || t.isInitial then scanState c config ev rest x
    else
      let applicable := match ev, t.event with
        | none, none => true
        | some e, some d => nameMatch e d
        | _, _ => false
      if !applicable then scanState c config ev rest x
      else
        let (x, b) := evalCond c config x t.cond
        if b then (x, some ti) else scanState c config ev rest x

/-- first enabled transition of `state` or its ancestors (the inner `loop:` of `selectTransitions`) -/
def firstEnabled (c : Chart) (config : List Nat) (ev : Option String) : List Nat → XS → XS × Option Nat
  | [], x => (x, none)
  | s :: chain, x =>
    match scanState c config ev (st c s).trans x with
    | (x, some ti) => (x, some ti)
    | (x, none) => firstEnabled c config ev chain x

/-- `selectEventlessTransitions` (`ev = none`) / `selectTransitions(event)` -/
def selectTransitions (c : Chart) (s : SState) (ev : Option String) : SState × List Nat :=
  if s.q.transpilerSelect then
    let (x, sel) := (List.range c.trans.size).foldl (fun (acc : XS × List Nat) ti =>
      let t := tr c ti
      if t.isHistory || t.isInitial || !s.config.contains t.source then acc
      else
        let applicable := match ev, t.event with
          | none, none => true
          | some e, some d => nameMatch e d
          | _, _ => false
        if !applicable then acc
        else if acc.2.any (fun j => Model.Tables.conflicts c ti j) then acc
        else
          let (x, b) := evalCond c s.config acc.1 t.cond
          if b then (x, acc.2 ++ [ti]) else (x, acc.2)) (s.x, [])
    ({ s with x := x }, sel)
  else
  let atomics := (s.config.filter (isAtomicState c)).mergeSort (· ≤ ·)
  let (x, enabled) := atomics.foldl (fun (acc : XS × List Nat) a =>
    let (x, r) := firstEnabled c s.config ev (a :: getProperAncestors c a none) acc.1
    match r with
    | some ti => (x, addSet acc.2 ti)
    | none => (x, acc.2)) (s.x, [])
  let s := { s with x := x }
  (s, removeConflictingTransitions c s enabled)

structure Entry where
  statesToEnter : List Nat := []
  statesForDefaultEntry : List Nat := []
  defaultHistoryContent : List (Nat × Nat) := []     -- (parent state, history transition)
  deriving Inhabited

mutual
/-- `addDescendantStatesToEnter` -/
def addDescendantStatesToEnter (c : Chart) (sh : Bool) (hist : List (Nat × List Nat)) : Nat → Nat → Entry → Entry
  | 0, _, e => e
  | fuel + 1, state, e =>
    if isHistoryState c state then
      let parent := (st c state).parent.getD 0
      match histValue hist state with
      | some v =>
        if sh && (st c state).typ == .histDeep then
          -- quirk `sharedHistory`: the remembered states are entered as they are; only those left
          -- without a child are completed, and no ancestors are added
          let e := { e with statesToEnter := unionSet e.statesToEnter v }
          v.foldl (fun e s =>
            if isCompoundState c s then
              if (st c s).children.any (fun k => e.statesToEnter.contains k) then e
              else
                let e := { e with statesForDefaultEntry := addSet e.statesForDefaultEntry s }
                let tg := (initialOf c s).1
                let e := tg.foldl (fun e g => addDescendantStatesToEnter c sh hist fuel g e) e
                tg.foldl (fun e g => addAncestorStatesToEnter c sh hist fuel g (some s) e) e
            else if isParallelState c s then
              (getChildStates c s).foldl (fun e child =>
                if e.statesToEnter.any (fun k => k == child || isDescendant c k child) then e
                else addDescendantStatesToEnter c sh hist fuel child e) e
            else e) e
        else
          let e := v.foldl (fun e s => addDescendantStatesToEnter c sh hist fuel s e) e
          v.foldl (fun e s => addAncestorStatesToEnter c sh hist fuel s (some parent) e) e
      | none =>
        match (st c state).trans with
        | ti :: _ =>
          let e := { e with defaultHistoryContent := e.defaultHistoryContent ++ [(parent, ti)] }
          let tg := (tr c ti).targets
          let e := tg.foldl (fun e s => addDescendantStatesToEnter c sh hist fuel s e) e
          tg.foldl (fun e s => addAncestorStatesToEnter c sh hist fuel s (some parent) e) e
        | [] => e
    else
      let e := { e with statesToEnter := addSet e.statesToEnter state }
      if isCompoundState c state || (isSCXMLElement c state && (st c state).typ == .compound) then
        let e := { e with statesForDefaultEntry := addSet e.statesForDefaultEntry state }
        let tg := (initialOf c state).1
        let e := tg.foldl (fun e s => addDescendantStatesToEnter c sh hist fuel s e) e
        tg.foldl (fun e s => addAncestorStatesToEnter c sh hist fuel s (some state) e) e
      else if isParallelState c state then
        (getChildStates c state).foldl (fun e child =>
          if e.statesToEnter.any (fun s => s == child || isDescendant c s child) then e
          else addDescendantStatesToEnter c sh hist fuel child e) e
      else e

/-- `addAncestorStatesToEnter` -/
def addAncestorStatesToEnter (c : Chart) (sh : Bool) (hist : List (Nat × List Nat)) : Nat → Nat → Option Nat → Entry → Entry
  | 0, _, _, e => e
  | fuel + 1, state, ancestor, e =>
    (getProperAncestors c state ancestor).foldl (fun e anc =>
      let e := { e with statesToEnter := addSet e.statesToEnter anc }
      if isParallelState c anc then
        (getChildStates c anc).foldl (fun e child =>
          if e.statesToEnter.any (fun s => s == child || isDescendant c s child) then e
          else addDescendantStatesToEnter c sh hist fuel child e) e
      else e) e
end

/-- `computeEntrySet` -/
def computeEntrySet (c : Chart) (s : SState) (ts : List Nat) : Entry :=
  let fuel := 2 * c.states.size + 2
  ts.foldl (fun e ti =>
    let t := tr c ti
    let e := t.targets.foldl (fun e g => addDescendantStatesToEnter c s.q.sharedHistory s.hist fuel g e) e
    let ancestor := getTransitionDomain c s.q.histDomainRaw s.hist t
    (if s.q.sharedHistory then t.targets else getEffectiveTargetStates c s.hist t).foldl
      (fun e g => addAncestorStatesToEnter c s.q.sharedHistory s.hist fuel g ancestor e) e) {}

/-- `isInFinalState` -/
def isInFinalState (c : Chart) (config : List Nat) : Nat → Nat → Bool
  | 0, _ => false
  | fuel + 1, s =>
    if isCompoundState c s then
      (getChildStates c s).any (fun k => isFinalState c k && config.contains k)
    else if isParallelState c s then
      (getChildStates c s).all (isInFinalState c config fuel)
    else false

def sid (c : Chart) (s : Nat) : String := (st c s).id

def tname (c : Chart) (ti : Nat) : String :=
  let t := tr c ti
  let S := st c t.source
  if S.kind == .initial then s!"{sid c (S.parent.getD 0)}/i" else s!"{S.id}.{S.trans.idxOf ti}"

/-- `executeContent(transition)` bracketed by the taking-transition notifications -/
def executeTransition (c : Chart) (config : List Nat) (ti : Nat) (x : XS) : XS :=
  let t := tr c ti
  let x := x.emit (.bt (tname c ti))
  let x := if t.hasContent then execBlock c config t.content x else x
  x.emit (.at (tname c ti))

/-- `exitStates` -/
def exitStates (c : Chart) (s : SState) (ts : List Nat) : SState :=
  let statesToExit := (computeExitSet c s ts).mergeSort (· ≥ ·)
  -- record history
  let s :=
    if s.q.sharedHistory then
      let shared := (List.range c.states.size).foldl (fun sh h =>
        if isHistoryState c h && (match (st c h).parent with | some p => statesToExit.contains p | none => false) then
          (st c h).completion.foldl (fun sh k =>
            if s.config.contains k then addSet sh k else sh.filter (· != k)) sh
        else sh) s.shared
      let hist := (List.range c.states.size).filterMap (fun h =>
        if isHistoryState c h then
          let v := (st c h).completion.filter (fun k => shared.contains k)
          if v.isEmpty then none
          else some (h, v.filter (fun k => (st c k).kind.isProper))
        else none)
      { s with shared := shared, hist := hist }
    else
      let hist := statesToExit.foldl (fun hist k =>
        ((st c k).children.filter (isHistoryState c)).foldl (fun hist h =>
          let v := if (st c h).typ == .histDeep then
              s.config.filter (fun s0 => isAtomicState c s0 && isDescendant c s0 k)
            else s.config.filter (fun s0 => (st c s0).parent == some k)
          (h, v) :: hist.filter (·.1 != h)) hist) s.hist
      { s with hist := hist }
  statesToExit.foldl (fun s k =>
    let x := s.x.emit (.bx (sid c k))
    let x := execBlocks c s.config (st c k).onexit x
    let x := x.emit (.ax (sid c k))
    { s with config := s.config.filter (· != k), x := x }) s

/-- `enterStates` -/
def enterStates (c : Chart) (s : SState) (ts : List Nat) : SState :=
  let e := computeEntrySet c s ts
  (e.statesToEnter.mergeSort (· ≤ ·)).foldl (fun s k =>
    let x := s.x.emit (.be (sid c k))
    let config := (addSet s.config k).mergeSort (· ≤ ·)
    let x := execBlocks c config (st c k).onentry x
    let x := x.emit (.ae (sid c k))
    let x := if e.statesForDefaultEntry.contains k then
        match (initialOf c k).2 with
        | some ti => executeTransition c config ti x
        | none => x
      else x
    let x := (e.defaultHistoryContent.filter (·.1 == k)).foldl (fun x p => executeTransition c config p.2 x) x
    let s := { s with config := config, x := x }
    if isFinalState c k then
      match (st c k).parent with
      | some parent =>
        if isSCXMLElement c parent then { s with running := false }
        else
          let s := { s with x := s.x.raise ("done.state." ++ sid c parent) }
          match (st c parent).parent with
          | some grandparent =>
            if isParallelState c grandparent &&
                (getChildStates c grandparent).all (isInFinalState c s.config (c.states.size + 1)) then
              { s with x := s.x.raise ("done.state." ++ sid c grandparent) }
            else s
          | none => s
      | none => s
    else s) s

/-- `microstep` -/
def microstep (c : Chart) (s : SState) (ts : List Nat) : SState :=
  let s := exitStates c s ts
  let s := ts.foldl (fun s ti => { s with x := executeTransition c s.config ti s.x }) s
  enterStates c s ts

def cfgToken (c : Chart) (config : List Nat) : String :=
  "cfg:" ++ ",".intercalate (config.map (sid c))

/-- the inner loop of `mainEventLoop`: run to the end of the macrostep; `fuel` bounds the
number of microsteps (a chart may loop forever) -/
def macrostep (c : Chart) : Nat → SState → SState × Bool
  | 0, s => (s, false)
  | fuel + 1, s =>
    if !s.running then (s, true)
    else
      let (s, enabled) := selectTransitions c s none
      if !enabled.isEmpty then macrostep c fuel (microstep c s enabled)
      else
        match s.x.iq with
        | [] => (s, true)
        | ev :: rest =>
          let s := { s with x := { s.x with iq := rest } }
          let s := { s with x := s.x.emit (.bpe ev) }
          let (s, enabled) := selectTransitions c s (some ev)
          if !enabled.isEmpty then macrostep c fuel (microstep c s enabled) else macrostep c fuel s

/-- `exitInterpreter` (reported like the engines do: completion brackets, handlers only) -/
def exitInterpreter (c : Chart) (s : SState) : SState :=
  let x := s.x.emit .bcomp
  let x := (s.config.mergeSort (· ≥ ·)).foldl (fun x k => execBlocks c s.config (st c k).onexit x) x
  { s with x := x.emit .acomp }

/-- finish the current macrostep and report the stable configuration -/
def settle (c : Chart) (s : SState) : SState × Bool :=
  let (s, ok) := macrostep c 60 s
  if !ok then (s, false)
  else if !s.running then (exitInterpreter c s, true)
  else ({ s with x := (s.x.emit .st).emit (.note (cfgToken c s.config)) }, true)

/-- from a stable point: take external events until the external queue is empty -/
def drain (c : Chart) : Nat → SState → SState × Bool
  | 0, s => (s, false)
  | fuel + 1, s =>
    if !s.running then (s, true)
    else
      match s.x.eq with
      | [] => (s, true)
      | ev :: rest =>
        let s := { s with x := { s.x with eq := rest } }
        let s := { s with x := s.x.emit (.bpe ev) }
        let (s, enabled) := selectTransitions c s (some ev)
        let s := if !enabled.isEmpty then microstep c s enabled else s
        let (s, ok) := settle c s
        if !ok then (s, false) else drain c fuel s

/-- `interpret(doc)` followed by the given external events, one at a time -/
def run (c : Chart) (events : List String) (q : Quirks := {}) : List String :=
  -- enterStates([doc.initial.transition]): the root's initial transition
  let s : SState := { q := q }
  let rootT : Tr := { source := 0, targets := (st c 0).completion, targetless := false, internal := false,
                      event := none, cond := .none, hasContent := false, content := [],
                      isHistory := false, isInitial := true }
  let c' : Chart := { c with trans := c.trans.push rootT }
  let s := enterStates c' s [c.trans.size]
  let (s, ok) := settle c s
  let (s, ok) := if ok then drain c 40 s else (s, ok)
  let (s, ok) := events.foldl (fun (acc : SState × Bool) ev =>
    if !acc.2 || !acc.1.running then acc
    else drain c 40 { acc.1 with x := acc.1.x.sendExt ev }) (s, ok)
  ((if ok then s.x.obs else Tok.note "DIVERGE" :: s.x.obs).reverse).map Tok.toString

end UscxmlVerif.Spec.W3C
