import UscxmlVerif.Model.Tok
/-!
# Well-nestedness of monitor notifications (the oracle for C13)

A stack automaton over the observation tokens of the trace harness. Outside a micro-step
bracket only event processing, invocation, stable-configuration, completion, issue and
step() results may appear; inside a bracket the phases are exits, then transitions, then
entries; every `before` is closed by the matching `after`; executable content is reported
inside a state exit, a transition, a state entry or the completion bracket, properly nested.
-/
namespace UscxmlVerif.Spec.Nesting
open UscxmlVerif.Model

inductive Frame where
  | micro (phase : Nat)          -- 0 exits, 1 transitions, 2 entries
  | exitS (id : String)
  | enterS (id : String)
  | trans (id : String)
  | content (id : Nat)
  | completion
  | invoking (id : String)
  | uninvoking (id : String)
  | stable                       -- bottom of the stack: a stable-configuration notice was the last thing that happened
  deriving Repr, BEq, Inhabited

def splitTok (t : String) : String × String :=
  match t.splitOn ":" with
  | [a] => (a, "")
  | a :: rest => (a, ":".intercalate rest)
  | [] => ("", "")

/-- content elements without a `uvid` are reported by the harness as `?<element name>` -/
def contentId (v : String) : Nat :=
  match v.toNat? with
  | some n => n
  | none => 1000000 + v.foldl (fun h ch => h * 31 + ch.toNat) 7 % 1000000

/-- the harness spelling read back -/
def parseTok (t : String) : Tok :=
  let (k, v) := splitTok t
  match k with
  | "bpe" => .bpe v | "bm" => .bm | "am" => .am
  | "bx" => .bx v | "ax" => .ax v | "bt" => .bt v | "at" => .at v | "be" => .be v | "ae" => .ae v
  | "bc" => .bc (contentId v) | "ac" => .ac (contentId v)
  | "log" => .log v | "st" => .st | "bcomp" => .bcomp | "acomp" => .acomp | "issue" => .issue
  | "ret" => .ret v
  | "bi" => .raw t | "ai" => .raw t | "bu" => .raw t | "au" => .raw t
  | _ => .raw t

/-- `none` = violation at this token -/
def stepTok (stack : List Frame) : Tok → Option (List Frame)
  -- `step` may report IDLE only when a stable-configuration notice was the last thing that happened: every
  -- completed macrostep - also one an internal event from outside started - is followed by its notice
  | .ret v => if v == "IDLE" then (match stack with | [.stable] => some stack | _ => none) else some stack
  -- tokens that carry no nesting information
  | .log _ => some stack
  | .note _ => some stack
  | .raw s =>
    let (k, v) := splitTok s
    match k, stack with
    | "bi", [] => some [.invoking v]
    | "bi", [.stable] => some [.invoking v, .stable]
    | "ai", .invoking w :: rest => if v == w then some rest else none
    | "bu", [] => some [.uninvoking v]
    | "bu", [.stable] => some [.uninvoking v, .stable]
    | "bu", .completion :: rest => some (.uninvoking v :: .completion :: rest)
    | "bu", .exitS x :: rest => some (.uninvoking v :: .exitS x :: rest)
    | "au", .uninvoking w :: rest => if v == w then some rest else none
    | "bi", _ => none | "ai", _ => none | "bu", _ => none | "au", _ => none
    | _, _ => some stack          -- cfg:…, DIVERGE, cancel, reset, destroyed, state:…
  | .issue => match stack with | [] => some [] | [.stable] => some [.stable] | _ => none
  -- an event or a micro-step ends the quiet period after a stable-configuration notice; a second notice
  -- without either in between is a violation (exactly one notice per completed macrostep)
  | .bpe _ => match stack with | [] => some [] | [.stable] => some [] | _ => none
  | .st => match stack with | [] => some [.stable] | _ => none
  | .bm => match stack with | [] => some [.micro 0] | [.stable] => some [.micro 0] | _ => none
  | .am => match stack with | [.micro _] => some [] | _ => none
  | .bcomp => match stack with | [] => some [.completion] | [.stable] => some [.completion, .stable] | _ => none
  | .acomp => match stack with | .completion :: rest => some rest | _ => none
  -- exits
  | .bx v => match stack with | [.micro p] => if p == 0 then some [.exitS v, .micro 0] else none | _ => none
  | .ax v => match stack with | .exitS w :: rest => if v == w then some rest else none | _ => none
  -- transitions (those of <initial>/<history> are reported while entering their parent)
  | .bt v => match stack with | [.micro p] => if p ≤ 1 then some [.trans v, .micro 1] else some [.trans v, .micro p] | _ => none
  | .at v => match stack with | .trans w :: rest => if v == w then some rest else none | _ => none
  -- entries
  | .be v => match stack with | [.micro _] => some [.enterS v, .micro 2] | _ => none
  | .ae v => match stack with | .enterS w :: rest => if v == w then some rest else none | _ => none
  -- executable content: inside an exit, entry, transition, other content or the completion
  | .bc v =>
    match stack with
    | .exitS _ :: _ | .enterS _ :: _ | .trans _ :: _ | .content _ :: _ | .completion :: _ => some (.content v :: stack)
    | _ => none
  | .ac v => match stack with | .content w :: rest => if v == w then some rest else none | _ => none

/-- run the automaton over a chronological list of tokens -/
def runT : List Frame → List Tok → Option (List Frame)
  | stack, [] => some stack
  | stack, t :: rest => (stepTok stack t).bind (fun s => runT s rest)

/-- index of the first offending token, if any; the trace must end with an empty stack -/
def checkT : List Tok → List Frame → Nat → Option Nat
  | [], [], _ => none
  | [], [.stable], _ => none
  | [], _ :: _, i => some i
  | t :: rest, stack, i =>
    match stepTok stack t with
    | some stack' => checkT rest stack' (i + 1)
    | none => some i

def check (trace : List String) (stack : List Frame) (i : Nat) : Option Nat := checkT (trace.map parseTok) stack i

def wellNestedT (trace : List Tok) : Bool := (checkT trace [] 0).isNone
def wellNested (trace : List String) : Bool := wellNestedT (trace.map parseTok)

end UscxmlVerif.Spec.Nesting
