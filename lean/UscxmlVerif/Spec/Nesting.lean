/-!
# Well-nestedness of monitor notifications (the oracle for C13)

A stack automaton over the observation tokens of the trace harness. Outside a micro-step
bracket only event processing, invocation, stable-configuration, completion, issue and
step() results may appear; inside a bracket the phases are exits, then transitions, then
entries; every `before` is closed by the matching `after`; executable content is reported
inside a state exit, a transition, a state entry or the completion bracket, properly nested.
-/
namespace UscxmlVerif.Spec.Nesting

inductive Frame where
  | micro (phase : Nat)          -- 0 exits, 1 transitions, 2 entries
  | exitS (id : String)
  | enterS (id : String)
  | trans (id : String)
  | content (id : String)
  | completion
  | invoking (id : String)
  | uninvoking (id : String)
  deriving Repr, BEq, Inhabited

def splitTok (t : String) : String × String :=
  match t.splitOn ":" with
  | [a] => (a, "")
  | a :: rest => (a, ":".intercalate rest)
  | [] => ("", "")

/-- `none` = violation at this token -/
def stepTok (stack : List Frame) (t : String) : Option (List Frame) :=
  let (k, v) := splitTok t
  match k, stack with
  -- tokens that carry no nesting information
  | "ret", _ => some stack
  | "cfg", _ => some stack
  | "hist", _ => some stack
  | "log", _ => some stack
  | "issue", [] => some stack
  | "bpe", [] => some stack
  | "st", [] => some stack
  | "bm", [] => some [.micro 0]
  | "am", [.micro _] => some []
  | "bcomp", [] => some [.completion]
  | "acomp", [.completion] => some []
  | "bi", [] => some [.invoking v]
  | "ai", [.invoking w] => if v == w then some [] else none
  | "bu", [] => some [.uninvoking v]
  | "au", [.uninvoking w] => if v == w then some [] else none
  | "bu", [.completion] => some [.uninvoking v, .completion]
  | "au", [.uninvoking w, .completion] => if v == w then some [.completion] else none
  -- exits
  | "bx", [.micro p] => if p == 0 then some [.exitS v, .micro 0] else none
  | "ax", .exitS w :: rest => if v == w then some rest else none
  -- transitions (those of <initial>/<history> are reported while entering their parent)
  | "bt", [.micro p] => if p ≤ 1 then some [.trans v, .micro 1] else some [.trans v, .micro p]
  | "at", .trans w :: rest => if v == w then some rest else none
  -- entries
  | "be", [.micro _] => some [.enterS v, .micro 2]
  | "ae", .enterS w :: rest => if v == w then some rest else none
  -- executable content: inside an exit, entry, transition, other content or the completion
  | "bc", .exitS _ :: _ => some (.content v :: stack)
  | "bc", .enterS _ :: _ => some (.content v :: stack)
  | "bc", .trans _ :: _ => some (.content v :: stack)
  | "bc", .content _ :: _ => some (.content v :: stack)
  | "bc", .completion :: _ => some (.content v :: stack)
  | "ac", .content w :: rest => if v == w then some rest else none
  | _, _ => none

/-- index of the first offending token, if any; the trace must end with an empty stack -/
def check : List String → List Frame → Nat → Option Nat
  | [], [], _ => none
  | [], _ :: _, i => some i
  | t :: rest, stack, i =>
    match stepTok stack t with
    | some stack' => check rest stack' (i + 1)
    | none => some i

def wellNested (trace : List String) : Bool := (check trace [] 0).isNone

end UscxmlVerif.Spec.Nesting
