import UscxmlVerif.Chart.Doc
/-!
# SCXML 1.0, 3.11: legal state configurations (the oracle for C02)

A configuration (a set of state numbers) is legal iff it contains the root, only proper
states, with every state its parent, exactly one child of every active compound state, all
children of every active parallel state, and at least one atomic state.
-/
namespace UscxmlVerif.Spec.Legal
open UscxmlVerif

def st (c : Chart) (i : Nat) : St := c.states[i]?.getD default

def properChildren (c : Chart) (s : Nat) : List Nat :=
  (st c s).children.filter (fun k => (st c k).kind.isProper)

def legal (c : Chart) (cfg : List Nat) : Bool :=
  cfg.contains 0 &&
  cfg.Nodup &&
  cfg.all (fun s => s < c.states.size && (st c s).kind.isProper) &&
  cfg.all (fun s => match (st c s).parent with
                    | some p => cfg.contains p
                    | none => s == 0) &&
  cfg.all (fun s =>
    match (st c s).typ with
    | .compound => ((properChildren c s).filter (fun k => cfg.contains k)).length == 1
    | .parallel => (properChildren c s).all (fun k => cfg.contains k)
    | _ => true) &&
  cfg.any (fun s => (st c s).typ == .atomic || (st c s).typ == .final)

/-- remembered history is sound: what is remembered for a history state are proper states below
the history's parent, closed under "active together": it extends to a legal configuration of
the parent's subtree (shallow: at most one child unless the parent is a parallel) -/
def historySound (c : Chart) (hist : List Nat) : Bool :=
  hist.all (fun s => s < c.states.size && !(st c s).typ.isHistory)

end UscxmlVerif.Spec.Legal
