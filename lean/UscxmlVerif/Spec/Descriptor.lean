import UscxmlVerif.Common.Bytes
/-!
# SCXML 1.0, 3.12.1: event descriptors (the oracle for C12)

A descriptor list is a white-space separated list of descriptors; a descriptor matches an
event name iff it is `*`, or — after an optional trailing `.*` or `.` has been removed — its
`.`-separated tokens are a prefix of the name's tokens. Matching is case sensitive.
-/
namespace UscxmlVerif.Spec.Descriptor

def isSpace (b : UInt8) : Bool := b == 32 || (9 ≤ b && b ≤ 13)

/-- split at the bytes satisfying `p`, dropping empty pieces -/
def splitDrop (p : UInt8 → Bool) : Bytes → Bytes → List Bytes
  | [], cur => if cur.isEmpty then [] else [cur.reverse]
  | b :: bs, cur =>
    if p b then (if cur.isEmpty then splitDrop p bs [] else cur.reverse :: splitDrop p bs [])
    else splitDrop p bs (b :: cur)

def consHead (b : UInt8) : List Bytes → List Bytes
  | [] => [[b]]
  | t :: ts => (b :: t) :: ts

/-- split at `.` keeping empty pieces (so that `a..b` has an empty token) -/
def tokens : Bytes → List Bytes
  | [] => [[]]
  | b :: bs => if b == 46 then [] :: tokens bs else consHead b (tokens bs)

def descriptors (ds : Bytes) : List Bytes := splitDrop isSpace ds []

/-- remove one optional trailing `.*` or `.` -/
def stripSuffix (d : Bytes) : Bytes :=
  match d.reverse with
  | 42 :: 46 :: r => r.reverse
  | 46 :: r => r.reverse
  | _ => d

def descMatches (d n : Bytes) : Bool :=
  d == [42] || (tokens (stripSuffix d)).isPrefixOf (tokens n)

def listMatches (ds n : Bytes) : Bool := (descriptors ds).any (descMatches · n)

/-- legal event name / descriptor body: non-empty `.`-separated tokens without white space or `*` -/
def wfToken (t : Bytes) : Bool := !t.isEmpty && t.all (fun b => !isSpace b && b != 42 && b != 46 && b != 0)

def wfName (n : Bytes) : Bool := (tokens n).all wfToken

def wfDesc (d : Bytes) : Bool := d == [42] || wfName (stripSuffix d)

def wfDescList (ds : Bytes) : Bool :=
  !(descriptors ds).isEmpty && (descriptors ds).all wfDesc && ds.all (· != 0)

end UscxmlVerif.Spec.Descriptor
