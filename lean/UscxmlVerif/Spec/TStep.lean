import UscxmlVerif.Model.Tables
import UscxmlVerif.Model.Large
import UscxmlVerif.Spec.Legal
/-!
# The SCXML step as a function of (configuration, event, condition valuation)

For charts without history, without `<initial>` elements and without a datamodel (the
fragment of the VHDL back-end): conditions are opaque inputs, executable content has no
influence on the next configuration. Selection is the Recommendation's: transitions are
considered in the order of their source states' document order - which for nested states
means descendants first - and a transition is pre-empted by an already selected one it
conflicts with; "conflict" is the transpilers' relation (`Model.Tables.conflicts`).
-/
namespace UscxmlVerif.Spec.TStep
open UscxmlVerif UscxmlVerif.Model

def st (c : Chart) (i : Nat) : St := c.states[i]?.getD default
def tr (c : Chart) (i : Nat) : Tr := c.trans[i]?.getD default

/-- the kind of step: an eventless one, or the processing of an event -/
abbrev Ev := Option String

def enabled (c : Chart) (cfg : List Nat) (cv : Nat → Bool) (ev : Ev) (ti : Nat) : Bool :=
  let t := tr c ti
  cfg.contains t.source &&
  (if t.cond != .none then cv ti else true) &&
  (match ev, t.event with
   | none, none => true
   | some e, some d => Large.isMatched e d
   | _, _ => false)

/-- transitions in post-fix order; the first enabled one among conflicting ones wins -/
def select (c : Chart) (cfg : List Nat) (cv : Nat → Bool) (ev : Ev) : List Nat :=
  (List.range c.trans.size).foldl (fun sel ti =>
    if enabled c cfg cv ev ti && !sel.any (fun j => Tables.conflicts c ti j) then sel ++ [ti] else sel) []

def exitStates (c : Chart) (cfg : List Nat) (sel : List Nat) : List Nat :=
  cfg.filter (fun s => sel.any (fun ti => (Tables.exitSet c (tr c ti)).contains s))

/-- default entry below `s` (no history): compound -> its completion, parallel -> all children -/
def descend (c : Chart) : Nat → Nat → List Nat
  | 0, s => [s]
  | fuel + 1, s =>
    let S := st c s
    s :: (match S.typ with
      | .compound | .parallel => S.completion.flatMap (descend c fuel)
      | _ => [])

def ancestorsUpTo (c : Chart) (s : Nat) : List Nat := Tables.ancs c s

/-- states to enter: the targets, their ancestors, and the default completion of every entered
compound/parallel state of which no descendant is entered otherwise or stays active -/
def entryStates (c : Chart) (cfg : List Nat) (sel : List Nat) : List Nat :=
  let n := c.states.size
  let exitS := exitStates c cfg sel
  let remaining := cfg.filter (fun s => !exitS.contains s)
  let targets := sel.flatMap (fun ti => (tr c ti).targets)
  let base := (targets ++ targets.flatMap (ancestorsUpTo c)).eraseDups
  -- complete downwards, parents first
  let rec complete : Nat → List Nat → List Nat
    | 0, acc => acc
    | fuel + 1, acc =>
      let acc' := (List.range n).foldl (fun acc s =>
        if !acc.contains s then acc
        else
          let S := st c s
          match S.typ with
          | .parallel => S.children.foldl (fun acc ch => if acc.contains ch then acc else acc ++ [ch]) acc
          | .compound =>
            if S.children.any (fun ch => acc.contains ch || remaining.contains ch) then acc
            else S.completion.foldl (fun acc k =>
              (k :: ancestorsUpTo c k).foldl (fun acc a => if acc.contains a || !(Tables.isDescendant c a s || a == k) then acc else acc ++ [a]) acc) acc
          | _ => acc) acc
      if acc'.length == acc.length then acc else complete fuel acc'
  complete (n + 1) base

def sortNodup (l : List Nat) : List Nat := (List.range ((l.foldl max 0) + 1)).filter (fun s => l.contains s)

/-- the configuration after the micro-step -/
def next (c : Chart) (cfg : List Nat) (cv : Nat → Bool) (ev : Ev) : List Nat :=
  let sel := select c cfg cv ev
  let exitS := exitStates c cfg sel
  sortNodup ((cfg.filter (fun s => !exitS.contains s)) ++ entryStates c cfg sel)

/-- the initial configuration: default entry from the root -/
def initial (c : Chart) : List Nat := sortNodup (descend c (c.states.size + 1) 0)

end UscxmlVerif.Spec.TStep
