import UscxmlVerif.Chart.Doc
/-!
# Model of the structural tables the transpilers embed (`ChartToC::prepare`,
# `setStateCompletion`, `setHistoryCompletion`, `Predicates.cpp`)

All three back-ends (C, Promela, VHDL) work from the DOM annotated by `ChartToC::prepare`:
`documentOrder`, `parent`, `childBools`, `ancBools`, `completionBools`, and per transition
`postFixOrder`, `source`, `exitSetBools`, `conflictBools`, `targetBools`. The model computes the
same bit strings from the flat chart by the same walks (parents, not intervals).
-/
namespace UscxmlVerif.Model.Tables
open UscxmlVerif

def st (c : Chart) (i : Nat) : St := c.states[i]?.getD default
def tr (c : Chart) (i : Nat) : Tr := c.trans[i]?.getD default

def bits (n : Nat) (p : Nat → Bool) : String := String.ofList ((List.range n).map (fun j => if p j then '1' else '0'))

/-- proper ancestors, nearest first -/
def ancestors (c : Chart) : Nat → Nat → List Nat
  | 0, _ => []
  | fuel + 1, s =>
    match (st c s).parent with
    | some p => p :: ancestors c fuel p
    | none => []

def ancs (c : Chart) (s : Nat) : List Nat := ancestors c c.states.size s

/-- `DOMUtils::isDescendant(s1, s2)`: s2 is a proper ancestor of s1 -/
def isDescendant (c : Chart) (s1 s2 : Nat) : Bool := (ancs c s1).contains s2

def isHistory (c : Chart) (s : Nat) : Bool := (st c s).kind.isHistory
def isProper (c : Chart) (s : Nat) : Bool := (st c s).kind.isProper

/-- `isCompound`: a proper state that is no parallel and has proper child states -/
def isCompound (c : Chart) (s : Nat) : Bool :=
  isProper c s && (st c s).kind != .parallel && (st c s).children.any (isProper c)

def childBools (c : Chart) (i : Nat) : String := bits c.states.size (fun j => (st c j).parent == some i)
def ancBools (c : Chart) (i : Nat) : String := bits c.states.size (fun j => isDescendant c i j)

/-- post-order numbering of the state-like elements -/
def postOrder (c : Chart) : Nat → Nat → List Nat
  | 0, _ => []
  | fuel + 1, s => ((st c s).children.flatMap (postOrder c fuel)) ++ [s]

/-- `setHistoryCompletion`: histories in post-fix order; a history is not responsible for what the
histories of previously visited *other* parents already cover -/
def historyCompletions (c : Chart) : List (Nat × List Nat) :=
  let hs := (postOrder c (c.states.size + 1) 0).filter (isHistory c)
  let n := c.states.size
  let (res, _, _, _) := hs.foldl (fun (acc : List (Nat × List Nat) × List Nat × List Nat × Option Nat) h =>
    let (res, covered, perParent, parent) := acc
    let hp := (st c h).parent
    let (covered, perParent) := if parent != hp then (covered ++ perParent, []) else (covered, perParent)
    let deep := (st c h).kind == .hdeep
    let completion := (List.range n).filter (fun s =>
      s != h && !covered.contains s &&
        (if deep then (match hp with | some p => isDescendant c s p | none => false) && !isHistory c s
         else (st c s).parent == hp && !isHistory c s))
    (res ++ [(h, completion)], covered, perParent ++ completion, hp)) ([], [], [], none)
  res

def completionBools (c : Chart) (hc : List (Nat × List Nat)) (i : Nat) : String :=
  if isHistory c i then
    let comp := (hc.lookup i).getD []
    bits c.states.size (fun j => comp.contains j)
  else bits c.states.size (fun j => (st c i).completion.contains j)

/-- `getSourceState`: the parent element, or the grandparent for a transition inside `<initial>` -/
def sourceState (c : Chart) (t : Tr) : Nat :=
  if (st c t.source).kind == .initial then ((st c t.source).parent.getD 0) else t.source

/-- `getProperAncestors(s, NULL)`: walks up while the parent is a state, parallel or scxml element -/
def properAncestors (c : Chart) (s : Nat) : List Nat :=
  (ancs c s).takeWhile (fun a => (st c a).kind == .state || (st c a).kind == .parallel || (st c a).kind == .scxml)

/-- `findLCCA` -/
def findLCCA (c : Chart) (states : List Nat) : Option Nat :=
  match states with
  | [] => none
  | hd :: _ =>
    let as := properAncestors c hd
    match as.find? (fun a => isCompound c a && states.all (fun s => isDescendant c s a)) with
    | some a => some a
    | none => as.getLast?

/-- `getTransitionDomain` of Predicates.cpp -/
def transitionDomain (c : Chart) (t : Tr) : Option Nat :=
  if t.targets.isEmpty then none
  else
    let source := sourceState c t
    if t.internal && isCompound c source && t.targets.all (fun g => isDescendant c g source) then some source
    else findLCCA c (source :: t.targets)

/-- `getExitSet`: the state, parallel and final elements below the domain -/
def exitSet (c : Chart) (t : Tr) : List Nat :=
  if t.targetless then [] else
  match transitionDomain c t with
  | none => []
  | some d => (List.range c.states.size).filter (fun s => isDescendant c s d &&
      ((st c s).kind == .state || (st c s).kind == .parallel || (st c s).kind == .final))

def exitSetBools (c : Chart) (i : Nat) : String :=
  let e := exitSet c (tr c i)
  bits c.states.size (fun j => e.contains j)

def conflicts (c : Chart) (i j : Nat) : Bool :=
  let t1 := tr c i; let t2 := tr c j
  let s1 := sourceState c t1; let s2 := sourceState c t2
  (exitSet c t1).any (fun s => (exitSet c t2).contains s) || s1 == s2 || isDescendant c s1 s2 || isDescendant c s2 s1

def conflictBools (c : Chart) (i : Nat) : String := bits c.trans.size (conflicts c i)

def targetBools (c : Chart) (i : Nat) : String :=
  bits c.states.size (fun j => (st c j).id != "" && (tr c i).targets.contains j)

/-- the whole annotation as the harness prints it -/
def dump (c : Chart) : String :=
  let hc := historyCompletions c
  let ss := (List.range c.states.size).map (fun i =>
    let p := match (st c i).parent with | some p => toString p | none => "-"
    s!"S{i}:{(st c i).id}:{p}:{childBools c i}:{ancBools c i}:{completionBools c hc i}")
  let ts := (List.range c.trans.size).map (fun i =>
    let t := tr c i
    s!"T{i}:{t.source}:{exitSetBools c i}:{conflictBools c i}:{if t.targetless then "-" else targetBools c i}")
  " ".intercalate (ss ++ ts)

end UscxmlVerif.Model.Tables
