import UscxmlVerif.Chart.Doc
import UscxmlVerif.Model.Tok
/-!
# Model of `BasicContentExecutor::process` and the interpreter callbacks it uses

The part of the interpreter state that executable content can touch (`XS`): both queues, the
observation log (monitor notifications, log lines) and — read only — the configuration for
`In()`. A failing element enqueues its error event, reports `afterExecutingContent`, and
aborts the enclosing block; an enclosing `<if>` reports its own `afterExecutingContent` on the
way out (the C++ rethrows a plain `Event`).
-/
namespace UscxmlVerif.Model

/-- interpreter state visible to executable content -/
structure XS where
  iq : List String := []          -- internal queue (event names), front first
  eq : List String := []          -- external queue
  obs : List Tok := []            -- observations, newest first
  vars : List Int := [0, 0, 0, 0] -- Var0..Var3 (datamodels with variables)
  deriving Repr, Inhabited

def XS.emit (x : XS) (o : Tok) : XS := { x with obs := o :: x.obs }
def XS.raise (x : XS) (e : String) : XS := { x with iq := x.iq ++ [e] }
def XS.sendExt (x : XS) (e : String) : XS := { x with eq := x.eq ++ [e] }

/-- `InterpreterImpl::isTrue`: evaluation errors enqueue `error.execution` and yield false -/
def evalCond (c : Chart) (config : List Nat) (x : XS) : Cond → XS × Bool
  | .none => (x, true)
  | .inState id => (x, config.any (fun s => (c.states[s]?.map (·.id)) == some id && id != ""))
  | .notIn id => (x, !config.any (fun s => (c.states[s]?.map (·.id)) == some id && id != ""))
  | .never => (x, false)
  | .var v k => (x, x.vars.getD v 0 == k)
  | .err => (x.raise "error.execution", false)

mutual
/-- `process(element)` for one element; `false` = an error propagated (abort the block) -/
def exec (c : Chart) (config : List Nat) : Exec → XS → XS × Bool
  | .raise uv name, x => (((x.emit (.bc uv)).raise name).emit (.ac uv), true)
  | .log uv label, x => (((x.emit (.bc uv)).emit (.log label)).emit (.ac uv), true)
  | .send uv name target, x =>
    let x := x.emit (.bc uv)
    let x := if target == "#_internal" then x.raise name else x.sendExt name
    (x.emit (.ac uv), true)
  | .fail uv comm, x =>
    let x := x.emit (.bc uv)
    let x := x.raise (if comm then "error.communication" else "error.execution")
    (x.emit (.ac uv), false)
  | .assign uv v k, x =>
    let x := x.emit (.bc uv)
    let x := { x with vars := x.vars.set v k }
    (x.emit (.ac uv), true)
  | .incr uv v, x =>
    let x := x.emit (.bc uv)
    let x := { x with vars := x.vars.set v (x.vars.getD v 0 + 1) }
    (x.emit (.ac uv), true)
  | .ite uv cond children, x =>
    let x := x.emit (.bc uv)
    let (x, b) := evalCond c config x cond
    let (x, ok) := execIf c config children b x
    (x.emit (.ac uv), ok)
  | .elseif _, x => (x, true)
  | .else_, x => (x, true)

/-- the child loop of `processIf` with its `blockIsTrue` flag -/
def execIf (c : Chart) (config : List Nat) : List Exec → Bool → XS → XS × Bool
  | [], _, x => (x, true)
  | .elseif cond :: rest, blockIsTrue, x =>
    if blockIsTrue then (x, true)
    else
      let (x, b) := evalCond c config x cond
      execIf c config rest b x
  | .else_ :: rest, blockIsTrue, x =>
    if blockIsTrue then (x, true) else execIf c config rest true x
  | e :: rest, blockIsTrue, x =>
    if blockIsTrue then
      let (x, ok) := exec c config e x
      if ok then execIf c config rest blockIsTrue x else (x, false)
    else execIf c config rest blockIsTrue x
end

/-- one `<onentry>`/`<onexit>`/`<transition>` block: stop at the first failing element; the
micro-stepper's `catch (...)` swallows the error and goes on with the next block -/
def execBlock (c : Chart) (config : List Nat) : List Exec → XS → XS
  | [], x => x
  | e :: rest, x =>
    let (x, ok) := exec c config e x
    if ok then execBlock c config rest x else x

def execBlocks (c : Chart) (config : List Nat) (bs : List (List Exec)) (x : XS) : XS :=
  bs.foldl (fun x b => execBlock c config b x) x

end UscxmlVerif.Model
