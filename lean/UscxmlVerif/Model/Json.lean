import UscxmlVerif.Common.Bytes
/-!
# Model of `Data::toJSON`, `Data::fromJSON`, `jsonEscape`/`jsonUnescape` (messages/Data.cpp)
# and of the non-strict jsmn tokenizer (contrib/src/jsmn/jsmn.c)

`D` is the well-formed subset of `uscxml::Data` (exactly one of atom / array / compound in
use). Token and data-stack accesses of the tree builder are *checked*: an index outside the
allocated token array yields `.oob` instead of a default, so that "never reads out of
bounds" is a statement about this model.
-/
namespace UscxmlVerif.Model.Json

inductive AType where
  | verbatim | interpreted
  deriving Repr, BEq, DecidableEq, Inhabited

inductive D where
  | atom (t : AType) (s : Bytes)
  | arr (items : List D)
  | obj (keys : List Bytes) (vals : List D)      -- `std::map`: keys ascending and distinct
  deriving Repr, Inhabited

/-- `Data::jsonEscape` -/
def escByte (b : UInt8) : Bytes :=
  if b == 9 then [92, 116]        -- \t
  else if b == 8 then [92, 98]    -- \b
  else if b == 12 then [92, 102]  -- \f
  else if b == 10 then [92, 110]  -- \n
  else if b == 13 then [92, 114]  -- \r
  else if b == 34 then [92, 34]   -- \"
  else if b == 92 then [92, 92]   -- \\
  else [b]

def jsonEscape (s : Bytes) : Bytes := s.flatMap escByte

/-- what `jsonUnescape` appends for the character after a backslash -/
def unescByte (b : UInt8) : UInt8 :=
  if b == 98 then 8 else if b == 102 then 12 else if b == 110 then 10
  else if b == 114 then 13 else if b == 116 then 9 else b

/-- `Data::jsonUnescape` (the `escape` flag is the second argument) -/
def jsonUnescapeAux : Bytes → Bool → Bytes
  | [], _ => []
  | b :: rest, true => unescByte b :: jsonUnescapeAux rest false
  | b :: rest, false => if b == 92 then jsonUnescapeAux rest true else b :: jsonUnescapeAux rest false

def jsonUnescape (s : Bytes) : Bytes := jsonUnescapeAux s false

def spaces (n : Nat) : Bytes := List.replicate n 32

/-- `indent` for `_dataIndentation = ind` -/
def indentOf (ind : Nat) : Bytes := spaces (2 * (ind + 1))

mutual
/-- `Data::toJSON` with `_dataIndentation = ind` -/
def toJSON : D → Nat → Bytes
  | .atom .verbatim s, _ => [34] ++ jsonEscape s ++ [34]
  | .atom .interpreted s, _ => if s.isEmpty then [110, 117, 108, 108] else s
  | .arr items, ind =>
    if items.isEmpty then [110, 117, 108, 108]
    else [10] ++ indentOf ind ++ [91] ++ arrItems items ind true ++ [93]
  | .obj keys vals, ind =>
    if keys.isEmpty then [110, 117, 108, 108]
    else
      let longest := keys.foldl (fun m k => max m k.length) 0
      [123] ++ objItems keys vals ind longest true ++ [10] ++ indentOf ind ++ [125]

def arrItems : List D → Nat → Bool → Bytes
  | [], _, _ => []
  | d :: rest, ind, first => (if first then [] else [44, 32]) ++ toJSON d (ind + 1) ++ arrItems rest ind false

def objItems : List Bytes → List D → Nat → Nat → Bool → Bytes
  | k :: ks, v :: vs, ind, longest, first =>
    (if first then [] else [44, 32]) ++ [10] ++ indentOf ind ++ [32, 32, 34] ++ jsonEscape k ++ [34, 58, 32]
      ++ spaces (longest - k.length) ++ toJSON v (ind + 1) ++ objItems ks vs ind longest false
  | _, _, _, _, _ => []
end

/-! ## jsmn -/

inductive TType where
  | primitive | object | array | string
  deriving Repr, BEq, DecidableEq, Inhabited

structure Tok where
  type : TType := .primitive
  start : Int := 0
  stop : Int := 0            -- `end`
  size : Nat := 0
  deriving Repr, BEq, Inhabited

inductive JErr where
  | nomem | inval | part
  | key            -- fromJSON: an object or array where an object key is expected
  deriving Repr, BEq, DecidableEq, Inhabited

structure Parser where
  pos : Nat := 0
  toknext : Nat := 0
  toksuper : Option Nat := none
  toks : List Tok := []      -- the first `toknext` entries of the caller's array
  deriving Repr, Inhabited

/-- `js[i]` of a NUL-terminated C string -/
def at0 (js : Bytes) (i : Nat) : UInt8 := js.getD i 0

def setTok (toks : List Tok) (i : Nat) (f : Tok → Tok) : List Tok :=
  toks.mapIdx (fun j t => if j == i then f t else t)

/-- `tokens[toksuper].size++` -/
def bumpSuper (p : Parser) : Parser :=
  match p.toksuper with
  | some i => { p with toks := setTok p.toks i (fun t => { t with size := t.size + 1 }) }
  | none => p

/-- `jsmn_alloc_token` + `jsmn_fill_token` -/
def allocFill (p : Parser) (numTokens : Nat) (ty : TType) (start stop : Int) : Option Parser :=
  if p.toknext ≥ numTokens then none
  else some { p with toknext := p.toknext + 1, toks := p.toks ++ [{ type := ty, start := start, stop := stop, size := 0 }] }

def isPrimEnd (b : UInt8) : Bool :=
  b == 58 || b == 9 || b == 13 || b == 10 || b == 32 || b == 44 || b == 93 || b == 125

/-- the scanning loop of `jsmn_parse_primitive`: position of the terminator, or `none` = INVAL -/
def primScan (js : Bytes) : Nat → Nat → Option Nat
  | 0, pos => some pos
  | fuel + 1, pos =>
    let b := at0 js pos
    if b == 0 then some pos
    else if isPrimEnd b then some pos
    else if b < 32 || b ≥ 127 then none
    else primScan js fuel (pos + 1)

/-- the scanning loop of `jsmn_parse_string` from the character after the opening quote:
position of the closing quote, or the error -/
def strScan (js : Bytes) : Nat → Nat → Except JErr Nat
  | 0, _ => .error .part
  | fuel + 1, pos =>
    let b := at0 js pos
    if b == 0 then .error .part
    else if b == 34 then .ok pos
    else if b == 92 then
      let n := at0 js (pos + 1)
      if n == 34 || n == 47 || n == 92 || n == 98 || n == 102 || n == 114 || n == 110 || n == 116 || n == 117 then
        strScan js fuel (pos + 2)
      else .error .inval
    else strScan js fuel (pos + 1)

/-- index of the innermost token that is still open (`start != -1 && end == -1`), searching
downwards from `i` -/
def findOpen (toks : List Tok) : Nat → Option Nat
  | 0 => none
  | i + 1 =>
    match toks[i]? with
    | some t => if t.start != -1 && t.stop == -1 then some i else findOpen toks i
    | none => findOpen toks i

/-- the main loop of `jsmn_parse` -/
def parseLoop (js : Bytes) (numTokens : Nat) : Nat → Parser → Except JErr Parser
  | 0, p => .ok p
  | fuel + 1, p =>
    let c := at0 js p.pos
    if c == 0 then .ok p
    else if c == 123 || c == 91 then
      match allocFill p numTokens (if c == 123 then .object else .array) (Int.ofNat p.pos) (-1) with
      | none => .error .nomem
      | some p' =>
        -- `tokens[toksuper].size++` uses the old toksuper
        let p' := { p' with toks := (bumpSuper { p' with toksuper := p.toksuper }).toks }
        parseLoop js numTokens fuel { p' with toksuper := some (p'.toknext - 1), pos := p.pos + 1 }
    else if c == 125 || c == 93 then
      let ty := if c == 125 then TType.object else TType.array
      match findOpen p.toks p.toknext with
      | none => .error .inval
      | some i =>
        match p.toks[i]? with
        | some t =>
          if t.type != ty then .error .inval
          else
            let toks := setTok p.toks i (fun t => { t with stop := Int.ofNat p.pos + 1 })
            parseLoop js numTokens fuel { p with toks := toks, toksuper := findOpen toks i, pos := p.pos + 1 }
        | none => .error .inval
    else if c == 34 then
      match strScan js (js.length + 1) (p.pos + 1) with
      | .error e => .error e
      | .ok q =>
        match allocFill p numTokens .string (Int.ofNat p.pos + 1) (Int.ofNat q) with
        | none => .error .nomem
        | some p' => parseLoop js numTokens fuel { (bumpSuper p') with pos := q + 1 }
    else if c == 9 || c == 13 || c == 10 || c == 58 || c == 44 || c == 32 then
      parseLoop js numTokens fuel { p with pos := p.pos + 1 }
    else
      match primScan js (js.length + 1) p.pos with
      | none => .error .inval
      | some q =>
        match allocFill p numTokens .primitive (Int.ofNat p.pos) (Int.ofNat q) with
        | none => .error .nomem
        | some p' => parseLoop js numTokens fuel { (bumpSuper p') with pos := q }

/-- `jsmn_parse` on a fresh parser -/
def jsmnParse (js : Bytes) (numTokens : Nat) : Except JErr Parser :=
  match parseLoop js numTokens (js.length + 1) {} with
  | .error e => .error e
  | .ok p =>
    if (findOpen p.toks p.toknext).isSome then .error .part else .ok p

/-! ## `Data::fromJSON` -/

/-- `uscxml::Data` as the tree builder sees it: all three members present (`compound` as an
association list kept sorted by key, like `std::map`) -/
inductive Node where
  | mk (atom : Bytes) (vtype : AType) (arr : List Node) (keys : List Bytes) (vals : List Node)
  deriving Repr, Inhabited

namespace Node
def empty : Node := .mk [] .interpreted [] [] []
def atom : Node → Bytes | .mk a _ _ _ _ => a
def vtype : Node → AType | .mk _ t _ _ _ => t
def arr : Node → List Node | .mk _ _ l _ _ => l
def keys : Node → List Bytes | .mk _ _ _ k _ => k
def vals : Node → List Node | .mk _ _ _ _ v => v
end Node

/-- lexicographic `std::string::operator<` on bytes -/
def bytesLt : Bytes → Bytes → Bool
  | [], [] => false
  | [], _ :: _ => true
  | _ :: _, [] => false
  | a :: as, b :: bs => a < b || (a == b && bytesLt as bs)

inductive Step where
  | key (k : Bytes)       -- `&compound[k]`
  | last                  -- `&array.back()`
  deriving Repr, Inhabited

/-- apply `f` to the member of a sorted association list with key `k`, inserting a default first -/
def updKey (k : Bytes) (f : Node → Node) : List Bytes → List Node → List Bytes × List Node
  | k' :: ks, v :: vs =>
    if k == k' then (k' :: ks, f v :: vs)
    else if bytesLt k k' then (k :: k' :: ks, f Node.empty :: v :: vs)
    else
      let (ks', vs') := updKey k f ks vs
      (k' :: ks', v :: vs')
  | _, _ => ([k], [f Node.empty])

def updLast (f : Node → Node) : List Node → List Node
  | [] => []
  | [x] => [f x]
  | x :: rest => x :: updLast f rest

/-- apply `f` at the node a data-stack pointer refers to -/
def updateAt : List Step → (Node → Node) → Node → Node
  | [], f, n => f n
  | .key k :: path, f, .mk a t l ks vs =>
    let (ks', vs') := updKey k (updateAt path f) ks vs
    .mk a t l ks' vs'
  | .last :: path, f, .mk a t l ks vs => .mk a t (updLast (updateAt path f) l) ks vs

inductive JResult where
  | value (n : Node)
  | notJson                       -- returns an empty Data without an error
  | error (e : JErr)              -- throws ErrorEvent
  | oob                           -- the C++ would read outside the token array / use an empty stack
  deriving Repr, Inhabited

/-- `boost::trim_copy` with the classic locale -/
def isSpaceB (b : UInt8) : Bool := b == 32 || (9 ≤ b && b ≤ 13)
def trim (s : Bytes) : Bytes := ((s.dropWhile isSpaceB).reverse.dropWhile isSpaceB).reverse

/-- the token budget loop: `frac` = 8, 4, 2, 1 -/
def budgetParse (js : Bytes) : List Nat → Except JErr (Parser × Nat)
  | [] => .error .nomem
  | frac :: rest =>
    let n := js.length / frac
    match jsmnParse js n with
    | .error .nomem => if rest.isEmpty then .error .nomem else budgetParse js rest
    | .error e => .error e
    | .ok p => .ok (p, n)

/-- checked `t[i]` over the `numTokens + 1` zero-initialised entries that were allocated -/
def tokAt (p : Parser) (numTokens : Nat) (i : Nat) : Option Tok :=
  if i < p.toknext then p.toks[i]?
  else if i ≤ numTokens then some {}      -- memset: type PRIMITIVE, start = end = size = 0
  else none

def substr (js : Bytes) (start stop : Int) : Bytes :=
  (js.drop start.toNat).take (stop - start).toNat

structure BState where
  tree : Node := Node.empty
  dataStack : List (List Step) := [[]]      -- top first; each entry is a path from the root
  tokenStack : List Tok := []               -- top first
  currTok : Nat := 0

/-- pop token/data stacks while the next token starts after the container on top -/
def popWhile (stop : Int) : Nat → List Tok → List (List Step) → Option (List Tok × List (List Step))
  | 0, ts, ds => some (ts, ds)
  | fuel + 1, ts, ds =>
    match ts with
    | [] => none
    | top :: ts' =>
      if stop > top.stop then
        match ds with
        | [] => none
        | _ :: ds' => popWhile stop fuel ts' ds'
      else some (ts, ds)

/-- the `switch (t[currTok].type)` at the head of the loop body; `none` = `dataStack.back()` on an empty stack -/
def stepA (js : Bytes) (t : Tok) (b : BState) : Option BState :=
  match t.type with
  | .string | .primitive =>
    match b.dataStack with
    | [] => none
    | top :: ds =>
      let v := jsonUnescape (substr js t.start t.stop)
      let tree := updateAt top (fun n => .mk v (if t.type == .string then .verbatim else n.vtype) n.arr n.keys n.vals) b.tree
      some { b with tree := tree, dataStack := ds, currTok := b.currTok + 1 }
  | .object | .array => some { b with tokenStack := t :: b.tokenStack, currTok := b.currTok + 1 }

/-- the rest of the loop body, `t` being the next token: leave the containers that ended, then prepare the slot the
next token's value goes to; `none` = a `back()`/`pop_back()` on an empty stack -/
def stepB (js : Bytes) (t : Tok) (b : BState) : Option BState :=
  match popWhile t.stop (b.tokenStack.length + 1) b.tokenStack b.dataStack with
  | none => none
  | some (ts, ds) =>
    match ts, ds with
    | top :: _, dtop :: _ =>
      let b := { b with tokenStack := ts, dataStack := ds }
      let b :=
        if top.type == .object && !(t.type == .primitive || t.type == .string) then
          -- a container in key position: an alias of the enclosing object's slot
          { b with dataStack := dtop :: b.dataStack }
        else if top.type == .object then
          let k := jsonUnescape (substr js t.start t.stop)
          -- `compound[k]` default-inserts
          let tree := updateAt (dtop ++ [.key k]) id b.tree
          { b with tree := tree, dataStack := (dtop ++ [.key k]) :: b.dataStack, currTok := b.currTok + 1 }
        else b
      match b.tokenStack, b.dataStack with
      | top :: _, dtop :: _ =>
        if top.type == .array then
          let tree := updateAt dtop (fun n => .mk n.atom n.vtype (n.arr ++ [Node.empty]) n.keys n.vals) b.tree
          some { b with tree := tree, dataStack := (dtop ++ [.last]) :: b.dataStack }
        else some b
      | _, _ => none
    | _, _ => none

/-- the `do { … } while (true)` loop of `fromJSON` -/
def build (js : Bytes) (p : Parser) (numTokens : Nat) : Nat → BState → JResult
  | 0, _ => .oob
  | fuel + 1, b =>
    if b.currTok ≥ p.toknext then .value b.tree else
    match tokAt p numTokens b.currTok with
    | none => .oob
    | some t =>
      match stepA js t b with
      | none => .oob
      | some b =>
        if b.currTok ≥ p.toknext || b.tokenStack.isEmpty then .value b.tree else
        match tokAt p numTokens b.currTok with
        | none => .oob
        | some t =>
          match stepB js t b with
          | none => .oob
          | some b => build js p numTokens fuel b

/-- `Data::fromJSON` -/
def fromJSON (input : Bytes) : JResult :=
  let js := trim input
  if js.isEmpty then .notJson
  else if !(js.head? == some 123 || js.head? == some 91) then .notJson
  else
    match budgetParse js [8, 4, 2, 1] with
    | .error e => .error e
    | .ok (p, n) =>
      match p.toks.head? with
      | none => .notJson
      | some t0 =>
        if t0.stop != Int.ofNat js.length then .notJson
        else build js p n (2 * js.length + 4) {}

/-- embedding of well-formed values -/
def ofD : D → Node
  | .atom t s => .mk s t [] [] []
  | .arr items => .mk [] .interpreted (ofDs items) [] []
  | .obj keys vals => .mk [] .interpreted [] keys (ofDs vals)
where ofDs : List D → List Node
  | [] => []
  | d :: ds => ofD d :: ofDs ds

end UscxmlVerif.Model.Json
