import UscxmlVerif.Model.Large
/-!
# Model of `Interpreter::serialize` / `deserialize`

What a snapshot contains (`InterpreterImpl::serialize`, `LargeMicroStep::serialize`,
`FastMicroStep::serialize`): the micro-stepper's flags, configuration, invocations and history as
arrays of document-order numbers, the values of the declared data, the external queue. What it does
not contain: the internal queue (empty at the only points a snapshot may be taken: IDLE,
MACROSTEPPED, FINISHED), the cycle-detection set (cleared at every macrostep end), the observer's
log. `restore` is a fresh interpreter for the same document followed by `deserialize`: the
configuration is re-inserted element by element (which rebuilds `_configurationPostFix`).
The JSON text in between is C15's subject.
-/
namespace UscxmlVerif.Model.Serial
open UscxmlVerif UscxmlVerif.Model UscxmlVerif.Model.Large

structure Snapshot where
  pristine : Bool
  spontaneous : Bool
  stable : Bool
  topLevelFinal : Bool
  finished : Bool
  config : List Nat
  invocations : List Nat
  history : List Nat
  extQueue : List String
  vars : List Int
  deriving Repr, DecidableEq, Inhabited

def snapshot (e : EState) : Snapshot :=
  { pristine := e.pristine, spontaneous := e.spontaneous, stable := e.stable, topLevelFinal := e.topLevelFinal,
    finished := e.finished, config := e.config, invocations := e.invocations, history := e.history,
    extQueue := e.x.eq, vars := e.x.vars }

/-- `_configuration.insert` / `_configurationPostFix.insert` for every array element, in array order -/
def rebuildPF (c : Chart) (cfg : List Nat) : List Nat := cfg.foldl (fun l s => pfInsert c s l) []

def restore (c : Chart) (s : Snapshot) : EState :=
  { config := insAll s.config [], configPF := rebuildPF c s.config, history := insAll s.history [],
    invocations := insAll s.invocations [],
    pristine := s.pristine, spontaneous := s.spontaneous, stable := s.stable, topLevelFinal := s.topLevelFinal,
    finished := s.finished, cancelled := false, microConfigs := [],
    x := { iq := [], eq := s.extQueue, obs := [], vars := s.vars } }

/-- the post-fix view only matters for states with transitions: `flat_set` keys all others alike, and which
of them it happens to hold depends on the order of insertions and erasures -/
def hasTrans (c : Chart) (s : Nat) : Bool := !(st c s).trans.isEmpty

/-- strictly ascending -/
def sorted : List Nat → Bool
  | [] => true
  | [_] => true
  | a :: b :: rest => a < b && sorted (b :: rest)

/-- what the engines maintain and what a stable point guarantees -/
structure Snapshotable (c : Chart) (e : EState) : Prop where
  cfgSorted : sorted e.config = true
  histSorted : sorted e.history = true
  invSorted : sorted e.invocations = true
  pf : e.configPF.filter (hasTrans c) = (rebuildPF c e.config).filter (hasTrans c)
  iqEmpty : e.x.iq = []
  noCycleInfo : e.microConfigs = []
  notCancelled : e.cancelled = false

end UscxmlVerif.Model.Serial
