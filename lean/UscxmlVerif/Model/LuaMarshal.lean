import UscxmlVerif.Model.Json
/-!
# Model of the Lua datamodel's marshalling (`getDataAsLua`, `getLuaAsData` in LuaDataModel.cpp)

Lua values are abstracted to nil / boolean / integer / string / table. Integers are carried as
their canonical decimal text: that `strTo<long>` and `toStr(double)` are inverse on canonical
integers of at most 15 digits is part of the trusted base (libstdc++, liblua, LuaBridge).
INTERPRETED atoms that are neither numeric nor `true`/`false`/`nil` are *Lua source* the real
code evaluates; the model marks them `.code` (outside the unambiguous fragment).
-/
namespace UscxmlVerif.Model.LuaMarshal
open UscxmlVerif UscxmlVerif.Model.Json

inductive LKey where
  | int (n : Nat)          -- a positive integer index
  | str (s : Bytes)
  deriving Repr, BEq, DecidableEq, Inhabited

inductive LVal where
  | nil
  | bool (b : Bool)
  | num (dec : Bytes)      -- canonical decimal text of an integer
  | str (s : Bytes)
  | code (src : Bytes)     -- result of evaluating Lua source: not modelled
  | table (ks : List LKey) (vs : List LVal)
  deriving Repr, Inhabited

def isDigit (b : UInt8) : Bool := 48 ≤ b && b ≤ 57

/-- canonical positive integer: digits, no leading zero -/
def posCanon (s : Bytes) : Bool :=
  match s with
  | [] => false
  | b :: _ => s.all isDigit && b != 48

/-- canonical integer: `0`, or an optional minus followed by a canonical positive integer -/
def canonInt (s : Bytes) : Bool :=
  s == [48] || posCanon s || (match s with | 45 :: r => posCanon r | _ => false)

def decToNat (s : Bytes) : Nat := s.foldl (fun n b => n * 10 + (b.toNat - 48)) 0

/-- `isInteger(key, 10)`: only the characters `-0123456789` (the empty string passes) -/
def isIntegerStr (s : Bytes) : Bool := s.all (fun b => b == 45 || isDigit b)

/-- `strTo<long>(key) > 0` for a key that passed `isIntegerStr`: the leading digits, if the
text does not start with `-` -/
def leadingNat (s : Bytes) : Nat := decToNat (s.takeWhile isDigit)

/-- a map key that `getDataAsLua` turns into an integer index -/
def numKey (s : Bytes) : Bool := isIntegerStr s && leadingNat s > 0

def natToDec (n : Nat) : Bytes := (toString n).toUTF8.toList

def bTrue : Bytes := [116, 114, 117, 101]
def bFalse : Bytes := [102, 97, 108, 115, 101]
def bNil : Bytes := [110, 105, 108]

/-- the indices `append` assigns: `start + 1, start + 2, …` -/
def idxKeysN : Nat → Nat → List LKey
  | _, 0 => []
  | start, n + 1 => .int (start + 1) :: idxKeysN (start + 1) n

mutual
/-- `getDataAsLua` -/
def toLua : D → LVal
  | .atom .verbatim s => .str s
  | .atom .interpreted s =>
    if s.isEmpty then .nil
    else if canonInt s then .num s
    else if s == bTrue then .bool true
    else if s == bFalse then .bool false
    else if s == bNil then .nil
    else .code s
  | .arr items => if items.isEmpty then .nil else .table (idxKeysN 0 items.length) (toLuas items)
  | .obj keys vals =>
    if keys.isEmpty then .nil
    else .table (keys.map (fun k => if numKey k then .int (leadingNat k) else .str k)) (toLuas vals)
def toLuas : List D → List LVal
  | [] => []
  | d :: ds => toLua d :: toLuas ds
end

def keyStr : LKey → Bytes
  | .int n => natToDec n
  | .str s => s

def LKey.isInt : LKey → Bool
  | .int _ => true
  | .str _ => false

/-- `std::map::insert`: keeps the first value of an equivalent key -/
def insertKV (k : Bytes) (v : D) : List Bytes → List D → List Bytes × List D
  | k' :: ks, v' :: vs =>
    if k == k' then (k' :: ks, v' :: vs)
    else if bytesLt k k' then (k :: k' :: ks, v :: v' :: vs)
    else
      let (ks', vs') := insertKV k v ks vs
      (k' :: ks', v' :: vs')
  | _, _ => ([k], [v])

/-- insert into a list sorted by index, keeping the first value of an index -/
def insertIdx (n : Nat) (v : D) : List (Nat × D) → List (Nat × D)
  | [] => [(n, v)]
  | (m, w) :: rest =>
    if n == m then (m, w) :: rest
    else if n < m then (n, v) :: (m, w) :: rest
    else (m, w) :: insertIdx n v rest

def dNil : D := .atom .interpreted bNil

/-- the array branch: items in index order, gaps padded with `nil` -/
def buildArray : List (Nat × D) → Nat → List D
  | [], _ => []
  | (idx, v) :: rest, last =>
    List.replicate (idx - (last + 1)) dNil ++ v :: buildArray rest (max idx (last + 1))

/-- collecting an array item (`luaArrayItems.insert`) -/
def arrStep (acc : List (Nat × D)) (p : LKey × D) : List (Nat × D) :=
  match p.1 with
  | .int n => insertIdx n p.2 acc
  | .str _ => acc

/-- collecting a map item (`luaItems.insert`, keyed by the string form of the key) -/
def mapStep (acc : List Bytes × List D) (p : LKey × D) : List Bytes × List D :=
  insertKV (keyStr p.1) p.2 acc.1 acc.2

mutual
/-- `getLuaAsData` -/
def ofLua : LVal → D
  | .nil => dNil
  | .bool b => .atom .interpreted (if b then bTrue else bFalse)
  | .num s => .atom .interpreted s
  | .str s => .atom .verbatim s
  | .code s => .atom .interpreted s
  | .table ks vs =>
    let ds := ofLuas vs
    if ks.isEmpty then .atom .interpreted []
    else if ks.all LKey.isInt then
      .arr (buildArray ((ks.zip ds).foldl arrStep []) 0)
    else
      let r := (ks.zip ds).foldl mapStep ([], [])
      .obj r.1 r.2
def ofLuas : List LVal → List D
  | [] => []
  | v :: vs => ofLua v :: ofLuas vs
end

/-- names chart code may not assign -/
def protectedNames : List String := ["_sessionid", "_name", "_ioprocessors", "_invokers", "_event"]

end UscxmlVerif.Model.LuaMarshal
