/-!
# Observation tokens

What a monitor / logger sees, as data. `toString` is the spelling of the trace harness
(`bx:<id>`, `bc:<uvid>`, …); `Tok.parse` reads that spelling back (used to run the nesting
specification over traces of the compiled interpreter).
-/
namespace UscxmlVerif.Model

inductive Tok where
  | bpe (ev : String)          -- beforeProcessingEvent
  | bm | am                    -- before/afterMicroStep
  | bx (id : String) | ax (id : String)     -- before/afterExitingState
  | bt (name : String) | at (name : String) -- before/afterTakingTransition
  | be (id : String) | ae (id : String)     -- before/afterEnteringState
  | bc (uv : Nat) | ac (uv : Nat)           -- before/afterExecutingContent
  | log (label : String)
  | st                         -- onStableConfiguration
  | bcomp | acomp              -- before/afterCompletion
  | issue
  | ret (r : String)           -- result of step()
  | note (s : String)          -- harness-level remarks without nesting content: cfg:…, DIVERGE, cancel, reset, destroyed, state:…
  | raw (s : String)           -- anything else read from a trace of the compiled interpreter (bi:/ai:/bu:/au: …)
  deriving Repr, DecidableEq, Inhabited

def Tok.toString : Tok → String
  | .bpe ev => s!"bpe:{ev}"
  | .bm => "bm" | .am => "am"
  | .bx id => s!"bx:{id}" | .ax id => s!"ax:{id}"
  | .bt n => s!"bt:{n}" | .at n => s!"at:{n}"
  | .be id => s!"be:{id}" | .ae id => s!"ae:{id}"
  | .bc uv => s!"bc:{uv}" | .ac uv => s!"ac:{uv}"
  | .log l => s!"log:{l}"
  | .st => "st" | .bcomp => "bcomp" | .acomp => "acomp" | .issue => "issue"
  | .ret r => s!"ret:{r}"
  | .note s => s
  | .raw s => s

instance : ToString Tok := ⟨Tok.toString⟩

end UscxmlVerif.Model
