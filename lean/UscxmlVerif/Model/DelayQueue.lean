/-!
# Model of `BasicDelayedEventQueue`: who owns a delayed event, at the level of atomic steps

Actors: the timer thread (libevent runs `timerCallback` for one expired timer at a time)
and any number of cancellers (threads in `cancelDelayed` / `cancelAllDelayed` /
`enqueueDelayed`; `cancelAllDelayed` detaches every entry in one locked section). Every section of the C++ that runs under `_mutex`, and every libevent call,
is one atomic action; the actions of the two actors interleave arbitrarily.

An allocated `callbackData` is an `Entry`, identified by its index in `nodes` (its address).
`loc` says who may touch it:
* `inMap`       it is in `_callbackData`; its timer may be armed
* `timerOwned`  `timerCallback` found it in the map and erased the map entry: it delivers and frees
* `cancOwned`   `detach()` took it out of the map: `dispose()` deletes the timer and frees
* `freed`       `delete data` ran

Assumed of libevent (trusted base): a timer fires only when due, at most once per `event_add`;
callbacks of one base run one at a time; `event_del` called from another thread returns only when
the event's callback is not running.
-/
namespace UscxmlVerif.Model.DelayQueue

inductive Loc where
  | inMap | timerOwned | cancOwned | freed
  deriving Repr, DecidableEq, Inhabited

structure Entry where
  key : Nat                    -- the event's UUID
  due : Nat
  loc : Loc := .inMap
  armed : Bool := true         -- added to the event loop and neither fired nor deleted
  deliveries : Nat := 0        -- how often `eventReady` was called for it
  deliveredAt : Nat := 0
  cancelled : Bool := false    -- a `cancelDelayed` found it
  deriving Repr, DecidableEq, Inhabited

/-- where the timer thread is inside `timerCallback` -/
inductive Timer where
  | idle
  | entered (i : Nat)          -- libevent called the callback of entry `i`; `_mutex` not yet taken
  | owning (i : Nat)           -- found `i` in the map and erased the map entry
  | done (i : Nat)             -- `eventReady` returned
  deriving Repr, DecidableEq, Inhabited

structure DQ where
  now : Nat := 0
  nodes : List Entry := []
  timer : Timer := .idle
  canc : List Nat := []        -- entries that `detach()` / `cancelAllDelayed` took out of the map and nobody disposed of yet
  fault : Bool := false        -- a freed entry was used, or freed again
  deriving Repr, Inhabited

inductive Act where
  | tick                               -- time passes
  | enqueue (key due : Nat)            -- `enqueueDelayed` for a key that is not in the map
  | detach (key : Nat)                 -- `detach(key)` under `_mutex`
  | dispose (i : Nat)                  -- `dispose(data)`: `event_del`, `event_free`, `delete`
  | fire (i : Nat)                     -- libevent starts the callback of an expired timer
  | check                              -- the first locked section of `timerCallback`
  | deliver                            -- `eventReady`
  | free                               -- `event_free`, `delete data` at the end of the callback
  deriving Repr, DecidableEq, Inhabited

def DQ.get (s : DQ) (i : Nat) : Option Entry := s.nodes[i]?

def DQ.put (s : DQ) (i : Nat) (e : Entry) : DQ := { s with nodes := s.nodes.set i e }

/-- the entry the timer thread's callback is running for -/
def Timer.current : Timer → Option Nat
  | .idle => none
  | .entered i | .owning i | .done i => some i

/-- index of the map entry for `key` -/
def DQ.lookup (s : DQ) (key : Nat) : Option Nat :=
  (List.range s.nodes.length).find? (fun i => match s.nodes[i]? with
    | some e => e.loc == .inMap && e.key == key
    | none => false)

/-- one atomic action; `none`: the action is not enabled in this state -/
def step (s : DQ) : Act → Option DQ
  | .tick => some { s with now := s.now + 1 }
  | .enqueue key due =>
    match s.lookup key with
    | none => some { s with nodes := s.nodes ++ [{ key := key, due := due }] }
    | some _ => none
  | .detach key =>
    match s.lookup key with
    | some i =>
      match s.get i with
      | some e => some { (s.put i { e with loc := .cancOwned, cancelled := true }) with canc := i :: s.canc }
      | none => none
    | none => some s                                  -- nothing to cancel
  | .dispose i =>
    if !s.canc.contains i then none
    -- `event_del` does not return while the callback of this very event runs
    else if s.timer.current == some i then none
    else
      match s.get i with
      | some e =>
        if e.loc == .cancOwned then
          some { (s.put i { e with loc := .freed, armed := false }) with canc := s.canc.filter (· != i) }
        else some { s with fault := true }
      | none => some { s with fault := true }
  | .fire i =>
    match s.timer, s.get i with
    | .idle, some e =>
      if e.armed && e.due ≤ s.now then some { (s.put i { e with armed := false }) with timer := .entered i }
      else none
    | _, _ => none
  | .check =>
    match s.timer with
    | .entered i =>
      match s.get i with
      | some e =>
        match e.loc with
        | .inMap => some { (s.put i { e with loc := .timerOwned }) with timer := .owning i }
        | .cancOwned => some { s with timer := .idle }  -- cancelled on our way: return
        | .timerOwned => some { s with fault := true }
        | .freed => some { s with fault := true }       -- `data` dangles
      | none => some { s with fault := true }
    | _ => none
  | .deliver =>
    match s.timer with
    | .owning i =>
      match s.get i with
      | some e => some { (s.put i { e with deliveries := e.deliveries + 1, deliveredAt := s.now }) with timer := .done i }
      | none => some { s with fault := true }
    | _ => none
  | .free =>
    match s.timer with
    | .done i =>
      match s.get i with
      | some e =>
        if e.loc == .timerOwned then some { (s.put i { e with loc := .freed }) with timer := .idle }
        else some { s with fault := true }
      | none => some { s with fault := true }
    | _ => none

/-- run a schedule; `none` if some action was not enabled -/
def run (s : DQ) : List Act → Option DQ
  | [] => some s
  | a :: as => (step s a).bind (fun s' => run s' as)

/-! ## the protocol before the repair, for comparison

`cancelDelayed` held `_mutex` across `event_del`, and `timerCallback` took `_mutex` twice (to
free the timer first, to erase the map entry after delivering). Only what is needed to exhibit
the deadlock is modelled. -/
namespace Old

inductive TimerPc where
  | idle | wantLock1 | delivering | wantLock2
  deriving Repr, DecidableEq

inductive CancPc where
  | idle | holdingMutexInEventDel
  deriving Repr, DecidableEq

structure S where
  timer : TimerPc := .idle
  canc : CancPc := .idle
  mutexHeldByCanc : Bool := false
  deriving Repr, DecidableEq

inductive A where
  | fire | lock1 | deliver | lock2 | cancelBegin | cancelEnd
  deriving Repr, DecidableEq

def step (s : S) : A → Option S
  | .fire => if s.timer == .idle then some { s with timer := .wantLock1 } else none
  | .lock1 => if s.timer == .wantLock1 && !s.mutexHeldByCanc then some { s with timer := .delivering } else none
  | .deliver => if s.timer == .delivering then some { s with timer := .wantLock2 } else none
  | .lock2 => if s.timer == .wantLock2 && !s.mutexHeldByCanc then some { s with timer := .idle } else none
  | .cancelBegin => if s.canc == .idle then some { s with canc := .holdingMutexInEventDel, mutexHeldByCanc := true } else none
  -- `event_del` returns only when the callback is not running
  | .cancelEnd => if s.canc == .holdingMutexInEventDel && s.timer == .idle then some { s with canc := .idle, mutexHeldByCanc := false } else none

def run (s : S) : List A → Option S
  | [] => some s
  | a :: as => (step s a).bind (fun s' => run s' as)

def allActs : List A := [.fire, .lock1, .deliver, .lock2, .cancelBegin, .cancelEnd]

/-- both actors are in the middle of something and no action is enabled -/
def stuck (s : S) : Bool := s.timer != .idle && s.canc != .idle && allActs.all (fun a => (step s a).isNone)

end Old

end UscxmlVerif.Model.DelayQueue
