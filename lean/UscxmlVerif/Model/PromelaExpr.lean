/-!
# Model of the Promela datamodel's expression language
(plugins/datamodel/promela: `promela.l`, the compiled `promela.tab.cpp`, `PromelaDataModel::
evaluateExpr / setVariable / getVariable / dataToInt`)

* lexer for the expression sub-language (integer constants, `true`/`false`, names, operators,
  parentheses, `[ ]`, `.`);
* an operator-precedence parser driven by a *reduce-first matrix* — the matrix of the compiled
  LALR parser is probed on every run and written to `Generated/PromelaPrec.lean`; the matrix
  of Promela/C is `Spec` below;
* the evaluator as the C++ implements it (which operators have a case, operand order, the
  integer check of `dataToInt`, bounds checks) and the evaluator Promela/C defines.
-/
namespace UscxmlVerif.Model.Promela

inductive BinOp where
  | or | and | bitor | bitxor | bitand | eq | ne | gt | lt | ge | le
  | lshift | rshift | plus | minus | times | divide | modulo
  deriving Repr, DecidableEq, Inhabited

def BinOp.all : List BinOp :=
  [.or, .and, .bitor, .bitxor, .bitand, .eq, .ne, .gt, .lt, .ge, .le, .lshift, .rshift, .plus, .minus, .times, .divide, .modulo]

def BinOp.idx (o : BinOp) : Nat := (BinOp.all.idxOf o)

def BinOp.sym : BinOp → String
  | .or => "||" | .and => "&&" | .bitor => "|" | .bitxor => "^" | .bitand => "&" | .eq => "==" | .ne => "!="
  | .gt => ">" | .lt => "<" | .ge => ">=" | .le => "<=" | .lshift => "<<" | .rshift => ">>" | .plus => "+"
  | .minus => "-" | .times => "*" | .divide => "/" | .modulo => "%"

/-- node names as printed by `PromelaParserNode::typeToDesc` -/
def BinOp.desc : BinOp → String
  | .or => "OR" | .and => "AND" | .bitor => "BITOR" | .bitxor => "BITXOR" | .bitand => "BITAND" | .eq => "EQ" | .ne => "NE"
  | .gt => "GT" | .lt => "LT" | .ge => "GE" | .le => "LE" | .lshift => "LSHIFT" | .rshift => "RSHIFT" | .plus => "PLUS"
  | .minus => "MINUS" | .times => "TIMES" | .divide => "DIVIDE" | .modulo => "MODULO"

inductive PExpr where
  | const (n : Nat)
  | bool (b : Bool)
  | var (name : String)
  | arr (name : String) (idx : PExpr)
  | fld (name : String) (path : List String)
  | bin (op : BinOp) (l r : PExpr)
  | neg (e : PExpr)
  | uminus (e : PExpr)
  deriving Repr, BEq, Inhabited

/-- the AST dump format of `uvharness promela t:` -/
def PExpr.dump : PExpr → String
  | .const n => s!"(CONST:{n})"
  | .bool b => s!"(CONST:{if b then "true" else "false"})"
  | .var n => s!"(NAME:{n})"
  | .arr n i => s!"(VAR_ARRAY (NAME:{n}) {i.dump})"
  | .fld n p => s!"(CMPND (NAME:{n})" ++ String.join (p.map (fun f => s!" (NAME:{f})")) ++ ")"
  | .bin op l r => s!"({op.desc} {l.dump} {r.dump})"
  | .neg e => s!"(NEG {e.dump})"
  | .uminus e => s!"(MINUS {e.dump})"

/-! ## lexer -/

inductive Tok where
  | num (n : Nat) | tt | ff | name (s : String) | op (o : BinOp) | bang | lpar | rpar | lbr | rbr | dot
  deriving Repr, BEq, Inhabited

def isNameStart (c : Char) : Bool := c.isAlpha || c == '_'
def isNameChar (c : Char) : Bool := c.isAlphanum || c == '_'

def lexOps : List (List Char × Tok) := [
  ("||".toList, .op .or), ("&&".toList, .op .and), ("==".toList, .op .eq), ("!=".toList, .op .ne),
  (">=".toList, .op .ge), ("<=".toList, .op .le), ("<<".toList, .op .lshift), (">>".toList, .op .rshift),
  ("|".toList, .op .bitor), ("^".toList, .op .bitxor), ("&".toList, .op .bitand), (">".toList, .op .gt), ("<".toList, .op .lt),
  ("+".toList, .op .plus), ("-".toList, .op .minus), ("*".toList, .op .times), ("/".toList, .op .divide), ("%".toList, .op .modulo),
  ("!".toList, .bang), ("(".toList, .lpar), (")".toList, .rpar), ("[".toList, .lbr), ("]".toList, .rbr), (".".toList, .dot)]

def lex : Nat → List Char → Option (List Tok)
  | 0, _ => none
  | _, [] => some []
  | fuel + 1, c :: cs =>
    if c == ' ' || c == '\t' || c == '\n' then lex fuel cs
    else if c.isDigit then
      let ds := (c :: cs).takeWhile Char.isDigit
      let rest := (c :: cs).dropWhile Char.isDigit
      (lex fuel rest).map (fun ts => .num (ds.foldl (fun n d => n * 10 + (d.toNat - 48)) 0) :: ts)
    else if isNameStart c then
      let ns := (c :: cs).takeWhile isNameChar
      let rest := (c :: cs).dropWhile isNameChar
      let s := String.ofList ns
      (lex fuel rest).map (fun ts => (if s == "true" then Tok.tt else if s == "false" then Tok.ff else Tok.name s) :: ts)
    else
      match lexOps.find? (fun p => p.1.isPrefixOf (c :: cs)) with
      | some (p, t) => (lex fuel ((c :: cs).drop p.length)).map (t :: ·)
      | none => none

/-! ## operator-precedence parser -/

/-- what the parser needs to know about the grammar's precedence declarations -/
structure PrecTable where
  /-- `reduceFirst o1 o2`: in `a o1 b o2 c` the left operator is reduced first: `(a o1 b) o2 c` -/
  reduceFirst : BinOp → BinOp → Bool
  /-- in `- a o b` the unary minus is applied first: `(-a) o b` -/
  minusFirst : BinOp → Bool
  /-- in `! a o b` the negation is applied first: `(!a) o b` -/
  bangFirst : BinOp → Bool

/-- pending prefix operators and binary operators with their left operands -/
inductive Pending where
  | bin (l : PExpr) (op : BinOp)
  | minus
  | bang
  | paren
  deriving Inhabited

/-- apply everything on the stack that has to be reduced before the incoming operator (or all up
to the next parenthesis when `next = none`) -/
def reduceStack (T : PrecTable) (next : Option BinOp) : Nat → List Pending → PExpr → List Pending × PExpr
  | 0, st, e => (st, e)
  | fuel + 1, st, e =>
    match st with
    | .bin l op :: rest =>
      if (match next with | some o => T.reduceFirst op o | none => true) then reduceStack T next fuel rest (.bin op l e)
      else (st, e)
    | .minus :: rest =>
      if (match next with | some o => T.minusFirst o | none => true) then reduceStack T next fuel rest (.uminus e)
      else (st, e)
    | .bang :: rest =>
      if (match next with | some o => T.bangFirst o | none => true) then reduceStack T next fuel rest (.neg e)
      else (st, e)
    | _ => (st, e)

mutual
/-- expecting an operand -/
def parseOperand (T : PrecTable) : Nat → List Tok → List Pending → Option (PExpr × List Tok)
  | 0, _, _ => none
  | fuel + 1, toks, st =>
    match toks with
    | .num n :: rest => parseOperator T fuel rest st (.const n)
    | .tt :: rest => parseOperator T fuel rest st (.bool true)
    | .ff :: rest => parseOperator T fuel rest st (.bool false)
    | .name s :: .lbr :: rest =>
      -- index expression: a complete expression up to the closing bracket
      match parseOperand T fuel rest [.paren] with
      | some (i, .rbr :: rest') => parseOperator T fuel rest' st (.arr s i)
      | _ => none
    | .name s :: .dot :: rest =>
      let rec fields : Nat → List Tok → List String → List String × List Tok
        | 0, ts, acc => (acc, ts)
        | f + 1, .name x :: .dot :: ts, acc => fields f ts (acc ++ [x])
        | _, .name x :: ts, acc => (acc ++ [x], ts)
        | _, ts, acc => (acc, ts)
      let (p, rest') := fields fuel rest []
      if p.isEmpty then none else parseOperator T fuel rest' st (.fld s p)
    | .name s :: rest => parseOperator T fuel rest st (.var s)
    | .op .minus :: rest => parseOperand T fuel rest (.minus :: st)
    | .bang :: rest => parseOperand T fuel rest (.bang :: st)
    | .lpar :: rest =>
      match parseOperand T fuel rest [.paren] with
      | some (e, .rpar :: rest') => parseOperator T fuel rest' st e
      | _ => none
    | _ => none

/-- an operand has been read: expecting a binary operator or the end of this (sub)expression -/
def parseOperator (T : PrecTable) : Nat → List Tok → List Pending → PExpr → Option (PExpr × List Tok)
  | 0, _, _, _ => none
  | fuel + 1, toks, st, e =>
    match toks with
    | .op o :: rest =>
      let (st', e') := reduceStack T (some o) (st.length + 1) st e
      parseOperand T fuel rest (.bin e' o :: st')
    | _ =>
      let (st', e') := reduceStack T none (st.length + 1) st e
      match st' with
      | [.paren] => some (e', toks)
      | [] => some (e', toks)
      | _ => none
end

def parse (T : PrecTable) (s : String) : Option PExpr :=
  match lex (s.length + 1) s.toList with
  | none => none
  | some toks =>
    match parseOperand T (4 * toks.length + 4) toks [] with
    | some (e, []) => some e
    | _ => none

/-! ## precedence of Promela / C (the specification) -/

def specLevel : BinOp → Nat
  | .or => 1 | .and => 2 | .bitor => 3 | .bitxor => 4 | .bitand => 5 | .eq => 6 | .ne => 6
  | .gt => 7 | .lt => 7 | .ge => 7 | .le => 7 | .lshift => 8 | .rshift => 8 | .plus => 9 | .minus => 9
  | .times => 10 | .divide => 10 | .modulo => 10

/-- all binary operators are left associative; unary operators bind tighter than any binary one -/
def specTable : PrecTable where
  reduceFirst o1 o2 := specLevel o1 ≥ specLevel o2
  minusFirst _ := true
  bangFirst _ := true

/-! ## printing -/

/-- fully parenthesised -/
def printFull : PExpr → String
  | .const n => toString n
  | .bool b => if b then "true" else "false"
  | .var n => n
  | .arr n i => s!"{n}[{printFull i}]"
  | .fld n p => ".".intercalate (n :: p)
  | .bin op l r => s!"({printFull l} {op.sym} {printFull r})"
  | .neg e => s!"(!{printFull e})"
  | .uminus e => s!"(-{printFull e})"

/-- parentheses only where Promela/C precedence needs them (`ctx` = level the context requires) -/
def printMin : PExpr → Nat → String
  | .const n, _ => toString n
  | .bool b, _ => if b then "true" else "false"
  | .var n, _ => n
  | .arr n i, _ => s!"{n}[{printMin i 0}]"
  | .fld n p, _ => ".".intercalate (n :: p)
  | .bin op l r, ctx =>
    let lv := specLevel op
    let s := s!"{printMin l lv} {op.sym} {printMin r (lv + 1)}"
    if lv < ctx then s!"({s})" else s
  | .neg e, _ => s!"!{printMin e 11}"
  | .uminus e, _ =>
    let t := printMin e 11
    if t.startsWith "-" then s!"-({t})" else s!"-{t}"       -- `--x` would be the decrement token

/-! ## values and stores -/

inductive Val where
  | int (n : Int)
  | arr (l : List Int)
  | struct (fields : List (String × Int))
  deriving Repr, BEq, Inhabited

abbrev Store := List (String × Val)

inductive EvalErr where
  | undeclared | notInt | notArray | outOfBounds | divByZero | unsupported | isArray | noField
  | shiftRange     -- shift count outside 0..31
  | crash          -- the C++ terminates abnormally here (signal) instead of raising an error
  deriving Repr, BEq, DecidableEq, Inhabited

def lookup (σ : Store) (n : String) : Option Val := (σ.find? (·.1 == n)).map (·.2)

def b2i (b : Bool) : Int := if b then 1 else 0

/-- C `/` and `%`: truncation toward zero -/
def cdiv (a b : Int) : Int := Int.tdiv a b
def cmod (a b : Int) : Int := Int.tmod a b

/-- `<<`, `>>` on ints for counts in 0..31 (`>>` is arithmetic: floor division) -/
def shl (a b : Int) : Int := a * (2 : Int) ^ b.toNat
def shr (a b : Int) : Int := a / (2 : Int) ^ b.toNat

/-- Promela's `int`: 32 bit two's complement; arithmetic wraps around -/
def wrap32 (x : Int) : Int := (x + 2147483648) % 4294967296 - 2147483648

def inInt32 (x : Int) : Bool := -2147483648 ≤ x && x ≤ 2147483647

/-- which binary operators `evaluateExpr` has a case for -/
structure Impl where
  hasOp : BinOp → Bool
  hasUnaryMinus : Bool
  checksZeroDivisor : Bool
  checksNegativeIndex : Bool
  wrapsOverflow : Bool := true   -- false: signed overflow / out-of-range shifts are undefined behaviour in the C++

/-- the result of an arithmetic operation whose exact value is `v`: wrapped to 32 bits; an
implementation computing in `int` without care has undefined behaviour when `v` does not fit -/
def arith (impl : Impl) (v : Int) : Except EvalErr Int :=
  if impl.wrapsOverflow then .ok (wrap32 v) else if inInt32 v then .ok v else .error .crash

/-- the evaluator of the C++ (`impl` = what is implemented; both operands are always evaluated,
left first; `&&`/`||` short-circuit) -/
def evalModel (impl : Impl) (σ : Store) : PExpr → Except EvalErr Int
  | .const n => .ok n
  | .bool b => .ok (b2i b)
  | .var n =>
    match lookup σ n with
    | some (.int v) => .ok v
    | some _ => .error .notInt
    | none => .error .notInt          -- undeclared names read as the atom `false`, which is no integer
  | .arr n i => do
    let k ← evalModel impl σ i
    match lookup σ n with
    | none => .error .undeclared
    | some (.arr l) =>
      if k < 0 then (if impl.checksNegativeIndex then .error .outOfBounds else .error .crash)
      else if (l.length : Int) ≤ k then .error .outOfBounds
      else .ok (l.getD k.toNat 0)
    | some _ => .error .notArray
  | .fld n p =>
    match lookup σ n, p with
    | none, _ => .error .undeclared
    | some (.struct fs), [f] =>
      match fs.find? (·.1 == f) with
      | some (_, v) => .ok v
      | none => .error .noField
    | some _, _ => .error .noField
  | .bin op l r => do
    if !impl.hasOp op then
      -- operands are not evaluated: the `default:` branch throws
      .error .unsupported
    else if op == .and then
      let a ← evalModel impl σ l
      if a == 0 then .ok 0 else do
        let b ← evalModel impl σ r
        .ok (b2i (b != 0))
    else if op == .or then
      let a ← evalModel impl σ l
      if a != 0 then .ok 1 else do
        let b ← evalModel impl σ r
        .ok (b2i (b != 0))
    else
      let a ← evalModel impl σ l
      let b ← evalModel impl σ r
      match op with
      | .plus => arith impl (a + b) | .minus => arith impl (a - b) | .times => arith impl (a * b)
      | .divide => if b == 0 then (if impl.checksZeroDivisor then .error .divByZero else .error .crash) else arith impl (cdiv a b)
      | .modulo => if b == 0 then (if impl.checksZeroDivisor then .error .divByZero else .error .crash) else arith impl (cmod a b)
      | .lshift =>
        if b < 0 || b > 31 then (if impl.wrapsOverflow then .error .shiftRange else .error .crash)
        else .ok (wrap32 (shl a b))
      | .rshift =>
        if b < 0 || b > 31 then (if impl.wrapsOverflow then .error .shiftRange else .error .crash)
        else .ok (shr a b)
      | .lt => .ok (b2i (a < b)) | .le => .ok (b2i (a ≤ b)) | .gt => .ok (b2i (a > b)) | .ge => .ok (b2i (a ≥ b))
      | .eq => .ok (b2i (a == b)) | .ne => .ok (b2i (a != b))
      | .and => .ok (b2i (a != 0 && b != 0)) | .or => .ok (b2i (a != 0 || b != 0))
      | .bitand | .bitor | .bitxor => .error .unsupported   -- outside the operator set of the property
  | .neg e => do
    let a ← evalModel impl σ e
    .ok (b2i (a == 0))
  | .uminus e => do
    if !impl.hasUnaryMinus then .error .crash
    else
      let a ← evalModel impl σ e
      arith impl (-a)

/-- everything implemented, every fault reported: the evaluator Promela/C defines -/
def fullImpl : Impl := { hasOp := fun _ => true, hasUnaryMinus := true, checksZeroDivisor := true, checksNegativeIndex := true }

def evalSpec (σ : Store) (e : PExpr) : Except EvalErr Int := evalModel fullImpl σ e

/-- assignment: `name = v`, `name[i] = v`, `name.f = v` -/
def assign (impl : Impl) (σ : Store) (loc : PExpr) (v : Int) : Except EvalErr Store :=
  match loc with
  | .var n =>
    match lookup σ n with
    | none => .error .undeclared
    | some (.arr _) => .error .isArray
    | some _ => .ok (σ.map (fun p => if p.1 == n then (n, .int v) else p))
  | .arr n i => do
    match lookup σ n with
    | none => .error .undeclared
    | some (.arr l) =>
      let k ← evalModel impl σ i
      if k < 0 then (if impl.checksNegativeIndex then .error .outOfBounds else .error .crash)
      else if (l.length : Int) ≤ k then .error .outOfBounds
      else .ok (σ.map (fun p => if p.1 == n then (n, .arr (l.set k.toNat v)) else p))
    | some _ => .error .notArray
  | .fld n [f] =>
    match lookup σ n with
    | none => .error .undeclared
    | some (.arr _) => .error .isArray
    | some (.struct fs) =>
      .ok (σ.map (fun p => if p.1 == n then (n, .struct (if fs.any (·.1 == f) then fs.map (fun q => if q.1 == f then (f, v) else q) else fs ++ [(f, v)])) else p))
    | some (.int _) => .ok (σ.map (fun p => if p.1 == n then (n, .struct [(f, v)]) else p))
  | _ => .error .unsupported

end UscxmlVerif.Model.Promela
