/-!
# Model of the micro-steppers' invoke bookkeeping

What `LargeMicroStep::step` / `FastMicroStep::step` do with `_invocations`, driven by what happens to the
configuration: a state with `<invoke>` children is *invoked* at the end of a macrostep in which it is active
and not invoked yet; it is *uninvoked* when it is exited (also when it is re-entered in the same macrostep:
the old invocation ends, a new one starts at the macrostep's end) and when the interpreter finishes.

`Act` is what the rest of the engine does; `Out` is what the bookkeeping tells the invokers, in order.
States are numbered `0 … n-1` in document order; sets of states are predicates.
-/
namespace UscxmlVerif.Model.Invoke

inductive Act where
  | exit (s : Nat)            -- state `s` leaves the configuration (in a micro-step)
  | enter (s : Nat)           -- state `s` joins the configuration
  | macroEnd                  -- internal queue empty, no eventless transition: before taking an external event
  | finish                    -- top-level final state reached or cancelled: the finalising step
  deriving Repr, DecidableEq, Inhabited

inductive Out where
  | invoke (s : Nat)
  | uninvoke (s : Nat)
  deriving Repr, DecidableEq, Inhabited

structure S where
  config : Nat → Bool := fun _ => false
  invoked : Nat → Bool := fun _ => false
  out : List Out := []             -- oldest first

/-- `n`: number of states, `hasInvoke s`: the state has `<invoke>` children -/
def step (n : Nat) (hasInvoke : Nat → Bool) (st : S) : Act → S
  | .exit s =>
    { config := fun x => x != s && st.config x
      invoked := fun x => x != s && st.invoked x
      out := if st.invoked s then st.out ++ [.uninvoke s] else st.out }
  | .enter s => { st with config := fun x => x == s || st.config x }
  | .macroEnd =>
    let gone := (List.range n).filter (fun s => st.invoked s && !st.config s)
    let fresh := (List.range n).filter (fun s => st.config s && hasInvoke s && !st.invoked s)
    { config := st.config
      invoked := fun x => (st.invoked x && st.config x) || (x < n && st.config x && hasInvoke x)
      out := st.out ++ gone.map Out.uninvoke ++ fresh.map Out.invoke }
  | .finish =>
    -- all remaining states are exited, innermost (last in document order) first
    let inv := (List.range n).reverse.filter (fun s => st.invoked s)
    { config := fun _ => false, invoked := fun _ => false, out := st.out ++ inv.map Out.uninvoke }

def run (n : Nat) (hasInvoke : Nat → Bool) (acts : List Act) : S := acts.foldl (step n hasInvoke) {}

end UscxmlVerif.Model.Invoke
