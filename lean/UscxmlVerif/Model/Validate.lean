import UscxmlVerif.Chart.Doc
/-!
# Model of the structural (fatal) checks of `InterpreterIssue::forInterpreter`
# (src/uscxml/debug/InterpreterIssue.cpp) over raw, possibly invalid documents

The document is used as parsed (no `resortStates`). `fatalIssues` returns the classes of the
fatal issues in the order the validator's passes produce them; the correspondence suite
compares the multiset of classes. Content-model and attribute checks (warnings) and the
datamodel syntax checks are outside this model.
-/
namespace UscxmlVerif.Model.Validate
open UscxmlVerif

/-- pre-order list of (node, parent index) of the document as written -/
abbrev Nodes := List (Doc × Option Nat)

def nodeAt (ns : Nodes) (i : Nat) : Option Doc := ns[i]?.map (·.1)
def parentOf (ns : Nodes) (i : Nat) : Option Nat := (ns[i]?.map (·.2)).getD none
def kindAt (ns : Nodes) (i : Nat) : Kind := ((nodeAt ns i).map (·.kind)).getD .state
def idAt (ns : Nodes) (i : Nat) : String := ((nodeAt ns i).map (·.id)).getD ""

def isAnc (ns : Nodes) : Nat → Nat → Nat → Bool
  | 0, _, _ => false
  | fuel + 1, a, j =>
    match parentOf ns j with
    | some p => p == a || isAnc ns fuel a p
    | none => false

/-- `DOMUtils::isDescendant(s1, s2)` -/
def isDescendant (ns : Nodes) (s1 s2 : Nat) : Bool := isAnc ns ns.length s2 s1

/-- the elements of `nodeSets[...]` lists: indices with the given kinds, document order -/
def ofKinds (ns : Nodes) (ks : List Kind) : List Nat :=
  (List.range ns.length).filter (fun i => ks.contains (kindAt ns i))

/-- `allStates`: states, parallels, histories, finals (each list in document order) -/
def allStates (ns : Nodes) : List Nat :=
  ofKinds ns [.state] ++ ofKinds ns [.parallel] ++ ofKinds ns [.history, .hdeep] ++ ofKinds ns [.final]

/-- `getState(id, root)`: the first element with that id in breadth-first order over all
state-like children -/
def bfsOrder (ns : Nodes) : Nat → List Nat → List Nat
  | 0, _ => []
  | _, [] => []
  | fuel + 1, cur :: rest =>
    cur :: bfsOrder ns fuel (rest ++ (List.range ns.length).filter (fun j => parentOf ns j == some cur))

def getState (ns : Nodes) (id : String) : Option Nat :=
  (bfsOrder ns (ns.length + 1) [0]).find? (fun i => idAt ns i == id && id != "")

/-- descendants that are state, parallel, final or history elements (`childs` of the validator) -/
def stateDescendants (ns : Nodes) (s : Nat) : List Nat :=
  (List.range ns.length).filter (fun j => isDescendant ns j s && kindAt ns j != .initial && kindAt ns j != .scxml)

/-- `hasLegalCompletion`: the least common ancestor of the pair is a parallel -/
def parallelCommonAncestor (ns : Nodes) : Nat → Option Nat → Nat → Bool
  | 0, _, _ => false
  | _, none, _ => false
  | fuel + 1, some p, s2 =>
    if isDescendant ns s2 p then kindAt ns p == .parallel
    else parallelCommonAncestor ns fuel (parentOf ns p) s2

def pairLegal (ns : Nodes) (s1 s2 : Nat) : Bool :=
  isDescendant ns s1 s2 || isDescendant ns s2 s1 || parallelCommonAncestor ns (ns.length + 1) (parentOf ns s1) s2

def hasLegalCompletion (ns : Nodes) : List Nat → Bool
  | [] => true
  | s1 :: rest => rest.all (pairLegal ns s1) && hasLegalCompletion ns rest

mutual
/-- number of `<send>` elements with an unknown `type` (rendered from `Exec.fail _ false`) -/
def badSends : Exec → Nat
  | .fail _ comm => if comm then 0 else 1
  | .ite _ _ cs => badSendsL cs
  | _ => 0
def badSendsL : List Exec → Nat
  | [] => 0
  | e :: es => badSends e + badSendsL es
end

def badSendsBlocks (bs : List (List Exec)) : Nat := (bs.map badSendsL).foldl (· + ·) 0

structure Acc where
  issues : List String := []
  seen : List (String × Nat) := []     -- `seenStates`

def seenLookup (seen : List (String × Nat)) (id : String) : Option Nat := seen.lookup id

/-- the checks on a `<history>` element's transition (they only add issues) -/
def histIssues (ns : Nodes) (i : Nat) (d : Doc) (a : Acc) : Acc :=
  if d.kind.isHistory then
    if d.trans.length > 1 then { a with issues := a.issues ++ ["hist-multi"] }
    else match d.trans with
      | [] => { a with issues := a.issues ++ ["hist-none"] }
      | t :: _ =>
        let a := if t.cond != .none then { a with issues := a.issues ++ ["hist-cond"] } else a
        let a := if t.event.isSome then { a with issues := a.issues ++ ["hist-event"] } else a
        match t.targets with
        | none => { a with issues := a.issues ++ ["hist-notarget"] }
        | some ids =>
          let tg := ids.filterMap (getState ns)
          let par := parentOf ns i
          tg.foldl (fun a g =>
            let bad := if d.kind == .hdeep then !(match par with | some p => isDescendant ns g p | none => false)
                       else parentOf ns g != par
            if bad then { a with issues := a.issues ++ ["hist-target"] } else a) a
  else a

/-- one element of pass 1 -/
def stateStep (ns : Nodes) (a : Acc) (i : Nat) : Acc :=
  match nodeAt ns i with
  | none => a
  | some d =>
    if d.kind == .final && d.id == "" then a
    else if d.id == "" then a          -- informational since the fix (no id is legal)
    else
      let a := histIssues ns i d a
      if (seenLookup a.seen d.id).isSome then { a with issues := a.issues ++ ["dup"] }
      else { a with seen := a.seen ++ [(d.id, i)] }

/-- pass 1: ids, history transitions, duplicates -/
def statePass (ns : Nodes) : Acc := (allStates ns).foldl (stateStep ns) {}

def fatalIssues (d : Doc) : List String :=
  let ns : Nodes := d.preorder none 0
  let a := statePass ns
  let seen := a.seen
  let allIdx := List.range ns.length
  -- pass 2: transition targets exist
  let is2 := allIdx.flatMap (fun i => match nodeAt ns i with
    | some n => n.trans.flatMap (fun t => match t.targets with
        | none => []
        | some ids => (if ids.isEmpty then ["emptytarget"] else []) ++
            ids.filterMap (fun id => if (seenLookup seen id).isNone then some "badtarget" else none))
    | none => [])
  -- pass 3: initial attributes (all states, then the root)
  let withInit := allStates ns ++ [0]
  let is3 := withInit.flatMap (fun i => match nodeAt ns i with
    | some n => match n.initAttr with
        | some ids => ids.filterMap (fun id =>
            match seenLookup seen id with
            | none => some "init-bad"
            | some g => if (stateDescendants ns i).contains g then none else some "init-nonchild")
        | none => []
    | none => [])
  -- pass 4: target sets of transitions and of initial attributes (not the root's)
  let sets : List (List String) :=
    allIdx.flatMap (fun i => match nodeAt ns i with
      | some n => n.trans.filterMap (·.targets)
      | none => []) ++
    (allStates ns).filterMap (fun i => (nodeAt ns i).bind (·.initAttr))
  let is4 := sets.filterMap (fun ids =>
    if ids.all (fun id => (seenLookup seen id).isSome) then
      if hasLegalCompletion ns (ids.filterMap (seenLookup seen)) then none else some "illegal-targets"
    else none)
  -- pass 5: <initial> elements
  let inits := ofKinds ns [.initial]
  let is5a := inits.filterMap (fun i => match nodeAt ns i with
    | some n => if n.trans.length != 1 then some "initial-count" else none
    | none => none)
  let is5b := inits.flatMap (fun i => match nodeAt ns i with
    | some n => n.trans.flatMap (fun t =>
        (if t.cond != .none then ["initial-cond"] else []) ++ (if t.event.isSome then ["initial-event"] else []) ++
        (match parentOf ns i with
         | some st =>
           if (kindAt ns st).isProper then
             (t.targets.getD []).filterMap (fun id =>
               match seenLookup seen id with
               | some g => if (stateDescendants ns st).contains g then none else some "initial-nonchild"
               | none => some "initial-nonchild")
           else []
         | none => []))
    | none => [])
  -- pass 6: sends to unknown io processors
  let nbad := (allIdx.map (fun i => match nodeAt ns i with
    | some n => badSendsBlocks n.onentry + badSendsBlocks n.onexit + badSendsBlocks (n.trans.map (·.content))
    | none => 0)).foldl (· + ·) 0
  a.issues ++ is2 ++ is3 ++ is4 ++ is5a ++ is5b ++ List.replicate nbad "send-type"

end UscxmlVerif.Model.Validate
