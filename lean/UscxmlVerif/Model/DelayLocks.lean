import UscxmlVerif.Model.DelayQueue
/-!
# The delayed-event queue together with the interpreter's `_delayMutex`

`Model.DelayQueue` has one lock, the queue's `_mutex`: every section under it is one atomic action.
The interpreter thread reaches the queue through `InterpreterImpl::enqueue` and
`InterpreterImpl::cancelDelayed`, which hold a second lock, `_delayMutex`, for their whole duration,
and the timer thread's `eventReady` ends in `InterpreterImpl::deliver`, which takes `_delayMutex` too.
This layer adds that lock and the interpreter thread's program counter on top of the queue model
(the queue's state changes only through `DelayQueue.step`):

* the interpreter thread holds `_delayMutex` exactly while `ipc ≠ idle`;
* `deliver` (the timer thread: lock `_delayMutex`, hand the event over, unlock) is one atomic action that
  needs `_delayMutex` free;
* `holdM` is the variant in which the timer thread keeps `_mutex` from its ownership check until
  `eventReady` has returned (`variant = true`); in the code as it is the check is a section of its own
  (`variant = false`) and `holdM` is never set.

What `enqueueDelayed` does for a uuid that is still in the map (detach, dispose, then insert) is modelled too.
-/
namespace UscxmlVerif.Model.DelayLocks
open UscxmlVerif.Model.DelayQueue

/-- where the interpreter thread is inside `InterpreterImpl::enqueue` / `cancelDelayed` -/
inductive IPc where
  | idle
  | sending (key due : Nat)                 -- holds `_delayMutex`, about to call `enqueueDelayed`
  | sendDisposing (i key due : Nat)         -- `enqueueDelayed` detached an older entry of that uuid and is in `dispose`
  | cancelling (keys : List Nat)            -- the uuids with the given sendid that are still to be cancelled
  | disposing (i : Nat) (rest : List Nat)   -- `detach` found entry `i`: in `dispose` (`event_del` …)
  | finishing                               -- about to release `_delayMutex`
  deriving Repr, DecidableEq, Inhabited

structure LS where
  q : DQ := {}
  ipc : IPc := .idle
  holdM : Bool := false
  deriving Repr, Inhabited

inductive LAct where
  | tick | fire (i : Nat) | check | deliver | free
  | beginSend (key due : Nat) | doSend | beginCancel (keys : List Nat) | detachNext | disposeCur | finish
  deriving Repr, DecidableEq, Inhabited

def isOwning : Timer → Bool
  | .owning _ => true
  | _ => false

/-- one atomic action of the two threads; `none`: not enabled (the thread waits) -/
def step (variant : Bool) (s : LS) : LAct → Option LS
  | .tick => (DelayQueue.step s.q .tick).map (fun q' => { s with q := q' })
  | .fire i => (DelayQueue.step s.q (.fire i)).map (fun q' => { s with q := q' })
  | .check =>
    -- `_mutex` is free: the interpreter thread's sections under it are atomic, and the timer thread is the one asking
    (DelayQueue.step s.q .check).map (fun q' => { s with q := q', holdM := variant && isOwning q'.timer })
  | .deliver =>
    -- `InterpreterImpl::deliver` needs `_delayMutex`
    if s.ipc != .idle then none
    else (DelayQueue.step s.q .deliver).map (fun q' => { s with q := q', holdM := false })
  | .free => (DelayQueue.step s.q .free).map (fun q' => { s with q := q' })
  | .beginSend key due => if s.ipc == .idle then some { s with ipc := .sending key due } else none
  | .beginCancel keys => if s.ipc == .idle then some { s with ipc := .cancelling keys } else none
  | .doSend =>
    match s.ipc with
    | .sending key due =>
      if s.holdM then none                                  -- waits for `_mutex`
      else match s.q.lookup key with
        | some i => (DelayQueue.step s.q (.detach key)).map (fun q' => { s with q := q', ipc := .sendDisposing i key due })
        | none => (DelayQueue.step s.q (.enqueue key due)).map (fun q' => { s with q := q', ipc := .finishing })
    | _ => none
  | .detachNext =>
    match s.ipc with
    | .cancelling (key :: rest) =>
      if s.holdM then none
      else match s.q.lookup key with
        | some i => (DelayQueue.step s.q (.detach key)).map (fun q' => { s with q := q', ipc := .disposing i rest })
        | none => some { s with ipc := .cancelling rest }
    | _ => none
  | .disposeCur =>
    match s.ipc with
    | .disposing i rest => (DelayQueue.step s.q (.dispose i)).map (fun q' => { s with q := q', ipc := .cancelling rest })
    | .sendDisposing i key due => (DelayQueue.step s.q (.dispose i)).map (fun q' => { s with q := q', ipc := .sending key due })
    | _ => none
  | .finish =>
    match s.ipc with
    | .finishing => some { s with ipc := .idle }
    | .cancelling [] => some { s with ipc := .idle }
    | _ => none

def run (variant : Bool) (s : LS) : List LAct → Option LS
  | [] => some s
  | a :: as => (step variant s a).bind (fun s' => run variant s' as)

/-- the actions by which a thread that is in the middle of something moves on -/
def progress : List LAct := [.check, .deliver, .free, .doSend, .detachNext, .disposeCur, .finish]

/-- some thread is in the middle of its work and neither can move -/
def stuck (variant : Bool) (s : LS) : Bool :=
  (s.q.timer != .idle || s.ipc != .idle) && progress.all (fun a => (step variant s a).isNone)

end UscxmlVerif.Model.DelayLocks
