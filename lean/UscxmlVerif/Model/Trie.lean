import UscxmlVerif.Spec.Descriptor
/-!
# Model of the transpilers' event-name trie (`src/uscxml/transform/Trie.cpp`, separator ".")

`addWord` walks the `.`-separated, non-empty tokens of an event name (`getNextToken` skips
separators, so `a..b`, `.a.b` and `a.b.` all have the tokens `a`, `b`), creating nodes on the way, and
marks the last node with the word unless it is marked already. `getWordsWithPrefix` walks the tokens of
the prefix and collects the marked nodes below. The order of a node's children (`std::map`, by key)
only decides the order of the result, which the model does not reproduce: results are compared as sets.
-/
namespace UscxmlVerif.Model.Trie
open UscxmlVerif

mutual
inductive T where
  | node (word : Option Bytes) (kids : K)
inductive K where
  | nil
  | cons (key : Bytes) (t : T) (rest : K)
end

instance : Inhabited T := ⟨.node none .nil⟩

/-- the tokens `getNextToken` yields with separator "." -/
def toks (w : Bytes) : List Bytes := Spec.Descriptor.splitDrop (· == 46) w []

/-- a fresh path -/
def fresh : List Bytes → Bytes → T
  | [], w => .node (some w) .nil
  | t :: ts, w => .node none (.cons t (fresh ts w) .nil)

mutual
def ins : T → List Bytes → Bytes → T
  | .node wd ks, [], w => .node (match wd with | some v => some v | none => some w) ks
  | .node wd ks, t :: ts, w => .node wd (insK ks t ts w)
def insK : K → Bytes → List Bytes → Bytes → K
  | .nil, key, ts, w => .cons key (fresh ts w) .nil
  | .cons k t rest, key, ts, w => if key == k then .cons k (ins t ts w) rest else .cons k t (insK rest key ts w)
end

def empty : T := .node none .nil

/-- `Trie::addWord` -/
def addWord (t : T) (w : Bytes) : T := ins t (toks w) w

def build (ws : List Bytes) : T := ws.foldl addWord empty

mutual
/-- `getChildsWithWords` -/
def words : T → List Bytes
  | .node wd ks => wd.toList ++ wordsK ks
def wordsK : K → List Bytes
  | .nil => []
  | .cons _ t rest => words t ++ wordsK rest
end

mutual
/-- `getNodeWithPrefix` -/
def find : T → List Bytes → Option T
  | t, [] => some t
  | .node _ ks, q :: qs => findK ks q qs
def findK : K → Bytes → List Bytes → Option T
  | .nil, _, _ => none
  | .cons k t rest, q, qs => if q == k then find t qs else findK rest q qs
end

/-- `getWordsWithPrefix` (values of the nodes) -/
def query (t : T) (p : Bytes) : List Bytes :=
  match find t (toks p) with
  | some s => words s
  | none => []

def wordAt : T → Option Bytes
  | .node wd _ => wd

/-- the word stored at a token path -/
def lookup (t : T) (q : List Bytes) : Option Bytes := (find t q).bind wordAt

end UscxmlVerif.Model.Trie
